/-
Lemmas about the raw-`CTrait` reference machine of `Model.RefLedger.Raw`
(events `incref` / `decref` / `store`, checkpoints after each `decref`).
-/
import TraitsVerif.Model.RefLedger
namespace TraitsVerif.Lemmas.Raw
open TraitsVerif.Model.RefLedger.Raw

/-- Storing `v` into slot `i`: the slots that point to `o` lose the old content of the slot and gain `v`
(`≤`: an index beyond the array stores nothing). -/
theorem count_set_le (l : List (Option Nat)) (i : Nat) (v : Option Nat) (o : Nat) :
    ((l.set i v).count (some o) : Int) + (if l.getD i none = some o then 1 else 0)
      ≤ (l.count (some o) : Int) + (if v = some o then 1 else 0) := by
  by_cases h : i < l.length
  · have hget : l.getD i none = l[i] := by simp [List.getD, h]
    rw [List.count_set h, hget]
    by_cases h1 : l[i] = some o
    · have hpos : 0 < l.count (some o) := List.count_pos_iff.mpr (h1 ▸ List.getElem_mem h)
      by_cases h2 : v = some o <;> simp [h1, h2] <;> omega
    · by_cases h2 : v = some o <;> simp [h1, h2]
  · have hle : l.length ≤ i := Nat.le_of_not_lt h
    have hget : l.getD i none = none := by simp [List.getD, hle]
    rw [List.set_eq_of_length_le hle, hget]
    by_cases h2 : v = some o <;> simp [h2] <;> omega


@[simp] theorem run_nil (s : MS) : run [] s = s := rfl
@[simp] theorem run_cons (e : Ev) (es : List Ev) (s : MS) : run (e :: es) s = run es (ev s e) := rfl

theorem run_append (a b : List Ev) (s : MS) : run (a ++ b) s = run b (run a s) := by
  simp [run, List.foldl_append]

theorem checkpoints_append (a b : List Ev) (s : MS) :
    checkpoints (a ++ b) s = checkpoints a s ++ checkpoints b (run a s) := by
  induction a generalizing s with
  | nil => simp [checkpoints]
  | cons e es ih => cases e <;> simp [checkpoints, ih]

/-! ### `incs`, `stores`, `decs` -/

theorem incs_none (vs : List (Option Nat)) : incs (none :: vs) = incs vs := by simp [incs]
theorem incs_some (p : Nat) (vs : List (Option Nat)) : incs (some p :: vs) = .incref p :: incs vs := by
  simp [incs]
theorem decs_none (vs : List (Option Nat)) : decs (none :: vs) = decs vs := by simp [decs]
theorem decs_some (p : Nat) (vs : List (Option Nat)) : decs (some p :: vs) = .decref p :: decs vs := by
  simp [decs]

theorem run_incs (vs : List (Option Nat)) (s : MS) :
    (run (incs vs) s).ptr = s.ptr ∧ ∀ o, (run (incs vs) s).rc o = s.rc o + (vs.count (some o) : Int) := by
  induction vs generalizing s with
  | nil => simp [incs]
  | cons v vs ih =>
    cases v with
    | none => rw [incs_none]; simpa using ih s
    | some p =>
      rw [incs_some, run_cons]
      refine ⟨(ih _).1, fun o => ?_⟩
      rw [(ih _).2 o]
      by_cases h : o = p
      · subst h; simp [ev, bump]; omega
      · have h' : ¬ p = o := fun e => h e.symm
        simp [ev, bump, h, h']

theorem checkpoints_incs (vs : List (Option Nat)) (s : MS) : checkpoints (incs vs) s = [] := by
  induction vs generalizing s with
  | nil => simp [incs, checkpoints]
  | cons v vs ih =>
    cases v with
    | none => rw [incs_none]; exact ih s
    | some p => rw [incs_some]; simp [checkpoints, ih]

theorem run_decs (vs : List (Option Nat)) (s : MS) :
    (run (decs vs) s).ptr = s.ptr ∧ ∀ o, (run (decs vs) s).rc o = s.rc o - (vs.count (some o) : Int) := by
  induction vs generalizing s with
  | nil => simp [decs]
  | cons v vs ih =>
    cases v with
    | none => rw [decs_none]; simpa using ih s
    | some p =>
      rw [decs_some, run_cons]
      refine ⟨(ih _).1, fun o => ?_⟩
      rw [(ih _).2 o]
      by_cases h : o = p
      · subst h; simp [ev, bump]; omega
      · have h' : ¬ p = o := fun e => h e.symm
        simp [ev, bump, h, h']

/-- Releasing a list of references: if every pointer is backed at the end, it was at every step. -/
theorem checkpoints_decs (vs : List (Option Nat)) (s : MS) (h : (run (decs vs) s).Inv) :
    ∀ c ∈ checkpoints (decs vs) s, c.Inv := by
  induction vs generalizing s with
  | nil => simp [decs, checkpoints]
  | cons v vs ih =>
    cases v with
    | none => rw [decs_none] at h ⊢; exact ih s h
    | some p =>
      rw [decs_some] at h ⊢
      rw [run_cons] at h
      intro c hc
      simp only [checkpoints, List.mem_cons] at hc
      rcases hc with hc | hc
      · subst hc
        intro o
        have h1 := h o
        have h2 := (run_decs vs (ev s (.decref p))).2 o
        have h3 := (run_decs vs (ev s (.decref p))).1
        simp only [MS.held] at h1 ⊢
        rw [h3] at h1
        omega
      · exact ih _ h c hc

theorem run_stores (ws : List (Nat × Option Nat)) (s : MS) :
    (run (stores ws) s).rc = s.rc ∧
    ∀ o, ((run (stores ws) s).held o : Int) ≤ (s.held o : Int) + ((ws.map (·.2)).count (some o) : Int) := by
  induction ws generalizing s with
  | nil => simp [stores]
  | cons w ws ih =>
    obtain ⟨i, v⟩ := w
    have e : stores ((i, v) :: ws) = .store i v :: stores ws := by simp [stores]
    rw [e, run_cons]
    refine ⟨(ih _).1, fun o => ?_⟩
    have h1 := (ih (ev s (.store i v))).2 o
    have h2 := count_set_le s.ptr i v o
    simp only [MS.held, ev] at h1 ⊢
    simp only [List.map_cons, List.count_cons]
    by_cases h3 : v = some o
    · subst h3
      by_cases h4 : s.ptr.getD i none = some o <;> simp at h2 ⊢ <;> omega
    · have h3' : ¬ (v == some o) = true := by simpa using h3
      by_cases h4 : s.ptr.getD i none = some o <;> simp [h3] at h2 ⊢ <;> omega

theorem checkpoints_stores (ws : List (Nat × Option Nat)) (s : MS) : checkpoints (stores ws) s = [] := by
  induction ws generalizing s with
  | nil => simp [stores, checkpoints]
  | cons w ws ih =>
    have e : stores (w :: ws) = .store w.1 w.2 :: stores ws := by simp [stores]
    rw [e]; simp [checkpoints, ih]

/-! ### The entry points -/

/-- Stores followed by the INCREFs of what was stored (`_trait_set_property`, `trait_clone`): nothing is
released, and every pointer written is backed afterwards. -/
theorem safe_put (ws : List (Nat × Option Nat)) (s : MS) (h : s.Inv) :
    checkpoints (stores ws ++ incs (ws.map (·.2))) s = [] ∧ (run (stores ws ++ incs (ws.map (·.2))) s).Inv := by
  refine ⟨by simp [checkpoints_append, checkpoints_stores, checkpoints_incs], fun o => ?_⟩
  rw [run_append]
  have h1 := run_stores ws s
  have h2 := run_incs (ws.map (·.2)) (run (stores ws) s)
  have h3 := h o
  have h4 := h1.2 o
  simp only [MS.held] at h3 h4 ⊢
  rw [h2.1, h2.2 o, h1.1]
  omega


theorem safe_copy (dst src : List Nat) (s : MS) (h : s.Inv) : Safe (compile s (.copy dst src)) s := by
  have := safe_put (dst.zip (src.map s.at)) s h
  exact ⟨by simp [compile, this.1], by simpa [compile] using this.2⟩

theorem safe_put' (ws : List (Nat × Option Nat)) (s : MS) (h : s.Inv) : Safe (compile s (.put ws)) s := by
  have := safe_put ws s h
  exact ⟨by simp [compile, this.1], by simpa [compile] using this.2⟩

/-- `set_value`: INCREF new; store; XDECREF old. -/
theorem safe_set (i new : Nat) (s : MS) (h : s.Inv) : Safe (compile s (.set i new)) s := by
  have key : ∀ o, ((s.ptr.set i (some new)).count (some o) : Int) + (if s.at i = some o then 1 else 0)
      ≤ s.rc o + (if new = o then 1 else 0) := by
    intro o
    have h1 := count_set_le s.ptr i (some new) o
    have h2 := h o
    simp only [MS.held] at h2
    simp only [MS.at]
    by_cases h3 : new = o
    · subst h3; simp at h1 ⊢; omega
    · simp [h3] at h1 ⊢; omega
  cases hold : s.at i with
  | none =>
    refine ⟨by simp [compile, hold, decs, checkpoints], fun o => ?_⟩
    have k := key o
    simp only [compile, hold, decs, List.filterMap_cons, List.filterMap_nil, Option.map_none,
      List.append_nil, run_cons, run_nil, ev, MS.held, bump]
    by_cases h3 : new = o
    · subst h3; simp [hold] at k ⊢; omega
    · have h3' : ¬ o = new := fun e => h3 e.symm
      simp [hold, h3, h3'] at k ⊢; omega
  | some p =>
    have hfin : (run (compile s (.set i new)) s).Inv := by
      intro o
      have k := key o
      simp only [compile, hold, decs, List.filterMap_cons, List.filterMap_nil, Option.map_some,
        List.cons_append, List.nil_append, run_cons, run_nil, ev, MS.held, bump]
      by_cases h3 : new = o
      · subst h3
        by_cases h4 : p = new
        · subst h4; simp [hold] at k ⊢; omega
        · have h4' : ¬ new = p := fun e => h4 e.symm
          simp [hold, h4, h4'] at k ⊢; omega
      · have h3' : ¬ o = new := fun e => h3 e.symm
        by_cases h4 : p = o
        · subst h4; simp [hold, h3, h3'] at k ⊢; omega
        · have h4' : ¬ o = p := fun e => h4 e.symm
          simp [hold, h3, h3', h4, h4'] at k ⊢; omega
    refine ⟨?_, hfin⟩
    intro c hc
    have : c = run (compile s (.set i new)) s := by
      simp only [compile, hold, decs, List.filterMap_cons, List.filterMap_nil, Option.map_some,
        List.cons_append, List.nil_append, checkpoints, List.mem_singleton] at hc
      simp only [compile, hold, decs, List.filterMap_cons, List.filterMap_nil, Option.map_some,
        List.cons_append, List.nil_append, run_cons, run_nil]
      exact hc
    rw [this]; exact hfin


/-- `Py_CLEAR`: store NULL; DECREF old. -/
theorem safe_clear (i : Nat) (s : MS) (h : s.Inv) : Safe (compile s (.clear i)) s := by
  have key : ∀ o, ((s.ptr.set i none).count (some o) : Int) + (if s.at i = some o then 1 else 0) ≤ s.rc o := by
    intro o
    have h1 := count_set_le s.ptr i none o
    have h2 := h o
    simp only [MS.held] at h2
    simp only [MS.at]
    simp at h1 ⊢; omega
  cases hold : s.at i with
  | none =>
    refine ⟨by simp [compile, hold, decs, checkpoints], fun o => ?_⟩
    have k := key o
    simp only [compile, hold, decs, List.filterMap_cons, List.filterMap_nil, Option.map_none,
      List.append_nil, run_cons, run_nil, ev, MS.held]
    simp [hold] at k ⊢; omega
  | some p =>
    have hfin : (run (compile s (.clear i)) s).Inv := by
      intro o
      have k := key o
      simp only [compile, hold, decs, List.filterMap_cons, List.filterMap_nil, Option.map_some,
        List.cons_append, List.nil_append, run_cons, run_nil, ev, MS.held, bump]
      by_cases h4 : p = o
      · subst h4; simp [hold] at k ⊢; omega
      · have h4' : ¬ o = p := fun e => h4 e.symm
        simp [hold, h4, h4'] at k ⊢; omega
    refine ⟨?_, hfin⟩
    intro c hc
    have : c = run (compile s (.clear i)) s := by
      simp only [compile, hold, decs, List.filterMap_cons, List.filterMap_nil, Option.map_some,
        List.cons_append, List.nil_append, checkpoints, List.mem_singleton] at hc
      simp only [compile, hold, decs, List.filterMap_cons, List.filterMap_nil, Option.map_some,
        List.cons_append, List.nil_append, run_cons, run_nil]
      exact hc
    rw [this]; exact hfin

/-- Getters: new references, released by the caller. -/
theorem safe_read (is : List Nat) (s : MS) (h : s.Inv) : Safe (compile s (.read is)) s := by
  have hfin : (run (compile s (.read is)) s).Inv := by
    intro o
    have h1 := run_incs (is.map s.at) s
    have h2 := run_decs (is.map s.at) (run (incs (is.map s.at)) s)
    have h3 := h o
    simp only [compile, run_append, MS.held] at h3 ⊢
    rw [h2.1, h2.2 o, h1.1, h1.2 o]
    omega
  refine ⟨?_, hfin⟩
  simp only [compile, checkpoints_append, checkpoints_incs, List.nil_append]
  apply checkpoints_decs
  simpa [compile, run_append] using hfin

/-- `t.__setstate__(s.__getstate__())`. -/
theorem safe_restate (dst src : List Nat) (s : MS) (h : s.Inv) : Safe (compile s (.restate dst src)) s := by
  have hfin : (run (compile s (.restate dst src)) s).Inv := by
    intro o
    have h1 := run_incs (src.map s.at) s
    have h2 := run_stores (dst.zip (src.map s.at)) (run (incs (src.map s.at)) s)
    have h3 := run_incs ((dst.zip (src.map s.at)).map (·.2))
      (run (stores (dst.zip (src.map s.at))) (run (incs (src.map s.at)) s))
    have h4 := run_decs (src.map s.at) (run (incs ((dst.zip (src.map s.at)).map (·.2)))
      (run (stores (dst.zip (src.map s.at))) (run (incs (src.map s.at)) s)))
    have h5 := h o
    have h6 := h2.2 o
    simp only [compile, run_append, MS.held] at h5 h6 ⊢
    rw [h4.1, h4.2 o, h3.1, h3.2 o, h2.1, h1.2 o]
    rw [h1.1] at h6
    omega
  refine ⟨?_, hfin⟩
  simp only [compile, checkpoints_append, checkpoints_incs, checkpoints_stores, List.nil_append,
    List.append_nil]
  apply checkpoints_decs
  simpa [compile, run_append] using hfin

/-- A field set again from its own getter. -/
theorem safe_reset (i : Nat) (early : Bool) (s : MS) (h : s.Inv) : Safe (compile s (.reset i early)) s := by
  cases hold : s.at i with
  | none => exact ⟨by simp [compile, hold, checkpoints], by simpa [compile, hold] using h⟩
  | some p =>
    have key : ∀ o, ((s.ptr.set i (some p)).count (some o) : Int) ≤ s.rc o := by
      intro o
      have h1 := count_set_le s.ptr i (some p) o
      have h2 := h o
      simp only [MS.held] at h2
      simp only [MS.at] at hold
      rw [hold] at h1
      by_cases h3 : p = o
      · subst h3; simp at h1; omega
      · simp [h3] at h1; omega
    cases early with
    | true =>
      refine ⟨?_, ?_⟩
      · intro c hc
        simp only [compile, hold, if_true, checkpoints, List.mem_cons, List.not_mem_nil, or_false] at hc
        rcases hc with hc | hc <;> subst hc <;> intro o <;> have k := key o <;> have h2 := h o <;>
          simp only [ev, MS.held, bump] at h2 ⊢ <;>
          (by_cases h3 : o = p
           · subst h3; simp <;> omega
           · simp [h3] <;> omega)
      · intro o
        have k := key o
        simp only [compile, hold, if_true, run_cons, run_nil, ev, MS.held, bump]
        by_cases h3 : o = p
        · subst h3; simp <;> omega
        · simp [h3] <;> omega
    | false =>
      refine ⟨?_, ?_⟩
      · intro c hc
        simp only [compile, hold, Bool.false_eq_true, if_false, checkpoints, List.mem_cons, List.not_mem_nil,
          or_false] at hc
        rcases hc with hc | hc <;> subst hc <;> intro o <;> have k := key o <;>
          simp only [ev, MS.held, bump] <;>
          (by_cases h3 : o = p
           · subst h3; simp <;> omega
           · simp [h3] <;> omega)
      · intro o
        have k := key o
        simp only [compile, hold, Bool.false_eq_true, if_false, run_cons, run_nil, ev, MS.held, bump]
        by_cases h3 : o = p
        · subst h3; simp <;> omega
        · simp [h3] <;> omega

/-- `_trait_set_validate` releases the old validator while the field still points to it: safe only when there
is nothing to release, when the new validator IS the old one, or when someone else keeps the old one alive. -/
theorem safe_setEarly (i new : Nat) (s : MS) (h : s.Inv)
    (hx : s.at i = none ∨ s.at i = some new ∨ ∃ p, s.at i = some p ∧ (s.held p : Int) < s.rc p) :
    Safe (compile s (.setEarly i new)) s := by
  have hset := safe_set i new s h
  have hrun : run (compile s (.setEarly i new)) s = run (compile s (.set i new)) s := by
    cases hold : s.at i with
    | none => simp [compile, hold, decs]
    | some p =>
      simp only [compile, hold, decs, List.filterMap_cons, List.filterMap_nil, Option.map_some,
        List.cons_append, List.nil_append, run_cons, run_nil, ev]
  refine ⟨?_, by rw [hrun]; exact hset.2⟩
  cases hold : s.at i with
  | none => simp [compile, hold, decs, checkpoints]
  | some p =>
    intro c hc
    simp only [compile, hold, decs, List.filterMap_cons, List.filterMap_nil, Option.map_some,
      List.cons_append, List.nil_append, checkpoints, List.mem_singleton] at hc
    subst hc
    intro o
    have h2 := h o
    simp only [ev, MS.held, bump] at h2 ⊢
    rcases hx with hx | hx | ⟨q, hq, hlt⟩
    · rw [hold] at hx; cases hx
    · rw [hold] at hx
      have : p = new := by injection hx
      subst this
      by_cases h3 : o = p
      · subst h3; simp <;> omega
      · simp [h3] <;> omega
    · rw [hold] at hq
      have : p = q := by injection hq
      subst this
      simp only [MS.held] at hlt
      by_cases h3 : o = p
      · subst h3
        by_cases h4 : o = new
        · subst h4; simp <;> omega
        · simp [h4] <;> omega
      · by_cases h4 : o = new
        · subst h4; simp [h3] <;> omega
        · simp [h3, h4] <;> omega

/-- The state of the counterexample: one slot pointing to object 1, which has that one reference. -/
def soleValidator : MS := { ptr := [some 1], rc := fun o => if o = 1 then 1 else 0 }

theorem soleValidator_inv : soleValidator.Inv := by
  intro o
  by_cases h : o = 1
  · subst h; simp [soleValidator, MS.held]
  · have h' : ¬ (1 : Nat) = o := fun e => h e.symm
    simp [soleValidator, MS.held, h, h']

theorem setEarly_unsafe : ¬ Safe (compile soleValidator (.setEarly 0 2)) soleValidator := by
  intro hs
  have := hs.1 (ev (ev soleValidator (.incref 2)) (.decref 1)) (by
    simp [compile, soleValidator, MS.at, decs, checkpoints])
  have h1 := this 1
  simp [ev, bump, soleValidator, MS.held] at h1

end TraitsVerif.Lemmas.Raw
