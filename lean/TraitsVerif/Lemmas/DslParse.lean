/-
C15 — the recursive-descent parser `run` / `parseToks` is sound and complete
for the derivation trees (`Cst` with `shape`), with explicit fuel bounds.
Helper lemmas for Props/C15.lean.  Core Lean only.
-/
import TraitsVerif.Model.DslParse
namespace TraitsVerif.Model.Dsl

def headConn : List Tok → Bool | .conn _ :: _ => true | _ => false
def headComma : List Tok → Bool | .comma :: _ => true | _ => false
def headStar : List Tok → Bool | .star :: _ => true | _ => false

theorem run_elem_name (f n r) : run (f+1) .elem (.name n :: r) = some (.trait n, r) := rfl
theorem run_elem_items (f r) : run (f+1) .elem (.items :: r) = some (.items, r) := rfl
theorem run_elem_meta (f n r) : run (f+1) .elem (.plus :: .name n :: r) = some (.metadata n, r) := rfl
theorem run_elem_lb (f r) : run (f+1) .elem (.lb :: r) =
    match run f (.par false) r with
    | some (p, .rb :: r') => some (.group p, r')
    | _ => none := rfl
theorem run_ser_star (f r) : run (f+1) (.ser true) (.star :: r) = some (.any, r) := rfl
theorem run_ser (f t ts) (h : headStar ts = false) : run (f+1) (.ser t) ts =
    match run f .elem ts with
    | some (e, r) => run f (.serLoop t e) r
    | none => none := by
  cases t <;> cases ts with
  | nil => rfl
  | cons a r => cases a <;> first | rfl | simp [headStar] at h
theorem run_serLoop_star (f acc c r) :
    run (f+1) (.serLoop true acc) (.conn c :: .star :: r) = some (.ser acc c .any, r) := rfl
theorem run_serLoop_conn (f t acc c r) (h : headStar r = false) :
    run (f+1) (.serLoop t acc) (.conn c :: r) =
    match run f .elem r with
    | some (e, r') => run f (.serLoop t (.ser acc c e)) r'
    | none => none := by
  cases t <;> cases r with
  | nil => rfl
  | cons a r => cases a <;> first | rfl | simp [headStar] at h
theorem run_serLoop_stop (f t acc ts) (h : headConn ts = false) :
    run (f+1) (.serLoop t acc) ts = some (acc, ts) := by
  cases ts with
  | nil => rfl
  | cons a r => cases a <;> first | rfl | simp [headConn] at h
theorem run_par (f t ts) : run (f+1) (.par t) ts =
    match run f (.ser t) ts with
    | some (s, r) => run f (.parLoop t s) r
    | none => none := rfl
theorem run_parLoop_comma (f t acc r) : run (f+1) (.parLoop t acc) (.comma :: r) =
    match run f (.ser t) r with
    | some (s, r') => run f (.parLoop t (.par acc s)) r'
    | none => none := rfl
theorem run_parLoop_stop (f t acc ts) (h : headComma ts = false) :
    run (f+1) (.parLoop t acc) ts = some (acc, ts) := by
  cases ts with
  | nil => rfl
  | cons a r => cases a <;> first | rfl | simp [headComma] at h
def okSer (t : Bool) (k : Kind) : Bool := if t then k.leSerT else k.leSer
def okPar (t : Bool) (k : Kind) : Bool := t || k.lePar

/-- fuel that suffices to read the tree -/
def need : Cst → Nat
  | .trait _ => 1
  | .items => 1
  | .metadata _ => 1
  | .any => 1
  | .group p => need p + 5
  | .ser l _ r => need l + need r + 2
  | .par l r => need l + need r + 3

theorem need_pos (c : Cst) : 1 ≤ need c := by cases c <;> simp [need] <;> omega

theorem need_le (c : Cst) : need c ≤ 4 * (toks c).length := by
  induction c with
  | trait n => simp [need, toks]
  | items => simp [need, toks]
  | metadata n => simp [need, toks]
  | any => simp [need, toks]
  | group p ih => simp [need, toks]; omega
  | ser l c r ihl ihr => simp [need, toks]; omega
  | par l r ihl ihr => simp [need, toks]; omega

/-! shape inversion -/
theorem shape_elem (c : Cst) (h : shape c = some .elem) :
    (∃ n, c = .trait n) ∨ c = .items ∨ (∃ n, c = .metadata n) ∨
    (∃ p k, c = .group p ∧ shape p = some k ∧ k.lePar = true) := by
  cases c with
  | trait n => exact .inl ⟨n, rfl⟩
  | items => exact .inr (.inl rfl)
  | metadata n => exact .inr (.inr (.inl ⟨n, rfl⟩))
  | any => simp [shape] at h
  | group p =>
    simp only [shape] at h
    split at h
    · rename_i k hk
      split at h
      · exact .inr (.inr (.inr ⟨p, k, rfl, hk, by assumption⟩))
      · cases h
    · cases h
  | ser l c r =>
    simp only [shape] at h
    split at h
    · split at h
      · split at h
        · cases h
        · split at h <;> cases h
      · cases h
    · cases h
  | par l r =>
    simp only [shape] at h
    split at h
    · split at h
      · cases h
      · split at h <;> cases h
    · cases h

theorem headStar_elem (c : Cst) (h : shape c = some .elem) (more : List Tok) :
    headStar (toks c ++ more) = false := by
  rcases shape_elem c h with ⟨n, rfl⟩ | rfl | ⟨n, rfl⟩ | ⟨p, k, rfl, _, _⟩ <;> rfl

theorem shape_anyK (c : Cst) (h : shape c = some .anyK) : c = .any := by
  cases c with
  | any => rfl
  | trait n => simp [shape] at h
  | items => simp [shape] at h
  | metadata n => simp [shape] at h
  | group p =>
    simp only [shape] at h
    split at h
    · split at h <;> cases h
    · cases h
  | ser l c r =>
    simp only [shape] at h
    split at h
    · split at h
      · split at h
        · cases h
        · split at h <;> cases h
      · cases h
    · cases h
  | par l r =>
    simp only [shape] at h
    split at h
    · split at h
      · cases h
      · split at h <;> cases h
    · cases h

/-! ### completeness: every derivation tree is read back from its tokens -/

structure Complete (c : Cst) (k : Kind) : Prop where
  elem : k = .elem → ∀ f rest, need c ≤ f → run f .elem (toks c ++ rest) = some (c, rest)
  serC : k.leSer = true → ∀ t f g more, need c + g + 1 ≤ f →
      ∃ f', g ≤ f' ∧ run f (.ser t) (toks c ++ more) = run f' (.serLoop t c) more
  ser : ∀ t, okSer t k = true → ∀ f more, need c + 2 ≤ f → headConn more = false →
      run f (.ser t) (toks c ++ more) = some (c, more)
  parC : ∀ t, okPar t k = true → ∀ f g more, need c + g + 3 ≤ f → headConn more = false →
      ∃ f', g ≤ f' ∧ run f (.par t) (toks c ++ more) = run f' (.parLoop t c) more

theorem succ_of_le {f n : Nat} (h : n + 1 ≤ f) : ∃ f0, f = f0 + 1 := ⟨f - 1, by omega⟩

theorem ser_of_serC {c : Cst}
    (h : ∀ t f g more, need c + g + 1 ≤ f →
      ∃ f', g ≤ f' ∧ run f (.ser t) (toks c ++ more) = run f' (.serLoop t c) more) :
    ∀ t f more, need c + 2 ≤ f → headConn more = false →
      run f (.ser t) (toks c ++ more) = some (c, more) := by
  intro t f more hf hm
  obtain ⟨f', hf', e⟩ := h t f 1 more (by omega)
  obtain ⟨f'', rfl⟩ := succ_of_le (n := 0) (by omega : 0 + 1 ≤ f')
  rw [e, run_serLoop_stop _ _ _ _ hm]

theorem parC_of_ser {c : Cst} {t : Bool}
    (hser : ∀ f more, need c + 2 ≤ f → headConn more = false →
      run f (.ser t) (toks c ++ more) = some (c, more)) :
    ∀ f g more, need c + g + 3 ≤ f → headConn more = false →
      ∃ f', g ≤ f' ∧ run f (.par t) (toks c ++ more) = run f' (.parLoop t c) more := by
  intro f g more hf hm
  obtain ⟨f0, rfl⟩ := succ_of_le (n := 0) (by omega : 0 + 1 ≤ f)
  refine ⟨f0, by omega, ?_⟩
  rw [run_par, hser f0 more (by omega) hm]

/-- a tree of shape `elem` whose `elem` reading is established -/
theorem complete_of_elem {c : Cst} (hs : shape c = some .elem)
    (he : ∀ f rest, need c ≤ f → run f .elem (toks c ++ rest) = some (c, rest)) :
    Complete c .elem := by
  have hserC : ∀ t f g more, need c + g + 1 ≤ f →
      ∃ f', g ≤ f' ∧ run f (.ser t) (toks c ++ more) = run f' (.serLoop t c) more := by
    intro t f g more hf
    obtain ⟨f0, rfl⟩ := succ_of_le (n := 0) (by omega : 0 + 1 ≤ f)
    refine ⟨f0, by omega, ?_⟩
    rw [run_ser _ _ _ (headStar_elem c hs more), he f0 more (by omega)]
  have hser := ser_of_serC hserC
  exact {
    elem := fun _ => he
    serC := fun _ => hserC
    ser := fun t _ => hser t
    parC := fun t _ => parC_of_ser (hser t) }

theorem complete (c : Cst) : ∀ k, shape c = some k → Complete c k := by
  induction c with
  | trait n =>
    intro k hk; cases hk
    refine complete_of_elem rfl ?_
    intro f rest hf
    obtain ⟨f0, rfl⟩ := succ_of_le (n := 0) (by simp [need] at hf; omega : 0 + 1 ≤ f)
    rfl
  | items =>
    intro k hk; cases hk
    refine complete_of_elem rfl ?_
    intro f rest hf
    obtain ⟨f0, rfl⟩ := succ_of_le (n := 0) (by simp [need] at hf; omega : 0 + 1 ≤ f)
    rfl
  | metadata n =>
    intro k hk; cases hk
    refine complete_of_elem rfl ?_
    intro f rest hf
    obtain ⟨f0, rfl⟩ := succ_of_le (n := 0) (by simp [need] at hf; omega : 0 + 1 ≤ f)
    rfl
  | any =>
    intro k hk; cases hk
    have hser : ∀ f more, need .any + 2 ≤ f → headConn more = false →
        run f (.ser true) (toks .any ++ more) = some (.any, more) := by
      intro f more hf _
      obtain ⟨f0, rfl⟩ := succ_of_le (n := 0) (by omega : 0 + 1 ≤ f)
      rfl
    exact {
      elem := fun h => by cases h
      serC := fun h => by simp [Kind.leSer] at h
      ser := fun t ht => by
        cases t
        · simp [okSer, Kind.leSer] at ht
        · exact hser
      parC := fun t ht => by
        cases t
        · simp [okPar, Kind.lePar] at ht
        · exact parC_of_ser hser }
  | group p ih =>
    intro k hk
    simp only [shape] at hk
    split at hk
    · rename_i kp hkp
      split at hk
      · rename_i hle
        cases hk
        refine complete_of_elem (by simp [shape, hkp, hle]) ?_
        intro f rest hf
        simp only [need] at hf
        obtain ⟨f0, rfl⟩ := succ_of_le (n := 0) (by omega : 0 + 1 ≤ f)
        obtain ⟨f1, hf1, e⟩ := (ih kp hkp).parC false (by simp [okPar, hle]) f0 1 (.rb :: rest)
          (by omega) rfl
        obtain ⟨f2, rfl⟩ := succ_of_le (n := 0) (by omega : 0 + 1 ≤ f1)
        have : toks (.group p) ++ rest = .lb :: (toks p ++ .rb :: rest) := by
          simp [toks]
        rw [this, run_elem_lb, e, run_parLoop_stop _ _ _ _ rfl]
      · cases hk
    · cases hk
  | ser l cn r ihl ihr =>
    intro k hk
    simp only [shape] at hk
    split at hk
    · rename_i kl kr hkl hkr
      split at hk
      · rename_i hle
        have hL := ihl kl hkl
        split at hk
        · -- right operand is an element: shape `ser`
          rename_i hre
          have hre : kr = .elem := by simpa using hre
          subst hre
          cases hk
          have hR := ihr .elem hkr
          have hserC : ∀ t f g more, need (.ser l cn r) + g + 1 ≤ f →
              ∃ f', g ≤ f' ∧ run f (.ser t) (toks (.ser l cn r) ++ more)
                = run f' (.serLoop t (.ser l cn r)) more := by
            intro t f g more hf
            simp only [need] at hf
            obtain ⟨f1, hf1, e⟩ := hL.serC hle t f (need r + g + 1) (.conn cn :: (toks r ++ more))
              (by omega)
            obtain ⟨f2, rfl⟩ := succ_of_le (n := 0) (by omega : 0 + 1 ≤ f1)
            refine ⟨f2, by omega, ?_⟩
            have : toks (.ser l cn r) ++ more = toks l ++ .conn cn :: (toks r ++ more) := by
              simp [toks]
            rw [this, e, run_serLoop_conn _ _ _ _ _ (headStar_elem r hkr more),
              hR.elem rfl f2 more (by omega)]
          have hser := ser_of_serC hserC
          exact {
            elem := fun h => by cases h
            serC := fun _ => hserC
            ser := fun t _ => hser t
            parC := fun t _ => parC_of_ser (hser t) }
        · split at hk
          · -- right operand is `*`: shape `serT`
            rename_i _ hra
            have hra : kr = .anyK := by simpa using hra
            subst hra
            cases hk
            have hr := shape_anyK r hkr
            subst hr
            have hser : ∀ f more, need (.ser l cn .any) + 2 ≤ f → headConn more = false →
                run f (.ser true) (toks (.ser l cn .any) ++ more) = some (.ser l cn .any, more) := by
              intro f more hf _
              simp only [need] at hf
              obtain ⟨f1, hf1, e⟩ := hL.serC hle true f 1 (.conn cn :: .star :: more) (by omega)
              obtain ⟨f2, rfl⟩ := succ_of_le (n := 0) (by omega : 0 + 1 ≤ f1)
              have : toks (.ser l cn .any) ++ more = toks l ++ .conn cn :: .star :: more := by
                simp [toks]
              rw [this, e, run_serLoop_star]
            exact {
              elem := fun h => by cases h
              serC := fun h => by simp [Kind.leSer] at h
              ser := fun t ht => by
                cases t
                · simp [okSer, Kind.leSer] at ht
                · exact hser
              parC := fun t ht => by
                cases t
                · simp [okPar, Kind.lePar] at ht
                · exact parC_of_ser hser }
          · cases hk
      · cases hk
    · cases hk
  | par l r ihl ihr =>
    intro k hk
    simp only [shape] at hk
    split at hk
    · rename_i kl kr hkl hkr
      have hL := ihl kl hkl
      have hR := ihr kr hkr
      -- the loop step, for a flag `t` under which both operands are admissible
      have step : ∀ t, okPar t kl = true → okSer t kr = true →
          ∀ f g more, need (.par l r) + g + 3 ≤ f → headConn more = false →
          ∃ f', g ≤ f' ∧ run f (.par t) (toks (.par l r) ++ more)
            = run f' (.parLoop t (.par l r)) more := by
        intro t htl htr f g more hf hm
        simp only [need] at hf
        obtain ⟨f1, hf1, e⟩ := hL.parC t htl f (need r + g + 3) (.comma :: (toks r ++ more))
          (by omega) rfl
        obtain ⟨f2, rfl⟩ := succ_of_le (n := 0) (by omega : 0 + 1 ≤ f1)
        refine ⟨f2, by omega, ?_⟩
        have : toks (.par l r) ++ more = toks l ++ .comma :: (toks r ++ more) := by
          simp [toks]
        rw [this, e, run_parLoop_comma, hR.ser t htr f2 more (by omega) hm]
      split at hk
      · rename_i hpp
        cases hk
        simp only [Bool.and_eq_true] at hpp
        exact {
          elem := fun h => by cases h
          serC := fun h => by simp [Kind.leSer] at h
          ser := fun t ht => by cases t <;> simp [okSer, Kind.leSer, Kind.leSerT] at ht
          parC := fun t _ => by
            cases t
            · exact step false (by simp [okPar, hpp.1]) (by simp [okSer, hpp.2])
            · refine step true (by simp [okPar]) ?_
              have := hpp.2
              cases kr <;> simp_all [okSer, Kind.leSer, Kind.leSerT] }
      · split at hk
        · rename_i hnot hst
          cases hk
          exact {
            elem := fun h => by cases h
            serC := fun h => by simp [Kind.leSer] at h
            ser := fun t ht => by cases t <;> simp [okSer, Kind.leSer, Kind.leSerT] at ht
            parC := fun t ht => by
              cases t
              · simp [okPar, Kind.lePar] at ht
              · exact step true (by simp [okPar]) (by simp [okSer, hst]) }
        · cases hk
    · cases hk

/-- **Completeness on tokens**: the token string of every derivation tree parses
back to that tree. -/
theorem parseToks_toks (c : Cst) (h : (shape c).isSome = true) : parseToks (toks c) = some c := by
  obtain ⟨k, hk⟩ := Option.isSome_iff_exists.mp h
  have hc := complete c k hk
  have hn := need_le c
  obtain ⟨f1, hf1, e⟩ := hc.parC true (by simp [okPar]) (fuelFor (toks c)) 1 []
    (by simp only [fuelFor]; omega) rfl
  obtain ⟨f2, rfl⟩ := succ_of_le (n := 0) (by omega : 0 + 1 ≤ f1)
  simp only [List.append_nil] at e
  simp [parseToks, e, run_parLoop_stop _ _ _ _ (rfl : headComma [] = false)]

/-! ### soundness: whatever is read is a derivation tree of exactly the tokens consumed -/

theorem okSer_of_leSer {t k} (h : Kind.leSer k = true) : okSer t k = true := by
  cases t <;> cases k <;> simp_all [okSer, Kind.leSer, Kind.leSerT]

theorem shape_par_ok {t l r kl kr} (hl : shape l = some kl) (hr : shape r = some kr)
    (hkl : okPar t kl = true) (hkr : okSer t kr = true) :
    ∃ k, shape (.par l r) = some k ∧ okPar t k = true := by
  cases t
  · have h1 : kl.lePar = true := by simpa [okPar] using hkl
    have h2 : kr.leSer = true := by simpa [okSer] using hkr
    exact ⟨.par, by simp [shape, hl, hr, h1, h2], rfl⟩
  · have h2 : kr.leSerT = true := by simpa [okSer] using hkr
    by_cases h : (kl.lePar && kr.leSer) = true
    · exact ⟨.par, by simp [shape, hl, hr, h], rfl⟩
    · exact ⟨.parT, by simp [shape, hl, hr, h, h2], rfl⟩

theorem run_elem_star (f r) : run f .elem (.star :: r) = none := by cases f <;> rfl

theorem run_ser_false (f ts) : run (f+1) (.ser false) ts =
    match run f .elem ts with
    | some (e, r) => run f (.serLoop false e) r
    | none => none := by
  cases ts with
  | nil => rfl
  | cons a r => cases a <;> rfl

theorem run_serLoop_conn_false (f acc c r) : run (f+1) (.serLoop false acc) (.conn c :: r) =
    match run f .elem r with
    | some (e, r') => run f (.serLoop false (.ser acc c e)) r'
    | none => none := by
  cases r with
  | nil => rfl
  | cons a r => cases a <;> rfl

/-- what a successful `run` in a given mode establishes -/
def Spec : Mode → List Tok → Cst → List Tok → Prop
  | .elem, ts, c, rest => ts = toks c ++ rest ∧ shape c = some .elem
  | .ser t, ts, c, rest => ts = toks c ++ rest ∧ ∃ k, shape c = some k ∧ okSer t k = true
  | .serLoop t acc, ts, c, rest => ∀ ka, shape acc = some ka → ka.leSer = true →
      ∃ mid k, ts = mid ++ rest ∧ toks c = toks acc ++ mid ∧ shape c = some k ∧ okSer t k = true
  | .par t, ts, c, rest => ts = toks c ++ rest ∧ ∃ k, shape c = some k ∧ okPar t k = true
  | .parLoop t acc, ts, c, rest => ∀ ka, shape acc = some ka → okPar t ka = true →
      ∃ mid k, ts = mid ++ rest ∧ toks c = toks acc ++ mid ∧ shape c = some k ∧ okPar t k = true

theorem sound : ∀ f mode ts c rest, run f mode ts = some (c, rest) → Spec mode ts c rest := by
  intro f
  induction f with
  | zero => intro mode ts c rest h; simp [run] at h
  | succ f ih =>
    intro mode ts c rest h
    cases mode with
    | elem =>
      cases ts with
      | nil => simp [run] at h
      | cons a r =>
        cases a with
        | name n => rw [run_elem_name] at h; cases h; exact ⟨rfl, rfl⟩
        | items => rw [run_elem_items] at h; cases h; exact ⟨rfl, rfl⟩
        | plus =>
          cases r with
          | nil => simp [run] at h
          | cons b r' =>
            cases b <;> first
              | (rw [run_elem_meta] at h; cases h; exact ⟨rfl, rfl⟩)
              | simp [run] at h
        | lb =>
          rw [run_elem_lb] at h
          split at h
          · rename_i p r' hp
            cases h
            obtain ⟨e, k, hk, hok⟩ := ih _ _ _ _ hp
            have hle : k.lePar = true := by simpa [okPar] using hok
            exact ⟨by simp [toks, e], by simp [shape, hk, hle]⟩
          · cases h
        | star => simp [run] at h
        | conn c => simp [run] at h
        | comma => simp [run] at h
        | rb => simp [run] at h
    | ser t =>
      by_cases hs : headStar ts = true
      · -- `*`
        cases ts with
        | nil => simp [headStar] at hs
        | cons a r =>
          cases a <;> simp [headStar] at hs
          cases t
          · -- with t = false the star is not special: the element read fails
            rw [run_ser_false, run_elem_star] at h
            cases h
          · rw [run_ser_star] at h; cases h
            exact ⟨rfl, .anyK, rfl, rfl⟩
      · have hs : headStar ts = false := by simpa using hs
        rw [run_ser _ _ _ hs] at h
        split at h
        · rename_i e r he
          obtain ⟨e1, hse⟩ := ih _ _ _ _ he
          obtain ⟨mid, k, e2, e3, hk, hok⟩ := ih _ _ _ _ h .elem hse rfl
          exact ⟨by rw [e1, e2, e3, List.append_assoc], k, hk, hok⟩
        · cases h
    | serLoop t acc =>
      intro ka hka hle
      by_cases hc : headConn ts = true
      · cases ts with
        | nil => simp [headConn] at hc
        | cons a r =>
          cases a <;> simp [headConn] at hc
          rename_i cn
          by_cases hs : headStar r = true ∧ t = true
          · obtain ⟨hs, rfl⟩ := hs
            cases r with
            | nil => simp [headStar] at hs
            | cons b r' =>
              cases b <;> simp [headStar] at hs
              rw [run_serLoop_star] at h; cases h
              exact ⟨[.conn cn, .star], .serT, rfl, by simp [toks],
                by simp [shape, hka, hle], rfl⟩
          · by_cases hs' : headStar r = true
            · -- star but t = false: the element read fails
              have ht : t = false := by
                cases t
                · rfl
                · exact absurd ⟨hs', rfl⟩ hs
              subst ht
              cases r with
              | nil => simp [headStar] at hs'
              | cons b r' =>
                cases b <;> simp [headStar] at hs'
                rw [run_serLoop_conn_false, run_elem_star] at h
                cases h
            · have hs' : headStar r = false := by simpa using hs'
              rw [run_serLoop_conn _ _ _ _ _ hs'] at h
              split at h
              · rename_i e r' he
                obtain ⟨e1, hse⟩ := ih _ _ _ _ he
                obtain ⟨mid, k, e2, e3, hk, hok⟩ := ih _ _ _ _ h .ser
                  (by simp [shape, hka, hse, hle]) rfl
                exact ⟨.conn cn :: (toks e ++ mid), k, by simp [e1, e2],
                  by simp [e3, toks], hk, hok⟩
              · cases h
      · have hc : headConn ts = false := by simpa using hc
        rw [run_serLoop_stop _ _ _ _ hc] at h; cases h
        exact ⟨[], ka, by simp, by simp, hka, okSer_of_leSer hle⟩
    | par t =>
      rw [run_par] at h
      split at h
      · rename_i s r hs
        obtain ⟨e1, ks, hks, hoks⟩ := ih _ _ _ _ hs
        have hokp : okPar t ks = true := by
          cases t <;> cases ks <;> simp_all [okPar, okSer, Kind.lePar, Kind.leSer, Kind.leSerT]
        obtain ⟨mid, k, e2, e3, hk, hok⟩ := ih _ _ _ _ h ks hks hokp
        exact ⟨by rw [e1, e2, e3, List.append_assoc], k, hk, hok⟩
      · cases h
    | parLoop t acc =>
      intro ka hka hoka
      by_cases hc : headComma ts = true
      · cases ts with
        | nil => simp [headComma] at hc
        | cons a r =>
          cases a <;> simp [headComma] at hc
          rw [run_parLoop_comma] at h
          split at h
          · rename_i s r' hs
            obtain ⟨e1, ks, hks, hoks⟩ := ih _ _ _ _ hs
            obtain ⟨kp, hkp, hokp⟩ := shape_par_ok hka hks hoka hoks
            obtain ⟨mid, k, e2, e3, hk, hok⟩ := ih _ _ _ _ h kp hkp hokp
            exact ⟨.comma :: (toks s ++ mid), k, by simp [e1, e2], by simp [e3, toks], hk, hok⟩
          · cases h
      · have hc : headComma ts = false := by simpa using hc
        rw [run_parLoop_stop _ _ _ _ hc] at h; cases h
        exact ⟨[], ka, by simp, by simp, hka, hoka⟩

/-- **Soundness on tokens**: an accepted token string is the token string of the
returned tree, and that tree is a derivation tree of `start`. -/
theorem parseToks_sound (ts : List Tok) (c : Cst) (h : parseToks ts = some c) :
    toks c = ts ∧ (shape c).isSome = true := by
  simp only [parseToks] at h
  split at h
  · rename_i c' hr
    cases h
    obtain ⟨e, k, hk, _⟩ := sound _ _ _ _ _ hr
    exact ⟨by simp [e], by simp [hk]⟩
  · cases h
end TraitsVerif.Model.Dsl

namespace TraitsVerif.Model.Dsl

/-! ### where `*` can be -/

/-- no `*` anywhere in the tree -/
def noAny : Cst → Bool
  | .any => false
  | .group p => noAny p
  | .ser l _ r => noAny l && noAny r
  | .par l r => noAny l && noAny r
  | _ => true

/-- `*` occurs only in a terminal position: never in the left operand of a
connector (= followed, directly or indirectly, by `.` or `:`), and — the
grammar file's `"[" parallel "]"` — never inside brackets. -/
def starOk : Cst → Bool
  | .group p => noAny p
  | .ser l _ r => noAny l && starOk r
  | .par l r => starOk l && starOk r
  | _ => true

theorem noAny_starOk (c : Cst) (h : noAny c = true) : starOk c = true := by
  induction c with
  | group p _ => simpa [starOk, noAny] using h
  | ser l c r _ ihr =>
    simp only [noAny, Bool.and_eq_true] at h
    simp [starOk, h.1, ihr h.2]
  | par l r ihl ihr =>
    simp only [noAny, Bool.and_eq_true] at h
    simp [starOk, ihl h.1, ihr h.2]
  | _ => rfl

theorem shape_star (c : Cst) : ∀ k, shape c = some k →
    (k.lePar = true → noAny c = true) ∧ starOk c = true := by
  induction c with
  | trait n => intro k _; exact ⟨fun _ => rfl, rfl⟩
  | items => intro k _; exact ⟨fun _ => rfl, rfl⟩
  | metadata n => intro k _; exact ⟨fun _ => rfl, rfl⟩
  | any => intro k hk; cases hk; exact ⟨fun h => by simp [Kind.lePar] at h, rfl⟩
  | group p ih =>
    intro k hk
    simp only [shape] at hk
    split at hk
    · rename_i kp hkp
      split at hk
      · rename_i hle
        have := (ih kp hkp).1 hle
        exact ⟨fun _ => by simpa [noAny] using this, by simpa [starOk] using this⟩
      · cases hk
    · cases hk
  | ser l cn r ihl ihr =>
    intro k hk
    simp only [shape] at hk
    split at hk
    · rename_i kl kr hkl hkr
      split at hk
      · rename_i hle
        have hl : noAny l = true := (ihl kl hkl).1 (by cases kl <;> simp_all [Kind.leSer, Kind.lePar])
        split at hk
        · rename_i hre
          have hre : kr = .elem := by simpa using hre
          subst hre
          cases hk
          have hr := (ihr .elem hkr).1 rfl
          exact ⟨fun _ => by simp [noAny, hl, hr], by simp [starOk, hl, noAny_starOk r hr]⟩
        · split at hk
          · cases hk
            exact ⟨fun h => by simp [Kind.lePar] at h, by simp [starOk, hl, (ihr kr hkr).2]⟩
          · cases hk
      · cases hk
    · cases hk
  | par l r ihl ihr =>
    intro k hk
    simp only [shape] at hk
    split at hk
    · rename_i kl kr hkl hkr
      split at hk
      · rename_i hpp
        cases hk
        simp only [Bool.and_eq_true] at hpp
        have hl := (ihl kl hkl).1 hpp.1
        have hr := (ihr kr hkr).1 (by cases kr <;> simp_all [Kind.leSer, Kind.lePar])
        exact ⟨fun _ => by simp [noAny, hl, hr], by simp [starOk, noAny_starOk l hl, noAny_starOk r hr]⟩
      · split at hk
        · cases hk
          exact ⟨fun h => by simp [Kind.lePar] at h, by simp [starOk, (ihl kl hkl).2, (ihr kr hkr).2]⟩
        · cases hk
    · cases hk

end TraitsVerif.Model.Dsl
