/-
The event emitted by slice assignment / deletion satisfies the replay law and
the normal form — the heart of property C05.
-/
import TraitsVerif.Lemmas.SeqSlice
namespace TraitsVerif.Model
open TraitsVerif TraitsVerif.Py
variable {α : Type}

theorem indices_some {n : Nat} {s : Slice} {a b k : Int} (h : s.indices n = some (a, b, k)) :
    k ≠ 0 ∧ a = adjustStart n k s.start ∧ b = adjustStop n k s.stop := by
  unfold Slice.indices at h
  simp only at h
  split at h
  · cases h
  · rename_i hk
    simp only [Option.some.injEq, Prod.mk.injEq] at h
    obtain ⟨h1, h2, h3⟩ := h
    subst h3
    exact ⟨hk, h1.symm, h2.symm⟩

theorem positions_in_range_pos {n : Nat} {a k : Int} {q : Nat} (ha : 0 ≤ a) (hk : 0 < k)
    (h : a + q * k < n) : ∀ p ∈ positions a k (q + 1), 0 ≤ p ∧ p < n := by
  intro p hp
  obtain ⟨j, hj, rfl⟩ := mem_positions.mp hp
  have hj' : (j : Int) ≤ q := by omega
  have h0 : (0 : Int) ≤ j := by omega
  constructor <;> nlinarith

theorem positions_in_range_neg {n : Nat} {a k : Int} {q : Nat} (ha : a < n) (hk : k < 0)
    (h : 0 ≤ a + q * k) : ∀ p ∈ positions a k (q + 1), 0 ≤ p ∧ p < n := by
  intro p hp
  obtain ⟨j, hj, rfl⟩ := mem_positions.mp hp
  have hj' : (j : Int) ≤ q := by omega
  have h0 : (0 : Int) ≤ j := by omega
  constructor <;> nlinarith

/-- Replay of an integer-index event. -/
theorem replay_idx (l : List α) (n : Int) (removed added : List α) (hn : 0 ≤ n) :
    replay l ⟨.idx n, removed, added⟩
      = some (l.take n.toNat ++ added ++ l.drop (n.toNat + removed.length)) := by
  simp [replay, hn]

/-- Replay of a slice-index event that adds items. -/
theorem replay_slc_set (l : List α) (a b k : Int) (removed added : List α) (q : Nat)
    (hk : 2 ≤ k) (ha : 0 ≤ a) (hb : a + q * k + 1 = b) (hbn : b ≤ l.length)
    (hlen : added.length = q + 1) :
    replay l ⟨.slc a b k, removed, added⟩
      = some (setPositions l (positions a k (q + 1)) added) := by
  have hadd : added ≠ [] := by intro h; simp [h] at hlen
  have hq : (0 : Int) ≤ q * k := by positivity
  have hidx := indices_of_adjusted_pos l.length a b k (by omega) ⟨ha, by omega⟩ ⟨by omega, hbn⟩
  have hsl : sliceLen a b k = q + 1 :=
    sliceLen_of_bounds_pos (by omega) (by omega) (by nlinarith)
  simp only [replay, List.isEmpty_iff, hadd, if_false, Py.setSlice, hidx]
  rw [if_neg (by omega), hsl, if_neg (by simp [hlen])]
  rfl

/-- Replay of a slice-index event that only removes items. -/
theorem replay_slc_del (l : List α) (a b k : Int) (removed : List α) (q : Nat)
    (hk : 2 ≤ k) (ha : 0 ≤ a) (hb : a + q * k + 1 = b) (hbn : b ≤ l.length) :
    replay l ⟨.slc a b k, removed, []⟩
      = some (delPositions l (positions a k (q + 1))) := by
  have hq : (0 : Int) ≤ q * k := by positivity
  have hidx := indices_of_adjusted_pos l.length a b k (by omega) ⟨ha, by omega⟩ ⟨by omega, hbn⟩
  have hsl : sliceLen a b k = q + 1 :=
    sliceLen_of_bounds_pos (by omega) (by omega) (by nlinarith)
  simp only [replay, List.isEmpty_nil, if_true, Py.delSlice, hidx]
  rw [if_neg (by omega), hsl]
  rfl

/-- `getSlice` on an already normalised slice. -/
theorem getSlice_normal (l : List α) (a b k : Int) (q : Nat)
    (hk : 2 ≤ k) (ha : 0 ≤ a) (hb : a + q * k + 1 = b) (hbn : b ≤ l.length) :
    Py.getSlice l ⟨some a, some b, some k⟩
      = .ok (getPositions l (positions a k (q + 1))) := by
  have hq : (0 : Int) ≤ q * k := by positivity
  have hidx := indices_of_adjusted_pos l.length a b k (by omega) ⟨ha, by omega⟩ ⟨by omega, hbn⟩
  have hsl : sliceLen a b k = q + 1 :=
    sliceLen_of_bounds_pos (by omega) (by omega) (by nlinarith)
  simp only [Py.getSlice, hidx, hsl]

/-- Reversing a backward progression gives the forward one from its last point. -/
theorem positions_neg_reverse (a k : Int) (q : Nat) :
    positions (a + q * k) (-k) (q + 1) = (positions a k (q + 1)).reverse :=
  (positions_reverse a k q).symm


/-- The event for a slice, as `TraitList.__setitem__`/`__delitem__` build it. -/
def sliceEvent (n : Nat) (a b k : Int) (removed added : List α) : Event α :=
  let r := normalizeCore n a b k
  ⟨r.2, if r.1 then removed.reverse else removed, if r.1 then added.reverse else added⟩

/-- Slice assignment: the event replays to the new contents and is in normal form. -/
theorem setSlice_event {l : List α} {s : Slice} {ys l' : List α} {a b k : Int}
    (hidx : s.indices l.length = some (a, b, k))
    (hset : Py.setSlice l s ys = .ok l')
    (hne : ¬ (ys = [] ∧ getPositions l (positions a k (sliceLen a b k)) = [])) :
    replay l (sliceEvent l.length a b k (getPositions l (positions a k (sliceLen a b k))) ys) = some l'
    ∧ NormalForm l (sliceEvent l.length a b k (getPositions l (positions a k (sliceLen a b k))) ys) := by
  obtain ⟨hk0, ha, hb⟩ := indices_some hidx
  simp only [Py.setSlice, hidx] at hset
  by_cases hk1 : k = 1
  · -- contiguous
    subst hk1
    simp only [if_true, Except.ok.injEq] at hset
    have hA := adjustStart_pos l.length 1 s.start (by omega)
    have hB := adjustStop_pos l.length 1 s.stop (by omega)
    rw [← ha] at hA; rw [← hb] at hB
    have hm : a + (sliceLen a b 1 : Nat) ≤ l.length ∧
        (a.toNat + sliceLen a b 1 = (if b < a then a else b).toNat) := by
      unfold sliceLen; split <;> split <;> omega
    have hrem := getPositions_contig l a (sliceLen a b 1) hA.1 hm.1
    have hlen : (getPositions l (positions a 1 (sliceLen a b 1))).length = sliceLen a b 1 := by
      rw [hrem, List.length_take, List.length_drop]; omega
    simp only [sliceEvent, normalizeCore_one, Bool.false_eq_true, if_false]
    constructor
    · rw [replay_idx _ _ _ _ hA.1, hlen, hm.2, ← hset]; rfl
    · simp only [NormalForm]
      refine ⟨hA.1, by rw [hlen]; exact hm.1, ?_⟩
      rw [hlen]; exact hrem
  · rw [if_neg hk1] at hset
    split at hset
    · cases hset
    · rename_i hlen
      simp only [ne_eq, Decidable.not_not] at hlen
      simp only [Except.ok.injEq] at hset
      rcases Int.lt_or_gt_of_ne hk0 with hkneg | hkpos
      · -- backward
        have hA := adjustStart_neg l.length k s.start hkneg
        have hB := adjustStop_neg l.length k s.stop hkneg
        rw [← ha] at hA; rw [← hb] at hB
        by_cases hab : b < a
        · obtain ⟨q, hq, h1, h2⟩ := sliceLen_neg hkneg hab
          have hlo : 0 ≤ a + q * k := by omega
          have hrange := positions_in_range_neg (n := l.length) (by omega) hkneg hlo
          rw [hq] at hlen hset ⊢
          have hnorm := normalizeCore_neg (n := l.length) hkneg (by omega) h1 h2
          have hrl := getPositions_length hrange
          rw [positions_length] at hrl
          have hnd : (positions (a + q * k) (-k) (q + 1)).Nodup := positions_nodup (by omega) _
          have hrev : setPositions l (positions (a + q * k) (-k) (q + 1)) ys.reverse = l' := by
            rw [← hset, positions_neg_reverse]
            have := setPositions_reverse l (positions a k (q + 1)).reverse ys.reverse
              (by simp [hlen]) (by
                intro p hp; exact (hrange p (List.mem_reverse.mp hp)).1)
              (by rw [← positions_neg_reverse]; exact hnd)
            simpa using this.symm
          have hremrev : (getPositions l (positions a k (q + 1))).reverse
              = getPositions l (positions (a + q * k) (-k) (q + 1)) := by
            rw [positions_neg_reverse, getPositions_reverse]
          simp only [sliceEvent, hnorm, if_true]
          by_cases hc : k = -1 ∨ q = 0
          · simp only [hc, if_true]
            have hstep : positions (a + q * k) (-k) (q + 1) = positions (a + q * k) 1 (q + 1) := by
              rcases hc with hc | hc
              · subst hc; rfl
              · subst hc; simp [positions]
            have hle : a + q * k + ((q + 1 : Nat) : Int) ≤ l.length := by
              rcases hc with hc | hc
              · subst hc; push_cast; omega
              · subst hc; push_cast; omega
            constructor
            · rw [replay_idx _ _ _ _ hlo, List.length_reverse, hrl, ← hrev, hstep]
              have := setPositions_contig l (a + q * k) ys.reverse hlo (by simpa [hlen] using hle)
              simpa [hlen] using this.symm
            · simp only [NormalForm, List.length_reverse, hrl]
              refine ⟨hlo, hle, ?_⟩
              rw [hremrev, hstep]
              exact getPositions_contig l _ _ hlo hle
          · simp only [hc, if_false]
            have hq1 : 1 ≤ q := by omega
            have hk2 : 2 ≤ -k := by omega
            have hb' : a + q * k + q * (-k) + 1 = a + 1 := by ring
            constructor
            · rw [replay_slc_set l _ _ _ _ _ q hk2 hlo hb' (by omega) (by simp [hlen])]
              rw [hrev]
            · simp only [NormalForm, List.length_reverse, hrl]
              refine ⟨hlo, by nlinarith, by omega, hk2, ?_, Or.inr (by simp [hlen])⟩
              rw [getSlice_normal l _ _ _ q hk2 hlo hb' (by omega), hremrev]
        · exfalso
          rw [sliceLen_neg_empty hkneg (by omega)] at hlen hne
          exact hne ⟨List.length_eq_zero_iff.mp hlen, by simp [positions, getPositions]⟩
      · -- forward, extended
        have hk2 : 2 ≤ k := by omega
        have hA := adjustStart_pos l.length k s.start hkpos
        have hB := adjustStop_pos l.length k s.stop hkpos
        rw [← ha] at hA; rw [← hb] at hB
        by_cases hab : a < b
        · obtain ⟨q, hq, h1, h2⟩ := sliceLen_pos hkpos hab
          have hrange := positions_in_range_pos (n := l.length) hA.1 hkpos (by omega : a + q * k < l.length)
          rw [hq] at hlen hset ⊢
          have hnorm := normalizeCore_pos (n := l.length) hkpos h1 h2
          have hrl := getPositions_length hrange
          rw [positions_length] at hrl
          by_cases hc : q = 0
          · rw [if_pos (Or.inr hc)] at hnorm
            simp only [sliceEvent, hnorm, Bool.false_eq_true, if_false]
            subst hc
            have hlt : a.toNat < l.length := by simp at h1; omega
            obtain ⟨y, rfl⟩ : ∃ y, ys = [y] := by
              match ys, hlen with
              | [y], _ => exact ⟨y, rfl⟩
            constructor
            · rw [replay_idx _ _ _ _ hA.1, hrl, ← hset]
              simp only [positions, setPositions, List.set_eq_take_append_cons_drop, hlt, if_true]
              simp
            · simp only [NormalForm, hrl]
              refine ⟨hA.1, by simp at h1 ⊢; omega, ?_⟩
              simp only [positions, getPositions_single _ _ hA.1, List.getElem?_eq_getElem hlt]
              rw [List.drop_eq_getElem_cons hlt]; rfl
          · have hc' : ¬ (k = 1 ∨ q = 0) := by omega
            rw [if_neg hc'] at hnorm
            simp only [sliceEvent, hnorm, Bool.false_eq_true, if_false]
            constructor
            · rw [replay_slc_set l _ _ _ _ _ q hk2 hA.1 rfl (by omega) (by simp [hlen]), hset]
            · simp only [NormalForm, hrl]
              have : (0 : Int) ≤ q * k := by positivity
              refine ⟨hA.1, by omega, by omega, hk2, ?_, Or.inr (by simp [hlen])⟩
              rw [getSlice_normal l _ _ _ q hk2 hA.1 rfl (by omega)]
        · exfalso
          rw [sliceLen_pos_empty hkpos (by omega)] at hlen hne
          exact hne ⟨List.length_eq_zero_iff.mp hlen, by simp [positions, getPositions]⟩


theorem contains_positions_one (lo : Int) (hlo : 0 ≤ lo) (m j : Nat) :
    (positions lo 1 m).contains (j : Int) = decide (lo.toNat ≤ j ∧ j < lo.toNat + m) := by
  rw [Bool.eq_iff_iff]
  simp only [List.contains_iff_mem, decide_eq_true_eq, mem_positions]
  constructor
  · rintro ⟨i, hi, h⟩; omega
  · intro h; exact ⟨j - lo.toNat, by omega, by omega⟩

/-- Deleting a contiguous run of positions. -/
theorem delPositions_contig (l : List α) (lo : Int) (hlo : 0 ≤ lo) (m : Nat)
    (hm : lo + m ≤ l.length) :
    delPositions l (positions lo 1 m) = l.take lo.toNat ++ l.drop (lo.toNat + m) :=
  delPositions_block l _ lo.toNat m (by omega) (contains_positions_one lo hlo m)

/-- Slice deletion: the event replays to the new contents and is in normal form. -/
theorem delSlice_event {l : List α} {s : Slice} {l' : List α} {a b k : Int}
    (hidx : s.indices l.length = some (a, b, k))
    (hdel : Py.delSlice l s = .ok l')
    (hne : getPositions l (positions a k (sliceLen a b k)) ≠ []) :
    replay l (sliceEvent l.length a b k (getPositions l (positions a k (sliceLen a b k))) []) = some l'
    ∧ NormalForm l (sliceEvent l.length a b k (getPositions l (positions a k (sliceLen a b k))) []) := by
  obtain ⟨hk0, ha, hb⟩ := indices_some hidx
  by_cases hk1 : k = 1
  · -- contiguous: the same list operation as `l[s] = []`
    apply setSlice_event hidx
    · simp only [Py.delSlice, hidx, hk1, if_true] at hdel
      simp only [Py.setSlice, hidx, hk1, if_true]
      exact hdel
    · exact fun h => hne h.2
  · simp only [Py.delSlice, hidx, if_neg hk1, Except.ok.injEq] at hdel
    rcases Int.lt_or_gt_of_ne hk0 with hkneg | hkpos
    · -- backward
      have hA := adjustStart_neg l.length k s.start hkneg
      have hB := adjustStop_neg l.length k s.stop hkneg
      rw [← ha] at hA; rw [← hb] at hB
      by_cases hab : b < a
      · obtain ⟨q, hq, h1, h2⟩ := sliceLen_neg hkneg hab
        have hlo : 0 ≤ a + q * k := by omega
        have hrange := positions_in_range_neg (n := l.length) (by omega) hkneg hlo
        rw [hq] at hdel ⊢
        have hnorm := normalizeCore_neg (n := l.length) hkneg (by omega) h1 h2
        have hrl := getPositions_length hrange
        rw [positions_length] at hrl
        have hrev : delPositions l (positions (a + q * k) (-k) (q + 1)) = l' := by
          rw [← hdel, positions_neg_reverse, delPositions_reverse]
        have hremrev : (getPositions l (positions a k (q + 1))).reverse
            = getPositions l (positions (a + q * k) (-k) (q + 1)) := by
          rw [positions_neg_reverse, getPositions_reverse]
        simp only [sliceEvent, hnorm, if_true, List.reverse_nil]
        by_cases hc : k = -1 ∨ q = 0
        · simp only [hc, if_true]
          have hstep : positions (a + q * k) (-k) (q + 1) = positions (a + q * k) 1 (q + 1) := by
            rcases hc with hc | hc
            · subst hc; rfl
            · subst hc; simp [positions]
          have hle : a + q * k + ((q + 1 : Nat) : Int) ≤ l.length := by
            rcases hc with hc | hc
            · subst hc; push_cast; omega
            · subst hc; push_cast; omega
          constructor
          · rw [replay_idx _ _ _ _ hlo, List.length_reverse, hrl, ← hrev, hstep,
              delPositions_contig l _ hlo _ hle]
            simp
          · simp only [NormalForm, List.length_reverse, hrl]
            refine ⟨hlo, hle, ?_⟩
            rw [hremrev, hstep]
            exact getPositions_contig l _ _ hlo hle
        · simp only [hc, if_false]
          have hq1 : 1 ≤ q := by omega
          have hk2 : 2 ≤ -k := by omega
          have hb' : a + q * k + q * (-k) + 1 = a + 1 := by ring
          constructor
          · rw [replay_slc_del l _ _ _ _ q hk2 hlo hb' (by omega), hrev]
          · simp only [NormalForm, List.length_reverse, hrl]
            refine ⟨hlo, by nlinarith, by omega, hk2, ?_, Or.inl trivial⟩
            rw [getSlice_normal l _ _ _ q hk2 hlo hb' (by omega), hremrev]
      · exfalso
        rw [sliceLen_neg_empty hkneg (by omega)] at hne
        exact hne (by simp [positions, getPositions])
    · -- forward, extended
      have hk2 : 2 ≤ k := by omega
      have hA := adjustStart_pos l.length k s.start hkpos
      have hB := adjustStop_pos l.length k s.stop hkpos
      rw [← ha] at hA; rw [← hb] at hB
      by_cases hab : a < b
      · obtain ⟨q, hq, h1, h2⟩ := sliceLen_pos hkpos hab
        have hrange := positions_in_range_pos (n := l.length) hA.1 hkpos (by omega : a + q * k < l.length)
        rw [hq] at hdel ⊢
        have hnorm := normalizeCore_pos (n := l.length) hkpos h1 h2
        have hrl := getPositions_length hrange
        rw [positions_length] at hrl
        by_cases hc : q = 0
        · rw [if_pos (Or.inr hc)] at hnorm
          simp only [sliceEvent, hnorm, Bool.false_eq_true, if_false]
          subst hc
          have hlt : a.toNat < l.length := by simp at h1; omega
          have hle : a + ((0 + 1 : Nat) : Int) ≤ l.length := by push_cast; omega
          have hstep : positions a k (0 + 1) = positions a 1 (0 + 1) := by simp [positions]
          constructor
          · rw [replay_idx _ _ _ _ hA.1, hrl, ← hdel, hstep, delPositions_contig l a hA.1 _ hle]
            simp
          · simp only [NormalForm, hrl]
            refine ⟨hA.1, hle, ?_⟩
            rw [hstep]
            exact getPositions_contig l _ _ hA.1 hle
        · have hc' : ¬ (k = 1 ∨ q = 0) := by omega
          rw [if_neg hc'] at hnorm
          simp only [sliceEvent, hnorm, Bool.false_eq_true, if_false]
          constructor
          · rw [replay_slc_del l _ _ _ _ q hk2 hA.1 rfl (by omega), hdel]
          · simp only [NormalForm, hrl]
            have : (0 : Int) ≤ q * k := by positivity
            refine ⟨hA.1, by omega, by omega, hk2, ?_, Or.inl trivial⟩
            rw [getSlice_normal l _ _ _ q hk2 hA.1 rfl (by omega)]
      · exfalso
        rw [sliceLen_pos_empty hkpos (by omega)] at hne
        exact hne (by simp [positions, getPositions])

end TraitsVerif.Model
