/- C15 — the model's equalities are the interpretation of the generated `__eq__` rows. -/
import TraitsVerif.Model.DslEq
import TraitsVerif.Generated.DslEqRows
set_option linter.unusedSimpArgs false
namespace TraitsVerif.Model.DslEq
open TraitsVerif TraitsVerif.Model.Dsl TraitsVerif.Generated

theorem lk_named : eqRows.lookup "NamedTraitObserver" =
    some [("__class__", "is"), ("name", "eq"), ("notify", "eq"), ("optional", "eq")] := by decide
theorem lk_list : eqRows.lookup "ListItemObserver" =
    some [("__class__", "is"), ("notify", "eq"), ("optional", "eq")] := by decide
theorem lk_dict : eqRows.lookup "DictItemObserver" =
    some [("__class__", "is"), ("notify", "eq"), ("optional", "eq")] := by decide
theorem lk_set : eqRows.lookup "SetItemObserver" =
    some [("__class__", "is"), ("notify", "eq"), ("optional", "eq")] := by decide
theorem lk_filtered : eqRows.lookup "FilteredTraitObserver" =
    some [("__class__", "is"), ("notify", "eq"), ("filter", "eq")] := by decide
theorem lk_meta : eqRows.lookup "MetadataFilter" =
    some [("__class__", "is"), ("metadata_name", "eq")] := by decide
theorem lk_single : eqRows.lookup "SingleObserverExpression" =
    some [("__class__", "is"), ("_observer", "eq")] := by decide
theorem lk_series : eqRows.lookup "SeriesObserverExpression" =
    some [("__class__", "is"), ("_first", "eq"), ("_second", "eq")] := by decide
theorem lk_parallel : eqRows.lookup "ParallelObserverExpression" =
    some [("__class__", "is"), ("_left", "eq"), ("_right", "eq")] := by decide

theorem filterEq_eq (f g : Filter) : filterEq eqRows f g = (f == g) := by
  rw [Bool.eq_iff_iff]
  cases f <;> cases g <;> simp [filterEq, rowsEq, lk_meta]

theorem obsEq_eq (o o' : Observer) : obsEq eqRows o o' = (o == o') := by
  rw [Bool.eq_iff_iff]
  cases o <;> cases o' <;>
    simp [obsEq, rowsEq, lk_named, lk_list, lk_dict, lk_set, lk_filtered, obsCls, obsField, obsNotify,
      obsOptional, filterEq_eq]

theorem graphRowsEq_eq (a b : Bool) : graphRowsEq eqRows a b = (a && b) := by
  cases a <;> cases b <;> decide

theorem setEqI_eq : ∀ (d : Nat) (f1 f2 : Forest), setEqI eqRows d f1 f2 = Forest.setEq d f1 f2 := by
  intro d
  induction d with
  | zero => intro f1 f2; rfl
  | succ d ih =>
    intro f1 f2
    simp only [setEqI, Forest.setEq, graphRowsEq_eq, obsEq_eq, ih]

theorem graphEqI_eq (o : Observer) (k : Forest) (o' : Observer) (k' : Forest) :
    graphEqI eqRows o k o' k' = Forest.graphEq o k o' k' := by
  simp only [graphEqI, Forest.graphEq, graphRowsEq_eq, obsEq_eq, setEqI_eq]

theorem exprEqI_eq (e : Expr) : ∀ e', exprEqI eqRows e e' = (e == e') := by
  induction e with
  | single o =>
    intro e'; rw [Bool.eq_iff_iff]
    cases e' <;> simp [exprEqI, rowsEq, lk_single, lk_series, lk_parallel, exprCls, obsEq_eq]
  | series a b iha ihb =>
    intro e'; rw [Bool.eq_iff_iff]
    cases e' <;> simp [exprEqI, rowsEq, lk_single, lk_series, lk_parallel, exprCls, iha, ihb]
  | parallel a b iha ihb =>
    intro e'; rw [Bool.eq_iff_iff]
    cases e' <;> simp [exprEqI, rowsEq, lk_single, lk_series, lk_parallel, exprCls, iha, ihb]

end TraitsVerif.Model.DslEq
