/-
Cluster `obs`: the refinement invariant "hooks = from-scratch hooks of the current
heap" and its preservation by a trait assignment (fragment `SetFrag`; proof
structure L3 / L4 of DESIGN.md §C08).

Decomposition (L4).  Fix the mutated trait `o.n`.  Walking `g` from `x` in heap
`h`, call a *visit* a node `named n` reached at object `o` (its children are
then walked from the value of `o.n`).  `stable` collects everything the walk owes
outside the sub-walks below top-level visits, `visits` the child graphs of the
top-level visits.  For every heap `h'` that differs from `h` only in the value of
`o.n` (`Rel`):   hookList h' g x  =  stable h g x  +  Σ_{c ∈ visits h g x} hookList h' c (new value).
-/
import TraitsVerif.Lemmas.ObsQuiet
namespace TraitsVerif.Model.Obs
open TraitsVerif

/-- The refinement invariant: at every observable and for every notifier key the
hooks hold exactly what the active registrations owe in the current heap. -/
def HooksEqReach (h : Heap) (H : Hooks) (regs : List Reg) : Prop :=
  WF H ∧ ∀ o q, cnt H o q = specCnt h regs o q

/-! ### graphs without `filtered` nodes -/

def Observer.isFiltered : Observer → Bool
  | .filtered .. => true
  | _ => false

mutual
def Graph.noFiltered : Graph → Bool
  | .node ob cs => !ob.isFiltered && Graph.noFilteredL cs
def Graph.noFilteredL : List Graph → Bool
  | [] => true
  | c :: cs => Graph.noFiltered c && Graph.noFilteredL cs
end

theorem Graph.noFilteredL_iff (cs : List Graph) : Graph.noFilteredL cs = true ↔ ∀ c ∈ cs, c.noFiltered = true := by
  induction cs with
  | nil => simp [Graph.noFilteredL]
  | cons c cs ih => simp [Graph.noFilteredL, ih]

theorem Graph.noFiltered_node (ob : Observer) (cs : List Graph) :
    (Graph.node ob cs).noFiltered = true ↔ ob.isFiltered = false ∧ ∀ c ∈ cs, c.noFiltered = true := by
  simp [Graph.noFiltered, Graph.noFilteredL_iff]

/-! ### visits of the mutated trait -/

/-- the node reads `o.n` when it has children: a `named n` observer standing on `o` -/
def readsAt (ob : Observer) (x : W) (o : Id) (n : Name) : Bool :=
  match ob with
  | .named m _ _ => x == some o && m == n
  | _ => false

mutual
def visits (h : Heap) (o : Id) (n : Name) : Graph → W → List Graph
  | .node ob cs, x =>
    (if readsAt ob x o n && hasTrait h x n then cs else []) ++ visitsCs h o n ob x cs
def visitsCs (h : Heap) (o : Id) (n : Name) (ob : Observer) (x : W) : List Graph → List Graph
  | [] => []
  | c :: cs =>
    (if readsAt ob x o n then [] else (okOr [] (objects h ob x)).flatMap (fun y => visits h o n c y)) ++
    visitsCs h o n ob x cs
end

mutual
def stable (h : Heap) (k : HKey) (o : Id) (n : Name) (extra : Bool) : Graph → W → List Item
  | .node ob cs, x =>
    ownItems h k ob cs x ++ stableCs h k o n ob x cs ++
    (if extra then (okOr [] (extraObservables h ob x)).map (fun ob' => (ob', NKey.maint .added (.node ob cs) k)) else [])
def stableCs (h : Heap) (k : HKey) (o : Id) (n : Name) (ob : Observer) (x : W) : List Graph → List Item
  | [] => []
  | c :: cs =>
    (if readsAt ob x o n then [] else (okOr [] (objects h ob x)).flatMap (fun y => stable h k o n true c y)) ++
    stableCs h k o n ob x cs
end

/-- `h'` differs from `h` at most in the value of `o.n`, which is `new` in `h'`. -/
structure Rel (h h' : Heap) (o : Id) (n : Name) (new : Val) : Prop where
  obs : ∀ ob x, ob.isFiltered = false → observables h' ob x = observables h ob x
  ext : ∀ ob x, ob.isFiltered = false → extraObservables h' ob x = extraObservables h ob x
  objs : ∀ ob x, ob.isFiltered = false → readsAt ob x o n = false → objects h' ob x = objects h ob x
  objsR : ∀ ob x, readsAt ob x o n = true → hasTrait h x n = true → objects h' ob x = .ok (valObjects new)
  objsN : ∀ ob x, readsAt ob x o n = true → hasTrait h x n = false → objects h' ob x = objects h ob x

/-- sum of a count over the blocks below the visits -/
def blocks (h' : Heap) (k : HKey) (new : Val) (vs : List Graph) (o' : Observable) (q : NKey) : Nat :=
  (vs.map (fun c => cntItems ((valObjects new).flatMap (fun w => hookList h' k true c w)) o' q)).sum

theorem blocks_append (h' : Heap) (k : HKey) (new : Val) (a b : List Graph) (o' : Observable) (q : NKey) :
    blocks h' k new (a ++ b) o' q = blocks h' k new a o' q + blocks h' k new b o' q := by
  simp [blocks, List.map_append, List.sum_append]

theorem blocks_nil (h' : Heap) (k : HKey) (new : Val) (o' : Observable) (q : NKey) :
    blocks h' k new [] o' q = 0 := rfl

theorem blocks_flatMap {α} (h' : Heap) (k : HKey) (new : Val) (l : List α) (f : α → List Graph)
    (o' : Observable) (q : NKey) :
    blocks h' k new (l.flatMap f) o' q = (l.map (fun a => blocks h' k new (f a) o' q)).sum := by
  induction l with
  | nil => rfl
  | cons a l ih => simp [List.flatMap_cons, blocks_append, ih]

theorem sum_map_add {α} (l : List α) (f g : α → Nat) :
    (l.map (fun a => f a + g a)).sum = (l.map f).sum + (l.map g).sum := by
  induction l with
  | nil => rfl
  | cons a l ih => simp [ih]; omega

/-- L4, one heap at a time. -/
def DecSpec (h h' : Heap) (k : HKey) (o : Id) (n : Name) (new : Val) (g : Graph) : Prop :=
  g.noFiltered = true → ∀ (e : Bool) (x : W) (o' : Observable) (q : NKey),
    cntItems (hookList h' k e g x) o' q =
      cntItems (stable h k o n e g x) o' q + blocks h' k new (visits h o n g x) o' q

theorem ownItems_rel {h h' : Heap} {o : Id} {n : Name} {new : Val} (R : Rel h h' o n new) (k : HKey)
    (ob : Observer) (cs : List Graph) (x : W) (hf : ob.isFiltered = false) :
    ownItems h' k ob cs x = ownItems h k ob cs x := by
  simp [ownItems, R.obs ob x hf]

theorem dec {h h' : Heap} {o : Id} {n : Name} {new : Val} (R : Rel h h' o n new) (k : HKey) :
    ∀ g, DecSpec h h' k o n new g := by
  apply Graph.ind
  intro ob cs ih hnf e x o' q
  obtain ⟨hf, hcs⟩ := (Graph.noFiltered_node ob cs).1 hnf
  -- children part
  have hC : ∀ cs' : List Graph, (∀ c ∈ cs', c ∈ cs) →
      cntItems (hookListCs h' k ob x cs') o' q =
        cntItems (stableCs h k o n ob x cs') o' q +
        blocks h' k new ((if readsAt ob x o n && hasTrait h x n then cs' else []) ++ visitsCs h o n ob x cs') o' q := by
    intro cs'
    induction cs' with
    | nil => intro _; simp [hookListCs, stableCs, visitsCs, cntItems_nil, blocks_nil]
    | cons c cs' ihc =>
      intro hsub
      have hc := hsub c (List.mem_cons_self ..)
      have ihc' := ihc (fun c' hc' => hsub c' (List.mem_cons_of_mem _ hc'))
      rw [hookListCs_cons, cntItems_append, ihc']
      simp only [stableCs, visitsCs, cntItems_append, blocks_append]
      by_cases hr : readsAt ob x o n = true
      · by_cases ht : hasTrait h x n = true
        · -- a visit: the children are walked from the new value of `o.n`
          simp only [hr, ht, Bool.and_self, if_true, cntItems_nil, blocks_nil, R.objsR ob x hr ht, okOr]
          have : blocks h' k new (c :: cs') o' q =
              cntItems ((valObjects new).flatMap (fun w => hookList h' k true c w)) o' q + blocks h' k new cs' o' q := by
            simp [blocks]
          rw [this]; omega
        · have ht' : hasTrait h x n = false := by simpa using ht
          have hobj : (okOr [] (objects h' ob x) : List W) = [] := by
            rw [R.objsN ob x hr ht']
            cases ob with
            | named m nt opt =>
              simp only [readsAt, Bool.and_eq_true, beq_iff_eq] at hr
              obtain ⟨_, rfl⟩ := hr
              simp only [objects, ht', Bool.false_eq_true, if_false]
              split <;> rfl
            | _ => simp [readsAt] at hr
          simp only [hr, ht', Bool.and_false, Bool.false_eq_true, if_false, if_true, hobj, List.flatMap_nil,
            cntItems_nil, blocks_nil, List.nil_append]
          omega
      · have hr' : readsAt ob x o n = false := by simpa using hr
        simp only [hr', Bool.false_and, Bool.false_eq_true, if_false, List.nil_append, R.objs ob x hf hr']
        rw [cntItems_flatMap, cntItems_flatMap, blocks_flatMap]
        have : ∀ y, cntItems (hookList h' k true c y) o' q =
            cntItems (stable h k o n true c y) o' q + blocks h' k new (visits h o n c y) o' q :=
          fun y => ih c hc (hcs c hc) true y o' q
        simp only [this, sum_map_add]
        simp only [blocks_nil, blocks_append] at *
        omega
  rw [hookList_node, cntItems_append, cntItems_append, hC cs (fun c hc => hc)]
  simp only [stable, visits, cntItems_append, ownItems_rel R k ob cs x hf, R.ext ob x hf, extraItems]
  omega

/-! ### instances of `Rel` -/

theorem Rel.self (h : Heap) (o : Id) (n : Name) : Rel h h o n (fieldVal h (some o) n) where
  obs := fun _ _ _ => rfl
  ext := fun _ _ _ => rfl
  objs := fun _ _ _ _ => rfl
  objsN := fun _ _ _ _ => rfl
  objsR := by
    intro ob x hr ht
    cases ob with
    | named m nt opt =>
      simp only [readsAt, Bool.and_eq_true, beq_iff_eq] at hr
      obtain ⟨rfl, rfl⟩ := hr
      simp [objects, ht]
    | _ => simp [readsAt] at hr

theorem findField_setFieldVal (fs : List Field) (n m : Name) (v : Val) :
    findField (setFieldVal fs n v) m =
      (findField fs m).map (fun fl => if fl.name == n then { fl with val := v } else fl) := by
  induction fs with
  | nil => rfl
  | cons f fs ih =>
    unfold findField setFieldVal at *
    simp only [List.map_cons, List.find?_cons]
    by_cases hn : (f.name == n) = true
    · have hn2 : f.name = n := by simpa using hn
      simp only [hn, if_true]
      cases hm : (f.name == m) with
      | true => simp [hn2]
      | false => simpa using ih
    · have hn' : (f.name == n) = false := by simpa using hn
      have hn2 : ¬ f.name = n := by simpa using hn'
      simp only [hn', Bool.false_eq_true, if_false]
      cases hm : (f.name == m) with
      | true => simp [hn2]
      | false => simpa using ih

section store
variable {h : Heap} {o : Id} {n : Name} {fs : List Field} {f : Field}

theorem storeField_eq (v : Val) (ho : h.get o = .inst fs) :
    storeField h o n v = h.upd o (.inst (setFieldVal fs n v)) := by
  simp [storeField, ho]

theorem store_get (v : Val) (ho : h.get o = .inst fs) (i : Id) :
    (storeField h o n v).get i = if i = o then .inst (setFieldVal fs n v) else h.get i := by
  rw [storeField_eq v ho, Heap.get_upd]

theorem store_at_ne (v : Val) (ho : h.get o = .inst fs) (x : W) (hx : x ≠ some o) :
    (storeField h o n v).at x = h.at x := by
  cases x with
  | none => rfl
  | some i =>
    have : i ≠ o := fun e => hx (by rw [e])
    simp [Heap.at, store_get v ho, this]

theorem store_at_o (v : Val) (ho : h.get o = .inst fs) :
    (storeField h o n v).at (some o) = .inst (setFieldVal fs n v) := by
  simp [Heap.at, store_get v ho]

theorem store_hasTrait (v : Val) (ho : h.get o = .inst fs) (x : W) (m : Name) :
    hasTrait (storeField h o n v) x m = hasTrait h x m := by
  by_cases hx : x = some o
  · subst hx
    simp only [hasTrait, Heap.at, store_get v ho, if_true, ho, findField_setFieldVal]
    cases findField fs m <;> rfl
  · simp [hasTrait, store_at_ne v ho x hx]

theorem store_fieldVal_other (v : Val) (ho : h.get o = .inst fs) (x : W) (m : Name)
    (hne : ¬ (x = some o ∧ m = n)) : fieldVal (storeField h o n v) x m = fieldVal h x m := by
  by_cases hx : x = some o
  · subst hx
    have hm : m ≠ n := fun e => hne ⟨rfl, e⟩
    simp only [fieldVal, Heap.at, store_get v ho, if_true, ho, findField_setFieldVal]
    cases hf : findField fs m with
    | none => rfl
    | some fl =>
      have : fl.name = m := by
        have := List.find?_some hf
        simpa using this
      have hfn : ¬ fl.name = n := by rw [this]; exact hm
      simp [hfn]
  · simp [fieldVal, store_at_ne v ho x hx]

theorem store_fieldVal_self (v : Val) (ho : h.get o = .inst fs) (hf : findField fs n = some f) :
    fieldVal (storeField h o n v) (some o) n = v := by
  have : f.name = n := by
    have := List.find?_some hf
    simpa using this
  simp [fieldVal, Heap.at, store_get v ho, findField_setFieldVal, hf, this]

theorem Rel.store (v : Val) (ho : h.get o = .inst fs) : Rel h (storeField h o n v) o n v where
  obs := by
    intro ob x hf
    cases ob with
    | named m nt opt => simp only [observables, store_hasTrait v ho]
    | filtered fl nt => simp [Observer.isFiltered] at hf
    | listItems nt opt =>
      by_cases hx : x = some o
      · subst hx; simp [observables, Heap.at, store_get v ho, ho]
      · simp [observables, store_at_ne v ho x hx]
    | dictItems nt opt =>
      by_cases hx : x = some o
      · subst hx; simp [observables, Heap.at, store_get v ho, ho]
      · simp [observables, store_at_ne v ho x hx]
    | setItems nt opt =>
      by_cases hx : x = some o
      · subst hx; simp [observables, Heap.at, store_get v ho, ho]
      · simp [observables, store_at_ne v ho x hx]
  ext := by
    intro ob x hf
    cases ob with
    | named m nt opt =>
      by_cases hx : x = some o
      · subst hx; simp [extraObservables, Heap.at, store_get v ho, ho]
      · simp [extraObservables, store_at_ne v ho x hx]
    | filtered fl nt => simp [Observer.isFiltered] at hf
    | listItems nt opt => rfl
    | dictItems nt opt => rfl
    | setItems nt opt => rfl
  objs := by
    intro ob x hf hr
    cases ob with
    | named m nt opt =>
      have hne : ¬ (x = some o ∧ m = n) := by
        intro ⟨a, b⟩
        simp [readsAt, a, b] at hr
      simp only [objects, store_hasTrait v ho, store_fieldVal_other v ho x m hne]
    | filtered fl nt => simp [Observer.isFiltered] at hf
    | listItems nt opt =>
      by_cases hx : x = some o
      · subst hx; simp [objects, Heap.at, store_get v ho, ho]
      · simp [objects, store_at_ne v ho x hx]
    | dictItems nt opt =>
      by_cases hx : x = some o
      · subst hx; simp [objects, Heap.at, store_get v ho, ho]
      · simp [objects, store_at_ne v ho x hx]
    | setItems nt opt =>
      by_cases hx : x = some o
      · subst hx; simp [objects, Heap.at, store_get v ho, ho]
      · simp [objects, store_at_ne v ho x hx]
  objsR := by
    intro ob x hr ht
    cases ob with
    | named m nt opt =>
      simp only [readsAt, Bool.and_eq_true, beq_iff_eq] at hr
      obtain ⟨rfl, rfl⟩ := hr
      have : ∃ f, findField fs m = some f := by
        simp only [hasTrait, Heap.at, ho] at ht
        cases hf : findField fs m with
        | none => simp [hf] at ht
        | some f => exact ⟨f, rfl⟩
      obtain ⟨f, hf⟩ := this
      simp [objects, store_hasTrait v ho, ht, store_fieldVal_self v ho hf]
    | _ => simp [readsAt] at hr
  objsN := by
    intro ob x hr ht
    cases ob with
    | named m nt opt =>
      simp only [readsAt, Bool.and_eq_true, beq_iff_eq] at hr
      obtain ⟨rfl, rfl⟩ := hr
      simp [objects, store_hasTrait v ho, ht]
    | _ => simp [readsAt] at hr

end store

/-! ### membership in the from-scratch list -/

/-- at a visit every child graph leaves a maintainer on the mutated trait -/
theorem visit_item (h : Heap) (k : HKey) (ob : Observer) (cs : List Graph) (x : W) (o : Id) (n : Name)
    (hr : readsAt ob x o n = true) (ht : hasTrait h x n = true) (c : Graph) (hc : c ∈ cs) :
    (Observable.trait o n, NKey.maint .trait c k) ∈ ownItems h k ob cs x := by
  cases ob with
  | named m nt opt =>
    simp only [readsAt, Bool.and_eq_true, beq_iff_eq] at hr
    obtain ⟨rfl, rfl⟩ := hr
    simp only [ownItems, observables, ht, if_true, okOr, List.mem_append, List.mem_flatMap, List.mem_map]
    exact Or.inr ⟨.trait o m, by simp, c, hc, rfl⟩
  | _ => simp [readsAt] at hr

theorem flatMap_congr' {α β} (l : List α) (f g : α → List β) (hfg : ∀ a ∈ l, f a = g a) :
    l.flatMap f = l.flatMap g := by
  induction l with
  | nil => rfl
  | cons a l ih =>
    rw [List.flatMap_cons, List.flatMap_cons, hfg a (List.mem_cons_self ..),
      ih (fun b hb => hfg b (List.mem_cons_of_mem _ hb))]

/-! ### L3: a walk that never touches the mutated trait is the same in both heaps -/

def LocalSpec (h h' : Heap) (k : HKey) (o : Id) (n : Name) (g : Graph) : Prop :=
  g.noFiltered = true → ∀ (e : Bool) (x : W), (∀ it ∈ hookList h k e g x, it.1 ≠ .trait o n) →
    hookList h' k e g x = hookList h k e g x

theorem locality {h h' : Heap} {o : Id} {n : Name} {new : Val} (R : Rel h h' o n new) (k : HKey) :
    ∀ g, LocalSpec h h' k o n g := by
  apply Graph.ind
  intro ob cs ih hnf e x hno
  obtain ⟨hf, hcs⟩ := (Graph.noFiltered_node ob cs).1 hnf
  -- with a child, the node does not read `o.n` (else its maintainer sits on the mutated trait)
  have hobj : cs ≠ [] → objects h' ob x = objects h ob x := by
    intro hne
    by_cases hr : readsAt ob x o n = true
    · by_cases ht : hasTrait h x n = true
      · exfalso
        obtain ⟨c, hc⟩ := List.exists_mem_of_ne_nil cs hne
        exact hno _ (mem_hookList_own h k e ob cs x _ (visit_item h k ob cs x o n hr ht c hc)) rfl
      · exact R.objsN ob x hr (by simpa using ht)
    · exact R.objs ob x hf (by simpa using hr)
  have hC : ∀ cs' : List Graph, (∀ c ∈ cs', c ∈ cs) → hookListCs h' k ob x cs' = hookListCs h k ob x cs' := by
    intro cs'
    induction cs' with
    | nil => intro _; rfl
    | cons c cs' ihc =>
      intro hsub
      have hc := hsub c (List.mem_cons_self ..)
      have hne : cs ≠ [] := by intro e'; rw [e'] at hc; cases hc
      rw [hookListCs_cons, hookListCs_cons, ihc (fun c' hc' => hsub c' (List.mem_cons_of_mem _ hc')), hobj hne]
      congr 1
      apply flatMap_congr'
      intro y hy
      exact ih c hc (hcs c hc) true y (fun it hit => hno it (mem_hookList_child h k e ob cs x it c hc y hy hit))
  rw [hookList_node, hookList_node, hC cs (fun c hc => hc), ownItems_rel R k ob cs x hf, R.ext ob x hf]

/-! ### the maintainers `stable` leaves on the mutated trait are the visits -/

def visitHits (k : HKey) (vs : List Graph) (q0 : NKey) : Nat :=
  (vs.map (fun c => hit (NKey.maint .trait c k) q0)).sum

theorem visitHits_append (k : HKey) (a b : List Graph) (q0 : NKey) :
    visitHits k (a ++ b) q0 = visitHits k a q0 + visitHits k b q0 := by
  simp [visitHits, List.map_append, List.sum_append]

theorem visitHits_flatMap {α} (k : HKey) (l : List α) (f : α → List Graph) (q0 : NKey) :
    visitHits k (l.flatMap f) q0 = (l.map (fun a => visitHits k (f a) q0)).sum := by
  induction l with
  | nil => rfl
  | cons a l ih => simp [List.flatMap_cons, visitHits_append, ih]

theorem cntItems_map_user (k : HKey) (os : List Observable) (o' : Observable) (mk : MKind) (c0 : Graph) (k0 : HKey) :
    cntItems (os.map (fun ob' => (ob', NKey.user k))) o' (.maint mk c0 k0) = 0 := by
  induction os with
  | nil => rfl
  | cons a os ih => rw [List.map_cons, cntItems_cons, ih]; simp [wt, hit, NKey.equals]

theorem cntItems_map_added (g : Graph) (k : HKey) (os : List Observable) (o' : Observable) (c0 : Graph) (k0 : HKey) :
    cntItems (os.map (fun ob' => (ob', NKey.maint .added g k))) o' (.maint .trait c0 k0) = 0 := by
  induction os with
  | nil => rfl
  | cons a os ih => rw [List.map_cons, cntItems_cons, ih]; simp [wt, hit, NKey.equals]

theorem cntItems_maint_at (ob' o' : Observable) (mk : MKind) (k : HKey) (cs : List Graph) (q0 : NKey) :
    cntItems (cs.map (fun c => (ob', NKey.maint mk c k))) o' q0 =
      if ob' = o' then (cs.map (fun c => hit (NKey.maint mk c k) q0)).sum else 0 := by
  induction cs with
  | nil => simp [cntItems_nil]
  | cons c cs ih =>
    rw [List.map_cons, cntItems_cons, ih]
    by_cases e : ob' = o' <;> simp [wt, e]

/-- own items of a node on the mutated trait, for a trait-maintainer key -/
theorem ownItems_at_target (h : Heap) (k : HKey) (ob : Observer) (cs : List Graph) (x : W) (o : Id) (n : Name)
    (hf : ob.isFiltered = false) (c0 : Graph) (k0 : HKey) :
    cntItems (ownItems h k ob cs x) (.trait o n) (.maint .trait c0 k0) =
      visitHits k (if readsAt ob x o n && hasTrait h x n then cs else []) (.maint .trait c0 k0) := by
  unfold ownItems
  rw [cntItems_append]
  have hu : cntItems (if ob.notify then (okOr [] (observables h ob x)).map (fun o' => (o', NKey.user k)) else [])
      (.trait o n) (.maint .trait c0 k0) = 0 := by
    split
    · exact cntItems_map_user k _ _ _ _ _
    · rfl
  rw [hu, Nat.zero_add, cntItems_flatMap]
  cases ob with
  | filtered fl nt => simp [Observer.isFiltered] at hf
  | named m nt opt =>
    cases x with
    | none =>
      have : readsAt (.named m nt opt) none o n = false := by simp [readsAt]
      simp only [this, Bool.false_and, Bool.false_eq_true, if_false, visitHits, List.map_nil, List.sum_nil]
      simp only [observables]
      split <;> simp [okOr]
    | some i =>
      simp only [observables]
      by_cases ht : hasTrait h (some i) m = true
      · simp only [ht, if_true, okOr, List.map_cons, List.map_nil, List.sum_cons, List.sum_nil, Nat.add_zero,
          cntItems_maint_at, Observer.mkind]
        by_cases e : i = o ∧ m = n
        · obtain ⟨rfl, rfl⟩ := e
          simp [readsAt, ht, visitHits]
        · have : readsAt (.named m nt opt) (some i) o n = false := by
            simp only [readsAt, Bool.and_eq_false_iff, beq_eq_false_iff_ne, ne_eq, Option.some.injEq]
            by_cases e1 : i = o
            · exact Or.inr (fun e2 => e ⟨e1, e2⟩)
            · exact Or.inl e1
          have hne : ¬ (Observable.trait i m = Observable.trait o n) := by
            intro e'; injection e' with a b; exact e ⟨a, b⟩
          simp [this, hne, visitHits]
      · have ht' : hasTrait h (some i) m = false := by simpa using ht
        have : (readsAt (.named m nt opt) (some i) o n && hasTrait h (some i) n) = false := by
          by_cases e : m = n
          · subst e; simp [ht']
          · simp [readsAt, e]
        simp only [ht', Bool.false_eq_true, if_false, this, visitHits, List.map_nil, List.sum_nil]
        split <;> simp [okOr]
  | listItems nt opt =>
    have hr : readsAt (.listItems nt opt) x o n = false := rfl
    simp only [hr, Bool.false_and, Bool.false_eq_true, if_false, visitHits, List.map_nil, List.sum_nil, observables]
    split
    · simp [okOr, cntItems_maint_at]
    · split <;> simp [okOr]
  | dictItems nt opt =>
    have hr : readsAt (.dictItems nt opt) x o n = false := rfl
    simp only [hr, Bool.false_and, Bool.false_eq_true, if_false, visitHits, List.map_nil, List.sum_nil, observables]
    split
    · simp [okOr, cntItems_maint_at]
    · split <;> simp [okOr]
  | setItems nt opt =>
    have hr : readsAt (.setItems nt opt) x o n = false := rfl
    simp only [hr, Bool.false_and, Bool.false_eq_true, if_false, visitHits, List.map_nil, List.sum_nil, observables]
    split
    · simp [okOr, cntItems_maint_at]
    · split <;> simp [okOr]

def StableSpec (h : Heap) (k : HKey) (o : Id) (n : Name) (g : Graph) : Prop :=
  g.noFiltered = true → ∀ (e : Bool) (x : W) (c0 : Graph) (k0 : HKey),
    cntItems (stable h k o n e g x) (.trait o n) (.maint .trait c0 k0) =
      visitHits k (visits h o n g x) (.maint .trait c0 k0)

theorem stable_at_target (h : Heap) (k : HKey) (o : Id) (n : Name) : ∀ g, StableSpec h k o n g := by
  apply Graph.ind
  intro ob cs ih hnf e x c0 k0
  obtain ⟨hf, hcs⟩ := (Graph.noFiltered_node ob cs).1 hnf
  have hC : ∀ cs' : List Graph, (∀ c ∈ cs', c ∈ cs) →
      cntItems (stableCs h k o n ob x cs') (.trait o n) (.maint .trait c0 k0) =
        visitHits k (visitsCs h o n ob x cs') (.maint .trait c0 k0) := by
    intro cs'
    induction cs' with
    | nil => intro _; rfl
    | cons c cs' ihc =>
      intro hsub
      have hc := hsub c (List.mem_cons_self ..)
      simp only [stableCs, visitsCs, cntItems_append, visitHits_append,
        ihc (fun c' hc' => hsub c' (List.mem_cons_of_mem _ hc'))]
      by_cases hr : readsAt ob x o n = true
      · simp [hr, cntItems_nil, visitHits]
      · have hr' : readsAt ob x o n = false := by simpa using hr
        simp only [hr', Bool.false_eq_true, if_false, cntItems_flatMap, visitHits_flatMap]
        have : ∀ y, cntItems (stable h k o n true c y) (.trait o n) (.maint .trait c0 k0) =
            visitHits k (visits h o n c y) (.maint .trait c0 k0) := fun y => ih c hc (hcs c hc) true y c0 k0
        simp only [this]
  simp only [stable, visits, cntItems_append, visitHits_append, hC cs (fun c hc => hc),
    ownItems_at_target h k ob cs x o n hf c0 k0]
  have : cntItems (if e then (okOr [] (extraObservables h ob x)).map
      (fun ob' => (ob', NKey.maint .added (.node ob cs) k)) else []) (.trait o n) (.maint .trait c0 k0) = 0 := by
    split
    · exact cntItems_map_added _ _ _ _ _ _
    · rfl
  rw [this]; omega

end TraitsVerif.Model.Obs
