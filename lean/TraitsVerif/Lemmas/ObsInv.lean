/-
Cluster `obs`: the refinement invariant "hooks = from-scratch hooks of the current
heap" and its preservation by mutations (fragment; see `InFragment`).
-/
import TraitsVerif.Lemmas.ObsQuiet
namespace TraitsVerif.Model.Obs
open TraitsVerif

/-- The refinement invariant: at every observable and for every notifier key the
hooks hold exactly what the active registrations owe in the current heap. -/
def HooksEqReach (h : Heap) (H : Hooks) (regs : List Reg) : Prop :=
  WF H ∧ ∀ o q, cnt H o q = specCnt h regs o q

end TraitsVerif.Model.Obs
