/-
Propagation of an in-place list mutation (`_sync_trait_items_modified`): the
operation the handler applies to a partner's list is C05's replay of the event
(`listStep_eventOp`), so a partner holding an equal list ends with an equal list
(`mutate_converges`) — provided no trait is reached twice by the propagation
(`visit … .Nodup`), which is where a cycle of links breaks the property.
-/
import TraitsVerif.Lemmas.SyncOps
import TraitsVerif.Lemmas.SeqStep
namespace TraitsVerif.Model.Sync
open TraitsVerif TraitsVerif.Py TraitsVerif.Model
variable {α : Type}

theorem toOption_some {ε β : Type} {x : Except ε β} {b : β} (h : x.toOption = some b) : x = .ok b := by
  cases x with
  | error e => simp [Except.toOption] at h
  | ok a => simp [Except.toOption] at h; rw [h]

/-- `listStep` succeeds only if the `TraitList` method does, with the same result. -/
theorem listStep_ok {E : Model.Env α} {l : List α} {op : Op α} {o : Out α}
    (h : listStep E l op = .ok o) : TraitList.step E l op = .ok o := by
  unfold listStep at h
  split at h
  · cases h
  · exact h

/-- `slice(n, n + r).indices(len)` for `0 ≤ n`, `n + r ≤ len`. -/
theorem indices_contig (len : Nat) (n : Int) (r : Nat) (hn : 0 ≤ n) (hr : n + r ≤ len) :
    (Slice.mk (some n) (some (n + r)) none).indices len = some (n, n + r, 1) := by
  simp only [Slice.indices, Option.getD_none, adjustStart, adjustStop]
  have h1 : ¬ n < 0 := by omega
  have h2 : ¬ n + (r : Int) < 0 := by omega
  simp only [h1, h2, if_false]
  simp only [show ¬ ((1 : Int) = 0) by omega, if_false, show ¬ ((1 : Int) < 0) by omega]
  congr 2
  · split <;> omega
  · congr 1; split <;> omega

/-- **The handler's operation is the replay of the event.** On a list `l` on
which the event `e` is in normal form and replays to `l'`, and with an item
validator that stores the added items unchanged,
`partner[index] = event.added` / `del partner[index]` succeeds and leaves `l'`. -/
theorem listStep_eventOp (Eq : Model.Env α) (l l' : List α) (e : Event α)
    (hrep : replay l e = some l') (hnf : NormalForm l e)
    (hfix : valAll Eq.v 0 e.added = .ok e.added) :
    ∃ o', listStep Eq l (eventOp e) = .ok o' ∧ o'.items = l' := by
  obtain ⟨ix, removed, added⟩ := e
  cases ix with
  | idx n =>
    simp only [NormalForm] at hnf
    obtain ⟨hn, hlen, _⟩ := hnf
    simp only at hn hlen hfix
    have hidx := indices_contig l.length n removed.length hn hlen
    have hrep' : l' = l.take n.toNat ++ added ++ l.drop (n.toNat + removed.length) := by
      simp only [replay] at hrep
      rw [if_neg (by omega)] at hrep
      cases hrep; rfl
    have hset : Py.setSlice l ⟨some n, some (n + removed.length), none⟩ added = .ok l' := by
      simp only [Py.setSlice, hidx, if_true, splice]
      rw [if_neg (by omega), hrep']
      congr 3
      omega
    simp only [eventOp, listStep, guardLen, true_or, if_true, Py.getSlice, hidx, TraitList.step, hfix, hset,
      normalizeSlice]
    split
    · exact ⟨_, rfl, rfl⟩
    · split <;> exact ⟨_, rfl, rfl⟩
  | slc a b k =>
    simp only [NormalForm] at hnf
    obtain ⟨ha, hab, hb, hk, hget, hlen⟩ := hnf
    simp only at hget hlen hfix
    have hidx : ∃ t, (Slice.mk (some a) (some b) (some k)).indices l.length = some t := by
      unfold Py.getSlice at hget
      split at hget
      · cases hget
      · rename_i a' b' k' h; exact ⟨_, h⟩
    obtain ⟨⟨a', b', k'⟩, hidx⟩ := hidx
    by_cases hadd : added = []
    · subst hadd
      have hdel : Py.delSlice l ⟨some a, some b, some k⟩ = .ok l' := by
        simp only [replay, List.isEmpty_nil, if_true] at hrep
        exact toOption_some hrep
      simp only [eventOp, List.isEmpty_nil, if_true, listStep, guardLen, hget, TraitList.step, hdel,
        normalizeSlice, hidx]
      split
      · exact ⟨_, rfl, rfl⟩
      · exact ⟨_, rfl, rfl⟩
    · have hne : added.isEmpty = false := by simpa using hadd
      have hset : Py.setSlice l ⟨some a, some b, some k⟩ added = .ok l' := by
        simp only [replay, hne] at hrep
        exact toOption_some hrep
      have hl : added.length = removed.length := by
        rcases hlen with h | h
        · exact absurd h hadd
        · exact h
      have hstep1 : ¬ ((some k : Option Int) = none ∨ (some k : Option Int) = some 1) := by
        rintro (h | h)
        · cases h
        · cases h; omega
      simp only [eventOp, hne, listStep, guardLen, hstep1, if_false, hget, hl, ne_eq, not_true_eq_false,
        TraitList.step, hfix, hset, normalizeSlice, hidx, Bool.false_and, Bool.false_eq_true]
      split <;> exact ⟨_, rfl, rfl⟩

/-! ### The partner's own propagation leaves the partner's list alone -/

variable {π : Type}

/-- When no trait is visited twice, the trait a propagation starts on ends with
what `apply` made of it. -/
theorem cascade_self {apply : World α → Pair → π → Except Exc (World α × Option α × Option π)}
    (hl : Local apply) {d : Nat} {w w1 w' : World α} {p : Pair} {x : π} {ret r1 : Option α} {y : Option π}
    (hnd : (visit w.edges (d + 1) w.locked p).Nodup)
    (happ : apply w p x = .ok (w1, r1, y)) (hc : cascade apply (d + 1) w p x = .ok (w', ret)) :
    SameAt p w1 w' := by
  obtain ⟨w1', pay, happ', hshape⟩ := cascade_succ_ok hc
  rw [happ] at happ'
  simp only [Except.ok.injEq, Prod.mk.injEq] at happ'
  obtain ⟨rfl, _, rfl⟩ := happ'
  rcases hshape with ⟨_, rfl⟩ | ⟨y', _, _, rfl⟩ | ⟨y', _, _, rfl⟩
  · exact SameAt.refl _ _
  · exact SameAt.refl _ _
  · have h1 : SameTabs w w1 := ⟨hl.edges happ, hl.locked happ, hl.hooked happ⟩
    rw [visit_succ, List.nodup_cons] at hnd
    have hf := foldl_footprint (rec := cascade apply d) (y := y') (es := w.edges) (L := p :: w.locked) (r := p)
      (fun q => visit w.edges d (p :: w.locked) q)
      (fun acc q acc' r' hq hc => cascade_frame hl d acc q y' acc' r' hq hc)
      (fun acc q acc' r' he hL hq hrq hc => cascade_footprint hl p d acc q y' acc' r' (by rw [hL]; exact hq)
        (by rw [he, hL]; exact hrq) hc)
      (w1.partners p) (w1.lock p) (by simp [World.lock, h1.1]) (by simp [World.lock, h1.2.1]) ?_
    · obtain ⟨a, b, c⟩ := hf
      exact ⟨by simpa [World.unlock, World.lock] using a, by simpa [World.unlock, World.lock] using b,
        by simpa [World.unlock, World.lock] using c⟩
    · intro q hq hqL hmem
      apply hnd.1
      refine List.mem_flatMap.mpr ⟨q, ?_, ?_⟩
      · rw [partners_congr h1.1] at hq; exact hq
      · rw [if_neg hqL]; exact hmem

theorem list_of_val {w w' : World α} {q : Pair} (h : w'.val q = w.val q) : w'.list q = w.list q := by
  simp [World.list, h]

/-- **Convergence of an in-place mutation, one command.** From a state with an
empty lock table, with the items handler registered on the mutated trait `p`,
a partner `q` whose list equals `p`'s and whose item validator stores the added
items unchanged: if the propagation reaches no trait twice, the mutation
succeeds exactly as on an unlinked list and both lists hold its result. -/
theorem mutate_converges (E : Env α) (w : World α) (p q : Pair) (op : Op α) (o : Out α) (e : Event α)
    (hL : w.locked = []) (he : (⟨p, q⟩ : Edge) ∈ w.edges)
    (hlp : E.isList p = true) (hlq : E.isList q = true) (hhook : p ∈ w.hooked)
    (hstep : listStep (E.tl p) (w.list p) op = .ok o) (hev : o.event = some e)
    (heq : w.list q = w.list p)
    (hfix : valAll (E.iv q) 0 e.added = .ok e.added)
    (hnr : (visit w.edges w.budget [] p).Nodup) :
    (w.mutate E p op).exc = none ∧ (w.mutate E p op).ret = o.ret ∧
      (w.mutate E p op).world.val p = .l o.items ∧ (w.mutate E p op).world.val q = .l o.items := by
  have hpos : 0 < w.edges.length := List.length_pos_of_mem he
  obtain ⟨d, hd⟩ : ∃ d, w.edges.length = d + 1 := ⟨w.edges.length - 1, by omega⟩
  have hbud : w.budget = (d + 1) + 1 := by simp [World.budget, hd]
  rw [hbud] at hnr
  -- the mutated trait itself
  have happ : applyMutate E w p op =
      .ok ({ w with val := upd w.val p (.l o.items), nItems := upd w.nItems p (w.nItems p + 1) },
           o.ret, some (eventOp e)) := by
    simp [applyMutate, hlp, hstep, hev, hhook]
  obtain ⟨w', hc⟩ := cascade_succ_of_apply (d := d + 1) happ
  have hres : w.mutate E p op = { world := w', ret := o.ret } := by
    unfold World.mutate; rw [hbud, hc]; rfl
  rw [hres]
  refine ⟨rfl, rfl, ?_, ?_⟩
  · -- p
    have := cascade_self (local_mutate E) (by rw [hL]; exact hnr) happ hc
    simp only
    rw [this.1]; simp [upd]
  · simp only
    by_cases hqp : q = p
    · subst hqp
      have := cascade_self (local_mutate E) (by rw [hL]; exact hnr) happ hc
      rw [this.1]; simp [upd]
    -- q ≠ p: split the loop at q
    obtain ⟨w1, pay, happ', hshape⟩ := cascade_succ_ok hc
    rw [happ] at happ'
    simp only [Except.ok.injEq, Prod.mk.injEq] at happ'
    obtain ⟨hw1, _, hpay⟩ := happ'
    have hw1e : w1.edges = w.edges := by rw [← hw1]
    have hw1l : w1.locked = [] := by rw [← hw1]; exact hL
    have hparts : w1.partners p = w.partners p := partners_congr hw1e p
    have hqmem : q ∈ w.partners p := by
      simp only [World.partners, List.mem_map, List.mem_filter]
      exact ⟨⟨p, q⟩, ⟨he, by simp⟩, rfl⟩
    rcases hshape with ⟨hy', _⟩ | ⟨y', _, hemp, _⟩ | ⟨y', hy', _, hw'⟩
    · rw [← hpay] at hy'; cases hy'
    · rw [hparts] at hemp
      have : w.partners p = [] := by simpa using hemp
      rw [this] at hqmem; cases hqmem
    · rw [← hpay] at hy'; cases hy'
      rw [hparts] at hw'
      obtain ⟨s, t, hst⟩ := List.append_of_mem hqmem
      -- what `Nodup` says about the three parts of the loop
      rw [visit_succ, List.nodup_cons] at hnr
      have hflat : ((w.edges.filter (fun e => e.src = p)).map (·.dst)) = s ++ q :: t := hst
      rw [hflat, List.flatMap_append, List.flatMap_cons] at hnr
      obtain ⟨_, hnd⟩ := hnr
      rw [List.nodup_append] at hnd
      obtain ⟨_, hnd2, hdis1⟩ := hnd
      rw [List.nodup_append] at hnd2
      obtain ⟨hndq, _, hdis2⟩ := hnd2
      have hqL : q ∉ [p] := by simpa using hqp
      rw [if_neg hqL] at hndq hdis1 hdis2
      have hqin : q ∈ visit w.edges (d + 1) [p] q := by rw [visit_succ]; simp
      have hs : ∀ t' ∈ s, t' ∉ [p] → q ∉ visit w.edges (d + 1) [p] t' := by
        intro t' ht' hl hmem
        refine hdis1 q (List.mem_flatMap.mpr ⟨t', ht', ?_⟩) q (List.mem_append_left _ hqin) rfl
        rw [if_neg hl]; exact hmem
      have ht : ∀ t' ∈ t, t' ∉ [p] → q ∉ visit w.edges (d + 1) [p] t' := by
        intro t' ht' hl hmem
        refine hdis2 q hqin q (List.mem_flatMap.mpr ⟨t', ht', ?_⟩) rfl
        rw [if_neg hl]; exact hmem
      -- generic pieces for the loop
      have hframe : ∀ acc t' acc' r', t' ∉ acc.locked →
          cascade (applyMutate E) (d + 1) acc t' (eventOp e) = .ok (acc', r') → SameTabs acc acc' :=
        fun acc t' acc' r' hq hc => cascade_frame (local_mutate E) _ acc t' _ acc' r' hq hc
      have hfoot : ∀ acc t' acc' r', acc.edges = w.edges → acc.locked = [p] → t' ∉ [p] →
          q ∉ visit w.edges (d + 1) [p] t' →
          cascade (applyMutate E) (d + 1) acc t' (eventOp e) = .ok (acc', r') → SameAt q acc acc' :=
        fun acc t' acc' r' he hL hq hrq hc => cascade_footprint (local_mutate E) q _ acc t' _ acc' r'
          (by rw [hL]; exact hq) (by rw [he, hL]; exact hrq) hc
      rw [hw', hst, List.foldl_append, List.foldl_cons]
      simp only [World.unlock]
      -- stage 1: the partners before q
      have hlock_e : (w1.lock p).edges = w.edges := by simp [World.lock, hw1e]
      have hlock_l : (w1.lock p).locked = [p] := by simp [World.lock, hw1l]
      have h1 := foldl_footprint (rec := cascade (applyMutate E) (d + 1)) (y := eventOp e) (es := w.edges)
        (L := [p]) (r := q) (fun t' => visit w.edges (d + 1) [p] t') hframe hfoot s (w1.lock p) hlock_e hlock_l hs
      have h1t := foldl_sameTabs (rec := cascade (applyMutate E) (d + 1)) (y := eventOp e) hframe s (w1.lock p)
      generalize hA : s.foldl (visitPartner (cascade (applyMutate E) (d + 1)) (eventOp e)) (w1.lock p) = A at h1 h1t
      have hAe : A.edges = w.edges := by rw [h1t.1]; exact hlock_e
      have hAl : A.locked = [p] := by rw [h1t.2.1]; exact hlock_l
      have hAq : A.list q = w.list p := by
        rw [list_of_val h1.1, ← heq]
        apply list_of_val
        rw [← hw1]; simp [World.lock, upd, hqp]
      -- stage 2: q itself
      obtain ⟨hrep, hnf⟩ := step_event_ok (E.tl p) (w.list p) op o e (listStep_ok hstep) hev
      obtain ⟨o', ho', hitems⟩ := listStep_eventOp (E.tl q) (w.list p) o.items e hrep hnf hfix
      have happq : ∃ wq rq payq, applyMutate E A q (eventOp e) = .ok (wq, rq, payq) ∧ wq.val q = .l o.items := by
        unfold applyMutate
        rw [hlq, if_pos rfl, hAq, ho']
        simp only
        split
        · exact ⟨_, _, _, rfl, by simp [upd, hitems]⟩
        · exact ⟨_, _, _, rfl, by simp [upd, hitems]⟩
      obtain ⟨wq, rq, payq, happq, hwq⟩ := happq
      obtain ⟨B, hcq⟩ := cascade_succ_of_apply (d := d) happq
      have hBq : B.val q = .l o.items := by
        have := cascade_self (local_mutate E) (by rw [hAe, hAl]; exact hndq) happq hcq
        rw [this.1]; exact hwq
      have hBt := hframe A q B rq (by rw [hAl]; exact hqL) hcq
      have hstepq : visitPartner (cascade (applyMutate E) (d + 1)) (eventOp e) A q = B := by
        unfold visitPartner
        rw [if_neg (by rw [hAl]; exact hqL), hcq]
      rw [hstepq]
      -- stage 3: the partners after q
      have h3 := foldl_footprint (rec := cascade (applyMutate E) (d + 1)) (y := eventOp e) (es := w.edges)
        (L := [p]) (r := q) (fun t' => visit w.edges (d + 1) [p] t') hframe hfoot t B
        (by rw [hBt.1]; exact hAe) (by rw [hBt.2.1]; exact hAl) ht
      rw [h3.1]; exact hBq

end TraitsVerif.Model.Sync
