/-
Helper lemma for C10: reset (`del obj.name`) with somebody listening.
-/
import TraitsVerif.Lemmas.AttrIso
import TraitsVerif.Lemmas.AttrMore
namespace TraitsVerif.Model.Attr
open TraitsVerif

/-- `del obj.name` of an assigned attribute while a notifier list exists (non-re-raising
exception handlers, no `post_setattr`): the default is computed ONCE, stored, and that very
object is what every handler is told as `new` (with the deleted value as `old`). -/
theorem reset_default {E : Env} (q : Quiet E) (t : TraitCore) (s : OSt) (old v : Id) (c : Ctx)
    (hk : t.kind = .trait) (hp : t.post = none) (hs : s.slot = some old) (hn : s.noNotify = false)
    (hex : (s.tn.isSome || s.on.isSome) = true)
    (hd : Attr.defaultValueFor E t s.self s.name s.ctx = (.ok v, c)) :
    (step E t s .del).1 = {}
    ∧ (step E t s .del).2.slot = some v
    ∧ (step E t s .del).2.ctx.fcalls = c.fcalls
    ∧ ∀ x ∈ (step E t s .del).2.ctx.log.drop s.ctx.log.length, x.old = old ∧ x.new = v := by
  obtain ⟨self, name, slot, cn, it, on, nn, ctx⟩ := s
  simp only [] at hs hn hd hex
  subst hs
  subst hn
  have hg : traitGetattr E t ⟨self, name, none, cn, it, on, false, ctx⟩ =
      (.ok v, ⟨self, name, some v, cn, it, on, false, c⟩) := by
    unfold traitGetattr
    simp only [hk]
    rw [getattrTrait_nopost E t _ hp]
    simp only [hd]
  have hlog : c.log = ctx.log := by
    have := (defaultValueFor_frame E t self name ctx).1.log
    rw [hd] at this; exact this
  have htn : ∀ (a : Option Id) (x : Ctx), (OSt.mk self name a cn it on false x).tn =
      (OSt.mk self name (some old) cn it on false ctx).tn := fun _ _ => rfl
  unfold step traitSetattr setattrTrait setattrTraitDel
  simp only [hk, htn none ctx, hex, hg, Bool.false_eq_true, if_false, if_true]
  by_cases hc : (testFlag t.flags Generated.TRAIT_COMPARISON_MODE_NONE || old != v) = true
  · simp only [hc, if_true, postSetattr, hp]
    cases hh : hasNotifiers (OSt.mk self name (some old) cn it on false ctx).tn on
    · simp [hlog]
    · simp only [if_true, callNotifiers_quiet q, Bool.false_eq_true, if_false]
      refine ⟨by first | rfl | trivial, by simp, by simp, ?_⟩
      intro x hx
      simp only [notified_log, hlog, List.drop_left] at hx
      exact mem_fired hx
  · simp [hc, hlog]

end TraitsVerif.Model.Attr
