/-
Listener-state algebra and the specifications of `register` / `unregister`
on tree-shaped heaps (helper lemmas for C16).
-/
import TraitsVerif.Lemmas.LegacyReach
namespace TraitsVerif.Model.Legacy
open List

/-! ### `LState` algebra -/

theorem addHooks_nil (s : LState) (o : Nat) : s.addHooks o [] = s := rfl
theorem addHooks_cons (s : LState) (o : Nat) (p) (ps) :
    s.addHooks o (p :: ps) = (s.addHook o p).addHooks o ps := rfl
theorem delHooks_nil (s : LState) (o : Nat) : s.delHooks o [] = s := rfl
theorem delHooks_cons (s : LState) (o : Nat) (p) (ps) :
    s.delHooks o (p :: ps) = (s.delHook o p).delHooks o ps := rfl

theorem addHooks_active (s : LState) (o : Nat) (ps) : (s.addHooks o ps).active = s.active := by
  induction ps generalizing s with
  | nil => rfl
  | cons p ps ih => rw [addHooks_cons, ih]; rfl

theorem delHooks_active (s : LState) (o : Nat) (ps) : (s.delHooks o ps).active = s.active := by
  induction ps generalizing s with
  | nil => rfl
  | cons p ps ih => rw [delHooks_cons, ih]; rfl

theorem addHooks_hooks_ne (s : LState) (o : Nat) (ps) {i : Nat} (hi : i ≠ o) :
    (s.addHooks o ps).hooks i = s.hooks i := by
  induction ps generalizing s with
  | nil => rfl
  | cons p ps ih => rw [addHooks_cons, ih]; simp [LState.addHook, hi]

theorem delHooks_hooks_ne (s : LState) (o : Nat) (ps) {i : Nat} (hi : i ≠ o) :
    (s.delHooks o ps).hooks i = s.hooks i := by
  induction ps generalizing s with
  | nil => rfl
  | cons p ps ih => rw [delHooks_cons, ih]; simp [LState.delHook, hi]

theorem addHooks_hooks_self_aux (s : LState) (o : Nat) (ps pre : List (Trait × HRef))
    (hpre : s.hooks o = pre) (hnd : (pre ++ ps).Nodup) :
    (s.addHooks o ps).hooks o = pre ++ ps := by
  induction ps generalizing s pre with
  | nil => simpa [addHooks_nil] using hpre
  | cons p ps ih =>
    rw [addHooks_cons]
    have hp : p ∉ pre := by
      intro hmem
      have := (List.nodup_append.mp hnd).2.2 p hmem p (by simp)
      exact this rfl
    have h1 : (s.addHook o p).hooks o = pre ++ [p] := by simp [LState.addHook, hpre, hp]
    have := ih (s.addHook o p) (pre ++ [p]) h1 (by simpa [List.append_assoc] using hnd)
    simpa [List.append_assoc] using this

theorem addHooks_hooks_self (s : LState) (o : Nat) (ps : List (Trait × HRef))
    (hnil : s.hooks o = []) (hnd : ps.Nodup) : (s.addHooks o ps).hooks o = ps := by
  simpa using addHooks_hooks_self_aux s o ps [] hnil (by simpa using hnd)

theorem delHooks_hooks_self_aux (s : LState) (o : Nat) (ps post : List (Trait × HRef))
    (hs : s.hooks o = ps ++ post) : (s.delHooks o ps).hooks o = post := by
  induction ps generalizing s with
  | nil => simpa [delHooks_nil] using hs
  | cons p ps ih =>
    rw [delHooks_cons]
    apply ih
    simp [LState.delHook, hs]

theorem delHooks_hooks_self (s : LState) (o : Nat) (ps : List (Trait × HRef))
    (hs : s.hooks o = ps) : (s.delHooks o ps).hooks o = [] :=
  delHooks_hooks_self_aux s o ps [] (by simpa using hs)

theorem mem_addActive {s : LState} {k o m x : Nat} :
    x ∈ (s.addActive k o).active m ↔ x ∈ s.active m ∨ (m = k ∧ x = o) := by
  unfold LState.addActive
  by_cases hm : m = k
  · subst hm
    by_cases ho : o ∈ s.active m
    · simp only [if_true, if_pos ho]
      constructor
      · exact Or.inl
      · rintro (h | ⟨_, rfl⟩); exact h; exact ho
    · simp [if_neg ho]
  · simp [hm]

theorem mem_popActive {s : LState} {k o m x : Nat} :
    x ∈ (s.popActive k o).active m ↔ x ∈ s.active m ∧ ¬(m = k ∧ x = o) := by
  unfold LState.popActive
  by_cases hm : m = k
  · subst hm; simp
  · simp [hm]

/-! ### Per-object notifier lists -/

theorem linkHooks_nodup (ty : LType) (k : Nat) (l : Link) : (linkHooks ty k l).Nodup := by
  obtain ⟨a, n⟩ := l
  cases n <;> cases a <;> cases ty <;> simp [linkHooks, isContainer]

theorem itemHooks_nodup (N : Name) (k : Nat) : (itemHooks N k).Nodup := by
  unfold itemHooks
  split
  · exact linkHooks_nodup _ _ _
  · split <;> simp [finalHooks]

theorem drop_cons_getElem? {α} {L : List α} {k : Nat} {l : α} {rest : List α}
    (hd : L.drop k = l :: rest) : L[k]? = some l ∧ L.drop (k + 1) = rest ∧ k < L.length := by
  induction L generalizing k with
  | nil => simp at hd
  | cons a L ih =>
    cases k with
    | zero => simp at hd; simp [hd]
    | succ k =>
      simp only [drop_succ_cons] at hd
      obtain ⟨h1, h2, h3⟩ := ih hd
      simp [h1, h2]; omega

theorem itemHooks_of_drop_cons {N : Name} {k : Nat} {l : Link} {rest : List Link}
    (hd : N.links.drop k = l :: rest) : itemHooks N k = linkHooks (typeOf N.htype k) k l := by
  simp [itemHooks, (drop_cons_getElem? hd).1]

theorem itemHooks_of_drop_nil {N : Name} {k : Nat}
    (hd : N.links.drop k = []) (hk : k ≤ N.links.length) : itemHooks N k = finalHooks N.final := by
  have hlen : N.links.length ≤ k := by simpa using hd
  have : k = N.links.length := by omega
  subst this
  simp [itemHooks]

/-- Consistency of the listener state on a tree: an object's notifiers are
exactly those of the one item it is active in. -/
structure Good (N : Name) (s : LState) : Prop where
  exact : ∀ o k, o ∈ s.active k → s.hooks o = itemHooks N k
  none : ∀ o, (∀ k, o ∉ s.active k) → s.hooks o = []
  ld : ∀ o k k', o ∈ s.active k → o ∈ s.active k' → k = k'

theorem Good.empty (N : Name) : Good N LState.empty :=
  ⟨by simp [LState.empty], by simp [LState.empty], by simp [LState.empty]⟩

theorem Good.regObj {N : Name} {s : LState} {k o : Nat} (hg : Good N s)
    (hfresh : ∀ m, o ∉ s.active m) : Good N ((s.addActive k o).addHooks o (itemHooks N k)) := by
  have hact : ∀ m x, x ∈ ((s.addActive k o).addHooks o (itemHooks N k)).active m ↔
      x ∈ s.active m ∨ (m = k ∧ x = o) := by
    intro m x; rw [addHooks_active]; exact mem_addActive
  have hself : ((s.addActive k o).addHooks o (itemHooks N k)).hooks o = itemHooks N k :=
    addHooks_hooks_self _ _ _ (hg.none o hfresh) (itemHooks_nodup N k)
  have hne : ∀ i, i ≠ o → ((s.addActive k o).addHooks o (itemHooks N k)).hooks i = s.hooks i :=
    fun i hi => addHooks_hooks_ne _ _ _ hi
  refine ⟨?_, ?_, ?_⟩
  · intro o' k' h'
    rcases (hact _ _).mp h' with h1 | ⟨rfl, rfl⟩
    · have : o' ≠ o := fun e => hfresh k' (e ▸ h1)
      rw [hne _ this]; exact hg.exact _ _ h1
    · exact hself
  · intro o' h'
    have hno : o' ≠ o := fun e => h' k ((hact _ _).mpr (Or.inr ⟨rfl, e⟩))
    rw [hne _ hno]
    exact hg.none _ (fun m hm => h' m ((hact _ _).mpr (Or.inl hm)))
  · intro o' k1 k2 h1 h2
    rcases (hact _ _).mp h1 with h1 | ⟨e1, e1'⟩ <;> rcases (hact _ _).mp h2 with h2 | ⟨e2, e2'⟩
    · exact hg.ld _ _ _ h1 h2
    · exact absurd (e2' ▸ h1) (hfresh _)
    · exact absurd (e1' ▸ h2) (hfresh _)
    · rw [e1, e2]

theorem Good.unregObj {N : Name} {s : LState} {k o : Nat} (hg : Good N s)
    (ho : o ∈ s.active k) : Good N ((s.popActive k o).delHooks o (itemHooks N k)) := by
  have hact : ∀ m x, x ∈ ((s.popActive k o).delHooks o (itemHooks N k)).active m ↔
      x ∈ s.active m ∧ ¬(m = k ∧ x = o) := by
    intro m x; rw [delHooks_active]; exact mem_popActive
  have hself : ((s.popActive k o).delHooks o (itemHooks N k)).hooks o = [] :=
    delHooks_hooks_self _ _ _ (hg.exact o k ho)
  have hne : ∀ i, i ≠ o → ((s.popActive k o).delHooks o (itemHooks N k)).hooks i = s.hooks i :=
    fun i hi => delHooks_hooks_ne _ _ _ hi
  refine ⟨?_, ?_, ?_⟩
  · intro o' k' h'
    obtain ⟨h1, h2⟩ := (hact _ _).mp h'
    have : o' ≠ o := by
      rintro rfl
      exact h2 ⟨hg.ld _ _ _ h1 ho, rfl⟩
    rw [hne _ this]; exact hg.exact _ _ h1
  · intro o' h'
    by_cases e : o' = o
    · subst e; exact hself
    · rw [hne _ e]
      exact hg.none _ (fun m hm => h' m ((hact _ _).mpr ⟨hm, fun ⟨_, e'⟩ => e e'⟩))
  · intro o' k1 k2 h1 h2
    exact hg.ld _ _ _ ((hact _ _).mp h1).1 ((hact _ _).mp h2).1

/-! ### `register` -/

theorem descFrom_nil_of_drop_nil {h : Heap} {N : Name} {k o j x : Nat}
    (hd : N.links.drop k = []) (hx : x ∈ descFrom h N.links k o (j + 1)) : False := by
  obtain ⟨l, p, hl, _, _⟩ := mem_descFrom_succ.mp hx
  have hlen : N.links.length ≤ k := by simpa using hd
  have : N.links[k + j]? = none := by simp; omega
  rw [this] at hl; cases hl

/-- `register` on a subtree none of whose objects is registered adds exactly the
subtree, level by level, and keeps the state consistent. -/
theorem register_spec {h : Heap} (ht : TreeShaped h) (N : Name) :
    ∀ (ls : List Link) (k o : Nat) (s : LState), N.links.drop k = ls → k ≤ N.links.length →
      Good N s → (∀ j x, x ∈ descFrom h N.links k o j → ∀ m, x ∉ s.active m) →
      Good N (register h N.htype N.final k ls o s) ∧
      ∀ m x, x ∈ (register h N.htype N.final k ls o s).active m ↔
        x ∈ s.active m ∨ (k ≤ m ∧ x ∈ descFrom h N.links k o (m - k)) := by
  intro ls
  induction ls with
  | nil =>
    intro k o s hd hk hg hfresh
    have ho : ∀ m, o ∉ s.active m := hfresh 0 o (by simp [mem_descFrom_zero])
    simp only [register, if_neg (ho k)]
    rw [← itemHooks_of_drop_nil hd hk]
    refine ⟨hg.regObj ho, ?_⟩
    intro m x
    rw [addHooks_active, mem_addActive]
    constructor
    · rintro (h1 | ⟨rfl, rfl⟩)
      · exact Or.inl h1
      · exact Or.inr ⟨Nat.le_refl _, by simp [mem_descFrom_zero]⟩
    · rintro (h1 | ⟨hkm, hx⟩)
      · exact Or.inl h1
      · rcases Nat.eq_or_lt_of_le hkm with rfl | hlt
        · simp [mem_descFrom_zero] at hx; exact Or.inr ⟨rfl, hx⟩
        · obtain ⟨j, hj⟩ : ∃ j, m - k = j + 1 := ⟨m - k - 1, by omega⟩
          rw [hj] at hx
          exact (descFrom_nil_of_drop_nil hd hx).elim
  | cons l rest ih =>
    intro k o s hd hk hg hfresh
    obtain ⟨hlk, hdrop, hklt⟩ := drop_cons_getElem? hd
    have ho : ∀ m, o ∉ s.active m := hfresh 0 o (by simp [mem_descFrom_zero])
    simp only [register, if_neg (ho k)]
    rw [← itemHooks_of_drop_cons hd]
    -- the fold over the children
    have fold : ∀ (cs : List Nat) (s : LState), (∀ c ∈ cs, c ∈ targets h l.attr o) → cs.Nodup →
        Good N s → (∀ c ∈ cs, ∀ j x, x ∈ descFrom h N.links (k + 1) c j → ∀ m, x ∉ s.active m) →
        Good N (cs.foldl (fun s c => register h N.htype N.final (k + 1) rest c s) s) ∧
        ∀ m x, x ∈ (cs.foldl (fun s c => register h N.htype N.final (k + 1) rest c s) s).active m ↔
          x ∈ s.active m ∨ (k + 1 ≤ m ∧ ∃ c ∈ cs, x ∈ descFrom h N.links (k + 1) c (m - (k + 1))) := by
      intro cs
      induction cs with
      | nil => intro s _ _ hg _; exact ⟨hg, by simp⟩
      | cons c cs ihc =>
        intro s hsub hnd hg hfr
        simp only [foldl_cons]
        obtain ⟨hg1, hact1⟩ := ih (k + 1) c s hdrop (by omega) hg (hfr c (by simp))
        have hnd' := (nodup_cons.mp hnd)
        obtain ⟨hg2, hact2⟩ := ihc _ (fun c' hc' => hsub c' (by simp [hc'])) hnd'.2 hg1 (by
          intro c' hc' j x hx m hm
          rcases (hact1 m x).mp hm with h1 | ⟨_, h2⟩
          · exact hfr c' (by simp [hc']) j x hx m h1
          · have hne : c ≠ c' := fun e => hnd'.1 (e ▸ hc')
            exact descFrom_siblings_disjoint ht (hsub c (by simp)) (hsub c' (by simp [hc'])) hne h2 hx)
        refine ⟨hg2, ?_⟩
        intro m x
        rw [hact2, hact1]
        constructor
        · rintro ((h1 | ⟨hm, hx⟩) | ⟨hm, c', hc', hx⟩)
          · exact Or.inl h1
          · exact Or.inr ⟨hm, c, by simp, hx⟩
          · exact Or.inr ⟨hm, c', by simp [hc'], hx⟩
        · rintro (h1 | ⟨hm, c', hc', hx⟩)
          · exact Or.inl (Or.inl h1)
          · rcases mem_cons.mp hc' with rfl | hc'
            · exact Or.inl (Or.inr ⟨hm, hx⟩)
            · exact Or.inr ⟨hm, c', hc', hx⟩
    have hg1 := hg.regObj (k := k) ho
    have hact1 : ∀ m x, x ∈ ((s.addActive k o).addHooks o (itemHooks N k)).active m ↔
        x ∈ s.active m ∨ (m = k ∧ x = o) := by
      intro m x; rw [addHooks_active]; exact mem_addActive
    obtain ⟨hg2, hact2⟩ := fold (targets h l.attr o) _ (fun _ hc => hc) (ht.nodup _ _) hg1 (by
      intro c hc j x hx m hm
      have hxd : x ∈ descFrom h N.links k o (j + 1) := mem_descFrom_cons.mpr ⟨l, c, hlk, hc, hx⟩
      rcases (hact1 m x).mp hm with h1 | ⟨_, rfl⟩
      · exact hfresh _ _ hxd m h1
      · have := descFrom_ge ht hxd; omega)
    refine ⟨hg2, ?_⟩
    intro m x
    rw [hact2, hact1]
    constructor
    · rintro ((h1 | ⟨rfl, rfl⟩) | ⟨hm, c, hc, hx⟩)
      · exact Or.inl h1
      · exact Or.inr ⟨Nat.le_refl _, by simp [mem_descFrom_zero]⟩
      · refine Or.inr ⟨by omega, ?_⟩
        rw [show m - k = (m - (k + 1)) + 1 by omega]
        exact mem_descFrom_cons.mpr ⟨l, c, hlk, hc, hx⟩
    · rintro (h1 | ⟨hkm, hx⟩)
      · exact Or.inl (Or.inl h1)
      · rcases Nat.eq_or_lt_of_le hkm with rfl | hlt
        · simp [mem_descFrom_zero] at hx; exact Or.inl (Or.inr ⟨rfl, hx⟩)
        · rw [show m - k = (m - (k + 1)) + 1 by omega] at hx
          obtain ⟨l', c, hl', hc, hx⟩ := mem_descFrom_cons.mp hx
          rw [hlk] at hl'; cases hl'
          exact Or.inr ⟨by omega, c, hc, hx⟩

/-! ### `unregister` -/

/-- `unregister` on a subtree all of whose objects are registered (at their
levels) removes exactly the subtree and keeps the state consistent. -/
theorem unregister_spec {h : Heap} (ht : TreeShaped h) (N : Name) :
    ∀ (ls : List Link) (k o : Nat) (s : LState), N.links.drop k = ls → k ≤ N.links.length →
      Good N s → (∀ j x, x ∈ descFrom h N.links k o j → x ∈ s.active (k + j)) →
      Good N (unregister h N.htype N.final k ls o s) ∧
      ∀ m x, x ∈ (unregister h N.htype N.final k ls o s).active m ↔
        x ∈ s.active m ∧ ¬(k ≤ m ∧ x ∈ descFrom h N.links k o (m - k)) := by
  intro ls
  induction ls with
  | nil =>
    intro k o s hd hk hg hall
    have ho : o ∈ s.active k := by simpa using hall 0 o (by simp [mem_descFrom_zero])
    simp only [unregister, if_pos ho]
    rw [← itemHooks_of_drop_nil hd hk]
    refine ⟨hg.unregObj ho, ?_⟩
    intro m x
    rw [delHooks_active, mem_popActive]
    constructor
    · rintro ⟨h1, h2⟩
      refine ⟨h1, ?_⟩
      rintro ⟨hkm, hx⟩
      rcases Nat.eq_or_lt_of_le hkm with rfl | hlt
      · simp [mem_descFrom_zero] at hx; exact h2 ⟨rfl, hx⟩
      · obtain ⟨j, hj⟩ : ∃ j, m - k = j + 1 := ⟨m - k - 1, by omega⟩
        rw [hj] at hx
        exact descFrom_nil_of_drop_nil hd hx
    · rintro ⟨h1, h2⟩
      refine ⟨h1, ?_⟩
      rintro ⟨rfl, rfl⟩
      exact h2 ⟨Nat.le_refl _, by simp [mem_descFrom_zero]⟩
  | cons l rest ih =>
    intro k o s hd hk hg hall
    obtain ⟨hlk, hdrop, hklt⟩ := drop_cons_getElem? hd
    have ho : o ∈ s.active k := by simpa using hall 0 o (by simp [mem_descFrom_zero])
    simp only [unregister, if_pos ho]
    rw [← itemHooks_of_drop_cons hd]
    have fold : ∀ (cs : List Nat) (s : LState), cs.Nodup →
        Good N s → (∀ c ∈ cs, ∀ j x, x ∈ descFrom h N.links (k + 1) c j → x ∈ s.active (k + 1 + j)) →
        Good N (cs.foldl (fun s c => unregister h N.htype N.final (k + 1) rest c s) s) ∧
        ∀ m x, x ∈ (cs.foldl (fun s c => unregister h N.htype N.final (k + 1) rest c s) s).active m ↔
          x ∈ s.active m ∧ ¬(k + 1 ≤ m ∧ ∃ c ∈ cs, x ∈ descFrom h N.links (k + 1) c (m - (k + 1))) := by
      intro cs
      induction cs with
      | nil => intro s _ hg _; exact ⟨hg, by simp⟩
      | cons c cs ihc =>
        intro s hnd hg hal
        simp only [foldl_cons]
        obtain ⟨hg1, hact1⟩ := ih (k + 1) c s hdrop (by omega) hg (hal c (by simp))
        have hnd' := (nodup_cons.mp hnd)
        obtain ⟨hg2, hact2⟩ := ihc _ hnd'.2 hg1 (by
          intro c' hc' j x hx
          rw [hact1]
          refine ⟨hal c' (by simp [hc']) j x hx, ?_⟩
          rintro ⟨_, hx'⟩
          rw [show k + 1 + j - (k + 1) = j by omega] at hx'
          have : c = c' := descFrom_same_depth ht hx' hx
          exact hnd'.1 (this ▸ hc'))
        refine ⟨hg2, ?_⟩
        intro m x
        rw [hact2, hact1]
        constructor
        · rintro ⟨⟨h1, h2⟩, h3⟩
          refine ⟨h1, ?_⟩
          rintro ⟨hm, c', hc', hx⟩
          rcases mem_cons.mp hc' with rfl | hc'
          · exact h2 ⟨hm, hx⟩
          · exact h3 ⟨hm, c', hc', hx⟩
        · rintro ⟨h1, h2⟩
          exact ⟨⟨h1, fun ⟨hm, hx⟩ => h2 ⟨hm, c, by simp, hx⟩⟩,
                 fun ⟨hm, c', hc', hx⟩ => h2 ⟨hm, c', by simp [hc'], hx⟩⟩
    have hg1 := hg.unregObj ho
    have hact1 : ∀ m x, x ∈ ((s.popActive k o).delHooks o (itemHooks N k)).active m ↔
        x ∈ s.active m ∧ ¬(m = k ∧ x = o) := by
      intro m x; rw [delHooks_active]; exact mem_popActive
    obtain ⟨hg2, hact2⟩ := fold (targets h l.attr o) _ (ht.nodup _ _) hg1 (by
      intro c hc j x hx
      have hxd : x ∈ descFrom h N.links k o (j + 1) := mem_descFrom_cons.mpr ⟨l, c, hlk, hc, hx⟩
      rw [hact1]
      refine ⟨?_, by omega⟩
      have := hall _ _ hxd
      rwa [show k + (j + 1) = k + 1 + j by omega] at this)
    refine ⟨hg2, ?_⟩
    intro m x
    rw [hact2, hact1]
    constructor
    · rintro ⟨⟨h1, h2⟩, h3⟩
      refine ⟨h1, ?_⟩
      rintro ⟨hkm, hx⟩
      rcases Nat.eq_or_lt_of_le hkm with rfl | hlt
      · simp [mem_descFrom_zero] at hx; exact h2 ⟨rfl, hx⟩
      · rw [show m - k = (m - (k + 1)) + 1 by omega] at hx
        obtain ⟨l', c, hl', hc, hx⟩ := mem_descFrom_cons.mp hx
        rw [hlk] at hl'; cases hl'
        exact h3 ⟨by omega, c, hc, hx⟩
    · rintro ⟨h1, h2⟩
      refine ⟨⟨h1, ?_⟩, ?_⟩
      · rintro ⟨rfl, rfl⟩
        exact h2 ⟨Nat.le_refl _, by simp [mem_descFrom_zero]⟩
      · rintro ⟨hm, c, hc, hx⟩
        refine h2 ⟨by omega, ?_⟩
        rw [show m - k = (m - (k + 1)) + 1 by omega]
        exact mem_descFrom_cons.mpr ⟨l, c, hlk, hc, hx⟩

end TraitsVerif.Model.Legacy
