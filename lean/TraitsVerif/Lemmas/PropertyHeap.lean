/-
Heap / view lemmas for the C12 model: a mutation changes exactly one observable,
and a mutation that is not `relevant` leaves everything the expression selects
unchanged (locality / frame lemma).
-/
import TraitsVerif.Model.Property
namespace TraitsVerif.Model.Property
open TraitsVerif

theorem get_put (ob : Obj) (w : Write) (s : Slot) :
    (ob.put w).get s = if s = w.slot then w.content else ob.get s := by
  cases w with
  | scalar f v => cases f <;> cases s <;> (try rename_i f'; cases f') <;> simp [Obj.put, Obj.get, Write.slot, Write.content]
  | inst t => cases s <;> (try rename_i f'; cases f') <;> simp [Obj.put, Obj.get, Write.slot, Write.content]
  | kids l => cases s <;> (try rename_i f'; cases f') <;> simp [Obj.put, Obj.get, Write.slot, Write.content]
  | byname d => cases s <;> (try rename_i f'; cases f') <;> simp [Obj.put, Obj.get, Write.slot, Write.content]
  | tags t => cases s <;> (try rename_i f'; cases f') <;> simp [Obj.put, Obj.get, Write.slot, Write.content]

theorem content_apply (m : Mutation) (h : Heap) (o : Id) (s : Slot) :
    content (apply m h) o s =
      if o = m.obj ∧ s = m.w.slot then m.w.content else content h o s := by
  unfold content apply
  by_cases ho : o = m.obj
  · simp [ho, get_put]
  · simp [ho]

theorem content_apply_other (m : Mutation) (h : Heap) (o : Id) (s : Slot)
    (hne : (m.obj, m.w.slot) ≠ (o, s)) : content (apply m h) o s = content h o s := by
  rw [content_apply]
  split
  · rename_i hc
    exact absurd (by rw [hc.1, hc.2]) hne
  · rfl

/-- A non-notifying mutation leaves every observable as it was. -/
theorem content_apply_unchanged (m : Mutation) (h : Heap) (hc : changed h m = false) (o : Id) (s : Slot) :
    content (apply m h) o s = content h o s := by
  rw [content_apply]
  split
  · rename_i hos
    simp [changed] at hc
    rw [hos.1, hos.2]
    exact hc.2.symm
  · rfl

theorem sameView_of_content_eq (h h' : Heap) (hc : ∀ o s, content h o s = content h' o s) :
    ∀ (ls : List Link) (leaf : Slot) (o : Id), SameView h h' ls leaf o
  | [], leaf, o => hc o leaf
  | l :: ls, leaf, o => ⟨hc o l.slot, fun t _ => sameView_of_content_eq h h' hc ls leaf t⟩

/-- Locality: when the mutated observable is not matched from `o` along the
path, the heap after the mutation looks the same along that path. -/
theorem sameView_of_unmatched (m : Mutation) (h : Heap) :
    ∀ (ls : List Link) (leaf : Slot) (o : Id),
      matchedAt h (m.obj, m.w.slot) ls leaf o = false → SameView h (apply m h) ls leaf o
  | [], leaf, o, hm => by
    simp [matchedAt] at hm
    exact (content_apply_other m h o leaf (by simpa using hm)).symm
  | l :: ls, leaf, o, hm => by
    simp only [matchedAt, Bool.or_eq_false_iff, decide_eq_false_iff_not, List.any_eq_false] at hm
    refine ⟨(content_apply_other m h o l.slot hm.1).symm, fun t ht => ?_⟩
    apply sameView_of_unmatched m h ls leaf t
    have := hm.2 t ht
    simpa using this

/-- Frame lemma: a mutation that is not relevant for the expression changes
nothing the expression selects. -/
theorem sameViews_of_not_relevant (E : Expr) (root : Id) (h : Heap) (m : Mutation)
    (hr : relevant E root h m = false) : SameViews h (apply m h) E root := by
  intro p hp
  simp only [relevant, Bool.and_eq_false_iff] at hr
  cases hr with
  | inl hc =>
    exact sameView_of_content_eq h (apply m h) (fun o s => (content_apply_unchanged m h hc o s).symm) _ _ _
  | inr hm =>
    apply sameView_of_unmatched
    simp only [matched, List.any_eq_false] at hm
    have := hm p hp
    simpa using this

/-- Getters that are folds over the selected observables satisfy the user contract. -/
theorem foldView_congr {α : Type} (lf : Content → α) (nf : Content → List α → α) (h h' : Heap) :
    ∀ (ls : List Link) (leaf : Slot) (o : Id), SameView h h' ls leaf o →
      foldView lf nf h ls leaf o = foldView lf nf h' ls leaf o
  | [], leaf, o, hv => by
    simp only [foldView]
    rw [show content h o leaf = content h' o leaf from hv]
  | l :: ls, leaf, o, hv => by
    obtain ⟨hc, ht⟩ := hv
    simp only [foldView, targets]
    rw [← hc]
    congr 1
    apply List.map_congr_left
    intro t htm
    exact foldView_congr lf nf h h' ls leaf t (ht t htm)

theorem dependsOnly_foldExpr {α β : Type} (lf : Content → α) (nf : Content → List α → α)
    (E : Expr) (root : Id) (k : List α → β) :
    DependsOnly (fun h => k (foldExpr lf nf h E root)) E root := by
  intro h h' hv
  show k _ = k _
  congr 1
  unfold foldExpr
  apply List.map_congr_left
  intro p hp
  exact foldView_congr lf nf h h' p.links p.leaf root (hv p hp)

/-- The specification instance satisfies both interface assumptions. -/
theorem firesSpec_sound (P : Env Val) (hf : P.fires = firesSpec P.E P.root) : ObserveSound P := by
  intro h m hr
  rw [hf]
  exact hr

theorem firesSpec_tight (P : Env Val) (hf : P.fires = firesSpec P.E P.root) : ObserveTight P := by
  intro h m _ hfm
  rw [hf] at hfm
  exact hfm

end TraitsVerif.Model.Property
