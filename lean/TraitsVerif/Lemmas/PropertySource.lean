/-
C12 source tie: the model's step functions equal the interpretation
(`Model/PropL.lean`) of the terms translated from the working tree
(`Generated/PropertyProg.lean`, by `harness/translate/propsrc.py`).
-/
import TraitsVerif.Model.PropL
import TraitsVerif.Generated.PropertyProg
import TraitsVerif.Lemmas.PropertyInv
namespace TraitsVerif.Model.PropL
open TraitsVerif TraitsVerif.Model.Property TraitsVerif.Generated.PropertyProg

variable {Val : Type}

/-- `getattr(obj, 'p')` of the model = `getattr_property1` calling the getter,
which is `cached_property.decorator` as written in has_traits.py when the
user's function is wrapped. -/
theorem readProp_is_source (P : Env Val) (s : St Val) :
    readProp P s = readSrc decoratorProg P s := by
  unfold readSrc readProp
  by_cases hc : P.cached = true
  · simp only [hc, if_true]
    cases hcache : s.cache with
    | none =>
      simp only [decoratorProg, exec, evalS, lookupS, Atom.len, cacheKey, evalV, evalC, isUndef,
        lookupV, hcache, if_true, List.cons_append, List.nil_append, compute, callG, hc, dictSet]
      cases hG : P.G s.calls s.heap <;> simp [outcome, lookupV, hc]
    | some v =>
      simp only [decoratorProg, exec, evalS, lookupS, Atom.len, cacheKey, evalV, evalC, isUndef,
        lookupV, hcache, if_true, List.cons_append, List.nil_append, compute, callG, hc, dictSet]
      cases hu : P.isUndef v
      · simp [outcome, lookupV]
      · simp only [if_true]
        cases hG : P.G s.calls s.heap <;> simp [outcome, lookupV, hc]
  · simp only [Bool.not_eq_true] at hc
    simp only [hc, compute, callG]
    cases hG : P.G s.calls s.heap <;> simp

theorem readSrc_eq (P : Env Val) : readSrc decoratorProg P = readProp P :=
  funext (fun s => (readProp_is_source P s).symm)

/-- `trait_property_changed(name, old)` of the model = the body of the C function. -/
theorem tpc_is_source (P : Env Val) (s : St Val) (old : Old Val) :
    tpc P s old = tpcSrc tpcBody decoratorProg P s old := by
  unfold tpcSrc tpc
  rw [readSrc_eq]
  cases h1 : P.staticL <;> cases h2 : s.dyn <;> cases h3 : P.staticAny <;> cases h4 : s.dynObj <;>
    cases hr : readProp P s with
    | mk r s' =>
      have hd : s'.dyn = s.dyn := by have := readProp_dyn P s; rw [hr] at this; exact this
      have ho : s'.dynObj = s.dynObj := by have := readProp_dynObj P s; rw [hr] at this; exact this
      cases r <;>
        simp [tpcBody, execC, evalCE, setLoc, CVal.truthy, CVal.isNull, CVal.nonEmpty, retInt, listening,
          h1, h2, h3, h4, hr, mkNote, hd, ho]

/-- The return code of the C body: `-1` exactly when somebody listens and the
read raised (the getter's exception propagates), `0` otherwise. -/
theorem tpcRc_is_source (P : Env Val) (s : St Val) (old : Old Val) :
    tpcRcSrc tpcBody decoratorProg P s old =
      (if listening P s then (match (readProp P s).1 with | .error _ => -1 | .ok _ => 0) else 0) := by
  unfold tpcRcSrc
  rw [readSrc_eq]
  cases h1 : P.staticL <;> cases h2 : s.dyn <;> cases h3 : P.staticAny <;> cases h4 : s.dynObj <;>
    cases hr : readProp P s with
    | mk r s' =>
      cases r <;>
        simp [tpcBody, execC, evalCE, setLoc, CVal.truthy, CVal.isNull, CVal.nonEmpty, retInt, listening,
          h1, h2, h3, h4, hr]

theorem tpcSrc_eq (P : Env Val) : tpcSrc tpcBody decoratorProg P = tpc P :=
  funext (fun s => funext (fun o => (tpc_is_source P s o).symm))

/-- The invalidation handler of the model = `_create_property_observe_state.handler`
as written in has_traits.py (for a property declared with `observe=`). -/
theorem handlerObserve_is_source (P : Env Val) (hl : P.legacy = false) (s : St Val) :
    handlerObserve P s = handlerSrc handlerProg tpcBody decoratorProg P s := by
  unfold handlerSrc handlerObserve
  rw [tpcSrc_eq]
  by_cases hc : P.cached = true
  · obtain ⟨heap, cache, calls, dyn, dynObj, notes, nested⟩ := s
    cases cache <;>
      simp [handlerProg, exec, evalS, lookupS, cacheKey, evalV, evalC, lookupV, popCache, popOld, hc, hl]
  · simp only [Bool.not_eq_true] at hc
    simp [handlerProg, exec, evalS, lookupS, cacheKey, evalV, evalC, lookupV, popCache, popOld, hc, hl]

/-- `obj.p = x` / `del obj.p` of the model = what the C handlers installed by
`_trait_set_property` do (`setattr_propertyN` selected by the setter's arity
without a validator; `setattr_validate_property` → `traitd->validate` → the
same `setattr_propertyN` as `post_setattr`, with the validated value, with one). -/
theorem setProp_is_source (P : Env Val) (hn : P.setN ≤ 3) (s : St Val) (a : SetArg) :
    setProp P s a = setSrc handlers P s a := by
  have h4 : P.setN = 0 ∨ P.setN = 1 ∨ P.setN = 2 ∨ P.setN = 3 := by omega
  unfold setSrc setProp
  cases a with
  | delete =>
    cases P.fvalidate with
    | none => rcases h4 with h | h | h | h <;> simp [h, viaTable, handlers, runSetH]
    | some fv => simp [handlers]
  | value x =>
    cases P.fvalidate with
    | none =>
      rcases h4 with h | h | h | h <;> simp only [h, viaTable, handlers, runSetH, callSetter] <;>
        cases P.fset with
        | none => simp
        | some f => simp <;> split <;> simp_all
    | some fv =>
      simp only [handlers]
      cases fv x with
      | error e => simp
      | ok y =>
        rcases h4 with h | h | h | h <;> simp only [h, viaTable, handlers, runSetH, callSetter] <;>
          cases P.fset with
          | none => simp
          | some f => simp <;> split <;> simp_all

/-! ## The legacy `depends_on` listener -/

/-- `pre_notify` (registered with `priority=True`) on a state whose `:old` slot is
empty: drops the cache entry and parks it (`None` when there was none) in the slot. -/
theorem legacyPre_is_source (P : Env Val) (hl : P.legacy = true) (hc : P.cached = true) (s0 : St Val) :
    (execL P (tpc P) legacyPreNotifyProg { st := s0 }).st = popCache P s0
    ∧ (execL P (tpc P) legacyPreNotifyProg { st := s0 }).oldSlot = some (popOld P s0) := by
  obtain ⟨heap, cache, calls, dyn, dynObj, notes, nested⟩ := s0
  cases cache <;>
    simp [legacyPreNotifyProg, execL, evalVL, evalS, lookupS, lookupV, cacheKey, oldKey, condL, isUndef,
      popCache, popOld, hl, hc]

/-- `notify` with a parked entry `o`: takes it out of the slot and, unless it is
`Undefined`, calls `trait_property_changed(name, o)`. -/
theorem legacyNotify_is_source (P : Env Val) (t : St Val) (o : Old Val) (ho : o ≠ .undefined) :
    (execL P (tpc P) legacyNotifyProg { st := t, oldSlot := some o }).st = Property.legacyNotify P t o
    ∧ (execL P (tpc P) legacyNotifyProg { st := t, oldSlot := some o }).oldSlot = none := by
  cases o with
  | undefined => exact absurd rfl ho
  | none =>
    simp [legacyNotifyProg, execL, evalVL, evalS, lookupS, lookupV, cacheKey, oldKey, condL, isUndef,
      Property.legacyNotify]
  | val v =>
    cases hu : P.isUndef v <;>
      simp [legacyNotifyProg, execL, evalVL, evalS, lookupS, lookupV, cacheKey, oldKey, condL, isUndef,
        Property.legacyNotify, hu]

/-- `notify` of an uncached `depends_on` property: `trait_property_changed(name, None)`. -/
theorem legacyNotifyUncached_is_source (P : Env Val) (t : St Val) :
    (execL P (tpc P) legacyNotifyUncachedProg { st := t }).st = Property.legacyNotify P t .none := by
  simp [legacyNotifyUncachedProg, execL, evalVL, Property.legacyNotify]

theorem popOld_legacy_ne_undefined (P : Env Val) (hl : P.legacy = true) (s : St Val) : popOld P s ≠ .undefined := by
  unfold popOld
  cases P.cached <;> cases s.cache <;> simp [hl]

end TraitsVerif.Model.PropL
