/-
Fault injection on the list cluster: the k-th validator call fails; histories
after a failure coincide with those of a twin that never saw it.
-/
import TraitsVerif.Lemmas.SeqLen
namespace TraitsVerif.Model
open TraitsVerif TraitsVerif.Py
variable {α : Type}

/-- If the validator accepts the first `k` items (at ordinals `j .. j+k-1`) and
fails on the next with `e`, validating the whole iterable fails with `e`. -/
theorem valAll_kth_fails (v : Callback α α) (e : Exc) :
    ∀ (pre : List α) (x : α) (post : List α) (j : Nat),
      (∀ i (hi : i < pre.length), ∃ y, v (j + i) pre[i] = .ok y) →
      v (j + pre.length) x = .error e →
      valAll v j (pre ++ x :: post) = .error e := by
  intro pre
  induction pre with
  | nil => intro x post j _ hx; simp only [List.nil_append, valAll]; simp at hx; rw [hx]
  | cons p pre ih =>
    intro x post j hpre hx
    simp only [List.cons_append, valAll]
    obtain ⟨y, hy⟩ := hpre 0 (by simp)
    simp only [Nat.add_zero, List.getElem_cons_zero] at hy
    rw [hy]
    have := ih x post (j + 1)
      (fun i hi => by
        have := hpre (i + 1) (by simp; omega)
        simpa [Nat.add_assoc, Nat.add_comm 1 i] using this)
      (by simpa [Nat.add_assoc, Nat.add_comm 1 pre.length] using hx)
    rw [this]

/-- The contents after a history (a failed step leaves them as they were). -/
def TraitListObject.final (c : LenCfg) (E : Env α) : List α → List (TOp α) → List α
  | l, [] => l
  | l, op :: ops =>
    match TraitListObject.tstep c E l op with
    | .error _ => TraitListObject.final c E l ops
    | .ok o => TraitListObject.final c E o.items ops

theorem TraitListObject.run_append (c : LenCfg) (E : Env α) (l : List α) (ops1 ops2 : List (TOp α)) :
    TraitListObject.run c E l (ops1 ++ ops2)
      = TraitListObject.run c E l ops1
        ++ TraitListObject.run c E (TraitListObject.final c E l ops1) ops2 := by
  induction ops1 generalizing l with
  | nil => simp [TraitListObject.run, TraitListObject.final]
  | cons op ops1 ih =>
    simp only [List.cons_append, TraitListObject.run, TraitListObject.final]
    cases h : TraitListObject.tstep c E l op with
    | error e => simp [ih]
    | ok o => simp [ih]

end TraitsVerif.Model
