/-
Provenance of exceptions other than TraitError (C01_passthrough): a validator
raises only what one of the things it calls out to raised.
-/
import TraitsVerif.Lemmas.ValSound
namespace TraitsVerif.Model.Val
open TraitsVerif TraitsVerif.Py.Value

/-- `e` was raised by something the validators call: the value's `__index__` /
`__float__` / `__complex__` (or the int → float overflow inside them), a type
constructor, `adapt`, a user validator function, an `==` of the value — or it is
the TypeError of calling the missing validate method of an `Any` member. -/
def Src (E : Env) (e : Exc) : Prop :=
  (∃ x, index x = .error e) ∨ (∃ x, asDouble x = .error e) ∨ (∃ x, asComplex x = .error e) ∨
  (∃ t x, E.cast t x = .error e) ∨ (∃ x c, E.adapt x c = .error e) ∨
  (∃ m x, Val.pyEq m x = .raises e) ∨ (∃ f x, E.fn f x = .error e) ∨ (∃ f x, E.pred f x = .error e) ∨
  e = .typeError

variable {E : Env}

theorem Src.ofIndex {e : Exc} {x : Val} (h : index x = .error e) : Src E e := Or.inl ⟨x, h⟩
theorem Src.ofDouble {e : Exc} {x : Val} (h : asDouble x = .error e) : Src E e := Or.inr (Or.inl ⟨x, h⟩)
theorem Src.ofComplex {e : Exc} {x : Val} (h : asComplex x = .error e) : Src E e :=
  Or.inr (Or.inr (Or.inl ⟨x, h⟩))
theorem Src.ofCast {e : Exc} {t : Ty} {x : Val} (h : E.cast t x = .error e) : Src E e :=
  Or.inr (Or.inr (Or.inr (Or.inl ⟨t, x, h⟩)))
theorem Src.ofAdapt {e : Exc} {x : Val} {c : Ty} (h : E.adapt x c = .error e) : Src E e :=
  Or.inr (Or.inr (Or.inr (Or.inr (Or.inl ⟨x, c, h⟩))))
theorem Src.ofEq {e : Exc} {m x : Val} (h : Val.pyEq m x = .raises e) : Src E e :=
  Or.inr (Or.inr (Or.inr (Or.inr (Or.inr (Or.inl ⟨m, x, h⟩)))))
theorem Src.ofFn {e : Exc} {f : Nat} {x : Val} (h : E.fn f x = .error e) : Src E e :=
  Or.inr (Or.inr (Or.inr (Or.inr (Or.inr (Or.inr (Or.inl ⟨f, x, h⟩))))))
theorem Src.ofPred {e : Exc} {f : Nat} {x : Val} (h : E.pred f x = .error e) : Src E e :=
  Or.inr (Or.inr (Or.inr (Or.inr (Or.inr (Or.inr (Or.inr (Or.inl ⟨f, x, h⟩)))))))
theorem Src.typeError : Src E .typeError :=
  Or.inr (Or.inr (Or.inr (Or.inr (Or.inr (Or.inr (Or.inr (Or.inr rfl)))))))

theorem asInteger_err {v : Val} {e : Exc} (h : asInteger v = .error e) : index v = .error e := by
  unfold asInteger at h
  split at h
  · cases h
  · cases hi : index v with
    | error e' => simp [hi] at h; simp [h]
    | ok n => simp [hi] at h

theorem validateFloat_err {v : Val} {e : Exc} (h : validateFloat v = .error e) : asDouble v = .error e := by
  unfold validateFloat at h
  split at h
  · cases h
  · cases hi : asDouble v with
    | error e' => simp [hi] at h; simp [h]
    | ok n => simp [hi] at h

theorem validateComplex_err {v : Val} {e : Exc} (h : validateComplexNumber v = .error e) :
    asComplex v = .error e := by
  unfold validateComplexNumber at h
  split at h
  · cases h
  · cases hi : asComplex v with
    | error e' => simp [hi] at h; simp [h]
    | ok z => obtain ⟨a, b⟩ := z; simp [hi] at h

theorem seqContains_raises {vals : List Val} {v : Val} {e : Exc} (h : seqContains vals v = .raises e) :
    ∃ m, Val.pyEq m v = .raises e := by
  induction vals with
  | nil => simp [seqContains] at h
  | cons m ms ih =>
    simp only [seqContains] at h
    cases hm : Val.pyEq m v with
    | yes => simp [hm] at h
    | no => simp [hm] at h; exact ih h
    | raises e' => simp [hm] at h; subst h; exact ⟨m, hm⟩

theorem Src.ofContains {vals : List Val} {v : Val} {e : Exc} (h : seqContains vals v = .raises e) : Src E e := by
  obtain ⟨m, hm⟩ := seqContains_raises h
  exact Src.ofEq hm

theorem dictFind_err {keys : List Val} {v : Val} {e : Exc} (h : dictFind keys v = .error e) : e = .typeError := by
  unfold dictFind at h
  split at h <;> simp_all

/-- The compiled validators (everything but the tuple check, which needs the
inner traits): a raised exception has a source. -/
theorem fastAlone_raised_src (d : Desc) (v : Val) (e : Exc) (ha : d.isAlt = true)
    (hnt : ∀ items, d ≠ .tuple items) (h : fastAlone E d v = .raised e) : Src E e := by
  cases d <;> simp [Desc.isAlt] at ha <;> simp only [fastAlone] at h
  case tuple items => exact absurd rfl (hnt items)
  all_goals (repeat' split at h)
  all_goals (try (cases h; done))
  all_goals (try (simp only [Res.raised.injEq] at h; subst h))
  all_goals first
    | (apply Src.ofIndex; apply asInteger_err; assumption)
    | (apply Src.ofDouble; apply validateFloat_err; assumption)
    | (apply Src.ofComplex; apply validateComplex_err; assumption)
    | (apply Src.ofCast; assumption)
    | (apply Src.ofAdapt; assumption)
    | (apply Src.ofFn; assumption)
    | skip


theorem pyValidate_raised_src_atomic (t : TraitType) (v : Val) (e : Exc) (hs : t.subs = none)
    (hn : t.isNoFast = false) (h : pyValidate E t v = .raised e) : Src E e := by
  cases t <;> simp [TraitType.subs, TraitType.isNoFast] at hs hn <;>
    simp only [pyValidate, pyCastNumeric, pyCastAny, pyEnumValidate, pySafeEnumValidate, pyMapValidate, pyInstanceValidate,
      pyCoerceValidate, stringValidate, completeValue, stringRun, arrayValidate, ← asInteger_eq_py] at h
  all_goals (repeat' split at h)
  all_goals (try (cases h; done))
  all_goals (try (simp only [Res.raised.injEq] at h; subst h))
  all_goals first
    | exact Src.typeError
    | (apply Src.ofIndex; apply asInteger_err; assumption)
    | (apply Src.ofDouble; apply validateFloat_err; assumption)
    | (apply Src.ofComplex; apply validateComplex_err; assumption)
    | (apply Src.ofCast; assumption)
    | (apply Src.ofAdapt; assumption)
    | (apply Src.ofFn; assumption)
    | (apply Src.ofContains; assumption)
    | (exfalso; apply ‹_ = Exc.typeError → False›; apply dictFind_err; assumption)
    | skip


variable (E)

def SrcP (t : TraitType) : Prop :=
  (∀ d v e x, descOf E t = some d → x ∈ d.entries → altAlone E x v = .raised e → Src E e) ∧
  (∀ v e, ctraitValidate E t v = .raised e → Src E e) ∧
  (∀ v e, pyValidate E t v = .raised e → Src E e)

def SrcQ (ts : List TraitType) : Prop :=
  (∀ v e x, x ∈ flatFast E ts → altAlone E x v = .raised e → Src E e) ∧
  (∀ v e want, pySel E want ts v = .raised e → Src E e) ∧
  (∀ v e, unionFirst E ts v = .raised e → Src E e) ∧
  (∀ vs e, ctraitValidateL E ts vs = .error (some e) → Src E e)

theorem descOf_leaf_not_tuple (t : TraitType) (d : Desc) (hs : t.subs = none)
    (hd : descOf E t = some d) : ∀ items, d ≠ .tuple items := by
  intro items hdt; subst hdt
  cases t <;> simp [TraitType.subs] at hs <;> simp [descOf] at hd
  case «instance» cls an mode dflt => split at hd <;> (try split at hd) <;> simp at hd
  case instanceH cls an => split at hd <;> simp at hd

theorem srcP_atomic (t : TraitType) (hs : t.subs = none) (hn : t.isNoFast = false) : SrcP E t := by
  have s3 : ∀ v e, pyValidate E t v = .raised e → Src E e :=
    fun v e h => pyValidate_raised_src_atomic t v e hs hn h
  have sfast : ∀ d v e, descOf E t = some d → fastAlone E d v = .raised e → Src E e :=
    fun d v e hd h => fastAlone_raised_src d v e (descOf_leaf_shape E t d hs hd)
      (descOf_leaf_not_tuple E t d hs hd) h
  refine ⟨?_, ?_, s3⟩
  · intro d v e x hd hx h
    have ha := descOf_leaf_shape E t d hs hd
    have hx' : x = d := by
      cases d <;> simp [Desc.isAlt] at ha <;> simpa [Desc.entries] using hx
    subst hx'
    rw [altAlone_of_isAlt E x v ha] at h
    exact sfast x v e hd h
  · intro v e h
    cases hd : descOf E t with
    | some d => exact sfast d v e hd (by simpa [ctraitValidate, ctraitValidateWith, hd] using h)
    | none =>
      by_cases hp : hasPy t = true
      · exact s3 v e (by simpa [ctraitValidate, ctraitValidateWith, hd, hp] using h)
      · simp [ctraitValidate, ctraitValidateWith, hd, hp] at h

theorem srcP_noFast (t : TraitType) (hP : SrcP E t) : SrcP E (.noFast t) := by
  obtain ⟨_, _, s3⟩ := hP
  refine ⟨?_, ?_, ?_⟩
  · intro d v e x hd; simp [descOf] at hd
  · intro v e h
    by_cases hp : hasPy t = true
    · exact s3 v e (by simpa [ctraitValidate, ctraitValidateWith, descOf, hasPy, hp, pyValidate] using h)
    · simp [ctraitValidate, ctraitValidateWith, descOf, hasPy, hp] at h
  · intro v e h; exact s3 v e (by simpa [pyValidate] using h)

theorem srcQ_nil : SrcQ E [] := by
  refine ⟨?_, ?_, ?_, ?_⟩
  · intro v e x hx; simp [flatFast] at hx
  · intro v e want h; simp [pySel] at h
  · intro v e h; simp [unionFirst] at h
  · intro vs e h; simp [ctraitValidateL] at h

theorem srcQ_cons (t : TraitType) (ts : List TraitType) (hP : SrcP E t) (hQ : SrcQ E ts) :
    SrcQ E (t :: ts) := by
  obtain ⟨s1, s2, s3⟩ := hP
  obtain ⟨r1, r2, r3, r4⟩ := hQ
  refine ⟨?_, ?_, ?_, ?_⟩
  · intro v e x hx h
    rw [flatFast_cons, List.mem_append] at hx
    rcases hx with hx | hx
    · cases hd : descOf E t with
      | none => simp [hd] at hx
      | some d => simp only [hd] at hx; exact s1 d v e x hd hx h
    · exact r1 v e x hx h
  · intro v e want h
    simp only [pySel] at h
    split at h
    · by_cases hw : (want || hasPy t) = true
      · simp only [hw, if_true] at h
        cases hpy : pyValidate E t v with
        | traitError => simp only [hpy] at h; exact r2 v e want h
        | raised e' => simp [hpy] at h; subst h; exact s3 v e' hpy
        | ok x => simp [hpy] at h
      · simp [hw] at h
    · exact r2 v e want h
  · intro v e h
    simp only [unionFirst] at h
    have hct : ctraitValidateWith E (descOf E t) (hasPy t) (fun x => pyValidate E t x) v = ctraitValidate E t v := rfl
    rw [hct] at h
    cases hr : ctraitValidate E t v with
    | traitError => simp only [hr] at h; exact r3 v e h
    | raised e' => simp [hr] at h; subst h; exact s2 v e' hr
    | ok x => simp [hr] at h
  · intro vs e h
    cases vs with
    | nil => simp [ctraitValidateL] at h
    | cons b bs =>
      simp only [ctraitValidateL] at h
      have hct : ctraitValidateWith E (descOf E t) (hasPy t) (fun x => pyValidate E t x) b = ctraitValidate E t b := rfl
      rw [hct] at h
      cases hr : ctraitValidate E t b with
      | traitError => simp [hr] at h
      | raised e' => simp [hr] at h; subst h; exact s2 b e' hr
      | ok a =>
        simp only [hr] at h
        cases hrest : ctraitValidateL E ts bs with
        | error x => simp [hrest] at h; subst h; exact r4 bs e hrest
        | ok as => simp [hrest] at h


theorem firstAccept_raised_mem (rs : List Res) (e : Exc) (h : firstAccept rs = .raised e) :
    Res.raised e ∈ rs := by
  induction rs with
  | nil => simp [firstAccept] at h
  | cons r rs ih =>
    cases r with
    | traitError => simp [firstAccept] at h; simp [ih h]
    | ok w => simp [firstAccept] at h
    | raised e' => simp [firstAccept] at h; simp [h]

theorem tuple_fast_raised (items : List TraitType) (v : Val) (e : Exc)
    (h : fastAlone E (.tuple (ctraitDescL E items)) v = .raised e) :
    ∃ vs, ctraitValidateL E items vs = .error (some e) := by
  simp only [fastAlone] at h
  rcases v with a | ⟨sub, vs⟩ | vs
  · simp [tupleCheckWith] at h
  · simp only [tupleCheckWith, ctraitDescL_length, tupleItems_ctrait] at h
    by_cases hl : items.length = vs.length
    · simp only [hl, if_true] at h
      cases hr : ctraitValidateL E items vs with
      | error x =>
        cases x with
        | none => simp [hr] at h
        | some e' => simp [hr] at h; subst h; exact ⟨vs, hr⟩
      | ok ws =>
        simp only [hr] at h
        by_cases hb : Val.beqL ws vs = true <;> simp [hb] at h
    · simp [hl] at h
  · simp [tupleCheckWith] at h

theorem srcP_tuple (items : List TraitType) (hQ : SrcQ E items) : SrcP E (.tuple items) := by
  obtain ⟨_, _, _, r4⟩ := hQ
  have hd0 : descOf E (.tuple items) = some (.tuple (ctraitDescL E items)) := by simp [descOf]
  have hfast : ∀ v e, fastAlone E (.tuple (ctraitDescL E items)) v = .raised e → Src E e := by
    intro v e h
    obtain ⟨vs, hr⟩ := tuple_fast_raised E items v e h
    exact r4 vs e hr
  refine ⟨?_, ?_, ?_⟩
  · intro d v e x hd hx h
    rw [hd0] at hd; cases hd
    simp [Desc.entries] at hx; subst hx
    exact hfast v e (by simpa [altAlone] using h)
  · intro v e h
    exact hfast v e (by simpa [ctraitValidate, ctraitValidateWith, hd0] using h)
  · intro v e h
    simp only [pyValidate] at h
    rcases v with a | ⟨sub, vs⟩ | vs
    · simp at h
    · simp only at h
      split at h
      · cases hr : ctraitValidateL E items vs with
        | error x =>
          cases x with
          | none => simp [hr] at h
          | some e' => simp [hr] at h; subst h; exact r4 vs e' hr
        | ok ws => simp [hr] at h
      · simp at h
    · simp at h

theorem srcP_baseTuple (items : List TraitType) : SrcP E (.baseTuple items) := by
  have hpy : ∀ v e, pyValidate E (.baseTuple items) v ≠ .raised e := by
    intro v e h
    simp only [pyValidate] at h
    rcases v with a | ⟨sub, vs⟩ | vs
    · simp at h
    · simp only at h
      split at h
      · cases hr : ctraitValidateL E items vs <;> simp [hr] at h
      · simp at h
    · simp only at h
      split at h
      · cases hr : ctraitValidateL E items vs <;> simp [hr] at h
      · simp at h
  refine ⟨?_, ?_, ?_⟩
  · intro d v e x hd; simp [descOf] at hd
  · intro v e h
    exact absurd (by simpa [ctraitValidate, ctraitValidateWith, descOf, hasPy] using h) (hpy v e)
  · intro v e h; exact absurd h (hpy v e)

theorem srcP_validatedTuple (items : List TraitType) (fv : Option Nat) : SrcP E (.validatedTuple items fv) := by
  have hpy : ∀ v e, pyValidate E (.validatedTuple items fv) v = .raised e → Src E e := by
    intro v e h
    simp only [pyValidate] at h
    have key : ∀ ws, (match fv with
          | none => Res.ok (.tuple false ws)
          | some f =>
            match E.pred f (.tuple false ws) with
            | .ok true => Res.ok (.tuple false ws)
            | .ok false => Res.traitError
            | .error e => Res.raised e) = .raised e → Src E e := by
      intro ws hres
      cases fv with
      | none => simp at hres
      | some f =>
        simp only at hres
        cases hp : E.pred f (.tuple false ws) with
        | error e' => simp [hp] at hres; subst hres; exact Src.ofPred hp
        | ok b => cases b <;> simp [hp] at hres
    rcases v with a | ⟨sub, vs⟩ | vs
    · simp at h
    · simp only at h
      split at h
      · cases hr : ctraitValidateL E items vs with
        | error x => simp [hr] at h
        | ok ws => simp only [hr] at h; exact key ws h
      · simp at h
    · simp only at h
      split at h
      · cases hr : ctraitValidateL E items vs with
        | error x => simp [hr] at h
        | ok ws => simp only [hr] at h; exact key ws h
      · simp at h
  refine ⟨?_, ?_, hpy⟩
  · intro d v e x hd; simp [descOf] at hd
  · intro v e h
    exact hpy v e (by simpa [ctraitValidate, ctraitValidateWith, descOf, hasPy] using h)

theorem srcP_union (alts : List TraitType) (hQ : SrcQ E alts) : SrcP E (.union alts) := by
  obtain ⟨_, _, r3, _⟩ := hQ
  refine ⟨?_, ?_, ?_⟩
  · intro d v e x hd; simp [descOf] at hd
  · intro v e h
    exact r3 v e (by simpa [ctraitValidate, ctraitValidateWith, descOf, hasPy, pyValidate] using h)
  · intro v e h; exact r3 v e (by simpa [pyValidate] using h)

theorem srcP_compound (hE : CastIdem E) (alts : List TraitType) (wn : Bool) (t : TraitType)
    (hQ : SrcQ E alts)
    (hpy : ∀ v, pyValidate E t v =
      match pySel E true alts v with
      | .traitError =>
        match (if wn then pyEnumValidate [Val.none] v else Res.traitError) with
        | .traitError => pySel E false alts v
        | r => r
      | r => r)
    (hdesc : ∀ d, descOf E t = some d →
      d = .complex (flatFast E alts ++ ((if wn then [Desc.enum [Val.none]] else []) ++
        (if anySlow E alts then [Desc.slow (fun v => pySel E false alts v)] else []))))
    (hhp : hasPy t = true) : SrcP E t := by
  obtain ⟨r1, r2, _, _⟩ := hQ
  have s1 : ∀ d v e x, descOf E t = some d → x ∈ d.entries → altAlone E x v = .raised e → Src E e := by
    intro d v e x hd hx h
    rw [hdesc d hd] at hx
    simp only [Desc.entries, List.mem_append] at hx
    rcases hx with hx | hx | hx
    · exact r1 v e x hx h
    · cases wn with
      | false => simp at hx
      | true =>
        simp at hx; subst hx
        simp only [altAlone, fastAlone] at h
        split at h <;> cases h
    · by_cases ha : anySlow E alts = true
      · simp [ha] at hx; subst hx
        simp only [altAlone] at h
        exact r2 v e false h
      · simp [ha] at hx
  have s3 : ∀ v e, pyValidate E t v = .raised e → Src E e := by
    intro v e h
    rw [hpy v] at h
    cases hsel : pySel E true alts v with
    | ok x => simp [hsel] at h
    | raised e' => simp [hsel] at h; subst h; exact r2 v e' true hsel
    | traitError =>
      simp only [hsel] at h
      cases wn with
      | false => simp at h; exact r2 v e false h
      | true =>
        simp only [if_true, pyEnumValidate] at h
        cases hs : seqContains [Val.none] v with
        | yes => simp [hs] at h
        | no => simp [hs] at h; exact r2 v e false h
        | raises e' => simp [hs] at h; subst h; exact Src.ofContains hs
  refine ⟨s1, ?_, s3⟩
  intro v e h
  cases hd : descOf E t with
  | none => exact s3 v e (by rw [← ctraitValidate_of_none E t v hd hhp]; exact h)
  | some d =>
    have hshape := (agreeP_all E hE t).1 d hd
    have hfa : ctraitValidate E t v = fastAlone E d v := by
      simp [ctraitValidate, ctraitValidateWith, hd]
    rw [hfa] at h
    rcases hshape with ha | ⟨ds, hds, hent, _⟩
    · rw [hdesc d hd] at ha; simp [Desc.isAlt] at ha
    · subst hds
      simp only [fastAlone] at h
      rw [fastComplex_first E ds v hent] at h
      have hmem := firstAccept_raised_mem _ e h
      obtain ⟨x, hx, hxe⟩ := List.mem_map.mp hmem
      exact s1 _ v e x hd (by simpa [Desc.entries] using hx) hxe

/-- Every exception other than TraitError that a validator of the model raises
has a source. -/
theorem srcP_all (hE : CastIdem E) : ∀ t, SrcP E t :=
  TraitType.induct' (P := SrcP E) (Q := SrcQ E)
    (fun t hs hn => srcP_atomic E t hs hn)
    (fun t ih => srcP_noFast E t ih)
    (fun t ts hs hQ => by
      cases t <;> simp [TraitType.subs] at hs
      case tuple items => subst hs; exact srcP_tuple E items hQ
      case baseTuple items => exact srcP_baseTuple E items
      case validatedTuple items fv => exact srcP_validatedTuple E items fv
      case union alts => subst hs; exact srcP_union E alts hQ
      case either alts wn =>
        subst hs
        exact srcP_compound E hE alts wn _ hQ
          (fun v => by
            simp only [pyValidate]
            cases pySel E true alts v <;> try rfl
            all_goals (cases wn <;> simp)
            all_goals (try (cases pyEnumValidate [Val.none] v <;> simp))
            all_goals (try (cases pySel E false alts v <;> rfl)))
          (fun d hd => descOf_either_eq E alts wn d hd) rfl
      case compoundH hs' =>
        subst hs
        exact srcP_compound E hE hs' false _ hQ
          (fun v => by
            simp only [pyValidate]
            cases pySel E true hs' v <;> try rfl
            all_goals (try simp)
            all_goals (try (cases pySel E false hs' v <;> rfl)))
          (fun d hd => by
            simp only [descOf] at hd
            cases hf : flatFast E hs' with
            | nil => simp [hf] at hd
            | cons x xs =>
              simp only [hf] at hd
              simp only [Option.some.injEq] at hd
              simp [← hd]) rfl)
    (srcQ_nil E) (srcQ_cons E)

end TraitsVerif.Model.Val
