/-
Provenance of exceptions other than TraitError (C01_passthrough): a validator
raises only what one of the things it calls out to raised.
-/
import TraitsVerif.Lemmas.ValSound
namespace TraitsVerif.Model.Val
open TraitsVerif TraitsVerif.Py.Value

/-- `e` was raised by something the validators call: the value's `__index__` /
`__float__` / `__complex__` (or the int → float overflow inside them), a type
constructor, `adapt`, a user validator function, an `==` of the value — or it is
the TypeError of calling the missing validate method of an `Any` member. -/
def Src (E : Env) (e : Exc) : Prop :=
  (∃ x, index x = .error e) ∨ (∃ x, asDouble x = .error e) ∨ (∃ x, asComplex x = .error e) ∨
  (∃ t x, E.cast t x = .error e) ∨ (∃ x c, E.adapt x c = .error e) ∨
  (∃ m x, Val.pyEq m x = .raises e) ∨ (∃ f x, E.fn f x = .error e) ∨ e = .typeError

variable {E : Env}

theorem Src.ofIndex {e : Exc} {x : Val} (h : index x = .error e) : Src E e := Or.inl ⟨x, h⟩
theorem Src.ofDouble {e : Exc} {x : Val} (h : asDouble x = .error e) : Src E e := Or.inr (Or.inl ⟨x, h⟩)
theorem Src.ofComplex {e : Exc} {x : Val} (h : asComplex x = .error e) : Src E e :=
  Or.inr (Or.inr (Or.inl ⟨x, h⟩))
theorem Src.ofCast {e : Exc} {t : Ty} {x : Val} (h : E.cast t x = .error e) : Src E e :=
  Or.inr (Or.inr (Or.inr (Or.inl ⟨t, x, h⟩)))
theorem Src.ofAdapt {e : Exc} {x : Val} {c : Ty} (h : E.adapt x c = .error e) : Src E e :=
  Or.inr (Or.inr (Or.inr (Or.inr (Or.inl ⟨x, c, h⟩))))
theorem Src.ofEq {e : Exc} {m x : Val} (h : Val.pyEq m x = .raises e) : Src E e :=
  Or.inr (Or.inr (Or.inr (Or.inr (Or.inr (Or.inl ⟨m, x, h⟩)))))
theorem Src.ofFn {e : Exc} {f : Nat} {x : Val} (h : E.fn f x = .error e) : Src E e :=
  Or.inr (Or.inr (Or.inr (Or.inr (Or.inr (Or.inr (Or.inl ⟨f, x, h⟩))))))
theorem Src.typeError : Src E .typeError :=
  Or.inr (Or.inr (Or.inr (Or.inr (Or.inr (Or.inr (Or.inr rfl))))))

theorem asInteger_err {v : Val} {e : Exc} (h : asInteger v = .error e) : index v = .error e := by
  unfold asInteger at h
  split at h
  · cases h
  · cases hi : index v with
    | error e' => simp [hi] at h; simp [h]
    | ok n => simp [hi] at h

theorem validateFloat_err {v : Val} {e : Exc} (h : validateFloat v = .error e) : asDouble v = .error e := by
  unfold validateFloat at h
  split at h
  · cases h
  · cases hi : asDouble v with
    | error e' => simp [hi] at h; simp [h]
    | ok n => simp [hi] at h

theorem validateComplex_err {v : Val} {e : Exc} (h : validateComplexNumber v = .error e) :
    asComplex v = .error e := by
  unfold validateComplexNumber at h
  split at h
  · cases h
  · cases hi : asComplex v with
    | error e' => simp [hi] at h; simp [h]
    | ok z => obtain ⟨a, b⟩ := z; simp [hi] at h

theorem seqContains_raises {vals : List Val} {v : Val} {e : Exc} (h : seqContains vals v = .raises e) :
    ∃ m, Val.pyEq m v = .raises e := by
  induction vals with
  | nil => simp [seqContains] at h
  | cons m ms ih =>
    simp only [seqContains] at h
    cases hm : Val.pyEq m v with
    | yes => simp [hm] at h
    | no => simp [hm] at h; exact ih h
    | raises e' => simp [hm] at h; subst h; exact ⟨m, hm⟩

theorem Src.ofContains {vals : List Val} {v : Val} {e : Exc} (h : seqContains vals v = .raises e) : Src E e := by
  obtain ⟨m, hm⟩ := seqContains_raises h
  exact Src.ofEq hm

theorem dictFind_err {keys : List Val} {v : Val} {e : Exc} (h : dictFind keys v = .error e) : e = .typeError := by
  unfold dictFind at h
  split at h <;> simp_all

/-- The compiled validators (everything but the tuple check, which needs the
inner traits): a raised exception has a source. -/
theorem fastAlone_raised_src (d : Desc) (v : Val) (e : Exc) (ha : d.isAlt = true)
    (hnt : ∀ items, d ≠ .tuple items) (h : fastAlone E d v = .raised e) : Src E e := by
  cases d <;> simp [Desc.isAlt] at ha <;> simp only [fastAlone] at h
  case tuple items => exact absurd rfl (hnt items)
  all_goals (repeat' split at h)
  all_goals (try (cases h; done))
  all_goals (try (simp only [Res.raised.injEq] at h; subst h))
  all_goals first
    | (apply Src.ofIndex; apply asInteger_err; assumption)
    | (apply Src.ofDouble; apply validateFloat_err; assumption)
    | (apply Src.ofComplex; apply validateComplex_err; assumption)
    | (apply Src.ofCast; assumption)
    | (apply Src.ofAdapt; assumption)
    | (apply Src.ofFn; assumption)
    | skip


theorem pyValidate_raised_src_atomic (t : TraitType) (v : Val) (e : Exc) (hs : t.subs = none)
    (hn : t.isNoFast = false) (h : pyValidate E t v = .raised e) : Src E e := by
  cases t <;> simp [TraitType.subs, TraitType.isNoFast] at hs hn <;>
    simp only [pyValidate, pyCastNumeric, pyCastAny, pyEnumValidate, pyMapValidate, pyInstanceValidate,
      pyCoerceValidate, stringValidate, completeValue, stringRun, ← asInteger_eq_py] at h
  all_goals (repeat' split at h)
  all_goals (try (cases h; done))
  all_goals (try (simp only [Res.raised.injEq] at h; subst h))
  all_goals first
    | exact Src.typeError
    | (apply Src.ofIndex; apply asInteger_err; assumption)
    | (apply Src.ofDouble; apply validateFloat_err; assumption)
    | (apply Src.ofComplex; apply validateComplex_err; assumption)
    | (apply Src.ofCast; assumption)
    | (apply Src.ofAdapt; assumption)
    | (apply Src.ofFn; assumption)
    | (apply Src.ofContains; assumption)
    | (exfalso; apply ‹_ = Exc.typeError → False›; apply dictFind_err; assumption)
    | skip

end TraitsVerif.Model.Val
