/-
Cluster `obs`: a walk (and the roll-back of its log) acts only on items of its
from-scratch list.  Hence any predicate on hooks that `add_to` / `remove_from` of
such items keep is kept by every call, raising or not (`addRemove_touch`).
Instances: quiet links (ObsQuiet), at most one user notifier per key (ObsOnce),
the frame lemma (ObsFrame).
-/
import TraitsVerif.Lemmas.ObsRemove
namespace TraitsVerif.Model.Obs
open TraitsVerif

/-! ### membership in the from-scratch list -/

theorem mem_hookListCs (h : Heap) (k : HKey) (ob : Observer) (x : W) (cs : List Graph) (it : Item) :
    it ∈ hookListCs h k ob x cs ↔ ∃ c ∈ cs, ∃ y ∈ okOr [] (objects h ob x), it ∈ hookList h k true c y := by
  induction cs with
  | nil => simp [hookListCs]
  | cons c cs ih =>
    rw [hookListCs_cons, List.mem_append, ih, List.mem_flatMap]
    constructor
    · rintro (⟨y, hy, hm⟩ | ⟨c', hc', y, hy, hm⟩)
      · exact ⟨c, List.mem_cons_self .., y, hy, hm⟩
      · exact ⟨c', List.mem_cons_of_mem _ hc', y, hy, hm⟩
    · rintro ⟨c', hc', y, hy, hm⟩
      cases hc' with
      | head => exact Or.inl ⟨y, hy, hm⟩
      | tail _ h' => exact Or.inr ⟨c', h', y, hy, hm⟩

theorem mem_hookList_own (h : Heap) (k : HKey) (e : Bool) (ob : Observer) (cs : List Graph) (x : W) (it : Item)
    (hm : it ∈ ownItems h k ob cs x) : it ∈ hookList h k e (.node ob cs) x := by
  rw [hookList_node]; simp [hm]

theorem mem_hookList_child (h : Heap) (k : HKey) (e : Bool) (ob : Observer) (cs : List Graph) (x : W) (it : Item)
    (c : Graph) (hc : c ∈ cs) (y : W) (hy : y ∈ okOr [] (objects h ob x)) (hm : it ∈ hookList h k true c y) :
    it ∈ hookList h k e (.node ob cs) x := by
  rw [hookList_node]
  have := (mem_hookListCs h k ob x cs it).2 ⟨c, hc, y, hy, hm⟩
  simp [this]

/-! ### the generic lemma -/

section touch
variable (P : Hooks → Prop) (Q : Item → Prop)
  (hadd : ∀ it H, Q it → P H → P (addItem it H))
  (hrm : ∀ it H H', Q it → P H → removeItem it H = .ok H' → P H')
include hadd hrm

theorem applyOwn_touch (rm : Bool) (its : List Item) (H : Hooks) (done : List Item)
    (hi : ∀ it ∈ its, Q it) (hP : P H) (hd : ∀ it ∈ done, Q it) :
    P (applyOwn rm its H done).1 ∧ ∀ it ∈ (applyOwn rm its H done).2.1, Q it := by
  induction its generalizing H done with
  | nil => exact ⟨hP, hd⟩
  | cons it its ih =>
    have hit := hi it (List.mem_cons_self ..)
    have hrest : ∀ i ∈ its, Q i := fun i hi' => hi i (List.mem_cons_of_mem _ hi')
    have hd' : ∀ i ∈ it :: done, Q i := by
      intro i hi'
      cases hi' with
      | head => exact hit
      | tail _ h => exact hd i h
    cases rm with
    | true =>
      simp only [applyOwn, if_true]
      cases hr : removeItem it H with
      | error e => exact ⟨hP, hd⟩
      | ok H' => exact ih H' _ hrest (hrm it H H' hit hP hr) hd'
    | false =>
      simp only [applyOwn, Bool.false_eq_true, if_false]
      exact ih _ _ hrest (hadd it H hit hP) hd'

theorem undo_touch (rm : Bool) (done : List Item) (H : Hooks) (hP : P H) (hd : ∀ it ∈ done, Q it) :
    P (undo rm done H) := by
  induction done generalizing H with
  | nil => exact hP
  | cons it done ih =>
    have hit := hd it (List.mem_cons_self ..)
    simp only [undo]
    apply ih _ _ (fun i hi' => hd i (List.mem_cons_of_mem _ hi'))
    cases rm with
    | true => simp only [if_true]; exact hadd it H hit hP
    | false =>
      simp only [Bool.false_eq_true, if_false]
      cases hr : removeItem it H with
      | error e => exact hP
      | ok H' => exact hrm it H H' hit hP hr

theorem foldW_touch (f : W → Hooks → List Item → Tr) (ys : List W)
    (hf : ∀ y ∈ ys, ∀ H log, P H → (∀ it ∈ log, Q it) → P (f y H log).1 ∧ ∀ it ∈ (f y H log).2.1, Q it)
    (H : Hooks) (log : List Item) (hP : P H) (hl : ∀ it ∈ log, Q it) :
    P (foldW f ys H log).1 ∧ ∀ it ∈ (foldW f ys H log).2.1, Q it := by
  induction ys generalizing H log with
  | nil => exact ⟨hP, hl⟩
  | cons y ys ih =>
    simp only [foldW]
    obtain ⟨a, b⟩ := hf y (List.mem_cons_self ..) H log hP hl
    split
    · exact ⟨a, b⟩
    · exact ih (fun y' hy' => hf y' (List.mem_cons_of_mem _ hy')) _ _ a b

theorem walk_touch (h : Heap) (k : HKey) :
    ∀ g : Graph, ∀ (rm extra : Bool) (x : W) (H : Hooks) (log : List Item),
      (∀ it ∈ hookList h k extra g x, Q it) → P H → (∀ it ∈ log, Q it) →
      P (walk h k rm extra g x H log).1 ∧ ∀ it ∈ (walk h k rm extra g x H log).2.1, Q it := by
  apply Graph.ind (P := fun g => ∀ (rm extra : Bool) (x : W) (H : Hooks) (log : List Item),
      (∀ it ∈ hookList h k extra g x, Q it) → P H → (∀ it ∈ log, Q it) →
      P (walk h k rm extra g x H log).1 ∧ ∀ it ∈ (walk h k rm extra g x H log).2.1, Q it)
  intro ob cs ih rm extra x H log hQ hP hl
  have hown : ∀ it ∈ ownItems h k ob cs x, Q it := fun it hit => hQ it (mem_hookList_own h k extra ob cs x it hit)
  have hnotif : ∀ (rm : Bool) (H : Hooks) (done : List Item), P H → (∀ it ∈ done, Q it) →
      P (notifStep h k rm ob x H done).1 ∧ ∀ it ∈ (notifStep h k rm ob x H done).2.1, Q it := by
    intro rm H done hP hd
    unfold notifStep
    split
    · rename_i hn
      split
      · exact ⟨hP, hd⟩
      · rename_i os hos
        apply applyOwn_touch P Q hadd hrm rm _ H done _ hP hd
        intro it hit
        apply hown
        simp only [ownItems, hos, okOr, hn, if_true, List.mem_append]
        exact Or.inl hit
    · exact ⟨hP, hd⟩
  have hmaint : ∀ (rm : Bool) (H : Hooks) (done : List Item), P H → (∀ it ∈ done, Q it) →
      P (maintStep h k rm ob cs x H done).1 ∧ ∀ it ∈ (maintStep h k rm ob cs x H done).2.1, Q it := by
    intro rm H done hP hd
    unfold maintStep
    split
    · exact ⟨hP, hd⟩
    · rename_i os hos
      apply applyOwn_touch P Q hadd hrm rm _ H done _ hP hd
      intro it hit
      apply hown
      simp only [ownItems, hos, okOr, List.mem_append]
      exact Or.inr hit
  have hextra : ∀ (rm : Bool) (H : Hooks) (done : List Item), extra = true → P H → (∀ it ∈ done, Q it) →
      P (extraStepW h k rm (.node ob cs) x H done).1 ∧ ∀ it ∈ (extraStepW h k rm (.node ob cs) x H done).2.1, Q it := by
    intro rm H done hex hP hd
    unfold extraStepW
    split
    · exact ⟨hP, hd⟩
    · rename_i os hos
      apply applyOwn_touch P Q hadd hrm rm _ H done _ hP hd
      intro it hit
      apply hQ
      rw [hookList_node]
      simp only [Graph.ob] at hos
      simp only [hex, if_true, extraItems, hos, okOr, List.mem_append]
      exact Or.inr hit
  have hCs : ∀ (rm : Bool) (cs' : List Graph), (∀ c ∈ cs', c ∈ cs) → ∀ H log, P H → (∀ it ∈ log, Q it) →
      P (walkCs h k rm ob x cs' H log).1 ∧ ∀ it ∈ (walkCs h k rm ob x cs' H log).2.1, Q it := by
    intro rm cs'
    induction cs' with
    | nil => intro _ H log hP hl; exact ⟨hP, hl⟩
    | cons c cs' ihc =>
      intro hsub H log hP hl
      simp only [walkCs]
      split
      · exact ⟨hP, hl⟩
      · rename_i ys hys
        obtain ⟨a, b⟩ := foldW_touch P Q hadd hrm (walk h k rm true c) ys
          (fun y hy H' log' hP' hl' => ih c (hsub c (List.mem_cons_self ..)) rm true y H' log'
            (fun it hit => hQ it (mem_hookList_child h k extra ob cs x it c (hsub c (List.mem_cons_self ..)) y
              (by rw [hys]; exact hy) hit)) hP' hl')
          H log hP hl
        split
        · exact ⟨a, b⟩
        · exact ihc (fun c' hc' => hsub c' (List.mem_cons_of_mem _ hc')) _ _ a b
  cases rm with
  | true =>
    rw [walk_rm_unfold]
    have r1 : P (if extra then extraStepW h k true (.node ob cs) x H log else (H, log, none) : Tr).1 ∧
        ∀ it ∈ (if extra then extraStepW h k true (.node ob cs) x H log else (H, log, none) : Tr).2.1, Q it := by
      split
      · rename_i hex; exact hextra true H log hex hP hl
      · exact ⟨hP, hl⟩
    simp only []
    split
    · exact r1
    · have r2 := hCs true cs (fun c hc => hc) _ _ r1.1 r1.2
      split
      · exact r2
      · have r3 := hmaint true _ _ r2.1 r2.2
        split
        · exact r3
        · exact hnotif true _ _ r3.1 r3.2
  | false =>
    rw [walk_add_unfold]
    have s1 := hnotif false H log hP hl
    simp only []
    split
    · exact s1
    · have s2 := hmaint false _ _ s1.1 s1.2
      split
      · exact s2
      · have r3 := hCs false cs (fun c hc => hc) _ _ s2.1 s2.2
        split
        · exact r3
        · split
          · rename_i hex; exact hextra false _ _ hex r3.1 r3.2
          · exact r3

/-- Every outermost call, raising or not, keeps `P`. -/
theorem addRemove_touch (h : Heap) (k : HKey) (g : Graph) (rm extra : Bool) (x : W) (H : Hooks)
    (hQ : ∀ it ∈ hookList h k extra g x, Q it) (hP : P H) : P (addRemove h k rm extra g x H).H := by
  obtain ⟨a, b⟩ := walk_touch P Q hadd hrm h k g rm extra x H [] hQ hP (by intro it hit; cases hit)
  unfold addRemove finish
  split
  · exact undo_touch P Q hadd hrm rm _ _ a b
  · exact a

end touch

end TraitsVerif.Model.Obs
