/-
Source tie of the compiled validators, part 3: validate_trait_adapt, and the assembly
through the translated `validate_handlers[]` table.
-/
import TraitsVerif.Lemmas.ValCSrc2
import TraitsVerif.Generated.ValidateTables
namespace TraitsVerif.Model.CSrc
open TraitsVerif TraitsVerif.Py.Value TraitsVerif.Model.Val TraitsVerif.Generated.CValidators

variable (E : Env) (inner : Desc → Val → Res) (cdflt : Val) (fuel : Nat)

/-- `adapt` returns an adapter or None: an adapter is not None. -/
def AdaptSome (E : Env) : Prop := ∀ v cls r, E.adapt v cls = .ok (some r) → r ≠ Val.none

theorem src_adapt (hA : AdaptSome E) (cls : Ty) (mode : Nat) (an : Bool) (dflt v : Val) :
    srcFn E inner cdflt fuel "validate_trait_adapt" (.adapt cls mode an dflt) v =
      some (norm (fastAlone E (.adapt cls mode an dflt) v)) := by
  src_start fn_validate_trait_adapt "validate_trait_adapt"
  have hm : ((mode : Int) = 1) ↔ (mode = 1) := by omega
  cases an <;> csrc_eval <;> simp only [fastAlone, isNone_iff, hm] <;>
    cases v.isNone <;> simp [ofBool] <;>
    (by_cases h0 : mode = 0 <;> simp [h0]) <;>
    (try (cases Val.isInst cls v <;> simp))
  all_goals
    cases ha : E.adapt v cls with
    | error e => simp
    | ok o =>
      cases o with
      | none => simp; (try (split <;> rfl))
      | some r =>
        have := hA v cls r ha
        simp [(isNone_iff r).symm, this]


/-! ## Assembly: `validate_handlers[kind]` interpreted -/

/-- Descriptor kinds whose C function has no loop. -/
def straight : Desc → Bool
  | .complex _ | .tuple _ | .coerce _ _ | .slow _ => false
  | _ => true

theorem srcAlone_straight (hA : AdaptSome E) (d : Desc) (v : Val) (hd : straight d = true) :
    srcAlone E inner cdflt fuel d v = some (norm (fastAlone E d v)) := by
  cases d <;> simp [straight] at hd <;> simp only [srcAlone, Desc.kind]
  case typeChk an ty => exact src_type E inner cdflt fuel an ty v
  case instChk an ty => exact src_instance E inner cdflt fuel an ty v
  case selfType an => exact src_self_type E inner cdflt fuel an v
  case floatRange lo hi mask => exact src_float_range E inner cdflt fuel lo hi mask v
  case enum vals => exact src_enum E inner cdflt fuel vals v
  case map keys => exact src_map E inner cdflt fuel keys v
  case cast ty => exact src_cast E inner cdflt fuel ty v
  case function f => exact src_function E inner cdflt fuel f v
  case python h => exact src_python E inner cdflt fuel h v
  case adapt cls mode an dflt => exact src_adapt E inner cdflt fuel hA cls mode an dflt v
  case int => exact src_integer E inner cdflt fuel v
  case float => exact src_float E inner cdflt fuel v
  case callable an => exact src_callable E inner cdflt fuel an v
  case complexNumber => exact src_complex_number E inner cdflt fuel v

end TraitsVerif.Model.CSrc
