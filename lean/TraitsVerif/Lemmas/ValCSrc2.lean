/-
Source tie of the compiled validators, part 2: the function table, and for every
stand-alone `validate_trait_*` function without a loop the theorem that the
interpretation of its translated source text is the arm of `fastAlone` for that
descriptor kind (modulo `norm`: a TraitError raised by something the validator calls
is not distinguishable from the validator's own).
-/
import TraitsVerif.Lemmas.ValCSrc
namespace TraitsVerif.Model.CSrc
open TraitsVerif TraitsVerif.Py.Value TraitsVerif.Model.Val TraitsVerif.Generated.CValidators

variable (E : Env) (inner : Desc → Val → Res) (cdflt : Val) (fuel : Nat)

theorem helpers_validate_float (v : Val) :
    helpers E inner cdflt fuel "validate_float" [.obj v] none = exceptToC (validateFloat v) := by
  have : table.lookup "validate_float" = some fn_validate_float := by rfl
  simp [helpers, this, run_validate_float]
theorem helpers_validate_complex_number (v : Val) :
    helpers E inner cdflt fuel "validate_complex_number" [.obj v] none = exceptToC (validateComplexNumber v) := by
  have : table.lookup "validate_complex_number" = some fn_validate_complex_number := by rfl
  simp [helpers, this, run_validate_complex_number]
theorem helpers_in_float_range (w : Val) (lo hi : Option F) (mask : Nat) :
    helpers E inner cdflt fuel "in_float_range" [.obj w, .info (.floatRange lo hi mask)] none =
      (ofBool (inFloatRange (floatOf w) lo hi mask), none) := by
  have : table.lookup "in_float_range" = some fn_in_float_range := by rfl
  simp [helpers, this, run_in_float_range]
theorem helpers_callable (v : Val) (an : Option Bool) :
    helpers E inner cdflt fuel "_validate_trait_callable" [.info (.callable an), .obj v] none =
      (ofBool (validateCallable an v), none) := by
  have : table.lookup "_validate_trait_callable" = some fn__validate_trait_callable := by rfl
  simp [helpers, this, run_validate_trait_callable]
theorem helpers_type_converter (t : Ty) (v : Val) :
    helpers E inner cdflt fuel "type_converter" [.ty t, .obj v] none = exceptToC (E.cast t v) := by
  have : table.lookup "type_converter" = some fn_type_converter := by rfl
  simp [helpers, this, run_type_converter, C0]
theorem helpers_call_validator (f : Nat) (v : Val) :
    helpers E inner cdflt fuel "call_validator" [.fn f, .hobj, .name, .obj v] none = exceptToC (E.fn f v) := by
  have : table.lookup "call_validator" = some fn_call_validator := by rfl
  simp [helpers, this, run_call_validator, C0]

theorem isNone_iff (v : Val) : (v = Val.none) ↔ v.isNone = true := by
  rcases v with a | _ | _
  · cases a <;> simp [Val.isNone]
  · simp [Val.isNone]
  · simp [Val.isNone]

macro "src_start" f:ident l:term : tactic => `(tactic|
  (have hl : table.lookup $l = some $f := by rfl
   simp only [srcFn, hl, $f:ident, C1]))

@[simp] theorem toRes_ite (c : Prop) [Decidable c] (a b : Option (CV × Err)) :
    toRes (if c then a else b) = if c then toRes a else toRes b := by split <;> rfl
@[simp] theorem toRes_ok (w : Val) : toRes (some (.obj w, none)) = some (.ok w) := rfl
@[simp] theorem toRes_te : toRes (some (.null, some .traitError)) = some .traitError := rfl
@[simp] theorem norm_ok (w : Val) : norm (.ok w) = .ok w := rfl
@[simp] theorem norm_te : norm .traitError = .traitError := rfl
@[simp] theorem norm_raised_te : norm (.raised .traitError) = .traitError := rfl
@[simp] theorem toRes_exc (e : Exc) : toRes (some (.null, some e)) = some (norm (.raised e)) := by
  cases e <;> rfl
@[simp] theorem norm_ite (c : Prop) [Decidable c] (a b : Res) :
    norm (if c then a else b) = if c then norm a else norm b := by split <;> rfl

theorem src_type (an : Bool) (ty : Ty) (v : Val) :
    srcFn E inner cdflt fuel "validate_trait_type" (.typeChk an ty) v = some (norm (fastAlone E (.typeChk an ty) v)) := by
  src_start fn_validate_trait_type "validate_trait_type"
  cases an <;> csrc_eval <;> simp only [fastAlone, isNone_iff] <;>
    cases v.isNone <;> cases Val.isInst ty v <;> simp

theorem src_instance (an : Bool) (ty : Ty) (v : Val) :
    srcFn E inner cdflt fuel "validate_trait_instance" (.instChk an ty) v = some (norm (fastAlone E (.instChk an ty) v)) := by
  src_start fn_validate_trait_instance "validate_trait_instance"
  cases an <;> csrc_eval <;> simp only [fastAlone, isNone_iff] <;>
    cases v.isNone <;> cases Val.isInst ty v <;> simp [ofBool]

theorem src_self_type (an : Bool) (v : Val) :
    srcFn E inner cdflt fuel "validate_trait_self_type" (.selfType an) v = some (norm (fastAlone E (.selfType an) v)) := by
  src_start fn_validate_trait_self_type "validate_trait_self_type"
  cases an <;> csrc_eval <;> simp only [fastAlone, isNone_iff] <;>
    cases v.isNone <;> cases Val.isInst (.user E.selfCls) v <;> simp

theorem src_integer (v : Val) :
    srcFn E inner cdflt fuel "validate_trait_integer" .int v = some (norm (fastAlone E .int v)) := by
  src_start fn_validate_trait_integer "validate_trait_integer"
  csrc_eval
  simp only [helpers_as_integer, fastAlone]
  cases h : asInteger v with
  | ok w => simp [exceptToC]
  | error e => cases e <;> simp [exceptToC, toRes, norm]

theorem src_float (v : Val) :
    srcFn E inner cdflt fuel "validate_trait_float" .float v = some (norm (fastAlone E .float v)) := by
  src_start fn_validate_trait_float "validate_trait_float"
  csrc_eval
  simp only [helpers_validate_float, fastAlone]
  cases h : validateFloat v with
  | ok w => simp [exceptToC]
  | error e => cases e <;> simp [exceptToC, toRes, norm]

theorem src_complex_number (v : Val) :
    srcFn E inner cdflt fuel "validate_trait_complex_number" .complexNumber v = some (norm (fastAlone E .complexNumber v)) := by
  src_start fn_validate_trait_complex_number "validate_trait_complex_number"
  csrc_eval
  simp only [helpers_validate_complex_number, fastAlone]
  cases h : validateComplexNumber v with
  | ok w => simp [exceptToC]
  | error e => cases e <;> simp [exceptToC, toRes, norm]

theorem src_float_range (lo hi : Option F) (mask : Nat) (v : Val) :
    srcFn E inner cdflt fuel "validate_trait_float_range" (.floatRange lo hi mask) v =
      some (norm (fastAlone E (.floatRange lo hi mask) v)) := by
  src_start fn_validate_trait_float_range "validate_trait_float_range"
  csrc_eval
  simp only [helpers_validate_float, fastAlone]
  cases h : validateFloat v with
  | ok w =>
    simp [exceptToC, helpers_in_float_range]
    cases inFloatRange (floatOf w) lo hi mask <;> simp [ofBool]
  | error e => cases e <;> simp [exceptToC, toRes, norm]

theorem src_enum (vals : List Val) (v : Val) :
    srcFn E inner cdflt fuel "validate_trait_enum" (.enum vals) v = some (norm (fastAlone E (.enum vals) v)) := by
  src_start fn_validate_trait_enum "validate_trait_enum"
  csrc_eval
  simp only [fastAlone]
  cases seqContains vals v <;> simp

theorem src_map (keys : List Val) (v : Val) :
    srcFn E inner cdflt fuel "validate_trait_map" (.map keys) v = some (norm (fastAlone E (.map keys) v)) := by
  src_start fn_validate_trait_map "validate_trait_map"
  csrc_eval
  simp only [fastAlone]
  cases h : dictFind keys v with
  | ok o => cases o <;> simp
  | error e => simp

theorem src_cast (ty : Ty) (v : Val) :
    srcFn E inner cdflt fuel "validate_trait_cast_type" (.cast ty) v = some (norm (fastAlone E (.cast ty) v)) := by
  src_start fn_validate_trait_cast_type "validate_trait_cast_type"
  csrc_eval
  simp only [fastAlone, helpers_type_converter]
  cases Val.exactTy ty v <;> simp
  cases E.cast ty v <;> simp [exceptToC]

theorem src_function (f : Nat) (v : Val) :
    srcFn E inner cdflt fuel "validate_trait_function" (.function f) v = some (norm (fastAlone E (.function f) v)) := by
  src_start fn_validate_trait_function "validate_trait_function"
  csrc_eval
  simp only [fastAlone, helpers_call_validator]
  cases E.fn f v <;> simp [exceptToC]

theorem src_python (h : Val → Res) (v : Val) :
    srcFn E inner cdflt fuel "validate_trait_python" (.python h) v = some (norm (fastAlone E (.python h) v)) := by
  src_start fn_validate_trait_python "validate_trait_python"
  csrc_eval
  simp only [fastAlone]
  cases hv : h v with
  | ok w => simp
  | traitError => simp
  | raised e => simp

theorem src_callable (an : Option Bool) (v : Val) :
    srcFn E inner cdflt fuel "validate_trait_callable" (.callable an) v = some (norm (fastAlone E (.callable an) v)) := by
  src_start fn_validate_trait_callable "validate_trait_callable"
  csrc_eval
  simp only [fastAlone, helpers_callable]
  cases validateCallable an v <;> simp [ofBool]

end TraitsVerif.Model.CSrc
