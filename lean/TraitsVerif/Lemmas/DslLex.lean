/-
C15 — the lexer `lex` reproduces the tokens of every rendering (completeness)
and accepts only renderings of its output (soundness).  Helper lemmas for
Props/C15.lean.  Core Lean only.
-/
import TraitsVerif.Model.DslSyntax
namespace TraitsVerif.Model.Dsl

/-! ### character facts -/

theorem ws_facts {c : Char} (h : isWs c = true) :
    isWordStart c = false ∧ symTok c = none ∧ ∀ uw, isWordChar uw c = false := by
  simp only [isWs, Bool.or_eq_true, beq_iff_eq] at h
  rcases h with (((rfl | rfl) | rfl) | rfl) | rfl <;> exact ⟨rfl, rfl, fun _ => rfl⟩

def Tok.isWord : Tok → Bool
  | .name _ => true
  | .items => true
  | _ => false

theorem sym_facts (t : Tok) (h : t.isWord = false) :
    ∃ c, t.text = [c] ∧ symTok c = some t ∧ isWordStart c = false ∧ ∀ uw, isWordChar uw c = false := by
  cases t with
  | name n => simp [Tok.isWord] at h
  | items => simp [Tok.isWord] at h
  | plus => exact ⟨'+', rfl, rfl, rfl, fun _ => rfl⟩
  | star => exact ⟨'*', rfl, rfl, rfl, fun _ => rfl⟩
  | conn c => cases c
              · exact ⟨'.', rfl, rfl, rfl, fun _ => rfl⟩
              · exact ⟨':', rfl, rfl, rfl, fun _ => rfl⟩
  | comma => exact ⟨',', rfl, rfl, rfl, fun _ => rfl⟩
  | lb => exact ⟨'[', rfl, rfl, rfl, fun _ => rfl⟩
  | rb => exact ⟨']', rfl, rfl, rfl, fun _ => rfl⟩

/-! ### lexer steps -/

variable (uw : Char → Bool)

theorem lexGo_ws_nil (c : Char) (s : List Char) (pp : Bool) (h : isWs c = true) :
    lexGo uw (c :: s) [] pp = lexGo uw s [] pp := by
  obtain ⟨h1, h2, h3⟩ := ws_facts h
  simp [lexGo, h1, h2, h, flush, apAfter]

theorem lexGo_skip_ws (w s : List Char) (pp : Bool) (h : allWs w = true) :
    lexGo uw (w ++ s) [] pp = lexGo uw s [] pp := by
  induction w with
  | nil => rfl
  | cons c w ih =>
    simp only [allWs, List.all_cons, Bool.and_eq_true] at h
    rw [List.cons_append, lexGo_ws_nil uw c _ pp h.1]
    exact ih h.2

theorem flush_cons (pp : Bool) (a : Char) (acc : List Char) :
    flush pp (a :: acc) = [wordTok pp (a :: acc)] := rfl

theorem lexGo_trail (trail acc : List Char) (pp : Bool) (h : allWs trail = true) :
    lexGo uw trail acc pp = some (flush pp acc) := by
  cases trail with
  | nil => rfl
  | cons c w =>
    simp only [allWs, List.all_cons, Bool.and_eq_true] at h
    obtain ⟨h1, h2, h3⟩ := ws_facts h.1
    have := lexGo_skip_ws uw w [] (apAfter pp acc) h.2
    simp only [List.append_nil] at this
    simp [lexGo, h1, h2, h3 uw, h.1, this, flush]

theorem lexGo_word_run (cs s acc : List Char) (pp : Bool) (hacc : acc ≠ [])
    (h : cs.all (isWordChar uw) = true) :
    lexGo uw (cs ++ s) acc pp = lexGo uw s (acc ++ cs) pp := by
  induction cs generalizing acc with
  | nil => simp
  | cons c cs ih =>
    simp only [List.all_cons, Bool.and_eq_true] at h
    have hne : acc.isEmpty = false := by cases acc <;> simp_all
    rw [List.cons_append]
    simp only [lexGo, hne, h.1, Bool.not_false, Bool.and_self, if_true]
    rw [ih (acc ++ [c]) (by simp) h.2]
    simp

theorem lexGo_sym (c : Char) (t : Tok) (s acc : List Char) (pp : Bool)
    (h1 : symTok c = some t) (h2 : isWordStart c = false) (h3 : isWordChar uw c = false) :
    lexGo uw (c :: s) acc pp = (lexGo uw s [] (t == .plus)).map (fun r => flush pp acc ++ t :: r) := by
  simp [lexGo, h1, h2, h3]

/-! ### which token lists the lexer reproduces -/

/-- `pp` = previous token is PLUS, `pw` = previous token is a word (NAME / ITEMS). -/
def lexable : Bool → Bool → List Tok → Bool
  | _, _, [] => true
  | pp, pw, t :: ts =>
    (match t with
     | .name n => !pw && validName uw n && (pp || n != itemsKw)
     | .items => !pw && !pp
     | _ => true) && lexable (t == .plus) t.isWord ts

theorem validName_items : validName uw itemsKw = true := rfl

theorem lexGo_renderD (trail : List Char) (htrail : allWs trail = true) :
    ∀ (d : List (List Char × Tok)), (∀ p ∈ d, allWs p.1 = true) →
    (∀ pp, lexable uw pp false (d.map Prod.snd) = true →
        lexGo uw (renderD d trail) [] pp = some (d.map Prod.snd)) ∧
    (∀ pp acc, acc ≠ [] → lexable uw false true (d.map Prod.snd) = true →
        lexGo uw (renderD d trail) acc pp = some (wordTok pp acc :: d.map Prod.snd)) := by
  intro d
  induction d with
  | nil =>
    intro _
    refine ⟨fun pp _ => ?_, fun pp acc hacc _ => ?_⟩
    · simpa [renderD, flush] using lexGo_trail uw trail [] pp htrail
    · cases acc with
      | nil => exact absurd rfl hacc
      | cons a acc => simpa [renderD, flush_cons] using lexGo_trail uw trail (a :: acc) pp htrail
  | cons wt d ih =>
    obtain ⟨w, t⟩ := wt
    intro hws
    have hw : allWs w = true := hws (w, t) (by simp)
    obtain ⟨ihA, ihB⟩ := ih (fun p hp => hws p (by simp [hp]))
    refine ⟨fun pp hl => ?_, fun pp acc hacc hl => ?_⟩
    · -- state A: no pending identifier
      simp only [renderD, List.append_assoc]
      rw [lexGo_skip_ws uw w _ pp hw]
      simp only [List.map_cons, lexable, Bool.and_eq_true] at hl
      cases ht : t.isWord with
      | false =>
        obtain ⟨c, hc, h1, h2, h3⟩ := sym_facts t ht
        have hl2 : lexable uw (t == .plus) false (d.map Prod.snd) = true := by
          simpa [ht] using hl.2
        rw [hc, List.singleton_append, lexGo_sym uw c t _ [] pp h1 h2 (h3 uw), ihA _ hl2]
        simp [flush]
      | true =>
        have hl2 : lexable uw (t == .plus) true (d.map Prod.snd) = true := by
          simpa [ht] using hl.2
        cases t with
        | name n =>
          have hl1 := hl.1
          simp only [Bool.not_false, Bool.true_and, Bool.and_eq_true] at hl1
          cases n with
          | nil => simp [validName] at hl1
          | cons c cs =>
            have hv := hl1.1
            simp only [validName, Bool.and_eq_true] at hv
            have hstep : lexGo uw ((c :: cs) ++ renderD d trail) [] pp
                = lexGo uw (cs ++ renderD d trail) [c] pp := by
              simp [lexGo, hv.1]
            simp only [Tok.text]
            rw [hstep, lexGo_word_run uw cs _ [c] pp (by simp) hv.2]
            have e : (Tok.name (c :: cs) == Tok.plus) = false := rfl
            rw [e] at hl2
            have hB := ihB pp ([c] ++ cs) (by simp) hl2
            rw [hB]
            have : wordTok pp (c :: cs) = .name (c :: cs) := by
              have h2 := hl1.2
              simp only [Bool.or_eq_true, bne_iff_ne, ne_eq] at h2
              simp only [wordTok]
              rcases h2 with h2 | h2
              · simp [h2]
              · have : ((c :: cs) == itemsKw) = false := by simpa using h2
                simp [this]
            simp [this]
        | items =>
          have hl1 := hl.1
          simp only [Bool.not_false, Bool.true_and, Bool.not_eq_true'] at hl1
          subst hl1
          have hstep : lexGo uw (itemsKw ++ renderD d trail) [] false
              = lexGo uw (['t','e','m','s'] ++ renderD d trail) ['i'] false := by
            simp [lexGo, itemsKw, isWordStart, isAsciiLetter]
          simp only [Tok.text]
          rw [hstep, lexGo_word_run uw _ _ ['i'] false (by simp) (by rfl)]
          have e : (Tok.items == Tok.plus) = false := rfl
          rw [e] at hl2
          have hB := ihB false (['i'] ++ ['t','e','m','s']) (by simp) hl2
          rw [hB]
          rfl
        | plus => simp [Tok.isWord] at ht
        | star => simp [Tok.isWord] at ht
        | conn c => simp [Tok.isWord] at ht
        | comma => simp [Tok.isWord] at ht
        | lb => simp [Tok.isWord] at ht
        | rb => simp [Tok.isWord] at ht
    · -- state B: an identifier is pending, the next token is a symbol
      simp only [List.map_cons, lexable, Bool.and_eq_true] at hl
      have ht : t.isWord = false := by
        cases t <;> simp_all [Tok.isWord]
      obtain ⟨c, hc, h1, h2, h3⟩ := sym_facts t ht
      have hl2 : lexable uw (t == .plus) false (d.map Prod.snd) = true := by
        simpa [ht] using hl.2
      obtain ⟨a, acc', rfl⟩ : ∃ a acc', acc = a :: acc' := by
        cases acc with
        | nil => exact absurd rfl hacc
        | cons a acc' => exact ⟨a, acc', rfl⟩
      simp only [renderD, List.append_assoc, hc, List.singleton_append]
      cases w with
      | nil =>
        rw [List.nil_append, lexGo_sym uw c t _ _ pp h1 h2 (h3 uw), ihA _ hl2]
        simp [flush_cons]
      | cons c' w' =>
        simp only [allWs, List.all_cons, Bool.and_eq_true] at hw
        obtain ⟨g1, g2, g3⟩ := ws_facts hw.1
        have : lexGo uw (c' :: (w' ++ c :: renderD d trail)) (a :: acc') pp
            = (lexGo uw (w' ++ c :: renderD d trail) [] false).map
                (fun r => flush pp (a :: acc') ++ r) := by
          simp [lexGo, g1, g2, g3 uw, hw.1, apAfter]
        rw [List.cons_append, this, lexGo_skip_ws uw w' _ false hw.2,
          lexGo_sym uw c t _ [] false h1 h2 (h3 uw), ihA _ hl2]
        simp [flush]


/-! ### the token string of a tree is lexable iff its names are identifiers -/

/-- the last token of the tree is a word -/
def endsWord : Cst → Bool
  | .trait _ => true
  | .items => true
  | .metadata _ => true
  | .any => false
  | .group _ => false
  | .ser _ _ r => endsWord r
  | .par _ r => endsWord r

theorem lexable_toks (c : Cst) : ∀ rest,
    lexable uw false false (toks c ++ rest) = (namesOk uw c && lexable uw false (endsWord c) rest) := by
  induction c with
  | trait n =>
    intro rest
    have e : (Tok.name n == Tok.plus) = false := rfl
    simp [toks, lexable, namesOk, endsWord, e, Tok.isWord]
  | items =>
    intro rest
    have e : (Tok.items == Tok.plus) = false := rfl
    simp [toks, lexable, namesOk, endsWord, e, Tok.isWord]
  | metadata n =>
    intro rest
    have e : (Tok.name n == Tok.plus) = false := rfl
    have e' : (Tok.plus == Tok.plus) = true := rfl
    simp [toks, lexable, namesOk, endsWord, e, Tok.isWord]
  | any =>
    intro rest
    have e : (Tok.star == Tok.plus) = false := rfl
    simp [toks, lexable, namesOk, endsWord, e, Tok.isWord]
  | group p ih =>
    intro rest
    have e : (Tok.lb == Tok.plus) = false := rfl
    have e' : (Tok.rb == Tok.plus) = false := rfl
    have : toks (.group p) ++ rest = .lb :: (toks p ++ .rb :: rest) := by simp [toks]
    rw [this]
    simp only [lexable, e, Tok.isWord, Bool.true_and]
    rw [ih]
    simp [lexable, e', Tok.isWord, namesOk, endsWord]
  | ser l cn r ihl ihr =>
    intro rest
    have e : (Tok.conn cn == Tok.plus) = false := rfl
    have : toks (.ser l cn r) ++ rest = toks l ++ .conn cn :: (toks r ++ rest) := by simp [toks]
    rw [this, ihl]
    simp only [lexable, e, Tok.isWord, Bool.true_and]
    rw [ihr]
    simp [namesOk, endsWord, Bool.and_assoc]
  | par l r ihl ihr =>
    intro rest
    have e : (Tok.comma == Tok.plus) = false := rfl
    have : toks (.par l r) ++ rest = toks l ++ .comma :: (toks r ++ rest) := by simp [toks]
    rw [this, ihl]
    simp only [lexable, e, Tok.isWord, Bool.true_and]
    rw [ihr]
    simp [namesOk, endsWord, Bool.and_assoc]

/-- **Lexer completeness**: every rendering of a tree with proper names lexes
to the tree's token string. -/
theorem lex_rendering (c : Cst) (s : List Char) (hn : namesOk uw c = true) (h : IsRendering c s) :
    lex uw s = some (toks c) := by
  obtain ⟨d, trail, hd, hws, htrail, rfl⟩ := h
  have hl : lexable uw false false (d.map Prod.snd) = true := by
    have := lexable_toks uw c []
    simp only [List.append_nil] at this
    rw [hd, this, hn]
    rfl
  have := (lexGo_renderD uw trail htrail d hws).1 false hl
  rw [lex, this, hd]

/-! ### lexer soundness: an accepted text is a rendering of its tokens -/

/-- NAME tokens are identifiers, and the keyword rule: an identifier spelt
`items` is a NAME only directly after PLUS, and ITEMS never comes directly after PLUS. -/
def tokNames : Bool → List Tok → Bool
  | _, [] => true
  | pp, t :: ts =>
    (match t with
     | .name n => validName uw n && (pp || n != itemsKw)
     | .items => !pp
     | _ => true) && tokNames (t == .plus) ts

theorem symTok_facts {c : Char} {t : Tok} (h : symTok c = some t) :
    t.text = [c] ∧ t.isWord = false := by
  simp only [symTok] at h
  repeat' split at h
  all_goals (try cases h)
  all_goals (rename_i hc; simp only [beq_iff_eq] at hc; subst hc; exact ⟨rfl, rfl⟩)

theorem wordTok_text (pp : Bool) (n : Name) : (wordTok pp n).text = n := by
  simp only [wordTok]
  split
  · rename_i h
    simp only [Bool.and_eq_true, beq_iff_eq] at h
    simp [Tok.text, h.2]
  · rfl

theorem wordTok_names (pp : Bool) (n : Name) (hv : validName uw n = true) (ts : List Tok)
    (h : tokNames uw false ts = true) : tokNames uw pp (wordTok pp n :: ts) = true := by
  simp only [wordTok]
  split
  · rename_i hc
    simp only [Bool.and_eq_true, Bool.not_eq_true', beq_iff_eq] at hc
    have e : (Tok.items == Tok.plus) = false := rfl
    simp [tokNames, hc.1, e, h]
  · rename_i hc
    have e : (Tok.name n == Tok.plus) = false := rfl
    simp only [tokNames, e, h, hv, Bool.and_true, Bool.true_and]
    cases pp
    · simp only [Bool.not_false, Bool.true_and, Bool.not_eq_true] at hc
      simpa [bne] using hc
    · rfl

theorem renderD_cons_ws (c : Char) (hc : isWs c = true) (d : List (List Char × Tok)) (trail : List Char)
    (hws : ∀ p ∈ d, allWs p.1 = true) (ht : allWs trail = true) :
    ∃ d' trail', d'.map Prod.snd = d.map Prod.snd ∧ (∀ p ∈ d', allWs p.1 = true) ∧
      allWs trail' = true ∧ c :: renderD d trail = renderD d' trail' := by
  cases d with
  | nil => exact ⟨[], c :: trail, rfl, by simp, by simp [allWs, hc] at ht ⊢; exact ht, rfl⟩
  | cons wt d =>
    obtain ⟨w, t⟩ := wt
    refine ⟨(c :: w, t) :: d, trail, rfl, ?_, ht, by simp [renderD]⟩
    intro p hp
    simp only [List.mem_cons] at hp
    rcases hp with rfl | hp
    · have := hws (w, t) (by simp)
      simp [allWs, hc] at this ⊢
      exact this
    · exact hws p (by simp [hp])

theorem lexGo_sound : ∀ (s acc : List Char) (pp : Bool) (ts : List Tok),
    lexGo uw s acc pp = some ts →
    (acc = [] → ∃ d trail, d.map Prod.snd = ts ∧ (∀ p ∈ d, allWs p.1 = true) ∧ allWs trail = true ∧
        s = renderD d trail ∧ tokNames uw pp ts = true) ∧
    (acc ≠ [] → ∃ cs d trail, cs.all (isWordChar uw) = true ∧
        ts = wordTok pp (acc ++ cs) :: d.map Prod.snd ∧ (∀ p ∈ d, allWs p.1 = true) ∧
        allWs trail = true ∧ s = cs ++ renderD d trail ∧ tokNames uw false (d.map Prod.snd) = true) := by
  intro s
  induction s with
  | nil =>
    intro acc pp ts h
    simp only [lexGo, Option.some.injEq] at h
    subst h
    refine ⟨fun ha => ?_, fun ha => ?_⟩
    · subst ha
      exact ⟨[], [], rfl, by simp, rfl, rfl, rfl⟩
    · refine ⟨[], [], [], rfl, ?_, by simp, rfl, rfl, rfl⟩
      cases acc with
      | nil => exact absurd rfl ha
      | cons a acc => simp [flush_cons]
  | cons c s ih =>
    intro acc pp ts h
    by_cases h1 : (!acc.isEmpty && isWordChar uw c) = true
    · -- the pending identifier goes on
      simp only [lexGo, h1, if_true] at h
      have hacc : acc ≠ [] := by
        intro e; subst e; simp at h1
      simp only [Bool.and_eq_true] at h1
      obtain ⟨cs, d, trail, hcs, hts, hws, htr, hs, hn⟩ := (ih _ _ _ h).2 (by simp)
      refine ⟨fun ha => absurd ha hacc, fun _ => ?_⟩
      exact ⟨c :: cs, d, trail, by simp [h1.2, hcs], by simpa using hts, hws, htr, by simp [hs], hn⟩
    · have h1' : (!acc.isEmpty && isWordChar uw c) = false := by simpa using h1
      by_cases h2 : (acc.isEmpty && isWordStart c) = true
      · -- an identifier starts
        simp only [lexGo, h1', h2, if_true] at h
        simp only [Bool.and_eq_true, List.isEmpty_iff] at h2
        obtain ⟨hacc, hstart⟩ := h2
        subst hacc
        obtain ⟨cs, d, trail, hcs, hts, hws, htr, hs, hn⟩ := (ih _ _ _ h).2 (by simp)
        refine ⟨fun _ => ?_, fun ha => absurd rfl ha⟩
        refine ⟨([], wordTok pp (c :: cs)) :: d, trail, by simpa using hts.symm, ?_, htr, ?_, ?_⟩
        · intro p hp
          simp only [List.mem_cons] at hp
          rcases hp with rfl | hp
          · rfl
          · exact hws p hp
        · simp [renderD, wordTok_text, hs]
        · rw [hts]
          exact wordTok_names uw pp (c :: cs) (by simp [validName, hstart, hcs]) _ hn
      · have h2' : (acc.isEmpty && isWordStart c) = false := by simpa using h2
        simp only [lexGo, h1', h2', Bool.false_eq_true, if_false] at h
        cases hsym : symTok c with
        | some t =>
          simp only [hsym, Option.map_eq_some_iff] at h
          obtain ⟨r, hr, hts⟩ := h
          obtain ⟨d, trail, hd, hws, htr, hs, hn⟩ := (ih _ _ _ hr).1 rfl
          obtain ⟨htext, hword⟩ := symTok_facts hsym
          have hws' : ∀ p ∈ ([], t) :: d, allWs p.1 = true := by
            intro p hp
            simp only [List.mem_cons] at hp
            rcases hp with rfl | hp
            · rfl
            · exact hws p hp
          have hsr : c :: s = renderD (([], t) :: d) trail := by simp [renderD, htext, hs]
          have hnt : ∀ pp', tokNames uw pp' (t :: r) = true := by
            intro pp'
            cases t <;> simp_all [tokNames, Tok.isWord]
          refine ⟨fun ha => ?_, fun ha => ?_⟩
          · subst ha
            refine ⟨([], t) :: d, trail, by simp [← hts, flush, hd], hws', htr, hsr, ?_⟩
            rw [← hts]; simpa [flush] using hnt pp
          · obtain ⟨a, acc', rfl⟩ : ∃ a acc', acc = a :: acc' := by
              cases acc with
              | nil => exact absurd rfl ha
              | cons a acc' => exact ⟨a, acc', rfl⟩
            refine ⟨[], ([], t) :: d, trail, rfl, by simp [← hts, flush_cons, hd], hws', htr,
              by simpa using hsr, ?_⟩
            simpa [hd] using hnt false
        | none =>
          simp only [hsym] at h
          by_cases hw : isWs c = true
          · simp only [hw, if_true, Option.map_eq_some_iff] at h
            obtain ⟨r, hr, hts⟩ := h
            obtain ⟨d, trail, hd, hws, htr, hs, hn⟩ := (ih _ _ _ hr).1 rfl
            obtain ⟨d', trail', hd', hws', htr', hs'⟩ := renderD_cons_ws c hw d trail hws htr
            refine ⟨fun ha => ?_, fun ha => ?_⟩
            · subst ha
              refine ⟨d', trail', by simp [← hts, flush, hd', hd], hws', htr', by rw [hs, hs'], ?_⟩
              rw [← hts]; simpa [flush, apAfter] using hn
            · obtain ⟨a, acc', rfl⟩ : ∃ a acc', acc = a :: acc' := by
                cases acc with
                | nil => exact absurd rfl ha
                | cons a acc' => exact ⟨a, acc', rfl⟩
              refine ⟨[], d', trail', rfl, by simp [← hts, flush_cons, hd', hd], hws', htr',
                by simp [hs, hs'], ?_⟩
              rw [hd', hd]; simpa [apAfter] using hn
          · simp [hw] at h

/-- **Lexer soundness**: an accepted text is its tokens' texts with blanks
around them, and the NAME tokens obey the identifier / keyword rules. -/
theorem lex_sound (s : List Char) (ts : List Tok) (h : lex uw s = some ts) :
    ∃ d trail, d.map Prod.snd = ts ∧ (∀ p ∈ d, allWs p.1 = true) ∧ allWs trail = true ∧
      s = renderD d trail ∧ tokNames uw false ts = true :=
  (lexGo_sound uw s [] false ts h).1 rfl

theorem tokNames_toks (c : Cst) : ∀ rest,
    tokNames uw false (toks c ++ rest) = (namesOk uw c && tokNames uw false rest) := by
  induction c with
  | trait n =>
    intro rest
    have e : (Tok.name n == Tok.plus) = false := rfl
    simp [toks, tokNames, namesOk, e]
  | items =>
    intro rest
    have e : (Tok.items == Tok.plus) = false := rfl
    simp [toks, tokNames, namesOk, e]
  | metadata n =>
    intro rest
    have e : (Tok.name n == Tok.plus) = false := rfl
    have e' : (Tok.plus == Tok.plus) = true := rfl
    simp [toks, tokNames, namesOk, e]
  | any =>
    intro rest
    have e : (Tok.star == Tok.plus) = false := rfl
    simp [toks, tokNames, namesOk, e]
  | group p ih =>
    intro rest
    have e : (Tok.lb == Tok.plus) = false := rfl
    have e' : (Tok.rb == Tok.plus) = false := rfl
    have : toks (.group p) ++ rest = .lb :: (toks p ++ .rb :: rest) := by simp [toks]
    rw [this]
    simp only [tokNames, e, Bool.true_and]
    rw [ih]
    simp [tokNames, e', namesOk]
  | ser l cn r ihl ihr =>
    intro rest
    have e : (Tok.conn cn == Tok.plus) = false := rfl
    have : toks (.ser l cn r) ++ rest = toks l ++ .conn cn :: (toks r ++ rest) := by simp [toks]
    rw [this, ihl]
    simp only [tokNames, e, Bool.true_and]
    rw [ihr]
    simp [namesOk, Bool.and_assoc]
  | par l r ihl ihr =>
    intro rest
    have e : (Tok.comma == Tok.plus) = false := rfl
    have : toks (.par l r) ++ rest = toks l ++ .comma :: (toks r ++ rest) := by simp [toks]
    rw [this, ihl]
    simp only [tokNames, e, Bool.true_and]
    rw [ihr]
    simp [namesOk, Bool.and_assoc]
end TraitsVerif.Model.Dsl
