/-
Helper lemmas for C10, part 7: isolation.  In a good world, what can be observed
on instance `j` (its record, the contents of everything reachable from it, the
class records and the contents of their default templates, the handler calls
and factory calls about it) is unchanged by operations on another instance.
-/
import TraitsVerif.Lemmas.AttrOnce
namespace TraitsVerif.Model.Attr
open TraitsVerif

/-- Everything observable on instance `j` and on the classes is the same in `w'` as in `w`. -/
structure SameView (j : Nat) (w w' : World) : Prop where
  inst : w'.insts[j]? = w.insts[j]?
  classes : w'.classes = w.classes
  deep : ∀ x, w.ReachIdx j x → heapGet w'.ctx.heap x = heapGet w.ctx.heap x
  templ : ∀ k ∈ w.classes, ∀ p ∈ k.traits, copyKind p.2.ctrait.core →
    heapGet w'.ctx.heap (p.2.ctrait.core.dv.getD noneId) = heapGet w.ctx.heap (p.2.ctrait.core.dv.getD noneId)
  calls : ∀ o, w.insts[j]? = some o →
    w'.ctx.log.filter (fun c => c.obj == o.oid) = w.ctx.log.filter (fun c => c.obj == o.oid)
  fcalls : ∀ o, w.insts[j]? = some o →
    w'.ctx.fcalls.filter (fun f => f.2.1 == o.oid) = w.ctx.fcalls.filter (fun f => f.2.1 == o.oid)

theorem SameView.refl (j : Nat) (w : World) : SameView j w w :=
  ⟨rfl, rfl, fun _ _ => rfl, fun _ _ _ _ _ => rfl, fun _ _ => rfl, fun _ _ => rfl⟩

theorem SameView.reach {j : Nat} {w w' : World} (h : SameView j w w') (x : Id) (hx : w.ReachIdx j x) :
    w'.ReachIdx j x := by
  obtain ⟨o, ho, n, v, hv, hxv⟩ := hx
  refine ⟨o, by rw [h.inst]; exact ho, n, v, hv, ?_⟩
  rcases hxv with rfl | hk
  · exact Or.inl rfl
  · right
    unfold World.kids at hk ⊢
    rw [h.deep v ⟨o, ho, n, v, hv, Or.inl rfl⟩]
    exact hk

theorem SameView.trans {j : Nat} {a b c : World} (h1 : SameView j a b) (h2 : SameView j b c) : SameView j a c := by
  refine ⟨h2.inst.trans h1.inst, h2.classes.trans h1.classes, fun x hx => ?_, fun k hk p hp hc => ?_,
    fun o ho => ?_, fun o ho => ?_⟩
  · exact (h2.deep x (h1.reach x hx)).trans (h1.deep x hx)
  · exact (h2.templ k (h1.classes ▸ hk) p hp hc).trans (h1.templ k hk p hp hc)
  · exact (h2.calls o (by rw [h1.inst]; exact ho)).trans (h1.calls o ho)
  · exact (h2.fcalls o (by rw [h1.inst]; exact ho)).trans (h1.fcalls o ho)

theorem getElem?_lt {α : Type} {l : List α} {i : Nat} {a : α} (h : l[i]? = some a) : i < l.length := by
  rcases Nat.lt_or_ge i l.length with h' | h'
  · exact h'
  · rw [List.getElem?_eq_none h'] at h; cases h

/-- One operation on instance `i` leaves the view of `j ≠ i` unchanged. -/
theorem step_sameView {E : Env} {P : Nat} {w : World} (g : Good E P w) (op : WOp) (hop : OpOk E P op)
    (i j : Nat) (ht : op.target = some i) (hj : j ≠ i) : SameView j w (World.step E w op).2 := by
  have f := step_frame E w op i ht
  have g' := step_good g op hop
  -- a pre-existing object reachable from `j` before and after keeps its contents
  have key : ∀ x, x < w.ctx.alloc → (World.step E w op).2.ReachIdx j x →
      heapGet (World.step E w op).2.ctx.heap x = heapGet w.ctx.heap x := by
    intro x hx hr'
    rcases f.heap x hx with h | h
    · exact h
    · cases hs : (heapGet (World.step E w op).2.ctx.heap x).isSome with
      | true => exact absurd hr' (g'.sepI i j x (Ne.symm hj) h hs)
      | false =>
        have h0 := f.kept x hx
        rw [hs] at h0
        cases h1 : heapGet (World.step E w op).2.ctx.heap x with
        | some _ => rw [h1] at hs; cases hs
        | none =>
          cases h2 : heapGet w.ctx.heap x with
          | some _ => rw [h2] at h0; cases h0
          | none => rfl
  have hinst : ∀ o, w.insts[j]? = some o → (World.step E w op).2.insts[j]? = w.insts[j]? :=
    fun _ _ => f.others j hj
  refine ⟨f.others j hj, f.classes, ?_, ?_, ?_, ?_⟩
  · intro x hx
    obtain ⟨o, ho, n, v, hv, hxv⟩ := hx
    have hv' : (World.step E w op).2.ReachIdx j v :=
      ⟨o, by rw [hinst o ho]; exact ho, n, v, hv, Or.inl rfl⟩
    have hvl := g.vals j o ho n v hv
    have hroot := key v hvl hv'
    rcases hxv with rfl | hk
    · exact hroot
    · have hxl : x < w.ctx.alloc := reach_lt g j x ⟨o, ho, n, v, hv, Or.inr hk⟩
      refine key x hxl ⟨o, by rw [hinst o ho]; exact ho, n, v, hv, Or.inr ?_⟩
      unfold World.kids at hk ⊢
      rw [hroot]; exact hk
  · intro k hk p hp hc
    have hcore : w.Cores p.2.ctrait.core := Or.inl ⟨k, hk, p, hp, rfl⟩
    have hl := g.templ _ hcore hc
    rcases f.heap _ hl with h | h
    · exact h
    · cases hs : (heapGet (World.step E w op).2.ctx.heap (p.2.ctrait.core.dv.getD noneId)).isSome with
      | true =>
        exact absurd rfl (g'.sepC i _ h hs p.2.ctrait.core (Or.inl ⟨k, f.classes ▸ hk, p, hp, rfl⟩) hc)
      | false =>
        have h0 := f.kept _ hl
        rw [hs] at h0
        cases h1 : heapGet (World.step E w op).2.ctx.heap (p.2.ctrait.core.dv.getD noneId) with
        | some _ => rw [h1] at hs; cases hs
        | none =>
          cases h2 : heapGet w.ctx.heap (p.2.ctrait.core.dv.getD noneId) with
          | some _ => rw [h2] at h0; cases h0
          | none => rfl
  · intro o ho
    obtain ⟨l, hl, hm⟩ := f.log
    rw [hl, List.filter_append]
    have : l.filter (fun c => c.obj == o.oid) = [] := by
      apply filter_none_of
      intro c hc
      obtain ⟨oi, hoi, he⟩ := hm c hc
      simp only [beq_eq_false_iff_ne, ne_eq]
      intro h
      exact hj (g.distinct j i o oi ho hoi (by rw [← h, he]))
    rw [this, List.append_nil]
  · intro o ho
    obtain ⟨l, hl, hm⟩ := f.fcalls
    rw [hl, List.filter_append]
    have : l.filter (fun c => c.2.1 == o.oid) = [] := by
      apply filter_none_of
      intro c hc
      obtain ⟨oi, hoi, he⟩ := hm c hc
      simp only [beq_eq_false_iff_ne, ne_eq]
      intro h
      exact hj (g.distinct j i o oi ho hoi (by rw [← h, he]))
    rw [this, List.append_nil]

/-- Creating an instance leaves the view of every existing instance unchanged. -/
theorem new_sameView (E : Env) (w : World) (k j : Nat) (hj : j < w.insts.length) :
    SameView j w (World.step E w (.new k)).2 := by
  simp only [World.step]
  split
  · refine ⟨?_, rfl, fun _ _ => rfl, fun _ _ _ _ _ => rfl, fun _ _ => rfl, fun _ _ => rfl⟩
    show (w.insts ++ _)[j]? = w.insts[j]?
    rw [List.getElem?_append_left hj]
  · exact SameView.refl j w

/-- **Isolation over histories**: operations on instance `i` and creations of
instances, in any interleaving, leave the view of instance `j ≠ i` unchanged. -/
theorem run_sameView {E : Env} {P : Nat} (i j : Nat) (hji : j ≠ i) :
    ∀ (h : List WOp) (w : World), Good E P w →
      (∀ op ∈ h, OpOk E P op ∧ (op.target = some i ∨ op.target = none)) → j < w.insts.length →
      SameView j w (World.run E w h)
  | [], w, _, _, _ => SameView.refl j w
  | op :: h, w, g, H, hj => by
    rw [World.run]
    obtain ⟨hok, htgt⟩ := H op List.mem_cons_self
    have hstep : SameView j w (World.step E w op).2 := by
      rcases htgt with ht | ht
      · exact step_sameView g op hok i j ht hji
      · cases op with
        | new k => exact new_sameView E w k j hj
        | get _ _ => simp [WOp.target] at ht
        | set _ _ _ => simp [WOp.target] at ht
        | mutate _ _ _ => simp [WOp.target] at ht
        | mutateInner _ _ _ => simp [WOp.target] at ht
        | regDyn _ _ _ => simp [WOp.target] at ht
        | regObs _ _ _ => simp [WOp.target] at ht
        | regAny _ _ => simp [WOp.target] at ht
        | addTrait _ _ _ => simp [WOp.target] at ht
    have hj' : j < (World.step E w op).2.insts.length := by
      have : w.insts[j]? = some w.insts[j] := List.getElem?_eq_getElem hj
      exact getElem?_lt (hstep.inst.trans this)
    exact hstep.trans (run_sameView i j hji h _ (step_good g op hok)
      (fun o ho => H o (List.mem_cons_of_mem _ ho)) hj')

/-! ### First read -/

theorem ost_defaultValueFor_eq (E : Env) (t : TraitCore) (s : OSt) :
    s.defaultValueFor E t =
      ((Attr.defaultValueFor E t s.self s.name s.ctx).1, { s with ctx := (Attr.defaultValueFor E t s.self s.name s.ctx).2 }) := by
  unfold OSt.defaultValueFor
  cases Attr.defaultValueFor E t s.self s.name s.ctx
  rfl

theorem getattrTrait_nopost (E : Env) (t : TraitCore) (s : OSt) (hp : t.post = none) :
    getattrTrait E t s =
      match (Attr.defaultValueFor E t s.self s.name s.ctx).1 with
      | .error e => (.error e, { s with ctx := (Attr.defaultValueFor E t s.self s.name s.ctx).2 })
      | .ok v => (.ok v, { s with slot := some v, ctx := (Attr.defaultValueFor E t s.self s.name s.ctx).2 }) := by
  unfold getattrTrait
  rw [ost_defaultValueFor_eq]
  cases (Attr.defaultValueFor E t s.self s.name s.ctx).1 with
  | error e => rfl
  | ok v =>
    simp only [postSetattr, hp, callNotifiers_uninit']
    split <;> rfl

theorem first_read (E : Env) (w : World) (i : Nat) (n : Name) (o : Inst) (td : TraitDef)
    (hi : w.insts[i]? = some o) (ht : w.traitOf o n = some td) (hk : td.core.kind = .trait)
    (hp : td.core.post = none) (hs : assocGet o.dict n = none) :
    (∀ v, (Attr.defaultValueFor E td.core o.oid n w.ctx).1 = .ok v →
      (World.step E w (.get i n)).1 = { val := some v }
      ∧ ∃ o', (World.step E w (.get i n)).2.insts[i]? = some o' ∧ assocGet o'.dict n = some v)
    ∧ (∀ e, (Attr.defaultValueFor E td.core o.oid n w.ctx).1 = .error e →
      (World.step E w (.get i n)).1 = { exc := some e }) := by
  have hslot : (w.focus o n).slot = none := hs
  have hg : getattro E td.core (w.focus o n) = getattrTrait E td.core (w.focus o n) := by
    unfold getattro traitGetattr
    simp only [hslot, hk]
  have hnp := getattrTrait_nopost E td.core (w.focus o n) hp
  have hself : (w.focus o n).self = o.oid := rfl
  have hname : (w.focus o n).name = n := rfl
  have hctx : (w.focus o n).ctx = w.ctx := rfl
  rw [hself, hname, hctx] at hnp
  constructor
  · intro v hv
    rw [hv] at hnp
    obtain ⟨s', h1, h2⟩ : ∃ s', Attr.step E td.core (w.focus o n) .get = ({ val := some v }, s') ∧
        s'.slot = some v := ⟨_, by unfold Attr.step; rw [hg, hnp], rfl⟩
    simp only [World.step, World.onAttr, hi, ht, h1, true_and]
    refine ⟨_, setInst_get_self w i o _ _ hi, ?_⟩
    unfold Inst.absorb
    simp only [h2]
    exact assocGet_assocSet_self _ _ _
  · intro e he
    rw [he] at hnp
    obtain ⟨s', h1⟩ : ∃ s', Attr.step E td.core (w.focus o n) .get = ({ exc := some e }, s') :=
      ⟨_, by unfold Attr.step; rw [hg, hnp]⟩
    simp only [World.step, World.onAttr, hi, ht, h1]

end TraitsVerif.Model.Attr
