/-
Helper lemmas for C10, part 7: isolation.  In a good world, what can be observed
on instance `j` (its record, the contents of everything reachable from it, the
class records and the contents of their default templates, the handler calls
and factory calls about it) is unchanged by operations on another instance.
-/
import TraitsVerif.Lemmas.AttrOnce
namespace TraitsVerif.Model.Attr
open TraitsVerif

/-- Everything observable on instance `j` and on the classes is the same in `w'` as in `w`. -/
structure SameView (j : Nat) (w w' : World) : Prop where
  inst : w'.insts[j]? = w.insts[j]?
  classes : w'.classes = w.classes
  deep : ∀ x, w.ReachIdx j x → heapGet w'.ctx.heap x = heapGet w.ctx.heap x
  templ : ∀ k ∈ w.classes, ∀ p ∈ k.traits, copyKind p.2.ctrait.core →
    heapGet w'.ctx.heap (p.2.ctrait.core.dv.getD noneId) = heapGet w.ctx.heap (p.2.ctrait.core.dv.getD noneId)
  calls : ∀ o, w.insts[j]? = some o →
    w'.ctx.log.filter (fun c => c.obj == o.oid) = w.ctx.log.filter (fun c => c.obj == o.oid)
  fcalls : ∀ o, w.insts[j]? = some o →
    w'.ctx.fcalls.filter (fun f => f.2.1 == o.oid) = w.ctx.fcalls.filter (fun f => f.2.1 == o.oid)

theorem SameView.refl (j : Nat) (w : World) : SameView j w w :=
  ⟨rfl, rfl, fun _ _ => rfl, fun _ _ _ _ _ => rfl, fun _ _ => rfl, fun _ _ => rfl⟩

theorem SameView.reach {j : Nat} {w w' : World} (h : SameView j w w') (x : Id) (hx : w.ReachIdx j x) :
    w'.ReachIdx j x := by
  obtain ⟨o, ho, n, v, hv, hxv⟩ := hx
  refine ⟨o, by rw [h.inst]; exact ho, n, v, hv, ?_⟩
  rcases hxv with rfl | hk
  · exact Or.inl rfl
  · right
    unfold World.kids at hk ⊢
    rw [h.deep v ⟨o, ho, n, v, hv, Or.inl rfl⟩]
    exact hk

theorem SameView.trans {j : Nat} {a b c : World} (h1 : SameView j a b) (h2 : SameView j b c) : SameView j a c := by
  refine ⟨h2.inst.trans h1.inst, h2.classes.trans h1.classes, fun x hx => ?_, fun k hk p hp hc => ?_,
    fun o ho => ?_, fun o ho => ?_⟩
  · exact (h2.deep x (h1.reach x hx)).trans (h1.deep x hx)
  · exact (h2.templ k (h1.classes ▸ hk) p hp hc).trans (h1.templ k hk p hp hc)
  · exact (h2.calls o (by rw [h1.inst]; exact ho)).trans (h1.calls o ho)
  · exact (h2.fcalls o (by rw [h1.inst]; exact ho)).trans (h1.fcalls o ho)

theorem getElem?_lt {α : Type} {l : List α} {i : Nat} {a : α} (h : l[i]? = some a) : i < l.length := by
  rcases Nat.lt_or_ge i l.length with h' | h'
  · exact h'
  · rw [List.getElem?_eq_none h'] at h; cases h

/-- One operation on instance `i` leaves the view of `j ≠ i` unchanged. -/
theorem step_sameView {E : Env} {P : Nat} {w : World} (g : Good E P w) (op : WOp) (hop : OpOk E P op)
    (i j : Nat) (ht : op.target = some i) (hj : j ≠ i) : SameView j w (World.step E w op).2 := by
  have f := step_frame E w op i ht
  have g' := step_good g op hop
  -- a pre-existing object reachable from `j` before and after keeps its contents
  have key : ∀ x, x < w.ctx.alloc → (World.step E w op).2.ReachIdx j x →
      heapGet (World.step E w op).2.ctx.heap x = heapGet w.ctx.heap x := by
    intro x hx hr'
    rcases f.heap x hx with h | h
    · exact h
    · cases hs : (heapGet (World.step E w op).2.ctx.heap x).isSome with
      | true => exact absurd hr' (g'.sepI i j x (Ne.symm hj) h hs)
      | false =>
        have h0 := f.kept x hx
        rw [hs] at h0
        cases h1 : heapGet (World.step E w op).2.ctx.heap x with
        | some _ => rw [h1] at hs; cases hs
        | none =>
          cases h2 : heapGet w.ctx.heap x with
          | some _ => rw [h2] at h0; cases h0
          | none => rfl
  have hinst : ∀ o, w.insts[j]? = some o → (World.step E w op).2.insts[j]? = w.insts[j]? :=
    fun _ _ => f.others j hj
  refine ⟨f.others j hj, f.classes, ?_, ?_, ?_, ?_⟩
  · intro x hx
    obtain ⟨o, ho, n, v, hv, hxv⟩ := hx
    have hv' : (World.step E w op).2.ReachIdx j v :=
      ⟨o, by rw [hinst o ho]; exact ho, n, v, hv, Or.inl rfl⟩
    have hvl := g.vals j o ho n v hv
    have hroot := key v hvl hv'
    rcases hxv with rfl | hk
    · exact hroot
    · have hxl : x < w.ctx.alloc := reach_lt g j x ⟨o, ho, n, v, hv, Or.inr hk⟩
      refine key x hxl ⟨o, by rw [hinst o ho]; exact ho, n, v, hv, Or.inr ?_⟩
      unfold World.kids at hk ⊢
      rw [hroot]; exact hk
  · intro k hk p hp hc
    have hcore : w.Cores p.2.ctrait.core := Or.inl ⟨k, hk, p, hp, rfl⟩
    have hl := g.templ _ hcore hc
    rcases f.heap _ hl with h | h
    · exact h
    · cases hs : (heapGet (World.step E w op).2.ctx.heap (p.2.ctrait.core.dv.getD noneId)).isSome with
      | true =>
        exact absurd rfl (g'.sepC i _ h hs p.2.ctrait.core (Or.inl ⟨k, f.classes ▸ hk, p, hp, rfl⟩) hc)
      | false =>
        have h0 := f.kept _ hl
        rw [hs] at h0
        cases h1 : heapGet (World.step E w op).2.ctx.heap (p.2.ctrait.core.dv.getD noneId) with
        | some _ => rw [h1] at hs; cases hs
        | none =>
          cases h2 : heapGet w.ctx.heap (p.2.ctrait.core.dv.getD noneId) with
          | some _ => rw [h2] at h0; cases h0
          | none => rfl
  · intro o ho
    obtain ⟨l, hl, hm⟩ := f.log
    rw [hl, List.filter_append]
    have : l.filter (fun c => c.obj == o.oid) = [] := by
      apply filter_none_of
      intro c hc
      obtain ⟨oi, hoi, he⟩ := hm c hc
      simp only [beq_eq_false_iff_ne, ne_eq]
      intro h
      exact hj (g.distinct j i o oi ho hoi (by rw [← h, he]))
    rw [this, List.append_nil]
  · intro o ho
    obtain ⟨l, hl, hm⟩ := f.fcalls
    rw [hl, List.filter_append]
    have : l.filter (fun c => c.2.1 == o.oid) = [] := by
      apply filter_none_of
      intro c hc
      obtain ⟨oi, hoi, he⟩ := hm c hc
      simp only [beq_eq_false_iff_ne, ne_eq]
      intro h
      exact hj (g.distinct j i o oi ho hoi (by rw [← h, he]))
    rw [this, List.append_nil]

/-- Creating an instance leaves the view of every existing instance unchanged. -/
theorem new_sameView (E : Env) (w : World) (k j : Nat) (hj : j < w.insts.length) :
    SameView j w (World.step E w (.new k)).2 := by
  simp only [World.step]
  split
  · refine ⟨?_, rfl, fun _ _ => rfl, fun _ _ _ _ _ => rfl, fun _ _ => rfl, fun _ _ => rfl⟩
    show (w.insts ++ _)[j]? = w.insts[j]?
    rw [List.getElem?_append_left hj]
  · exact SameView.refl j w

/-- **Isolation over histories**: operations on instance `i` and creations of
instances, in any interleaving, leave the view of instance `j ≠ i` unchanged. -/
theorem run_sameView {E : Env} {P : Nat} (i j : Nat) (hji : j ≠ i) :
    ∀ (h : List WOp) (w : World), Good E P w →
      (∀ op ∈ h, OpOk E P op ∧ (op.target = some i ∨ op.target = none)) → j < w.insts.length →
      SameView j w (World.run E w h)
  | [], w, _, _, _ => SameView.refl j w
  | op :: h, w, g, H, hj => by
    rw [World.run]
    obtain ⟨hok, htgt⟩ := H op List.mem_cons_self
    have hstep : SameView j w (World.step E w op).2 := by
      rcases htgt with ht | ht
      · exact step_sameView g op hok i j ht hji
      · cases op with
        | new k => exact new_sameView E w k j hj
        | get _ _ => simp [WOp.target] at ht
        | set _ _ _ => simp [WOp.target] at ht
        | mutate _ _ _ => simp [WOp.target] at ht
        | mutateInner _ _ _ => simp [WOp.target] at ht
        | regDyn _ _ _ => simp [WOp.target] at ht
        | regObs _ _ _ => simp [WOp.target] at ht
        | regAny _ _ => simp [WOp.target] at ht
        | addTrait _ _ _ => simp [WOp.target] at ht
        | del _ _ => simp [WOp.target] at ht
        | query _ => simp [WOp.target] at ht
    have hj' : j < (World.step E w op).2.insts.length := by
      have : w.insts[j]? = some w.insts[j] := List.getElem?_eq_getElem hj
      exact getElem?_lt (hstep.inst.trans this)
    exact hstep.trans (run_sameView i j hji h _ (step_good g op hok)
      (fun o ho => H o (List.mem_cons_of_mem _ ho)) hj')

/-! ### First read -/

theorem ost_defaultValueFor_eq (E : Env) (t : TraitCore) (s : OSt) :
    s.defaultValueFor E t =
      ((Attr.defaultValueFor E t s.self s.name s.ctx).1, { s with ctx := (Attr.defaultValueFor E t s.self s.name s.ctx).2 }) := by
  unfold OSt.defaultValueFor
  cases Attr.defaultValueFor E t s.self s.name s.ctx
  rfl

theorem getattrTrait_nopost (E : Env) (t : TraitCore) (s : OSt) (hp : t.post = none) :
    getattrTrait E t s =
      match (Attr.defaultValueFor E t s.self s.name s.ctx).1 with
      | .error e => (.error e, { s with ctx := (Attr.defaultValueFor E t s.self s.name s.ctx).2 })
      | .ok v => (.ok v, { s with slot := some v, ctx := (Attr.defaultValueFor E t s.self s.name s.ctx).2 }) := by
  unfold getattrTrait
  rw [ost_defaultValueFor_eq]
  cases (Attr.defaultValueFor E t s.self s.name s.ctx).1 with
  | error e => rfl
  | ok v =>
    simp only [postSetattr, hp, callNotifiers_uninit']
    split <;> rfl

theorem first_read (E : Env) (w : World) (i : Nat) (n : Name) (o : Inst) (td : TraitDef)
    (hi : w.insts[i]? = some o) (ht : w.traitOf o n = some td) (hk : td.core.kind = .trait)
    (hp : td.core.post = none) (hs : assocGet o.dict n = none) :
    (∀ v, (Attr.defaultValueFor E td.core o.oid n w.ctx).1 = .ok v →
      (World.step E w (.get i n)).1 = { val := some v }
      ∧ ∃ o', (World.step E w (.get i n)).2.insts[i]? = some o' ∧ assocGet o'.dict n = some v)
    ∧ (∀ e, (Attr.defaultValueFor E td.core o.oid n w.ctx).1 = .error e →
      (World.step E w (.get i n)).1 = { exc := some e }) := by
  have hslot : (w.focus o n).slot = none := hs
  have hg : getattro E td.core (w.focus o n) = getattrTrait E td.core (w.focus o n) := by
    unfold getattro traitGetattr
    simp only [hslot, hk]
  have hnp := getattrTrait_nopost E td.core (w.focus o n) hp
  have hself : (w.focus o n).self = o.oid := rfl
  have hname : (w.focus o n).name = n := rfl
  have hctx : (w.focus o n).ctx = w.ctx := rfl
  rw [hself, hname, hctx] at hnp
  constructor
  · intro v hv
    rw [hv] at hnp
    obtain ⟨s', h1, h2⟩ : ∃ s', Attr.step E td.core (w.focus o n) .get = ({ val := some v }, s') ∧
        s'.slot = some v := ⟨_, by unfold Attr.step; rw [hg, hnp], rfl⟩
    simp only [World.step, World.onAttr, hi, ht, h1, true_and]
    refine ⟨_, setInst_get_self w i o _ _ hi, ?_⟩
    unfold Inst.absorb
    simp only [h2]
    exact assocGet_assocSet_self _ _ _
  · intro e he
    rw [he] at hnp
    obtain ⟨s', h1⟩ : ∃ s', Attr.step E td.core (w.focus o n) .get = ({ exc := some e }, s') :=
      ⟨_, by unfold Attr.step; rw [hg, hnp]⟩
    simp only [World.step, World.onAttr, hi, ht, h1]

/-! ### A default factory that raises -/

/-- The default kinds that call user code: `factory(*args, **kw)` and `_name_default(self)`
(also `Tuple` / `Union` / … `_get_default_value`). -/
def callsUser (t : TraitCore) : Prop :=
  t.dvt = Generated.CALLABLE_AND_ARGS_DEFAULT_VALUE ∨ t.dvt = Generated.CALLABLE_DEFAULT_VALUE

/-- What the user callable is called with: nothing (`None` here) or the object. -/
def factoryArg (t : TraitCore) (self : Id) : Id :=
  if t.dvt = Generated.CALLABLE_AND_ARGS_DEFAULT_VALUE then noneId else self

/-- The exception the caller of the read sees when the default computation raised `e`:
`e` itself, except that an `AttributeError` is replaced by the `UserWarning` Traits issues
about it when warnings are errors (`_warn_on_attribute_error`). -/
def surfaced (E : Env) (e : Exc) : Exc :=
  if e = .attributeError ∧ E.warnError = true then .other else e

theorem warn_error (E : Env) (e : Exc) : warnOnAttributeError E (.error e) = .error (surfaced E e) := by
  unfold warnOnAttributeError surfaced
  cases e <;> simp
  cases E.warnError <;> simp

theorem defaultValueFor_raises (E : Env) (t : TraitCore) (obj : Id) (name : Name) (c : Ctx) (e : Exc)
    (hu : callsUser t)
    (hr : E.factory (t.dv.getD noneId) c.fcalls.length (factoryArg t obj) = .error e) :
    defaultValueFor E t obj name c =
      (.error (surfaced E e), { c with fcalls := c.fcalls ++ [(t.dv.getD noneId, obj, name)] }) := by
  unfold factoryArg at hr
  rcases hu with h | h
  · simp only [h, if_true] at hr
    unfold defaultValueFor callFactory
    simp (config := { decide := true }) only [h, hr, warn_error, if_true, if_false]
  · have hne : ¬ (Generated.CALLABLE_DEFAULT_VALUE = Generated.CALLABLE_AND_ARGS_DEFAULT_VALUE) := by decide
    simp only [h, hne, if_false] at hr
    unfold defaultValueFor callFactory
    simp (config := { decide := true }) only [h, hr, warn_error, if_true, if_false]

theorem defaultValueFor_user_fcalls (E : Env) (t : TraitCore) (obj : Id) (name : Name) (c : Ctx)
    (hu : callsUser t) :
    (defaultValueFor E t obj name c).2.fcalls = c.fcalls ++ [(t.dv.getD noneId, obj, name)] := by
  rcases hu with h | h
  · unfold defaultValueFor
    simp (config := { decide := true }) only [h, if_true, if_false]
    exact (callFactory_frame E _ obj name noneId c).2
  · unfold defaultValueFor
    simp (config := { decide := true }) only [h, if_true, if_false]
    have h1 := (callFactory_frame E (t.dv.getD noneId) obj name obj c).2
    cases hc : callFactory E (t.dv.getD noneId) obj name obj c with
    | mk r c1 =>
      rw [hc] at h1
      cases r with
      | error e => exact h1
      | ok v => exact ((validateDefault_frame E t v c1).2).trans h1

/-- A read whose default factory raises, and the retry. -/
theorem default_raises (E : Env) (t : TraitCore) (s : OSt) (e : Exc)
    (hk : t.kind = .trait) (hu : callsUser t) (hs : s.slot = none)
    (hr : E.factory (t.dv.getD noneId) s.ctx.fcalls.length (factoryArg t s.self) = .error e) :
    step E t s .get =
      ({ exc := some (surfaced E e) },
       { s with ctx := { s.ctx with fcalls := s.ctx.fcalls ++ [(t.dv.getD noneId, s.self, s.name)] } })
    ∧ (t.post = none →
        ∀ s1 : OSt, s1 = { s with ctx := { s.ctx with fcalls := s.ctx.fcalls ++ [(t.dv.getD noneId, s.self, s.name)] } } →
        (step E t s1 .get).2.ctx.fcalls =
          s.ctx.fcalls ++ [(t.dv.getD noneId, s.self, s.name), (t.dv.getD noneId, s.self, s.name)]
        ∧ (∀ v, (defaultValueFor E t s.self s.name s1.ctx).1 = .ok v →
            (step E t s1 .get).1 = { val := some v } ∧ (step E t s1 .get).2.slot = some v)
        ∧ (∀ e2, (defaultValueFor E t s.self s.name s1.ctx).1 = .error e2 →
            (step E t s1 .get).1 = { exc := some e2 } ∧ (step E t s1 .get).2.slot = none)) := by
  constructor
  · unfold step getattro traitGetattr getattrTrait
    simp only [hs, hk, ost_defaultValueFor_eq, defaultValueFor_raises E t s.self s.name s.ctx e hu hr]
  · intro hp s1 hs1
    have hslot : s1.slot = none := by rw [hs1]; exact hs
    have hself : s1.self = s.self := by rw [hs1]
    have hname : s1.name = s.name := by rw [hs1]
    have hfc : s1.ctx.fcalls = s.ctx.fcalls ++ [(t.dv.getD noneId, s.self, s.name)] := by rw [hs1]
    have hnp := getattrTrait_nopost E t s1 hp
    rw [hself, hname] at hnp
    have hg : step E t s1 .get =
        (match getattrTrait E t s1 with
        | (.ok v, s') => (({ val := some v } : Res), s')
        | (.error e, s') => ({ exc := some e }, s')) := by
      unfold step getattro traitGetattr
      simp only [hslot, hk]
      cases getattrTrait E t s1 with
      | mk r s' => cases r <;> rfl
    rw [hg, hnp]
    have hfc2 := defaultValueFor_user_fcalls E t s.self s.name s1.ctx hu
    cases hd : (defaultValueFor E t s.self s.name s1.ctx).1 with
    | error e2 =>
      refine ⟨?_, fun v hv => (by cases hv), fun e3 he3 => ?_⟩
      · show (defaultValueFor E t s.self s.name s1.ctx).2.fcalls = _
        rw [hfc2, hfc, List.append_assoc]; rfl
      · injection he3 with he3
        subst he3
        exact ⟨rfl, hslot⟩
    | ok v =>
      refine ⟨?_, fun v2 hv2 => ?_, fun e3 he3 => (by cases he3)⟩
      · show (defaultValueFor E t s.self s.name s1.ctx).2.fcalls = _
        rw [hfc2, hfc, List.append_assoc]; rfl
      · injection hv2 with hv2
        subst hv2
        exact ⟨rfl, rfl⟩

end TraitsVerif.Model.Attr
