/-
Cluster `obs`: basic lemmas — induction on observer graphs, graph equality is an
equivalence, association-list lookups, and how the four `add_to` / `remove_from`
functions change the count of registrations held at a notifier list.
-/
import TraitsVerif.Model.Maintain
namespace TraitsVerif.Model.Obs
open TraitsVerif

/-! ### induction on graphs -/

mutual
theorem Graph.ind {P : Graph → Prop} (step : ∀ ob cs, (∀ c ∈ cs, P c) → P (.node ob cs)) : (g : Graph) → P g
  | .node ob cs => step ob cs (Graph.indList step cs)
theorem Graph.indList {P : Graph → Prop} (step : ∀ ob cs, (∀ c ∈ cs, P c) → P (.node ob cs)) :
    (cs : List Graph) → ∀ c ∈ cs, P c
  | [] => by intro c hc; cases hc
  | c :: cs => by
    intro x hx
    cases hx with
    | head => exact Graph.ind step c
    | tail _ h => exact Graph.indList step cs x h
end

/-! ### `ObserverGraph.__eq__` -/

theorem Graph.anyL_iff (cs : List Graph) (c' : Graph) :
    Graph.anyL cs c' = true ↔ ∃ c ∈ cs, Graph.beq c c' = true := by
  induction cs with
  | nil => simp [Graph.anyL]
  | cons c cs ih => simp [Graph.anyL, ih]

theorem Graph.allAny_iff (cs cs' : List Graph) :
    Graph.allAny cs cs' = true ↔ ∀ c ∈ cs, ∃ c' ∈ cs', Graph.beq c c' = true := by
  induction cs with
  | nil => simp [Graph.allAny]
  | cons c cs ih => simp [Graph.allAny, ih]

theorem Graph.beq_iff (o o' : Observer) (cs cs' : List Graph) :
    Graph.beq (.node o cs) (.node o' cs') = true ↔
      o = o' ∧ (∀ c ∈ cs, ∃ c' ∈ cs', Graph.beq c c' = true) ∧ (∀ c' ∈ cs', ∃ c ∈ cs, Graph.beq c c' = true) := by
  simp [Graph.beq, Graph.allAny_iff, Graph.anyL_iff, and_assoc]

theorem Graph.beq_refl : ∀ g : Graph, Graph.beq g g = true := by
  apply Graph.ind
  intro ob cs ih
  rw [Graph.beq_iff]
  exact ⟨rfl, fun c hc => ⟨c, hc, ih c hc⟩, fun c hc => ⟨c, hc, ih c hc⟩⟩

theorem Graph.beq_symm : ∀ g g' : Graph, Graph.beq g g' = true → Graph.beq g' g = true := by
  apply Graph.ind (P := fun g => ∀ g', Graph.beq g g' = true → Graph.beq g' g = true)
  intro ob cs ih g'
  cases g' with
  | node ob' cs' =>
    rw [Graph.beq_iff, Graph.beq_iff]
    rintro ⟨ho, h1, h2⟩
    refine ⟨ho.symm, ?_, ?_⟩
    · intro c' hc'
      obtain ⟨c, hc, hb⟩ := h2 c' hc'
      exact ⟨c, hc, ih c hc c' hb⟩
    · intro c hc
      obtain ⟨c', hc', hb⟩ := h1 c hc
      exact ⟨c', hc', ih c hc c' hb⟩

theorem Graph.beq_trans : ∀ g g' g'' : Graph, Graph.beq g g' = true → Graph.beq g' g'' = true →
    Graph.beq g g'' = true := by
  apply Graph.ind (P := fun g => ∀ g' g'', Graph.beq g g' = true → Graph.beq g' g'' = true → Graph.beq g g'' = true)
  intro ob cs ih g' g''
  cases g' with
  | node ob' cs' =>
    cases g'' with
    | node ob'' cs'' =>
      rw [Graph.beq_iff, Graph.beq_iff, Graph.beq_iff]
      rintro ⟨ho, h1, h2⟩ ⟨ho', h1', h2'⟩
      refine ⟨ho.trans ho', ?_, ?_⟩
      · intro c hc
        obtain ⟨c', hc', hb⟩ := h1 c hc
        obtain ⟨c'', hc'', hb'⟩ := h1' c' hc'
        exact ⟨c'', hc'', ih c hc c' c'' hb hb'⟩
      · intro c'' hc''
        obtain ⟨c', hc', hb'⟩ := h2' c'' hc''
        obtain ⟨c, hc, hb⟩ := h2 c' hc'
        exact ⟨c, hc, ih c hc c' c'' hb hb'⟩

/-! ### notifier `equals` -/

theorem NKey.equals_refl (q : NKey) : q.equals q = true := by
  cases q <;> simp [NKey.equals, Graph.beq_refl]

theorem NKey.equals_symm {q q' : NKey} (h : q.equals q' = true) : q'.equals q = true := by
  cases q with
  | user k =>
    cases q' with
    | user k' => simp only [NKey.equals, beq_iff_eq] at h ⊢; exact h.symm
    | maint mk' g' k' => simp [NKey.equals] at h
  | maint mk g k =>
    cases q' with
    | user k' => simp [NKey.equals] at h
    | maint mk' g' k' =>
      simp only [NKey.equals, Bool.and_eq_true, beq_iff_eq] at h ⊢
      exact ⟨⟨h.1.1.symm, h.1.2.symm⟩, Graph.beq_symm _ _ h.2⟩

theorem NKey.equals_trans {q q' q'' : NKey} (h : q.equals q' = true) (h' : q'.equals q'' = true) :
    q.equals q'' = true := by
  cases q with
  | user k =>
    cases q' with
    | user k' =>
      cases q'' with
      | user k'' => simp only [NKey.equals, beq_iff_eq] at h h' ⊢; exact h.trans h'
      | maint mk'' g'' k'' => simp [NKey.equals] at h'
    | maint mk' g' k' => simp [NKey.equals] at h
  | maint mk g k =>
    cases q' with
    | user k' => simp [NKey.equals] at h
    | maint mk' g' k' =>
      cases q'' with
      | user k'' => simp [NKey.equals] at h'
      | maint mk'' g'' k'' =>
        simp only [NKey.equals, Bool.and_eq_true, beq_iff_eq] at h h' ⊢
        exact ⟨⟨h.1.1.trans h'.1.1, h.1.2.trans h'.1.2⟩, Graph.beq_trans _ _ _ h.2 h'.2⟩

/-- Two equal keys are equal to exactly the same keys. -/
theorem NKey.equals_congr {q q' : NKey} (h : q.equals q' = true) (p : NKey) :
    q.equals p = q'.equals p := by
  cases hp : q'.equals p
  · cases hq : q.equals p
    · rfl
    · have := NKey.equals_trans (NKey.equals_symm h) hq
      simp [hp] at this
  · exact NKey.equals_trans h hp

/-! ### association lists -/

@[simp] theorem Hooks.get_nil (o : Observable) : Hooks.get [] o = [] := rfl

theorem Hooks.get_filter_ne (H : Hooks) (o o' : Observable) (hne : o' ≠ o) :
    Hooks.get (H.filter (fun p => p.1 != o)) o' = Hooks.get H o' := by
  induction H with
  | nil => rfl
  | cons p H ih =>
    obtain ⟨o'', l⟩ := p
    by_cases h : o'' = o
    · subst h
      have : o'' ≠ o' := fun e => hne e.symm
      simp [List.filter_cons, Hooks.get, this, ih]
    · have hb : (o'' != o) = true := by simp [h]
      simp [List.filter_cons, hb, Hooks.get, ih]

theorem Hooks.get_upd (H : Hooks) (o o' : Observable) (l : List Notifier) :
    (H.upd o l).get o' = if o' = o then l else H.get o' := by
  unfold Hooks.upd
  by_cases h : o' = o
  · subst h; simp [Hooks.get]
  · have : o ≠ o' := fun e => h e.symm
    simp [Hooks.get, this, h, Hooks.get_filter_ne H o o' h]

theorem Heap.get_filter_ne (h : Heap) (i j : Id) (hne : j ≠ i) :
    Heap.get (h.filter (fun p => p.1 != i)) j = Heap.get h j := by
  induction h with
  | nil => rfl
  | cons p h ih =>
    obtain ⟨i', o⟩ := p
    by_cases e : i' = i
    · subst e
      have : i' ≠ j := fun e => hne e.symm
      simp [List.filter_cons, Heap.get, this, ih]
    · have hb : (i' != i) = true := by simp [e]
      simp [List.filter_cons, hb, Heap.get, ih]

theorem Heap.get_upd (h : Heap) (i j : Id) (o : Obj) :
    (h.upd i o).get j = if j = i then o else h.get j := by
  unfold Heap.upd
  by_cases e : j = i
  · subst e; simp [Heap.get]
  · have : i ≠ j := fun e' => e e'.symm
    simp [Heap.get, this, e, Heap.get_filter_ne h i j e]

/-! ### counting at one notifier list -/

/-- 1 if the key equals `q`. -/
def hit (q' q : NKey) : Nat := if q'.equals q then 1 else 0

theorem hit_congr {q q' : NKey} (h : q.equals q' = true) (p : NKey) : hit q p = hit q' p := by
  simp [hit, NKey.equals_congr h p]

theorem hit_self (q : NKey) : hit q q = 1 := by simp [hit, NKey.equals_refl]

/-- Well-formed list: no user notifier with reference count 0 (the state
`remove_from` would turn into a RuntimeError). -/
def WFList (ns : List Notifier) : Prop := ∀ k rc, Notifier.user k rc ∈ ns → 0 < rc

theorem cntList_append (q : NKey) (a b : List Notifier) :
    cntList q (a ++ b) = cntList q a + cntList q b := by
  induction a with
  | nil => simp [cntList]
  | cons n a ih => cases n <;> simp [cntList, ih, Nat.add_assoc]

theorem cntList_userAdd (q : NKey) (k : HKey) (ns : List Notifier) :
    cntList q (userAdd k ns) = cntList q ns + hit (.user k) q := by
  induction ns with
  | nil => simp [userAdd, cntList, hit]
  | cons n ns ih =>
    cases n with
    | user k' rc =>
      simp only [userAdd]
      by_cases e : (k == k') = true
      · have e' : k = k' := by simpa using e
        subst e'
        simp only [beq_self_eq_true, if_true, cntList, hit]
        split <;> omega
      · have e' : (k == k') = false := by simpa using e
        simp only [e', cntList, ih, Bool.false_eq_true, if_false]; omega
    | maint mk g k' => simp only [userAdd, cntList, ih]; omega

theorem cntList_maintAdd (q : NKey) (mk : MKind) (g : Graph) (k : HKey) (ns : List Notifier) :
    cntList q (maintAdd mk g k ns) = cntList q ns + hit (.maint mk g k) q := by
  simp [maintAdd, cntList_append, cntList, hit]

theorem cntList_addKey (q q' : NKey) (ns : List Notifier) :
    cntList q (addKey q' ns) = cntList q ns + hit q' q := by
  cases q' with
  | user k => exact cntList_userAdd q k ns
  | maint mk g k => exact cntList_maintAdd q mk g k ns

theorem WFList_userAdd (k : HKey) (ns : List Notifier) (h : WFList ns) : WFList (userAdd k ns) := by
  induction ns with
  | nil => intro k' rc hm; simp [userAdd] at hm; omega
  | cons n ns ih =>
    have hns : WFList ns := fun k' rc hm => h k' rc (List.mem_cons_of_mem _ hm)
    cases n with
    | user k' rc =>
      simp only [userAdd]
      split
      · intro k'' rc'' hm
        cases hm with
        | head => omega
        | tail _ hm => exact hns _ _ hm
      · intro k'' rc'' hm
        cases hm with
        | head => exact h _ _ (List.mem_cons_self ..)
        | tail _ hm => exact ih hns _ _ hm
    | maint mk g k' =>
      simp only [userAdd]
      intro k'' rc'' hm
      cases hm with
      | tail _ hm => exact ih hns _ _ hm

theorem WFList_addKey (q : NKey) (ns : List Notifier) (h : WFList ns) : WFList (addKey q ns) := by
  cases q with
  | user k => exact WFList_userAdd k ns h
  | maint mk g k =>
    intro k' rc hm
    simp [addKey, maintAdd] at hm
    exact h _ _ hm

/-- A successful `remove_from` takes away exactly one registration equal to the key. -/
theorem cntList_userRemove (q : NKey) (k : HKey) (ns ns' : List Notifier)
    (h : userRemove k ns = .ok ns') : cntList q ns' + hit (.user k) q = cntList q ns := by
  induction ns generalizing ns' with
  | nil => simp [userRemove] at h
  | cons n ns ih =>
    cases n with
    | user k' rc =>
      simp only [userRemove] at h
      by_cases e : (k == k') = true
      · have e' : k = k' := by simpa using e
        subst e'
        simp only [beq_self_eq_true, if_true] at h
        by_cases h1 : rc = 1
        · simp only [h1, if_true] at h
          cases h
          simp [cntList, hit, h1]; split <;> omega
        · simp only [h1, if_false] at h
          by_cases h0 : rc = 0
          · simp [h0] at h
          · simp only [h0, if_false] at h
            cases h
            simp only [cntList, hit]; split <;> omega
      · simp only [e] at h
        cases hr : userRemove k ns with
        | error ex => simp [hr, Except.map] at h
        | ok l =>
          simp [hr, Except.map] at h
          subst h
          have := ih l hr
          simp only [cntList]; omega
    | maint mk g k' =>
      simp only [userRemove] at h
      cases hr : userRemove k ns with
      | error ex => simp [hr, Except.map] at h
      | ok l =>
        simp [hr, Except.map] at h
        subst h
        have := ih l hr
        simp only [cntList]; omega

theorem cntList_maintRemove (q : NKey) (mk : MKind) (g : Graph) (k : HKey) (ns ns' : List Notifier)
    (h : maintRemove mk g k ns = .ok ns') : cntList q ns' + hit (.maint mk g k) q = cntList q ns := by
  induction ns generalizing ns' with
  | nil => simp [maintRemove] at h
  | cons n ns ih =>
    simp only [maintRemove] at h
    by_cases e : n.key.equals (.maint mk g k) = true
    · simp only [e, if_true] at h
      cases h
      cases n with
      | user k' rc => simp [Notifier.key, NKey.equals] at e
      | maint mk' g' k' =>
        simp only [Notifier.key] at e
        have := hit_congr e q
        simp only [cntList]
        simp only [hit] at this ⊢
        omega
    · simp only [e] at h
      cases hr : maintRemove mk g k ns with
      | error ex => simp [hr, Except.map] at h
      | ok l =>
        simp [hr, Except.map] at h
        subst h
        have := ih l hr
        cases n <;> simp only [cntList] <;> omega

theorem cntList_removeKey (q q' : NKey) (ns ns' : List Notifier) (h : removeKey q' ns = .ok ns') :
    cntList q ns' + hit q' q = cntList q ns := by
  cases q' with
  | user k => exact cntList_userRemove q k ns ns' h
  | maint mk g k => exact cntList_maintRemove q mk g k ns ns' h

theorem WFList_userRemove (k : HKey) (ns ns' : List Notifier) (hw : WFList ns)
    (h : userRemove k ns = .ok ns') : WFList ns' := by
  induction ns generalizing ns' with
  | nil => simp [userRemove] at h
  | cons n ns ih =>
    have hns : WFList ns := fun k' rc hm => hw k' rc (List.mem_cons_of_mem _ hm)
    cases n with
    | user k' rc =>
      simp only [userRemove] at h
      by_cases e : (k == k') = true
      · simp only [e, if_true] at h
        by_cases h1 : rc = 1
        · simp only [h1, if_true] at h; cases h; exact hns
        · simp only [h1, if_false] at h
          by_cases h0 : rc = 0
          · simp [h0] at h
          · simp only [h0, if_false] at h
            cases h
            intro k'' rc'' hm
            cases hm with
            | head => omega
            | tail _ hm => exact hns _ _ hm
      · simp only [e] at h
        cases hr : userRemove k ns with
        | error ex => simp [hr, Except.map] at h
        | ok l =>
          simp [hr, Except.map] at h
          subst h
          intro k'' rc'' hm
          cases hm with
          | head => exact hw _ _ (List.mem_cons_self ..)
          | tail _ hm => exact ih l hns hr _ _ hm
    | maint mk g k' =>
      simp only [userRemove] at h
      cases hr : userRemove k ns with
      | error ex => simp [hr, Except.map] at h
      | ok l =>
        simp [hr, Except.map] at h
        subst h
        intro k'' rc'' hm
        cases hm with
        | tail _ hm => exact ih l hns hr _ _ hm

theorem WFList_maintRemove (mk : MKind) (g : Graph) (k : HKey) (ns ns' : List Notifier) (hw : WFList ns)
    (h : maintRemove mk g k ns = .ok ns') : WFList ns' := by
  induction ns generalizing ns' with
  | nil => simp [maintRemove] at h
  | cons n ns ih =>
    have hns : WFList ns := fun k' rc hm => hw k' rc (List.mem_cons_of_mem _ hm)
    simp only [maintRemove] at h
    by_cases e : n.key.equals (.maint mk g k) = true
    · simp only [e, if_true] at h; cases h; exact hns
    · simp only [e] at h
      cases hr : maintRemove mk g k ns with
      | error ex => simp [hr, Except.map] at h
      | ok l =>
        simp [hr, Except.map] at h
        subst h
        intro k'' rc'' hm
        cases hm with
        | head => exact hw _ _ (List.mem_cons_self ..)
        | tail _ hm => exact ih l hns hr _ _ hm

theorem WFList_removeKey (q : NKey) (ns ns' : List Notifier) (hw : WFList ns)
    (h : removeKey q ns = .ok ns') : WFList ns' := by
  cases q with
  | user k => exact WFList_userRemove k ns ns' hw h
  | maint mk g k => exact WFList_maintRemove mk g k ns ns' hw h

/-- In a well-formed list a registration that is counted can be removed … -/
theorem userRemove_ok (k : HKey) (ns : List Notifier) (hw : WFList ns)
    (hpos : 0 < cntList (.user k) ns) : ∃ ns', userRemove k ns = .ok ns' := by
  induction ns with
  | nil => simp [cntList] at hpos
  | cons n ns ih =>
    have hns : WFList ns := fun k' rc hm => hw k' rc (List.mem_cons_of_mem _ hm)
    cases n with
    | user k' rc =>
      simp only [userRemove]
      by_cases e : (k == k') = true
      · simp only [e, if_true]
        have : 0 < rc := hw _ _ (List.mem_cons_self ..)
        by_cases h1 : rc = 1
        · simp [h1]
        · have h0 : rc ≠ 0 := by omega
          simp [h1, h0]
      · simp only [e]
        have e' : ¬ k' = k := fun h => e (by simp [h])
        simp only [cntList, NKey.equals, beq_iff_eq, e', if_false, Nat.zero_add] at hpos
        obtain ⟨l, hl⟩ := ih hns hpos
        exact ⟨.user k' rc :: l, by simp [hl, Except.map]⟩
    | maint mk g k' =>
      simp only [userRemove]
      simp only [cntList, NKey.equals, Nat.zero_add] at hpos
      obtain ⟨l, hl⟩ := ih hns (by simpa using hpos)
      exact ⟨.maint mk g k' :: l, by simp [hl, Except.map]⟩

theorem maintRemove_ok (mk : MKind) (g : Graph) (k : HKey) (ns : List Notifier)
    (hpos : 0 < cntList (.maint mk g k) ns) : ∃ ns', maintRemove mk g k ns = .ok ns' := by
  induction ns with
  | nil => simp [cntList] at hpos
  | cons n ns ih =>
    simp only [maintRemove]
    by_cases e : n.key.equals (.maint mk g k) = true
    · simp [e]
    · simp only [e]
      have : 0 < cntList (.maint mk g k) ns := by
        cases n with
        | user k' rc => simpa [cntList, NKey.equals] using hpos
        | maint mk' g' k' =>
          simp only [Notifier.key] at e
          simpa [cntList, e] using hpos
      obtain ⟨l, hl⟩ := ih this
      exact ⟨n :: l, by simp [hl, Except.map]⟩

theorem removeKey_ok (q : NKey) (ns : List Notifier) (hw : WFList ns) (hpos : 0 < cntList q ns) :
    ∃ ns', removeKey q ns = .ok ns' := by
  cases q with
  | user k => exact userRemove_ok k ns hw hpos
  | maint mk g k => exact maintRemove_ok mk g k ns hpos

/-- … and one that is not counted raises NotifierNotFound. -/
theorem userRemove_none (k : HKey) (ns : List Notifier) (hw : WFList ns)
    (h0 : cntList (.user k) ns = 0) : userRemove k ns = .error .notifierNotFound := by
  induction ns with
  | nil => rfl
  | cons n ns ih =>
    have hns : WFList ns := fun k' rc hm => hw k' rc (List.mem_cons_of_mem _ hm)
    cases n with
    | user k' rc =>
      have hrc : 0 < rc := hw _ _ (List.mem_cons_self ..)
      simp only [cntList, NKey.equals, beq_iff_eq] at h0
      have hne : ¬ k' = k := by
        intro e; simp [e] at h0; omega
      have hne' : (k == k') = false := by simp; exact fun e => hne e.symm
      simp only [hne, if_false, Nat.zero_add] at h0
      simp [userRemove, hne', ih hns h0, Except.map]
    | maint mk g k' =>
      simp only [cntList, NKey.equals, Nat.zero_add] at h0
      simp [userRemove, ih hns (by simpa using h0), Except.map]

theorem maintRemove_none (mk : MKind) (g : Graph) (k : HKey) (ns : List Notifier)
    (h0 : cntList (.maint mk g k) ns = 0) : maintRemove mk g k ns = .error .notifierNotFound := by
  induction ns with
  | nil => rfl
  | cons n ns ih =>
    cases n with
    | user k' rc =>
      simp only [cntList, NKey.equals, Nat.zero_add] at h0
      simp [maintRemove, Notifier.key, NKey.equals, ih (by simpa using h0), Except.map]
    | maint mk' g' k' =>
      simp only [cntList] at h0
      have hne : (NKey.maint mk' g' k').equals (.maint mk g k) = false := by
        cases h : (NKey.maint mk' g' k').equals (.maint mk g k)
        · rfl
        · simp [h] at h0
      simp only [hne] at h0
      simp [maintRemove, Notifier.key, hne, ih (by simpa using h0), Except.map]

theorem removeKey_none (q : NKey) (ns : List Notifier) (hw : WFList ns) (h0 : cntList q ns = 0) :
    removeKey q ns = .error .notifierNotFound := by
  cases q with
  | user k => exact userRemove_none k ns hw h0
  | maint mk g k => exact maintRemove_none mk g k ns h0

end TraitsVerif.Model.Obs
