/-
Cluster `obs`: reading a trait whose CONTAINER default (`List` / `Dict` / `Set`:
`TRAIT_{LIST,DICT,SET}_OBJECT_DEFAULT_VALUE`) has not been materialised preserves
the refinement invariant (complements `read_preserves` of `ObsInvSet.lean`, which
covers constant defaults).

Two steps: (1) allocating a cell nothing refers to changes no from-scratch hook list
(`alloc_hookList`, `alloc_preserves`); (2) in the allocated heap the read is the
assignment of an existing empty container to an unset trait: `fire_preserves`.
-/
import TraitsVerif.Lemmas.ObsInvSetItems
namespace TraitsVerif.Model.Obs
open TraitsVerif

/-! ### what an object refers to -/

def Obj.refs : Obj → List W
  | .inst fs => fs.flatMap (fun f => valObjects f.val)
  | .list l => l.map some
  | .dict l => l.map (fun kv => some kv.2)
  | .set l => l.map some
  | .junk => []

/-- no cell of the heap refers to `y` (decidable on a concrete heap) -/
def Unref (h : Heap) (y : Id) : Prop := ∀ p ∈ h, some y ∉ p.2.refs

theorem Heap.get_mem (h : Heap) (i : Id) : h.get i = .junk ∨ (i, h.get i) ∈ h := by
  induction h with
  | nil => exact Or.inl rfl
  | cons p h ih =>
    obtain ⟨j, ob⟩ := p
    by_cases e : j = i
    · subst e
      right
      simp [Heap.get]
    · rcases ih with h1 | h1
      · left; simp [Heap.get, e, h1]
      · right; simp only [Heap.get, e, if_false]; exact List.mem_cons_of_mem _ h1

theorem Unref.at {h : Heap} {y : Id} (hu : Unref h y) (x : W) : some y ∉ (h.at x).refs := by
  cases x with
  | none => simp [Heap.at, Obj.refs]
  | some i =>
    rcases Heap.get_mem h i with h1 | h1
    · simp [Heap.at, h1, Obj.refs]
    · exact hu _ h1

/-- an unreferenced cell is never handed from one observer to the next -/
theorem objects_unref {h : Heap} {y : Id} (hu : Unref h y) (ob : Observer) (x : W) :
    some y ∉ (okOr [] (objects h ob x) : List W) := by
  have ha := hu.at x
  intro hm
  cases ob with
  | named m nt opt =>
    simp only [objects] at hm
    split at hm
    · rename_i ht
      simp only [okOr] at hm
      simp only [fieldVal] at hm
      split at hm
      · rename_i fs hfs
        split at hm
        · rename_i f hf
          apply ha
          rw [hfs]
          simp only [Obj.refs, List.mem_flatMap]
          exact ⟨f, List.mem_of_find?_eq_some hf, hm⟩
        · simp [valObjects] at hm
      · simp [valObjects] at hm
    · split at hm <;> simp [okOr] at hm
  | listItems nt opt =>
    simp only [objects] at hm
    split at hm
    · rename_i l hl
      apply ha; rw [hl]; simpa [okOr, Obj.refs] using hm
    · split at hm <;> simp [okOr] at hm
  | dictItems nt opt =>
    simp only [objects] at hm
    split at hm
    · rename_i l hl
      apply ha; rw [hl]; simpa [okOr, Obj.refs] using hm
    · split at hm <;> simp [okOr] at hm
  | setItems nt opt =>
    simp only [objects] at hm
    split at hm
    · rename_i l hl
      apply ha; rw [hl]; simpa [okOr, Obj.refs] using hm
    · split at hm <;> simp [okOr] at hm
  | filtered fl nt =>
    simp only [objects] at hm
    split at hm
    · rename_i fs hfs
      apply ha
      rw [hfs]
      simp only [okOr, List.mem_flatMap, List.mem_filter] at hm
      obtain ⟨f, ⟨hf, _⟩, hv⟩ := hm
      simp only [Obj.refs, List.mem_flatMap]
      exact ⟨f, hf, hv⟩
    · simp [okOr] at hm

/-! ### (1) allocation of an unreferenced cell -/

/-- the walks see a heap only through the cell they stand on -/
theorem iter_congr_at {h h' : Heap} (ob : Observer) (x : W) (hat : h'.at x = h.at x) :
    observables h' ob x = observables h ob x ∧ objects h' ob x = objects h ob x ∧
    extraObservables h' ob x = extraObservables h ob x := by
  cases ob with
  | named m nt opt =>
    have ht : ∀ m', hasTrait h' x m' = hasTrait h x m' := by intro m'; simp [hasTrait, hat]
    have hv : ∀ m', fieldVal h' x m' = fieldVal h x m' := by intro m'; simp [fieldVal, hat]
    refine ⟨?_, ?_, ?_⟩
    · simp only [observables, ht]
    · simp only [objects, ht, hv]
    · simp only [extraObservables, hat]
  | _ => simp [observables, objects, extraObservables, hat]

theorem alloc_hookList (h : Heap) (y : Id) (c : Obj) (hu : Unref h y) (k : HKey) :
    ∀ g : Graph, ∀ (e : Bool) (x : W), x ≠ some y → hookList (h.upd y c) k e g x = hookList h k e g x := by
  apply Graph.ind (P := fun g => ∀ (e : Bool) (x : W), x ≠ some y →
      hookList (h.upd y c) k e g x = hookList h k e g x)
  intro ob cs ih e x hx
  obtain ⟨h1, h2, h3⟩ := iter_congr_at (h := h) (h' := h.upd y c) ob x (upd_at_ne_obj c x hx)
  have hC : ∀ cs' : List Graph, (∀ c' ∈ cs', c' ∈ cs) →
      hookListCs (h.upd y c) k ob x cs' = hookListCs h k ob x cs' := by
    intro cs'
    induction cs' with
    | nil => intro _; rfl
    | cons c' cs' ihc =>
      intro hsub
      rw [hookListCs_cons, hookListCs_cons, ihc (fun a ha => hsub a (List.mem_cons_of_mem _ ha)), h2]
      congr 1
      apply flatMap_congr'
      intro w hw
      exact ih c' (hsub c' (List.mem_cons_self ..)) true w (fun e' => objects_unref hu ob x (e' ▸ hw))
  rw [hookList_node, hookList_node, hC cs (fun a ha => ha), h3]
  simp [ownItems, h1]

/-- a new cell that nothing refers to and that is no registration's root keeps the invariant -/
theorem alloc_preserves (h : Heap) (H : Hooks) (regs : List Reg) (y : Id) (c : Obj)
    (hu : Unref h y) (hroots : ∀ r ∈ regs, r.x ≠ y) (hinv : HooksEqReach h H regs) :
    HooksEqReach (h.upd y c) H regs := by
  refine ⟨hinv.1, ?_⟩
  intro o q
  rw [hinv.2]
  unfold specCnt
  apply sum_map_congr
  intro r hr
  rw [alloc_hookList h y c hu r.k r.g true (some r.x) (fun e => hroots r hr (Option.some.inj e))]

/-! ### (2) the read -/

/-- Reading `o.n` whose default — a fresh empty container `c` in cell `fresh` — has not been
materialised.  `fr` is the assignment fragment IN THE ALLOCATED HEAP, for the value `.ref fresh`
(exactly the hypotheses of assigning an existing empty container to the unset trait). -/
theorem read_alloc_preserves (E : Env) (st : St) (regs : List Reg) (o : Id) (n : Name) (fresh : Id) (c : Obj)
    (fs : List Field) (f : Field) (hinv : HooksEqReach st.h st.H regs)
    (hu : Unref st.h fresh) (hroots : ∀ r ∈ regs, r.x ≠ fresh)
    (hc : ∀ fs', c ≠ .inst fs')
    (hmat : materialise st.h f.dflt fresh = (st.h.upd fresh c, .ref fresh))
    (fr : SetFrag E ⟨st.h.upd fresh c, st.H⟩ regs o n (.ref fresh) fs f) (hunset : f.val = .unset) :
    HooksEqReach (mutate E st (.read o n fresh)).st.h (mutate E st (.read o n fresh)).st.H regs ∧
    (mutate E st (.read o n fresh)).err = none ∧ (mutate E st (.read o n fresh)).delivered = [] := by
  have hinv' : HooksEqReach (st.h.upd fresh c) st.H regs := alloc_preserves st.h st.H regs fresh c hu hroots hinv
  obtain ⟨hfire, _, _⟩ := fire_preserves E ⟨st.h.upd fresh c, st.H⟩ regs o n (.ref fresh) fs f hinv' fr
  have ho : st.h.get o = .inst fs := by
    have := fr.ho
    simp only [Heap.get_upd] at this
    split at this
    · exact absurd this (hc fs)
    · exact this
  have hu' : (f.val == Val.unset) = true := by rw [hunset]; rfl
  simp only [mutate, ho, fr.hf, hu', if_true, hmat]
  rw [hunset] at hfire
  refine ⟨hfire.1, hfire.2, ?_⟩
  -- `old` is Uninitialized: every user notifier is prevented
  cases hdl : (fire E st.H (storeField (st.h.upd fresh c) o n (.ref fresh)) o n .unset (.ref fresh)).delivered with
  | nil => rfl
  | cons x xs =>
    exfalso
    have hx : x ∈ (fire E st.H (storeField (st.h.upd fresh c) o n (.ref fresh)) o n .unset (.ref fresh)).delivered := by
      rw [hdl]; exact List.mem_cons_self ..
    rcases callTrait_delivered E _ o n .unset (.ref fresh) _ st.H [] x hx with h1 | ⟨_, _, _, _, hp, _⟩
    · cases h1
    · simp [preventTrait] at hp

/-- `List` default -/
theorem read_newList_preserves (E : Env) (st : St) (regs : List Reg) (o : Id) (n : Name) (fresh : Id)
    (fs : List Field) (f : Field) (hinv : HooksEqReach st.h st.H regs)
    (hu : Unref st.h fresh) (hroots : ∀ r ∈ regs, r.x ≠ fresh)
    (fr : SetFrag E ⟨st.h.upd fresh (.list []), st.H⟩ regs o n (.ref fresh) fs f)
    (hunset : f.val = .unset) (hdflt : f.dflt = .newList) :
    HooksEqReach (mutate E st (.read o n fresh)).st.h (mutate E st (.read o n fresh)).st.H regs ∧
    (mutate E st (.read o n fresh)).err = none ∧ (mutate E st (.read o n fresh)).delivered = [] :=
  read_alloc_preserves E st regs o n fresh (.list []) fs f hinv hu hroots (by intro _ e; cases e)
    (by rw [hdflt]; rfl) fr hunset

/-- `Dict` default -/
theorem read_newDict_preserves (E : Env) (st : St) (regs : List Reg) (o : Id) (n : Name) (fresh : Id)
    (fs : List Field) (f : Field) (hinv : HooksEqReach st.h st.H regs)
    (hu : Unref st.h fresh) (hroots : ∀ r ∈ regs, r.x ≠ fresh)
    (fr : SetFrag E ⟨st.h.upd fresh (.dict []), st.H⟩ regs o n (.ref fresh) fs f)
    (hunset : f.val = .unset) (hdflt : f.dflt = .newDict) :
    HooksEqReach (mutate E st (.read o n fresh)).st.h (mutate E st (.read o n fresh)).st.H regs ∧
    (mutate E st (.read o n fresh)).err = none ∧ (mutate E st (.read o n fresh)).delivered = [] :=
  read_alloc_preserves E st regs o n fresh (.dict []) fs f hinv hu hroots (by intro _ e; cases e)
    (by rw [hdflt]; rfl) fr hunset

/-- `Set` default -/
theorem read_newSet_preserves (E : Env) (st : St) (regs : List Reg) (o : Id) (n : Name) (fresh : Id)
    (fs : List Field) (f : Field) (hinv : HooksEqReach st.h st.H regs)
    (hu : Unref st.h fresh) (hroots : ∀ r ∈ regs, r.x ≠ fresh)
    (fr : SetFrag E ⟨st.h.upd fresh (.set []), st.H⟩ regs o n (.ref fresh) fs f)
    (hunset : f.val = .unset) (hdflt : f.dflt = .newSet) :
    HooksEqReach (mutate E st (.read o n fresh)).st.h (mutate E st (.read o n fresh)).st.H regs ∧
    (mutate E st (.read o n fresh)).err = none ∧ (mutate E st (.read o n fresh)).delivered = [] :=
  read_alloc_preserves E st regs o n fresh (.set []) fs f hinv hu hroots (by intro _ e; cases e)
    (by rw [hdflt]; rfl) fr hunset

/-! ### non-vacuity witness

`a.kids` is a `List` trait never read (absent from `__dict__`), `a.observe(handler,
"kids.items.value")`; then `a.kids` is read: cell 100 is the fresh list. -/
namespace ContDefaultWitness

def fld (n : Name) (v : Val) : Field := ⟨n, false, .val (if n == nValue then .int 0 else .none), v, .equality⟩
def kidsF : Field := ⟨nKids, false, .newList, .unset, .equality⟩

def cKey : HKey := ⟨0, 0⟩
def cFs : List Field := [kidsF, fld nTraitAdded .unset]
def cHeap : Heap := [(0, .inst cFs), (1, .inst [fld nValue (.int 3), fld nTraitAdded .unset])]
def cGraph : Graph := .node (.named nKids true false) [.node (.listItems true false) [.node (.named nValue true false) []]]
def cSt : St := ⟨cHeap, (addRemove cHeap cKey false true cGraph (some 0) Hooks.empty).H⟩
def cRegs : List Reg := [⟨cKey, cGraph, 0⟩]

theorem cInv : HooksEqReach cSt.h cSt.H cRegs := by
  have hok : (addRemove cHeap cKey false true cGraph (some 0) Hooks.empty).err = none := by decide
  obtain ⟨_, hc, hw⟩ := addRemove_add cHeap cKey cGraph true (some 0) Hooks.empty hok
  refine ⟨hw WF_empty, ?_⟩
  intro o q
  show cnt (addRemove cHeap cKey false true cGraph (some 0) Hooks.empty).H o q = _
  rw [hc]
  simp [specCnt, cnt, Hooks.empty, cntList, cRegs, cSt]

theorem cUnref : Unref cSt.h 100 := by
  intro p hp
  simp [cSt, cHeap] at hp
  rcases hp with rfl | rfl <;> decide

theorem cHooks : cSt.H.get (.trait 0 nKids) =
    [.user cKey 1, .maint .trait (.node (.listItems true false) [.node (.named nValue true false) []]) cKey] := rfl
theorem cVisits : visits (cSt.h.upd 100 (.list [])) 0 nKids cGraph (some 0) =
    [.node (.listItems true false) [.node (.named nValue true false) []]] := rfl

/-- the assignment fragment in the allocated heap, for the value `.ref 100` -/
theorem cFrag : SetFrag {} ⟨cSt.h.upd 100 (.list []), cSt.H⟩ cRegs 0 nKids (.ref 100) cFs kidsF where
  ho := rfl
  hf := rfl
  noFiltered := by intro r hr; simp [cRegs] at hr; subst hr; decide
  alive := fun _ => rfl
  notName := by intro m; simp
  okOld := by intro c k _ w hw; simp [kidsF, valObjects] at hw
  okNew := by
    intro c k hm w hw
    rw [cHooks] at hm
    simp at hm
    obtain ⟨rfl, rfl⟩ := hm
    simp [valObjects] at hw
    subst hw
    decide
  noSelfReach := by intro r _ c _ w hw; simp [kidsF, valObjects] at hw
  eqStruct := by
    intro c k hm r hr c' hc' he
    rw [cHooks] at hm
    simp at hm
    obtain ⟨rfl, rfl⟩ := hm
    simp [cRegs] at hr; subst hr
    rw [cVisits] at hc'
    simp at hc'; subst hc'
    exact ⟨rfl, rfl⟩

/-- … the theorem applies to the first read of `a.kids` -/
example : HooksEqReach (mutate {} cSt (.read 0 nKids 100)).st.h (mutate {} cSt (.read 0 nKids 100)).st.H cRegs :=
  (read_newList_preserves {} cSt cRegs 0 nKids 100 cFs kidsF cInv cUnref
    (by intro r hr; simp [cRegs] at hr; subst hr; decide) cFrag rfl rfl).1

/-- the fresh list carries the user notifier and the item maintainer; nothing was delivered;
a later `a.kids.append(b)` hooks `b.value` -/
example : cnt (mutate {} cSt (.read 0 nKids 100)).st.H (.cont 100) (.user cKey) = 1 ∧
    cnt (mutate {} cSt (.read 0 nKids 100)).st.H (.cont 100)
      (.maint .list (.node (.named nValue true false) []) cKey) = 1 ∧
    (mutate {} cSt (.read 0 nKids 100)).delivered = [] ∧
    cnt (mutate {} (mutate {} cSt (.read 0 nKids 100)).st (.listAppend 100 1)).st.H (.trait 1 nValue) (.user cKey) = 1 := by
  decide

end ContDefaultWitness

end TraitsVerif.Model.Obs
