/-
Cluster `obs`: the refinement invariant is preserved by mutations of an observed
SET container (`add` / `discard` / `clear`), fragment `SetCore`.  ("Set" in
`ObsInvSet.lean` means set-FIELD; this file is about `TraitSet` objects.)

Adaptation of `ObsInvList.lean` to `Obj.set` cells read by `Observer.setItems`
nodes (maintainer kind `MKind.set`); everything not specific to the kind of the
container (`obs_cont_mem`, `mKeys`, `keyFC`, `effectSumC_eq_keys`, …) is reused.
-/
import TraitsVerif.Lemmas.ObsInvList
namespace TraitsVerif.Model.Obs
open TraitsVerif

/-! ### the site of a set -/

def isSetItems : Observer → Bool
  | .setItems .. => true
  | _ => false

def setSite (c : Id) : Gen.Site := ⟨fun ob x => isSetItems ob && x == some c, .cont c, .set⟩

theorem setSite_ok (h : Heap) (c : Id) (items : List Id) (hc : h.get c = .set items) :
    Gen.SiteOK (setSite c) actTrue h where
  own := by
    intro ob x hr _
    cases ob with
    | setItems nt opt =>
      simp only [setSite, isSetItems, Bool.true_and, beq_iff_eq] at hr
      subst hr
      simp [observables, Heap.at, hc, Observer.mkind, setSite]
    | _ => simp [setSite, isSetItems] at hr
  inactive := by intro ob x _ ha; simp [actTrue] at ha
  other := by
    intro ob x hf hr hm
    obtain ⟨hx, hkind⟩ := obs_cont_mem h ob x c hm
    subst hx
    rcases hkind with ⟨_, l, hl⟩ | ⟨_, l, hl⟩ | ⟨⟨nt, opt, rfl⟩, _⟩
    · rw [hc] at hl; cases hl
    · rw [hc] at hl; cases hl
    · simp [setSite, isSetItems] at hr

theorem setRel_self (h : Heap) (c : Id) (items : List Id) (hc : h.get c = .set items) :
    Gen.Rel (setSite c) actTrue h h (items.map some) where
  obs := fun _ _ _ => rfl
  ext := fun _ _ _ => rfl
  objs := fun _ _ _ _ => rfl
  objsN := by intro ob x _ ha; simp [actTrue] at ha
  objsR := by
    intro ob x hr _
    cases ob with
    | setItems nt opt =>
      simp only [setSite, isSetItems, Bool.true_and, beq_iff_eq] at hr
      subst hr
      simp [objects, Heap.at, hc]
    | _ => simp [setSite, isSetItems] at hr

section upd
variable {h : Heap} {c : Id} {items : List Id}

theorem upd_at_ne_obj (o : Obj) (x : W) (hx : x ≠ some c) : (h.upd c o).at x = h.at x := by
  cases x with
  | none => rfl
  | some i =>
    have : i ≠ c := fun e => hx (by rw [e])
    simp [Heap.at, Heap.get_upd, this]

theorem hasTrait_upd_set (hc : h.get c = .set items) (items' : List Id) (x : W) (m : Name) :
    hasTrait (h.upd c (.set items')) x m = hasTrait h x m := by
  by_cases hx : x = some c
  · subst hx; simp [hasTrait, Heap.at, Heap.get_upd, hc]
  · simp [hasTrait, upd_at_ne_obj (.set items') x hx]

theorem fieldVal_upd_set (hc : h.get c = .set items) (items' : List Id) (x : W) (m : Name) :
    fieldVal (h.upd c (.set items')) x m = fieldVal h x m := by
  by_cases hx : x = some c
  · subst hx; simp [fieldVal, Heap.at, Heap.get_upd, hc]
  · simp [fieldVal, upd_at_ne_obj (.set items') x hx]

theorem setRel_upd (hc : h.get c = .set items) (items' : List Id) :
    Gen.Rel (setSite c) actTrue h (h.upd c (.set items')) (items'.map some) where
  obs := by
    intro ob x hf
    by_cases hx : x = some c
    · subst hx
      cases ob with
      | filtered fl nt => simp [Observer.isFiltered] at hf
      | named m nt opt => simp only [observables, hasTrait_upd_set hc]
      | listItems nt opt => simp [observables, Heap.at, Heap.get_upd, hc]
      | dictItems nt opt => simp [observables, Heap.at, Heap.get_upd, hc]
      | setItems nt opt => simp [observables, Heap.at, Heap.get_upd, hc]
    · cases ob with
      | filtered fl nt => simp [Observer.isFiltered] at hf
      | named m nt opt => simp only [observables, hasTrait_upd_set hc]
      | listItems nt opt => simp [observables, upd_at_ne_obj (.set items') x hx]
      | dictItems nt opt => simp [observables, upd_at_ne_obj (.set items') x hx]
      | setItems nt opt => simp [observables, upd_at_ne_obj (.set items') x hx]
  ext := by
    intro ob x hf
    by_cases hx : x = some c
    · subst hx
      cases ob with
      | filtered fl nt => simp [Observer.isFiltered] at hf
      | named m nt opt => simp [extraObservables, Heap.at, Heap.get_upd, hc]
      | listItems nt opt => rfl
      | dictItems nt opt => rfl
      | setItems nt opt => rfl
    · cases ob with
      | filtered fl nt => simp [Observer.isFiltered] at hf
      | named m nt opt => simp [extraObservables, upd_at_ne_obj (.set items') x hx]
      | listItems nt opt => rfl
      | dictItems nt opt => rfl
      | setItems nt opt => rfl
  objs := by
    intro ob x hf hr
    by_cases hx : x = some c
    · subst hx
      cases ob with
      | filtered fl nt => simp [Observer.isFiltered] at hf
      | named m nt opt => simp only [objects, hasTrait_upd_set hc, fieldVal_upd_set hc]
      | listItems nt opt => simp [objects, Heap.at, Heap.get_upd, hc]
      | dictItems nt opt => simp [objects, Heap.at, Heap.get_upd, hc]
      | setItems nt opt => simp [setSite, isSetItems] at hr
    · cases ob with
      | filtered fl nt => simp [Observer.isFiltered] at hf
      | named m nt opt => simp only [objects, hasTrait_upd_set hc, fieldVal_upd_set hc]
      | listItems nt opt => simp [objects, upd_at_ne_obj (.set items') x hx]
      | dictItems nt opt => simp [objects, upd_at_ne_obj (.set items') x hx]
      | setItems nt opt => simp [objects, upd_at_ne_obj (.set items') x hx]
  objsN := by intro ob x _ ha; simp [actTrue] at ha
  objsR := by
    intro ob x hr _
    cases ob with
    | setItems nt opt =>
      simp only [setSite, isSetItems, Bool.true_and, beq_iff_eq] at hr
      subst hr
      simp [objects, Heap.at, Heap.get_upd]
    | _ => simp [setSite, isSetItems] at hr

end upd

/-! ### kinds of the items on a set observable -/

theorem hookList_cont_kind_set (h : Heap) (k : HKey) (c : Id) (items : List Id) (hc : h.get c = .set items) :
    ∀ g : Graph, ∀ (e : Bool) (x : W), ∀ it ∈ hookList h k e g x, it.1 = .cont c →
      ∀ mk g' k', it.2 = .maint mk g' k' → mk = .set := by
  apply Graph.ind (P := fun g => ∀ (e : Bool) (x : W), ∀ it ∈ hookList h k e g x, it.1 = .cont c →
      ∀ mk g' k', it.2 = .maint mk g' k' → mk = .set)
  intro ob cs ih e x it hit h1 mk g' k' h2
  rw [hookList_node, List.mem_append, List.mem_append] at hit
  rcases hit with (h3 | h3) | h3
  · simp only [ownItems, List.mem_append, List.mem_flatMap, List.mem_map] at h3
    rcases h3 with h4 | ⟨ob', hob', c', _, rfl⟩
    · split at h4
      · simp only [List.mem_map] at h4
        obtain ⟨ob', _, rfl⟩ := h4
        cases h2
      · cases h4
    · simp only at h1 h2
      subst h1
      injection h2 with e1 _ _
      obtain ⟨_, hkind⟩ := obs_cont_mem h ob x c hob'
      rcases hkind with ⟨_, l, hl⟩ | ⟨_, l, hl⟩ | ⟨⟨nt, opt, rfl⟩, _⟩
      · rw [hc] at hl; cases hl
      · rw [hc] at hl; cases hl
      · rw [← e1]; rfl
  · obtain ⟨c', hc', y, _, hm⟩ := (mem_hookListCs h k ob x cs it).1 h3
    exact ih c' hc' true y it hm h1 mk g' k' h2
  · split at h3
    · simp only [extraItems, List.mem_map] at h3
      obtain ⟨ob', hob', rfl⟩ := h3
      obtain ⟨i, hi⟩ := extraObs_mem h ob x ob' hob'
      simp only at h1
      rw [hi] at h1; cases h1
    · cases h3

theorem specCnt_cont_kind_set (h : Heap) (regs : List Reg) (c : Id) (items : List Id) (hc : h.get c = .set items)
    (mk : MKind) (g : Graph) (k : HKey) (hmk : mk ≠ .set) :
    specCnt h regs (.cont c) (.maint mk g k) = 0 := by
  unfold specCnt
  apply sum_map_zero
  intro r _
  unfold cntItems
  rw [List.countP_eq_zero]
  intro it hit
  simp only [Bool.and_eq_true, beq_iff_eq, not_and, Bool.not_eq_true]
  intro e1
  cases hi : it.2 with
  | user k' => simp [NKey.equals]
  | maint mk' c' k' =>
    have := hookList_cont_kind_set h r.k c items hc r.g true (some r.x) it hit e1 mk' c' k' hi
    subst this
    cases mk <;> simp_all [NKey.equals]

/-! ### key lists -/

def visitKeysS (h : Heap) (c : Id) (regs : List Reg) : List NKey :=
  regs.flatMap (fun r => (Gen.visits (setSite c) actTrue h r.g (some r.x)).map (fun g => NKey.maint .set g r.k))

theorem visitKeysS_shape (h : Heap) (c : Id) (regs : List Reg) :
    ∀ a ∈ visitKeysS h c regs, ∃ r ∈ regs, ∃ g ∈ Gen.visits (setSite c) actTrue h r.g (some r.x),
      a = .maint .set g r.k := by
  intro a ha
  simp only [visitKeysS, List.mem_flatMap, List.mem_map] at ha
  obtain ⟨r, hr, g, hg, rfl⟩ := ha
  exact ⟨r, hr, g, hg, rfl⟩

theorem visitKeysS_countP (h : Heap) (c : Id) (regs : List Reg) (q : NKey) :
    (visitKeysS h c regs).countP (fun a => a.equals q) =
      (regs.map (fun r => Gen.visitHits .set r.k (Gen.visits (setSite c) actTrue h r.g (some r.x)) q)).sum := by
  induction regs with
  | nil => rfl
  | cons r regs ih =>
    simp only [visitKeysS, List.flatMap_cons, List.countP_append, List.map_cons, List.sum_cons] at ih ⊢
    rw [ih]
    congr 1
    generalize Gen.visits (setSite c) actTrue h r.g (some r.x) = vs
    induction vs with
    | nil => rfl
    | cons g vs ihv =>
      simp only [List.map_cons, List.countP_cons, Gen.visitHits, List.sum_cons, hit] at ihv ⊢
      rw [ihv]; split <;> omega

theorem blocks_eq_blockOf_set (h' : Heap) (ys : List Id) (o' : Observable) (q : NKey) (k : HKey) (vs : List Graph) :
    Gen.blocks h' k (ys.map some) vs o' q =
      ((vs.map (fun g => NKey.maint .set g k)).map (keyFC (blockOf h' ys o' q))).sum := by
  simp [Gen.blocks, keyFC, blockOf, List.map_map, Function.comp_def]

theorem sum_blocks_eq_keysS (h h' : Heap) (c : Id) (ys : List Id) (o' : Observable) (q : NKey) (regs : List Reg) :
    (regs.map (fun r => Gen.blocks h' r.k (ys.map some) (Gen.visits (setSite c) actTrue h r.g (some r.x)) o' q)).sum =
      ((visitKeysS h c regs).map (keyFC (blockOf h' ys o' q))).sum := by
  induction regs with
  | nil => rfl
  | cons r regs ih =>
    simp only [List.map_cons, List.sum_cons, visitKeysS, List.flatMap_cons, List.map_append, List.sum_append]
    rw [blocks_eq_blockOf_set]
    simp only [visitKeysS] at ih
    rw [ih]

/-! ### the fragment -/

/-- Hypotheses under which a mutation of the set container `c` (contents
`items` ↦ `items'`, reported as `ev`) preserves the invariant. -/
structure SetCore (E : Env) (st : St) (regs : List Reg) (c : Id) (items items' : List Id) (ev : CEvent) : Prop where
  hc : st.h.get c = .set items
  /-- no `filtered` (`*`, `+metadata`) node in any active registration -/
  noFiltered : ∀ r ∈ regs, r.g.noFiltered = true
  alive : ∀ k, E.dead k = false
  /-- the walks the maintainers perform meet no failing `iter_*` -/
  okRem : ∀ mk g k, Notifier.maint mk g k ∈ st.H.get (.cont c) → ∀ y ∈ ev.removed,
    walkOk (st.h.upd c (.set items')) true g (some y) = true
  okAdd : ∀ mk g k, Notifier.maint mk g k ∈ st.H.get (.cont c) → ∀ y ∈ ev.added,
    walkOk (st.h.upd c (.set items')) true g (some y) = true
  /-- NoSelfReach: below the current items, and below the removed / added ones, the
  maintained sub-graphs never come back to the set itself -/
  nsrItems : ∀ r ∈ regs, ∀ g ∈ Gen.visits (setSite c) actTrue st.h r.g (some r.x), ∀ y ∈ items,
    ∀ it ∈ hookList st.h r.k true g (some y), it.1 ≠ .cont c
  nsrLive : ∀ mk g k, Notifier.maint mk g k ∈ st.H.get (.cont c) → ∀ y ∈ ev.removed ++ ev.added,
    ∀ it ∈ hookList (st.h.upd c (.set items')) k true g (some y), it.1 ≠ .cont c
  /-- graph equality is structural on the sub-graphs involved -/
  eqStruct : ∀ mk g k, Notifier.maint mk g k ∈ st.H.get (.cont c) → ∀ r ∈ regs,
    ∀ g' ∈ Gen.visits (setSite c) actTrue st.h r.g (some r.x),
    (NKey.maint mk g k).equals (.maint .set g' r.k) = true → g = g' ∧ k = r.k

/-- … plus: the event is a faithful delta, old = removed + rest, new = rest + added
(as multisets; proved below for each set operation). -/
structure SetItemsFrag (E : Env) (st : St) (regs : List Reg) (c : Id) (items items' rest : List Id) (ev : CEvent) : Prop
    extends SetCore E st regs c items items' ev where
  hitems : ∀ F : Id → Nat, (items.map F).sum = (ev.removed.map F).sum + (rest.map F).sum
  hitems' : ∀ F : Id → Nat, (items'.map F).sum = (rest.map F).sum + (ev.added.map F).sum

theorem setMut_preserves (E : Env) (st : St) (regs : List Reg) (c : Id) (items items' rest : List Id) (ev : CEvent)
    (hinv : HooksEqReach st.h st.H regs) (fr : SetItemsFrag E st regs c items items' rest ev) :
    HooksEqReach (st.h.upd c (.set items')) (runCont E st (st.h.upd c (.set items')) c (some ev)).st.H regs ∧
    (runCont E st (st.h.upd c (.set items')) c (some ev)).err = none := by
  obtain ⟨hwf, hcnt⟩ := hinv
  have ok := setSite_ok st.h c items fr.hc
  have R0 := setRel_self st.h c items fr.hc
  have R1 := setRel_upd fr.hc items'
  have Dh : ∀ r ∈ regs, ∀ o' q, cntItems (hookList st.h r.k true r.g (some r.x)) o' q =
      cntItems (Gen.stable (setSite c) st.h r.k true r.g (some r.x)) o' q +
      Gen.blocks st.h r.k (items.map some) (Gen.visits (setSite c) actTrue st.h r.g (some r.x)) o' q :=
    fun r hr o' q => Gen.dec ok R0 r.k r.g (fr.noFiltered r hr) true (some r.x) o' q
  have Dh' : ∀ r ∈ regs, ∀ o' q, cntItems (hookList (st.h.upd c (.set items')) r.k true r.g (some r.x)) o' q =
      cntItems (Gen.stable (setSite c) st.h r.k true r.g (some r.x)) o' q +
      Gen.blocks (st.h.upd c (.set items')) r.k (items'.map some)
        (Gen.visits (setSite c) actTrue st.h r.g (some r.x)) o' q :=
    fun r hr o' q => Gen.dec ok R1 r.k r.g (fr.noFiltered r hr) true (some r.x) o' q
  -- L3 below every current item
  have L3y : ∀ r ∈ regs, ∀ g ∈ Gen.visits (setSite c) actTrue st.h r.g (some r.x), ∀ y ∈ items,
      hookList (st.h.upd c (.set items')) r.k true g (some y) = hookList st.h r.k true g (some y) := by
    intro r hr g hg y hy
    exact Gen.locality ok R1 r.k g (Gen.visits_noFiltered st.h r.g (fr.noFiltered r hr) (some r.x) g hg) true (some y)
      (fr.nsrItems r hr g hg y hy)
  have L3 : ∀ r ∈ regs, ∀ o' q, Gen.blocks (st.h.upd c (.set items')) r.k (items.map some)
        (Gen.visits (setSite c) actTrue st.h r.g (some r.x)) o' q =
      Gen.blocks st.h r.k (items.map some) (Gen.visits (setSite c) actTrue st.h r.g (some r.x)) o' q := by
    intro r hr o' q
    unfold Gen.blocks
    apply sum_map_congr
    intro g hg
    congr 1
    apply flatMap_congr'
    intro w hw
    simp only [List.mem_map] at hw
    obtain ⟨y, hy, rfl⟩ := hw
    exact L3y r hr g hg y hy
  have B0 : ∀ r ∈ regs, ∀ q, Gen.blocks st.h r.k (items.map some)
      (Gen.visits (setSite c) actTrue st.h r.g (some r.x)) (.cont c) q = 0 := by
    intro r hr q
    unfold Gen.blocks
    apply sum_map_zero
    intro g hg
    apply cntItems_zero_of_ne
    intro it hit
    simp only [List.mem_flatMap, List.mem_map] at hit
    obtain ⟨w, ⟨y, hy, rfl⟩, hm⟩ := hit
    exact fr.nsrItems r hr g hg y hy it hm
  have specH : ∀ o' q, specCnt st.h regs o' q =
      (regs.map (fun r => cntItems (Gen.stable (setSite c) st.h r.k true r.g (some r.x)) o' q)).sum +
      (regs.map (fun r => Gen.blocks st.h r.k (items.map some)
        (Gen.visits (setSite c) actTrue st.h r.g (some r.x)) o' q)).sum := by
    intro o' q
    unfold specCnt
    rw [← sum_map_add]
    exact sum_map_congr _ _ _ (fun r hr => Dh r hr o' q)
  have specH' : ∀ o' q, specCnt (st.h.upd c (.set items')) regs o' q =
      (regs.map (fun r => cntItems (Gen.stable (setSite c) st.h r.k true r.g (some r.x)) o' q)).sum +
      (regs.map (fun r => Gen.blocks (st.h.upd c (.set items')) r.k (items'.map some)
        (Gen.visits (setSite c) actTrue st.h r.g (some r.x)) o' q)).sum := by
    intro o' q
    unfold specCnt
    rw [← sum_map_add]
    exact sum_map_congr _ _ _ (fun r hr => Dh' r hr o' q)
  -- the maintainers on the set are the visits
  have hcounts : ∀ q, (mKeys (st.H.get (.cont c))).countP (fun a => a.equals q) =
      (visitKeysS st.h c regs).countP (fun a => a.equals q) := by
    intro q
    cases q with
    | user k0 =>
      rw [List.countP_eq_zero.2, List.countP_eq_zero.2]
      · intro a ha
        obtain ⟨r, _, g, _, rfl⟩ := visitKeysS_shape _ _ _ a ha
        simp [NKey.equals]
      · intro a ha
        obtain ⟨mk, g, k, rfl, _⟩ := mKeys_shape _ a ha
        simp [NKey.equals]
    | maint mk c0 k0 =>
      rw [← cntList_eq_countP_m]
      have := hcnt (.cont c) (.maint mk c0 k0)
      unfold cnt at this
      rw [this]
      by_cases hmk : mk = .set
      · subst hmk
        rw [visitKeysS_countP, specH]
        have hz : (regs.map (fun r => Gen.blocks st.h r.k (items.map some)
            (Gen.visits (setSite c) actTrue st.h r.g (some r.x)) (.cont c) (.maint .set c0 k0))).sum = 0 :=
          sum_map_zero _ _ (fun r hr => B0 r hr _)
        rw [hz, Nat.add_zero]
        exact sum_map_congr _ _ _ (fun r hr =>
          Gen.stable_at_target ok (by simp [setSite]) r.k r.g (fr.noFiltered r hr) true (some r.x) c0 k0)
      · rw [specCnt_cont_kind_set st.h regs c items fr.hc mk c0 k0 hmk, eq_comm, List.countP_eq_zero]
        intro a ha
        obtain ⟨r, _, g, _, rfl⟩ := visitKeysS_shape _ _ _ a ha
        cases mk <;> simp_all [NKey.equals]
  have hmatch : ∀ (ys : List Id) o' q,
      effectSumC (blockOf (st.h.upd c (.set items')) ys o' q) (st.H.get (.cont c)) =
      (regs.map (fun r => Gen.blocks (st.h.upd c (.set items')) r.k (ys.map some)
        (Gen.visits (setSite c) actTrue st.h r.g (some r.x)) o' q)).sum := by
    intro ys o' q
    rw [effectSumC_eq_keys, sum_blocks_eq_keysS]
    apply sum_eq_of_equiv_counts _ _ _ hcounts
    intro a ha b hb hab
    obtain ⟨mk, g, k, rfl, hm⟩ := mKeys_shape _ a ha
    obtain ⟨r, hr, g', hg', rfl⟩ := visitKeysS_shape _ _ _ b hb
    obtain ⟨rfl, rfl⟩ := fr.eqStruct mk g k hm r hr g' hg' hab
    rfl
  -- multiset decomposition of the blocks
  have hsplitB : ∀ (ys a b : List Id), (∀ F : Id → Nat, (ys.map F).sum = (a.map F).sum + (b.map F).sum) →
      ∀ o' q, (regs.map (fun r => Gen.blocks (st.h.upd c (.set items')) r.k (ys.map some)
        (Gen.visits (setSite c) actTrue st.h r.g (some r.x)) o' q)).sum =
      (regs.map (fun r => Gen.blocks (st.h.upd c (.set items')) r.k (a.map some)
        (Gen.visits (setSite c) actTrue st.h r.g (some r.x)) o' q)).sum +
      (regs.map (fun r => Gen.blocks (st.h.upd c (.set items')) r.k (b.map some)
        (Gen.visits (setSite c) actTrue st.h r.g (some r.x)) o' q)).sum := by
    intro ys a b hd o' q
    rw [← sum_map_add]
    apply sum_map_congr
    intro r _
    unfold Gen.blocks
    rw [← sum_map_add]
    apply sum_map_congr
    intro g _
    have := hd (fun y => cntItems (hookList (st.h.upd c (.set items')) r.k true g (some y)) o' q)
    simp only [cntItems_flatMap, List.map_map, Function.comp_def]
    exact this
  -- live iteration = iteration over the copy
  have hfr : ∀ mk g k, Notifier.maint mk g k ∈ st.H.get (.cont c) → ∀ H',
      (maintCont (st.h.upd c (.set items')) g k ev H').H.get (.cont c) = H'.get (.cont c) :=
    fun mk g k hm H' => maintCont_frame _ g k ev (.cont c) H' (fr.nsrLive mk g k hm)
  have heq := notifyCont_eq_callCont E (st.h.upd c (.set items')) c ev (st.H.get (.cont c)) hfr
    ((st.H.get (.cont c)).length + 4096) 0 st.H [] rfl (by omega)
  simp only [runCont, heq, List.drop_zero]
  have hl : LoopOkC E (st.h.upd c (.set items')) ev (st.H.get (.cont c)) :=
    { alive := fr.alive, okRem := fr.okRem, okAdd := fr.okAdd }
  have hI := fun o' q => hsplitB items ev.removed rest fr.hitems o' q
  have hI' := fun o' q => hsplitB items' rest ev.added fr.hitems' o' q
  have hle : ∀ o' q, effectSumC (blockOf (st.h.upd c (.set items')) ev.removed o' q) (st.H.get (.cont c)) ≤
      cnt st.H o' q := by
    intro o' q
    rw [hmatch, hcnt, specH, ← sum_map_congr _ _ _ (fun r hr => L3 r hr o' q), hI]
    omega
  obtain ⟨e, w, cc⟩ := callCont_effect E (st.h.upd c (.set items')) c ev _ st.H [] hl hwf hle
  refine ⟨⟨w, ?_⟩, e⟩
  intro o' q
  have := cc o' q
  rw [hmatch, hmatch, hcnt, specH, ← sum_map_congr _ _ _ (fun r hr => L3 r hr o' q), hI] at this
  rw [specH', hI']
  omega

/-! ### the set operations -/

theorem sum_insertSorted (F : Id → Nat) (x : Id) : ∀ l : List Id,
    ((insertSorted x l).map F).sum = F x + (l.map F).sum := by
  intro l
  induction l with
  | nil => simp [insertSorted]
  | cons y ys ih =>
    simp only [insertSorted]
    split
    · simp
    · simp only [List.map_cons, List.sum_cons, ih]; omega

/-- removing the (single) occurrence of `x` from a duplicate-free list -/
theorem sum_filter_ne (F : Id → Nat) (x : Id) : ∀ l : List Id, x ∈ l → l.Nodup →
    (l.map F).sum = F x + ((l.filter (· != x)).map F).sum := by
  intro l
  induction l with
  | nil => intro h; cases h
  | cons y ys ih =>
    intro hx hnd
    rw [List.nodup_cons] at hnd
    by_cases hy : y = x
    · subst hy
      have hf : ys.filter (· != y) = ys := by
        apply List.filter_eq_self.2
        intro a ha
        have : a ≠ y := fun e => hnd.1 (e ▸ ha)
        simpa using this
      simp [hf]
    · have hx' : x ∈ ys := by
        rcases List.mem_cons.1 hx with h1 | h1
        · exact absurd h1.symm hy
        · exact h1
      have hne : (y != x) = true := by simpa using hy
      simp only [List.filter_cons, hne, if_true, List.map_cons, List.sum_cons, ih hx' hnd.2]
      omega

theorem mem_insertSorted (x y : Id) : ∀ l : List Id, y ∈ insertSorted x l ↔ y = x ∨ y ∈ l := by
  intro l
  induction l with
  | nil => simp [insertSorted]
  | cons z zs ih =>
    simp only [insertSorted]
    split
    · simp
    · simp only [List.mem_cons, ih]
      constructor
      · rintro (h | h | h)
        · exact Or.inr (Or.inl h)
        · exact Or.inl h
        · exact Or.inr (Or.inr h)
      · rintro (h | h | h)
        · exact Or.inr (Or.inl h)
        · exact Or.inl h
        · exact Or.inr (Or.inr h)

/-- `s.add(x)`, `x` not yet in the set -/
theorem setAdd_preserves (E : Env) (st : St) (regs : List Reg) (c : Id) (x : Id) (items : List Id)
    (hx : x ∉ items) (hinv : HooksEqReach st.h st.H regs)
    (core : SetCore E st regs c items (insertSorted x items) (.set [] [x])) :
    HooksEqReach (mutate E st (.setAdd c x)).st.h (mutate E st (.setAdd c x)).st.H regs ∧
    (mutate E st (.setAdd c x)).err = none := by
  have fr : SetItemsFrag E st regs c items (insertSorted x items) items (.set [] [x]) :=
    { core with
      hitems := by intro F; simp [CEvent.removed]
      hitems' := by intro F; rw [sum_insertSorted]; simp [CEvent.added]; omega }
  have hcn : items.contains x = false := by simpa using hx
  simp only [mutate, core.hc, hcn, Bool.false_eq_true, if_false]
  exact setMut_preserves E st regs c items _ items _ hinv fr

/-- `s.add(x)`, `x` already in the set: nothing happens, nothing is delivered -/
theorem setAdd_present (E : Env) (st : St) (c : Id) (x : Id) (items : List Id)
    (hc : st.h.get c = .set items) (hx : x ∈ items) :
    (mutate E st (.setAdd c x)).st = st ∧ (mutate E st (.setAdd c x)).delivered = [] ∧
    (mutate E st (.setAdd c x)).err = none := by
  simp [mutate, hc, hx]

/-- `s.discard(x)` / `s.remove(x)`, `x` in the (duplicate-free) set -/
theorem setDiscard_preserves (E : Env) (st : St) (regs : List Reg) (c : Id) (x : Id) (items : List Id)
    (hx : x ∈ items) (hnd : items.Nodup) (hinv : HooksEqReach st.h st.H regs)
    (core : SetCore E st regs c items (items.filter (· != x)) (.set [x] [])) :
    HooksEqReach (mutate E st (.setDiscard c x)).st.h (mutate E st (.setDiscard c x)).st.H regs ∧
    (mutate E st (.setDiscard c x)).err = none := by
  have fr : SetItemsFrag E st regs c items (items.filter (· != x)) (items.filter (· != x)) (.set [x] []) :=
    { core with
      hitems := by intro F; rw [sum_filter_ne F x items hx hnd]; simp [CEvent.removed]
      hitems' := by intro F; simp [CEvent.added] }
  have hcn : items.contains x = true := by simpa using hx
  simp only [mutate, core.hc, hcn, if_true]
  exact setMut_preserves E st regs c items _ _ _ hinv fr

/-- `s.discard(x)`, `x` not in the set: nothing happens, nothing is delivered -/
theorem setDiscard_absent (E : Env) (st : St) (c : Id) (x : Id) (items : List Id)
    (hc : st.h.get c = .set items) (hx : x ∉ items) :
    (mutate E st (.setDiscard c x)).st = st ∧ (mutate E st (.setDiscard c x)).delivered = [] ∧
    (mutate E st (.setDiscard c x)).err = none := by
  simp [mutate, hc, hx]

/-- `s.clear()` on a non-empty set -/
theorem setClear_preserves (E : Env) (st : St) (regs : List Reg) (c : Id) (items : List Id)
    (hne : items.isEmpty = false) (hinv : HooksEqReach st.h st.H regs)
    (core : SetCore E st regs c items [] (.set items [])) :
    HooksEqReach (mutate E st (.setClear c)).st.h (mutate E st (.setClear c)).st.H regs ∧
    (mutate E st (.setClear c)).err = none := by
  have fr : SetItemsFrag E st regs c items [] [] (.set items []) :=
    { core with
      hitems := by intro F; simp [CEvent.removed]
      hitems' := by intro F; simp [CEvent.added] }
  simp only [mutate, core.hc, hne, Bool.false_eq_true, if_false]
  exact setMut_preserves E st regs c items _ _ _ hinv fr

/-! The model keeps set items distinct: `add` / `discard` / `clear` preserve `Nodup`
(so the `Nodup` hypothesis of `setDiscard_preserves` is an invariant of the cell). -/

theorem nodup_insertSorted (x : Id) : ∀ l : List Id, x ∉ l → l.Nodup → (insertSorted x l).Nodup := by
  intro l
  induction l with
  | nil => intro _ _; simp [insertSorted]
  | cons y ys ih =>
    intro hx hnd
    rw [List.nodup_cons] at hnd
    simp only [insertSorted]
    split
    · exact List.nodup_cons.2 ⟨hx, List.nodup_cons.2 hnd⟩
    · have hx' : x ∉ ys := fun h => hx (List.mem_cons_of_mem _ h)
      refine List.nodup_cons.2 ⟨?_, ih hx' hnd.2⟩
      intro hm
      rcases (mem_insertSorted x y ys).1 hm with h1 | h1
      · exact hx (h1 ▸ List.mem_cons_self ..)
      · exact hnd.1 h1

theorem nodup_filter_ne (x : Id) (l : List Id) (hnd : l.Nodup) : (l.filter (· != x)).Nodup :=
  hnd.sublist List.filter_sublist

/-! ### non-vacuity witness

`a.group = {b, c}` (set cell 100), `b`, `c` instances with a `value` trait;
`a.observe(handler, "group.items.value")`. -/
namespace SetWitness

def fld (n : Name) (v : Val) : Field := ⟨n, false, .val (if n == nValue then .int 0 else .none), v, .equality⟩

def sKey : HKey := ⟨0, 0⟩

def sHeap : Heap :=
  [(0, .inst [fld nGroup (.ref 100), fld nTraitAdded .unset]),
   (1, .inst [fld nValue (.int 3), fld nTraitAdded .unset]),
   (2, .inst [fld nValue (.int 5), fld nTraitAdded .unset]),
   (3, .inst [fld nValue (.int 7), fld nTraitAdded .unset]),
   (100, .set [1, 2])]
def sGraph : Graph := .node (.named nGroup true false) [.node (.setItems true false) [.node (.named nValue true false) []]]
def sSt : St := ⟨sHeap, (addRemove sHeap sKey false true sGraph (some 0) Hooks.empty).H⟩
def sRegs : List Reg := [⟨sKey, sGraph, 0⟩]

/-- after `observe` on objects without hooks the invariant holds -/
theorem sInv : HooksEqReach sSt.h sSt.H sRegs := by
  have hok : (addRemove sHeap sKey false true sGraph (some 0) Hooks.empty).err = none := by decide
  obtain ⟨_, hc, hw⟩ := addRemove_add sHeap sKey sGraph true (some 0) Hooks.empty hok
  refine ⟨hw WF_empty, ?_⟩
  intro o q
  show cnt (addRemove sHeap sKey false true sGraph (some 0) Hooks.empty).H o q = _
  rw [hc]
  simp [specCnt, cnt, Hooks.empty, cntList, sRegs, sSt]

theorem sHooks : sSt.H.get (.cont 100) =
    [.user sKey 1, .maint .set (.node (.named nValue true false) []) sKey] := rfl
theorem sVisits : Gen.visits (setSite 100) actTrue sSt.h sGraph (some 0) = [.node (.named nValue true false) []] := rfl

/-- The hypotheses of `setDiscard_preserves` hold for `a.group.discard(b)`. -/
theorem sCoreDiscard : SetCore {} sSt sRegs 100 [1, 2] ([1, 2].filter (· != 1)) (.set [1] []) where
  hc := rfl
  noFiltered := by intro r hr; simp [sRegs] at hr; subst hr; decide
  alive := fun _ => rfl
  okRem := by
    intro mk g k hm y hy
    rw [sHooks] at hm
    simp at hm
    obtain ⟨rfl, rfl, rfl⟩ := hm
    simp [CEvent.removed] at hy
    subst hy
    decide
  okAdd := by intro mk g k _ y hy; simp [CEvent.added] at hy
  nsrItems := by
    intro r hr g hg y hy
    simp [sRegs] at hr; subst hr
    rw [sVisits] at hg
    simp at hg; subst hg
    simp at hy
    rcases hy with rfl | rfl <;> decide
  nsrLive := by
    intro mk g k hm y hy
    rw [sHooks] at hm
    simp at hm
    obtain ⟨rfl, rfl, rfl⟩ := hm
    simp [CEvent.removed, CEvent.added] at hy
    subst hy
    decide
  eqStruct := by
    intro mk g k hm r hr g' hg' he
    rw [sHooks] at hm
    simp at hm
    obtain ⟨rfl, rfl, rfl⟩ := hm
    simp [sRegs] at hr; subst hr
    rw [sVisits] at hg'
    simp at hg'; subst hg'
    exact ⟨rfl, rfl⟩

/-- The hypotheses of `setAdd_preserves` hold for `a.group.add(d)` (`d` = object 3). -/
theorem sCoreAdd : SetCore {} sSt sRegs 100 [1, 2] (insertSorted 3 [1, 2]) (.set [] [3]) where
  hc := rfl
  noFiltered := by intro r hr; simp [sRegs] at hr; subst hr; decide
  alive := fun _ => rfl
  okRem := by intro mk g k _ y hy; simp [CEvent.removed] at hy
  okAdd := by
    intro mk g k hm y hy
    rw [sHooks] at hm
    simp at hm
    obtain ⟨rfl, rfl, rfl⟩ := hm
    simp [CEvent.added] at hy
    subst hy
    decide
  nsrItems := by
    intro r hr g hg y hy
    simp [sRegs] at hr; subst hr
    rw [sVisits] at hg
    simp at hg; subst hg
    simp at hy
    rcases hy with rfl | rfl <;> decide
  nsrLive := by
    intro mk g k hm y hy
    rw [sHooks] at hm
    simp at hm
    obtain ⟨rfl, rfl, rfl⟩ := hm
    simp [CEvent.removed, CEvent.added] at hy
    subst hy
    decide
  eqStruct := by
    intro mk g k hm r hr g' hg' he
    rw [sHooks] at hm
    simp at hm
    obtain ⟨rfl, rfl, rfl⟩ := hm
    simp [sRegs] at hr; subst hr
    rw [sVisits] at hg'
    simp at hg'; subst hg'
    exact ⟨rfl, rfl⟩

/-- The hypotheses of `setClear_preserves` hold for `a.group.clear()`. -/
theorem sCoreClear : SetCore {} sSt sRegs 100 [1, 2] [] (.set [1, 2] []) where
  hc := rfl
  noFiltered := by intro r hr; simp [sRegs] at hr; subst hr; decide
  alive := fun _ => rfl
  okRem := by
    intro mk g k hm y hy
    rw [sHooks] at hm
    simp at hm
    obtain ⟨rfl, rfl, rfl⟩ := hm
    simp [CEvent.removed] at hy
    rcases hy with rfl | rfl <;> decide
  okAdd := by intro mk g k _ y hy; simp [CEvent.added] at hy
  nsrItems := by
    intro r hr g hg y hy
    simp [sRegs] at hr; subst hr
    rw [sVisits] at hg
    simp at hg; subst hg
    simp at hy
    rcases hy with rfl | rfl <;> decide
  nsrLive := by
    intro mk g k hm y hy
    rw [sHooks] at hm
    simp at hm
    obtain ⟨rfl, rfl, rfl⟩ := hm
    simp [CEvent.removed, CEvent.added] at hy
    rcases hy with rfl | rfl <;> decide
  eqStruct := by
    intro mk g k hm r hr g' hg' he
    rw [sHooks] at hm
    simp at hm
    obtain ⟨rfl, rfl, rfl⟩ := hm
    simp [sRegs] at hr; subst hr
    rw [sVisits] at hg'
    simp at hg'; subst hg'
    exact ⟨rfl, rfl⟩

/-- … the theorem applies to `a.group.clear()`: both `value` traits are released -/
example : HooksEqReach (mutate {} sSt (.setClear 100)).st.h (mutate {} sSt (.setClear 100)).st.H sRegs :=
  (setClear_preserves {} sSt sRegs 100 [1, 2] (by decide) sInv sCoreClear).1

example : cnt (mutate {} sSt (.setClear 100)).st.H (.trait 1 nValue) (.user sKey) = 0 ∧
    cnt (mutate {} sSt (.setClear 100)).st.H (.trait 2 nValue) (.user sKey) = 0 ∧
    (mutate {} sSt (.setClear 100)).delivered = [.set sKey 100 [1, 2] []] := by decide

/-- … the theorem applies to `a.group.discard(b)`: `b.value` is released, `c.value` stays hooked -/
example : HooksEqReach (mutate {} sSt (.setDiscard 100 1)).st.h (mutate {} sSt (.setDiscard 100 1)).st.H sRegs :=
  (setDiscard_preserves {} sSt sRegs 100 1 [1, 2] (by decide) (by decide) sInv sCoreDiscard).1

example : cnt sSt.H (.trait 1 nValue) (.user sKey) = 1 ∧
    cnt (mutate {} sSt (.setDiscard 100 1)).st.H (.trait 1 nValue) (.user sKey) = 0 ∧
    cnt (mutate {} sSt (.setDiscard 100 1)).st.H (.trait 2 nValue) (.user sKey) = 1 := by decide

/-- … and to `a.group.add(d)`: `d.value` gets hooked -/
example : HooksEqReach (mutate {} sSt (.setAdd 100 3)).st.h (mutate {} sSt (.setAdd 100 3)).st.H sRegs :=
  (setAdd_preserves {} sSt sRegs 100 3 [1, 2] (by decide) sInv sCoreAdd).1

example : cnt sSt.H (.trait 3 nValue) (.user sKey) = 0 ∧
    cnt (mutate {} sSt (.setAdd 100 3)).st.H (.trait 3 nValue) (.user sKey) = 1 ∧
    (mutate {} (mutate {} sSt (.setAdd 100 3)).st (.setField 3 nValue (.int 8) 0)).delivered =
      [.trait sKey 3 nValue (.int 7) (.int 8)] := by decide

end SetWitness

end TraitsVerif.Model.Obs
