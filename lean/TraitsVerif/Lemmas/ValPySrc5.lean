/-
Source tie of the Python-level validate methods, part 5: the legacy handlers of
trait_handlers.py that have a compiled fast path — TraitCoerceType, TraitCastType, TraitInstance, TraitFunction,
TraitEnum, TraitMap — and the assembly over all covered trait types.
-/
import TraitsVerif.Lemmas.ValPySrc4
namespace TraitsVerif.Model.PyVSrc
open TraitsVerif TraitsVerif.Py.Value TraitsVerif.Model.Val TraitsVerif.Generated.PyValidators
set_option maxHeartbeats 3200000
variable (E : Env)

macro "pyv_evalL" : tactic => `(tactic|
  simp [srcPy, pyMethodOf, runMethod, exec, handle, evalE, evalArgs, builtin, pvIn, ofExcept, selfApply, callFn,
    specMatches, excMatches, globOf, attrOf, pvIs, pvLt, pvLe, pvEq, selfCfg, selfCfgE, optFloat, optInt, PV.truthy, toRes])

theorem py_castH (ty : Ty) (v : Val) : srcPy E (.castH ty) v = some (pyValidate E (.castH ty) v) := by
  py_start m_TraitCastType_validate "TraitCastType.validate"
  pyv_evalL
  simp only [pyValidate, pyCastAny]
  cases Val.exactTy ty v <;> simp
  cases E.cast ty v <;> simp

theorem py_instanceH (cls : Ty) (an : Bool) (v : Val) :
    srcPy E (.instanceH cls an) v = some (pyValidate E (.instanceH cls an) v) := by
  py_start m_TraitInstance_validate "TraitInstance.validate"
  pyv_evalL
  simp only [pyValidate, isNone_iff']
  cases v.isNone <;> cases an <;> cases Val.isInst cls v <;> simp

theorem py_functionH (f : Nat) (v : Val) :
    srcPy E (.functionH f) v = some (pyValidate E (.functionH f) v) := by
  py_start m_TraitFunction_validate "TraitFunction.validate"
  pyv_evalL
  simp only [pyValidate]
  cases h : E.fn f v with
  | ok w => simp
  | error e => cases e <;> simp [Exc.name]

theorem py_enumH (vals : List Val) (v : Val) :
    srcPy E (.enumH vals) v = some (pyValidate E (.enumH vals) v) := by
  py_start m_TraitEnum_validate "TraitEnum.validate"
  pyv_evalL
  simp only [pyValidate, pyEnumValidate]
  cases seqContains vals v <;> simp

theorem py_mapH (keys vals : List Val) (v : Val) :
    srcPy E (.mapH keys vals) v = some (pyValidate E (.mapH keys vals) v) := by
  py_start m_TraitMap_validate "TraitMap.validate"
  pyv_evalL
  simp only [pyValidate]
  cases h : dictFind keys v with
  | ok o => cases o <;> simp
  | error e => simp

theorem py_coerceH (ty : Ty) (v : Val) : srcPy E (.coerceH ty) v = some (pyValidate E (.coerceH ty) v) := by
  py_start m_TraitCoerceType_validate "TraitCoerceType.validate"
  cases ty <;>
    simp [srcPy, pyMethodOf, runMethod, exec, handle, evalE, evalArgs, builtin, pvIn, ofExcept, selfApply, callFn,
      specMatches, excMatches, globOf, attrOf, pvIs, selfCfg, selfCfgE, PV.truthy, toRes, coerceRest, forEachPV,
      pyValidate, pyCoerceValidate] <;>
    (try cases Val.exactTy Ty.float v) <;> (try cases Val.exactTy Ty.int v) <;> (try simp) <;>
    (repeat' split) <;> simp_all

/-! ## Assembly, fifth part -/

def pyCovered5 : TraitType → Bool
  | .noFast t => pyCovered5 t
  | .coerceH _ | .castH _ | .instanceH .. | .functionH _ | .enumH _ | .mapH .. => true
  | t => pyCovered4 t

theorem noTE_noFast (t : TraitType) (v : Val) : noTE E (.noFast t) v = noTE E t v := by simp [noTE]

theorem srcPy_eq5 (hE : CastIdem E) (hA : ∀ v cls r, E.adapt v cls = .ok (some r) → r ≠ Val.none) :
    ∀ (t : TraitType) (v : Val), pyCovered5 t = true → noTE E t v → srcPy E t v = some (pyValidate E t v)
  | .noFast t, v, h, hn => by
    rw [srcPy_noFast, srcPy_eq5 hE hA t v (by simpa [pyCovered5] using h) (by simpa [noTE] using hn)]
    simp [pyValidate]
  | .coerceH ty, v, _, _ => py_coerceH E ty v
  | .castH ty, v, _, _ => py_castH E ty v
  | .instanceH cls an, v, _, _ => py_instanceH E cls an v
  | .functionH f, v, _, _ => py_functionH E f v
  | .enumH vals, v, _, _ => py_enumH E vals v
  | .mapH keys vals, v, _, _ => py_mapH E keys vals v
  | .int, v, h, hn | .float, v, h, hn | .complex, v, h, hn | .str, v, h, hn | .bytes, v, h, hn | .bool, v, h, hn
  | .cint, v, h, hn | .cfloat, v, h, hn | .ccomplex, v, h, hn | .cstr, v, h, hn | .cbytes, v, h, hn | .cbool, v, h, hn
  | .enum _, v, h, hn | .map .., v, h, hn | .noneTrait, v, h, hn | .this _, v, h, hn
  | .rangeF .., v, h, hn | .rangeI .., v, h, hn | .type_ .., v, h, hn | .instance .., v, h, hn
  | .tuple _, v, h, hn | .union _, v, h, hn | .compoundH _, v, h, hn | .callable _, v, h, hn
  | .any, v, h, hn | .baseTuple _, v, h, hn
  | .validatedTuple .., v, h, hn | .tupleAny, v, h, hn
  | .module, v, h, hn | .either .., v, h, hn | .string .., v, h, hn | .prefixList _, v, h, hn
  | .prefixMap .., v, h, hn | .array .., v, h, hn =>
    srcPy_eq4 E hE hA _ v (by simpa [pyCovered5] using h) hn

end TraitsVerif.Model.PyVSrc
