/-
Lemmas for `copy.deepcopy` of values and for one iteration of `copy_traits`
in deep mode (`clone_traits(copy='deep')`, or `copy="deep"` metadata).
-/
import TraitsVerif.Lemmas.PersistObject
set_option linter.unusedSimpArgs false
namespace TraitsVerif.Lemmas.Persist
open TraitsVerif TraitsVerif.Model.Persist

mutual
/-- No container in the value is a `Trait*Object` that went through
`__setstate__` (kept for statements about the pre-dd9f9de behaviour). -/
def NoDetached : CVal → Prop
  | .leaf _ => True
  | .node _ _ b _ kids => (∀ via, b ≠ .detached via) ∧ NoDetachedL kids
def NoDetachedL : List CVal → Prop
  | [] => True
  | v :: vs => NoDetached v ∧ NoDetachedL vs
end

mutual
/-- `copy.deepcopy` of ANY value succeeds, builds only new container objects and keeps the value. -/
theorem deepcopyV_spec : ∀ (v : CVal) (n : Nat),
    ∃ v' n', deepcopyV n v = .ok (v', n') ∧ n ≤ n' ∧ (∀ i ∈ ids v', n ≤ i ∧ i < n') ∧ norm v' = norm v
  | .leaf a, n => ⟨_, n + 1, rfl, Nat.le_succ _, by simp [ids], by simp [norm]⟩
  | .node k i b keys kids, n => by
    obtain ⟨kids', n', h1, h2, h3, h4⟩ := deepcopyL_spec kids (n + 1)
    have hn : (keys.map (Leaf.copiedAt n)).map Leaf.norm = keys.map Leaf.norm := by
      rw [List.map_map]; apply List.map_congr_left; intro a _; simp
    have idsok : ∀ b', ∀ j ∈ ids (CVal.node k n b' (keys.map (Leaf.copiedAt n)) kids'), n ≤ j ∧ j < n' := by
      intro b' j hj
      simp only [ids, List.mem_cons] at hj
      rcases hj with rfl | hj
      · exact ⟨Nat.le_refl _, by omega⟩
      · have := h3 j hj; omega
    cases b with
    | plain =>
      exact ⟨.node k n .plain (keys.map (Leaf.copiedAt n)) kids', n', by simp [deepcopyV, h1], by omega, idsok _,
        by simp [norm, h4, hn]⟩
    | detached via =>
      exact ⟨.node k n (.detached none) (keys.map (Leaf.copiedAt n)) kids', n', by simp [deepcopyV, h1], by omega,
        idsok _, by simp [norm, h4, hn]⟩
    | ownerless sh =>
      exact ⟨.node k n (.ownerless sh) (keys.map (Leaf.copiedAt n)) kids', n', by simp [deepcopyV, h1], by omega,
        idsok _, by simp [norm, h4, hn]⟩
    | bound o sh =>
      exact ⟨.node k n (.ownerless sh) (keys.map (Leaf.copiedAt n)) kids', n', by simp [deepcopyV, h1], by omega,
        idsok _, by simp [norm, h4, hn]⟩
theorem deepcopyL_spec : ∀ (l : List CVal) (n : Nat),
    ∃ l' n', deepcopyL n l = .ok (l', n') ∧ n ≤ n' ∧ (∀ i ∈ idsL l', n ≤ i ∧ i < n') ∧ normL l' = normL l
  | [], n => ⟨[], n, rfl, Nat.le_refl _, by simp [idsL], rfl⟩
  | v :: vs, n => by
    obtain ⟨v', n1, a1, a2, a3, a4⟩ := deepcopyV_spec v n
    obtain ⟨vs', n2, b1, b2, b3, b4⟩ := deepcopyL_spec vs n1
    refine ⟨v' :: vs', n2, by simp [deepcopyL, a1, b1], by omega, ?_, by simp [normL, a4, b4]⟩
    intro j hj
    simp only [idsL, List.mem_append] at hj
    rcases hj with hj | hj
    · have := a3 j hj; omega
    · have := b3 j hj; omega
end

theorem deepcopyL_mem : ∀ (l : List CVal) (n : Nat) (l' : List CVal) (n' : Nat),
    deepcopyL n l = .ok (l', n') → l'.length = l.length ∧
      ∀ kid' ∈ l', ∃ kid ∈ l, ∃ m m', deepcopyV m kid = .ok (kid', m')
  | [], n, l', n', h => by
    simp only [deepcopyL] at h
    cases h
    exact ⟨rfl, fun _ hk => by cases hk⟩
  | v :: vs, n, l', n', h => by
    simp only [deepcopyL] at h
    split at h
    · cases h
    · rename_i v' n1 hv
      split at h
      · cases h
      · rename_i vs' n2 hvs
        cases h
        have ih := deepcopyL_mem vs n1 vs' _ hvs
        refine ⟨by simp [ih.1], ?_⟩
        intro kid' hk
        rcases List.mem_cons.mp hk with rfl | hk
        · exact ⟨v, by simp, n, n1, hv⟩
        · obtain ⟨kid, h1, h2⟩ := ih.2 kid' hk
          exact ⟨kid, by simp [h1], h2⟩

mutual
/-- Whenever `copy.deepcopy` of a value succeeds it builds only new container objects. -/
theorem deepcopyV_ids : ∀ (v : CVal) (n : Nat) (v' : CVal) (n' : Nat), deepcopyV n v = .ok (v', n') →
    n ≤ n' ∧ ∀ i ∈ ids v', n ≤ i ∧ i < n'
  | .leaf a, n, v', n', h => by
    simp only [deepcopyV] at h
    cases h
    exact ⟨Nat.le_succ _, by simp [ids]⟩
  | .node k i b keys kids, n, v', n', h => by
    simp only [deepcopyV] at h
    split at h
    · cases h
    · rename_i kids' n2 hk
      have ih := deepcopyL_ids kids (n + 1) kids' n2 hk
      have idsok : ∀ b', ∀ j ∈ ids (CVal.node k n b' (keys.map (Leaf.copiedAt n)) kids'), n ≤ j ∧ j < n2 := by
        intro b' j hj
        simp only [ids, List.mem_cons] at hj
        rcases hj with rfl | hj
        · exact ⟨Nat.le_refl _, by omega⟩
        · have := ih.2 j hj; omega
      cases b with
      | plain => simp only at h; cases h; exact ⟨by omega, idsok _⟩
      | detached via => simp only at h; cases h; exact ⟨by omega, idsok _⟩
      | ownerless sh => simp only at h; cases h; exact ⟨by omega, idsok _⟩
      | bound o sh => simp only at h; cases h; exact ⟨by omega, idsok _⟩
theorem deepcopyL_ids : ∀ (l : List CVal) (n : Nat) (l' : List CVal) (n' : Nat), deepcopyL n l = .ok (l', n') →
    n ≤ n' ∧ ∀ i ∈ idsL l', n ≤ i ∧ i < n'
  | [], n, l', n', h => by
    simp only [deepcopyL] at h
    cases h
    exact ⟨Nat.le_refl _, by simp [idsL]⟩
  | v :: vs, n, l', n', h => by
    simp only [deepcopyL] at h
    split at h
    · cases h
    · rename_i v' n1 hv
      split at h
      · cases h
      · rename_i vs' n2 hvs
        cases h
        have a := deepcopyV_ids v n v' n1 hv
        have b := deepcopyL_ids vs n1 vs' _ hvs
        refine ⟨by omega, ?_⟩
        intro j hj
        simp only [idsL, List.mem_append] at hj
        rcases hj with hj | hj
        · have := a.2 j hj; omega
        · have := b.2 j hj; omega
end

/-- A deep copy of a valid value is valid for the same trait. -/
theorem deepcopyV_valid {E : Env} (hC : CopyStable E) {sh : Shape} {v : CVal} (h : Valid E sh v) :
    ∀ n v' n', deepcopyV n v = .ok (v', n') → Valid E sh v' := by
  induction h with
  | any v => intro n v' n' _; exact .any _
  | leaf ha =>
    intro n v' n' h
    simp only [deepcopyV] at h
    cases h
    exact .leaf (hC _ _ n ha)
  | node hlen hkeys _ ih =>
    intro n v' n' h
    rename_i k kT iT lo hi i b keys kids _
    simp only [deepcopyV] at h
    split at h
    · cases h
    · rename_i kids' n2 hk
      have hm := deepcopyL_mem kids (n + 1) kids' n2 hk
      have hv : ∀ b', Valid E (.cont k kT iT lo hi) (.node k n b' (keys.map (Leaf.copiedAt n)) kids') := by
        intro b'
        refine .node ?_ ?_ ?_
        · intro hc; rw [hm.1]; exact hlen hc
        · intro key hk'
          obtain ⟨a, ha, rfl⟩ := List.mem_map.mp hk'
          exact hC _ _ n (hkeys a ha)
        · intro kid' hk'
          obtain ⟨kid, h1, m, m', h2⟩ := hm.2 kid' hk'
          exact ih kid h1 m kid' m' h2
      cases b with
      | plain => simp only at h; cases h; exact hv _
      | detached via => simp only at h; cases h; exact hv _
      | ownerless sh => simp only at h; cases h; exact hv _
      | bound o sh => simp only at h; cases h; exact hv _

/-- One iteration of `copy_traits` whose effective mode is deep. -/
theorem cloneSlot_deep_spec' {E : Env} (hI : Idem E) (hC : CopyStable E) {src : Slot} (hw : WFSlot E src)
    (hc : src.decl.copyable = true) (hk : src.decl.kind ≠ .event) {arg : Option CopyMode}
    (hm : effMode src.decl.copy arg = .deep) (oS oD n : Nat) (all : Bool) :
    ∃ w, (cloneSlot E oS oD arg all n src).1.val = some w ∧
      (cloneSlot E oS oD arg all n src).1.decl = src.decl ∧
      norm w = norm (readSlot E oS n src).1 ∧ Live E oD src.decl.shape w ∧
      (∀ i ∈ ids w, (readSlot E oS n src).2.2 ≤ i) ∧
      (cloneSlot E oS oD arg all n src).2.1 = (readSlot E oS n src).2.1 := by
  obtain ⟨hv, _, _, _⟩ := readSlot_spec hI hw oS n
  obtain ⟨u, n1, h1, h2, h3, h4⟩ := deepcopyV_spec (readSlot E oS n src).1 (readSlot E oS n src).2.2
  have hvu := deepcopyV_valid hC hv _ _ _ h1
  obtain ⟨w, n2, h5, h6⟩ := validate_of_valid hvu oD n1
  have hl := validate_ids oD _ _ _ _ _ h5
  refine ⟨w, ?_, ?_, by rw [h6, h4], validate_live hI oD _ _ _ _ _ h5, ?_, ?_⟩
  · simp [cloneSlot, hc, hm, copyValue, h1, assignSlot_fresh src.decl hk, h5]
  · simp [cloneSlot, hc, hm, copyValue, h1, assignSlot_fresh src.decl hk, h5]
  · intro i hi
    rcases hl.2 i hi with h | h
    · omega
    · exact (h3 i h).1
  · simp [cloneSlot, hc, hm, copyValue, h1, assignSlot_fresh src.decl hk, h5]

theorem cloneSlot_deep_spec {E : Env} (hI : Idem E) (hC : CopyStable E) {src : Slot} (hw : WFSlot E src)
    (hc : src.decl.copyable = true) (hk : src.decl.kind ≠ .event)
    (hm : src.decl.copy = none ∨ src.decl.copy = some .deep)
    (oS oD n : Nat) (all : Bool) :
    ∃ w, (cloneSlot E oS oD (some .deep) all n src).1.val = some w ∧
      (cloneSlot E oS oD (some .deep) all n src).1.decl = src.decl ∧
      norm w = norm (readSlot E oS n src).1 ∧ Live E oD src.decl.shape w ∧
      (∀ i ∈ ids w, (readSlot E oS n src).2.2 ≤ i) ∧
      (cloneSlot E oS oD (some .deep) all n src).2.1 = (readSlot E oS n src).2.1 := by
  apply cloneSlot_deep_spec' hI hC hw hc hk _ oS oD n all
  rcases hm with h | h <;> simp [effMode, h]

/-! ## `clone_traits(copy='deep')`, all slots -/

theorem readSlot_ids {E : Env} {sl : Slot} {n m : Nat}
    (hb : (∀ i ∈ slotIds sl, i < m) ∧ (∀ i ∈ ids sl.decl.dflt, i < m)) (o : Nat) :
    (∀ i ∈ slotIds (readSlot E o n sl).2.1, i < m ∨ (n ≤ i ∧ i < (readSlot E o n sl).2.2)) ∧
      n ≤ (readSlot E o n sl).2.2 := by
  cases hv : sl.val with
  | some v =>
    have : readSlot E o n sl = (v, sl, n) := by simp [readSlot, hv]
    rw [this]
    exact ⟨fun i hi => Or.inl (hb.1 i hi), Nat.le_refl _⟩
  | none =>
    have hd := defaultOf_le sl n
    have hdi := defaultOf_ids sl n
    cases hval : validate E o sl.decl.shape (defaultOf sl n).2 (defaultOf sl n).1 with
    | error e =>
      have : readSlot E o n sl = ((defaultOf sl n).1, { sl with val := some (defaultOf sl n).1 }, (defaultOf sl n).2) := by
        simp [readSlot, hv, hval]
      rw [this]
      exact ⟨fun i hi => Or.inl (hb.2 i (hdi i (by simpa [slotIds] using hi))), hd⟩
    | ok r =>
      obtain ⟨v', n'⟩ := r
      have : readSlot E o n sl = (v', { sl with val := some v' }, n') := by simp [readSlot, hv, hval]
      rw [this]
      have hl := validate_ids o _ _ _ _ _ hval
      refine ⟨?_, Nat.le_trans hd hl.1⟩
      intro i hi
      have hi' : i ∈ ids v' := by simpa [slotIds] using hi
      rcases hl.2 i hi' with h | h
      · exact Or.inr ⟨Nat.le_trans hd h.1, h.2⟩
      · exact Or.inl (hb.2 i (hdi i h))

/-- One iteration in deep mode, with the identity ranges: the source slot only
gains identities allocated before `mid`, the clone's slot holds only identities
allocated from `mid` on - also when the deep copy raises (a detached container:
the slot is then left unset, finding F71, and shares nothing either). -/
theorem cloneSlot_deep_ranges {E : Env} (hI : Idem E) (hC : CopyStable E) {src : Slot} (hw : WFSlot E src)
    (hc : src.decl.copyable = true ∨ (all = true ∧ src.decl.kind ≠ .event)) (hk : src.decl.kind ≠ .event)
    {arg : Option CopyMode}
    (hm : effMode src.decl.copy arg = .deep) (oS oD n m : Nat)
    (hb : (∀ i ∈ slotIds src, i < m) ∧ (∀ i ∈ ids src.decl.dflt, i < m)) :
    ∃ mid, n ≤ mid ∧ mid ≤ (cloneSlot E oS oD arg all n src).2.2 ∧
      (∀ i ∈ slotIds (cloneSlot E oS oD arg all n src).2.1, i < m ∨ (n ≤ i ∧ i < mid)) ∧
      (∀ i ∈ slotIds (cloneSlot E oS oD arg all n src).1, mid ≤ i ∧ i < (cloneSlot E oS oD arg all n src).2.2) := by
  obtain ⟨hv, _, _, _⟩ := readSlot_spec hI hw oS n
  have hr := readSlot_ids (E := E) (n := n) hb oS
  have hcb : (src.decl.copyable || (all && src.decl.kind != .event)) = true := by
    rcases hc with h | ⟨h1, h2⟩
    · simp [h]
    · simp [h1, h2]
  cases h1 : deepcopyV (readSlot E oS n src).2.2 (readSlot E oS n src).1 with
  | error e =>
    have e' : cloneSlot E oS oD arg all n src = (⟨src.decl, none⟩, (readSlot E oS n src).2.1,
        (readSlot E oS n src).2.2) := by
      simp [cloneSlot, hcb, hm, copyValue, h1]
    rw [e']
    exact ⟨(readSlot E oS n src).2.2, hr.2, Nat.le_refl _, hr.1, fun i hi => by simp [slotIds] at hi⟩
  | ok r =>
    obtain ⟨u, n1⟩ := r
    have hu := deepcopyV_ids _ _ _ _ h1
    have hvu := deepcopyV_valid hC hv _ _ _ h1
    obtain ⟨w, n2, h5, h6⟩ := validate_of_valid hvu oD n1
    have hl := validate_ids oD _ _ _ _ _ h5
    have e' : cloneSlot E oS oD arg all n src = (⟨src.decl, some w⟩, (readSlot E oS n src).2.1, n2) := by
      simp [cloneSlot, hcb, hm, copyValue, h1, assignSlot_fresh src.decl hk, h5]
    rw [e']
    refine ⟨(readSlot E oS n src).2.2, hr.2, by simp only; omega, hr.1, ?_⟩
    intro i hi
    have hi' : i ∈ ids w := by simpa [slotIds] using hi
    rcases hl.2 i hi' with h | h
    · simp only; omega
    · have := hu.2 i h
      simp only; omega

/-- What the no-sharing clause needs of a slot: well-formed, and - if it is one
of the slots that get copied - copied in deep mode (no `copy="ref"` /
`copy="shallow"` metadata, which ask for sharing). -/
structure DeepOK (E : Env) (arg : Option CopyMode) (all : Bool) (sl : Slot) : Prop where
  wf : WFSlot E sl
  deep : sl.decl.copyable = true ∨ (all = true ∧ sl.decl.kind ≠ .event) → effMode sl.decl.copy arg = .deep

/-- **No sharing under `clone_traits(copy='deep')`** (and under `copy="deep"`
metadata with any `copy` argument): no container object of the clone is a
container object of the source - neither one that existed before, nor a default
the cloning materialised in the source. -/
theorem cloneL_no_sharing {E : Env} (hI : Idem E) (hC : CopyStable E) (oS oD m : Nat) (arg : Option CopyMode)
    (all : Bool) :
    ∀ (slots : List Slot) (n : Nat), m ≤ n → BelowAll m slots → (∀ sl ∈ slots, DeepOK E arg all sl) →
      n ≤ (cloneL E oS oD arg all n slots).2.2 ∧
      (∀ a ∈ (cloneL E oS oD arg all n slots).2.1, ∀ i ∈ slotIds a,
        i < m ∨ (n ≤ i ∧ i < (cloneL E oS oD arg all n slots).2.2)) ∧
      (∀ c ∈ (cloneL E oS oD arg all n slots).1, ∀ i ∈ slotIds c,
        n ≤ i ∧ i < (cloneL E oS oD arg all n slots).2.2) ∧
      (∀ c ∈ (cloneL E oS oD arg all n slots).1, ∀ i ∈ slotIds c,
        ∀ a ∈ (cloneL E oS oD arg all n slots).2.1, i ∉ slotIds a)
  | [], n, _, _, _ => by
    simp only [cloneL]
    exact ⟨Nat.le_refl _, fun _ h => (by cases h), fun _ h => (by cases h), fun _ h => (by cases h)⟩
  | sl :: sls, n, hmn, hb, hd => by
    have hbs := hb sl (by simp)
    have hds := hd sl (by simp)
    simp only [cloneL]
    -- the head
    have head : ∃ mid, n ≤ mid ∧ mid ≤ (cloneSlot E oS oD arg all n sl).2.2 ∧
        (∀ i ∈ slotIds (cloneSlot E oS oD arg all n sl).2.1, i < m ∨ (n ≤ i ∧ i < mid)) ∧
        (∀ i ∈ slotIds (cloneSlot E oS oD arg all n sl).1,
          mid ≤ i ∧ i < (cloneSlot E oS oD arg all n sl).2.2) := by
      by_cases hcopy : sl.decl.copyable = true ∨ (all = true ∧ sl.decl.kind ≠ .event)
      · have h1 := hds.deep hcopy
        have hk : sl.decl.kind ≠ .event := by
          rcases hcopy with h | h
          · intro hk; simp [Decl.copyable, hk] at h
          · exact h.2
        exact cloneSlot_deep_ranges hI hC hds.wf hcopy hk h1 oS oD n m hbs
      · have hn : (sl.decl.copyable || (all && sl.decl.kind != .event)) = false := by
          cases hc : sl.decl.copyable
          · cases ha : all
            · rfl
            · cases hk : (sl.decl.kind != TKind.event)
              · rfl
              · exact absurd (Or.inr ⟨ha, by simpa using hk⟩) hcopy
          · exact absurd (Or.inl hc) hcopy
        have e : cloneSlot E oS oD arg all n sl = (⟨sl.decl, none⟩, sl, n) := by
          simp [cloneSlot, hn]
        rw [e]
        exact ⟨n, Nat.le_refl _, Nat.le_refl _, fun i hi => Or.inl (hbs.1 i hi),
          fun i hi => by simp [slotIds] at hi⟩
    obtain ⟨mid, hm1, hm2, hh1, hh2⟩ := head
    have ih := cloneL_no_sharing hI hC oS oD m arg all sls (cloneSlot E oS oD arg all n sl).2.2
      (by omega) (fun s hs => hb s (by simp [hs])) (fun s hs => hd s (by simp [hs]))
    obtain ⟨i1, i2, i3, i4⟩ := ih
    refine ⟨by omega, ?_, ?_, ?_⟩
    · intro a ha i hi
      rcases List.mem_cons.mp ha with rfl | ha
      · rcases hh1 i hi with h | h
        · exact Or.inl h
        · exact Or.inr ⟨h.1, by omega⟩
      · rcases i2 a ha i hi with h | h
        · exact Or.inl h
        · exact Or.inr ⟨by omega, h.2⟩
    · intro c hc i hi
      rcases List.mem_cons.mp hc with rfl | hc
      · have := hh2 i hi; omega
      · have := i3 c hc i hi; omega
    · intro c hc i hi a ha hia
      rcases List.mem_cons.mp hc with rfl | hc
      · have hci := hh2 i hi
        rcases List.mem_cons.mp ha with rfl | ha
        · rcases hh1 i hia with h | h <;> omega
        · rcases i2 a ha i hia with h | h <;> omega
      · have hci := i3 c hc i hi
        rcases List.mem_cons.mp ha with rfl | ha
        · rcases hh1 i hia with h | h <;> omega
        · exact i4 c hc i hi a ha hia

/-! ## Transient traits under `clone_traits` -/

theorem assignSlot_decl {E : Env} {o n : Nat} {sl sl' : Slot} {v : CVal} {n' : Nat}
    (h : assignSlot E o n sl v = .ok (sl', n')) : sl'.decl = sl.decl := by
  unfold assignSlot at h
  cases hk : sl.decl.kind <;> simp only [hk] at h
  · -- value
    cases hv : validate E o sl.decl.shape n v with
    | error e => simp [hv] at h
    | ok r => obtain ⟨a, b⟩ := r; simp [hv] at h; rw [← h.1]
  · -- readonly
    cases hv : validate E o sl.decl.shape n v with
    | error e => split at h <;> simp [hv] at h
    | ok r =>
      obtain ⟨a, b⟩ := r
      split at h
      · simp [hv] at h; rw [← h.1]
      · simp [hv] at h; rw [← h.1]
      · cases h
  · -- event
    cases hv : validate E o sl.decl.shape n v with
    | error e => simp [hv] at h
    | ok r => obtain ⟨a, b⟩ := r; simp [hv] at h; rw [← h.1]
  · -- property
    cases hv : validate E o sl.decl.shape n v with
    | error e => simp [hv] at h
    | ok r => obtain ⟨a, b⟩ := r; simp [hv] at h; rw [← h.1]

theorem cloneSlot_decl (E : Env) (oS oD : Nat) (arg : Option CopyMode) (all : Bool) (n : Nat) (src : Slot) :
    (cloneSlot E oS oD arg all n src).1.decl = src.decl := by
  unfold cloneSlot
  by_cases hc : (src.decl.copyable || all && src.decl.kind != TKind.event) = true
  · simp only [hc, ↓reduceIte]
    cases h1 : copyValue E (effMode src.decl.copy arg) (readSlot E oS n src).2.2 (readSlot E oS n src).1 with
    | error e => rfl
    | ok r =>
      obtain ⟨v, n1⟩ := r
      simp only
      cases h2 : assignSlot E oD n1 ⟨src.decl, none⟩ v with
      | error e => rfl
      | ok r2 =>
        obtain ⟨dst', n2⟩ := r2
        exact assignSlot_decl (sl := ⟨src.decl, none⟩) h2
  · simp only [hc]
    rfl

theorem cloneSlot_transient (E : Env) (oS oD : Nat) (arg : Option CopyMode) (n : Nat) (src : Slot)
    (ht : src.decl.transient = true) : (cloneSlot E oS oD arg false n src).1.val = none := by
  simp [cloneSlot, Decl.copyable, ht]

theorem cloneL_transient (E : Env) (oS oD : Nat) (arg : Option CopyMode) :
    ∀ (slots : List Slot) (n : Nat), ∀ c ∈ (cloneL E oS oD arg false n slots).1,
      c.decl.transient = true → c.val = none
  | [], n => by simp [cloneL]
  | sl :: sls, n => by
    intro c hc ht
    simp only [cloneL, List.mem_cons] at hc
    rcases hc with rfl | hc
    · rw [cloneSlot_decl] at ht
      exact cloneSlot_transient E oS oD arg n sl ht
    · exact cloneL_transient E oS oD arg sls _ c hc ht

/-! ## A concrete environment for witnesses and examples -/

/-- Leaf validators of the witnesses: tag 0 accepts integers only. -/
def lv0 : LeafTy → Leaf → Except Exc Leaf
  | 0, .int n => .ok (.int n)
  | 0, _ => .error .traitError
  | _, a => .ok a
def E0 : Env := ⟨lv0⟩

theorem E0_idem : Idem E0 := by
  intro t a b h
  cases t with
  | zero => cases a <;> simp [E0, lv0] at h ⊢ <;> (subst h; rfl)
  | succ t => simp_all [E0, lv0]

theorem E0_copyStable : CopyStable E0 := by
  intro t a n h
  cases t with
  | zero => cases a <;> simp [E0, lv0, Leaf.copiedAt] at h ⊢
  | succ t => simp [E0, lv0]

end TraitsVerif.Lemmas.Persist
