/-
Lemmas for `copy.deepcopy` of values and for one iteration of `copy_traits`
in deep mode (`clone_traits(copy='deep')`, or `copy="deep"` metadata).
-/
import TraitsVerif.Lemmas.PersistObject
set_option linter.unusedSimpArgs false
namespace TraitsVerif.Lemmas.Persist
open TraitsVerif TraitsVerif.Model.Persist

mutual
/-- No container in the value is a `Trait*Object` that went through
`__setstate__` (those have `trait = None` and cannot be deep-copied). -/
def NoDetached : CVal → Prop
  | .leaf _ => True
  | .node _ _ b _ kids => (∀ via, b ≠ .detached via) ∧ NoDetachedL kids
def NoDetachedL : List CVal → Prop
  | [] => True
  | v :: vs => NoDetached v ∧ NoDetachedL vs
end

mutual
theorem deepcopyV_spec : ∀ (v : CVal) (n : Nat), NoDetached v →
    ∃ v' n', deepcopyV n v = .ok (v', n') ∧ n ≤ n' ∧ (∀ i ∈ ids v', n ≤ i ∧ i < n') ∧ norm v' = norm v
  | .leaf a, n, _ => ⟨_, n, rfl, Nat.le_refl _, by simp [ids], by simp [norm]⟩
  | .node k i b keys kids, n, h => by
    simp only [NoDetached] at h
    obtain ⟨kids', n', h1, h2, h3, h4⟩ := deepcopyL_spec kids (n + 1) h.2
    have hn : (keys.map Leaf.copied).map Leaf.norm = keys.map Leaf.norm := by
      rw [List.map_map]; apply List.map_congr_left; intro a _; simp
    have idsok : ∀ b', ∀ j ∈ ids (CVal.node k n b' (keys.map Leaf.copied) kids'), n ≤ j ∧ j < n' := by
      intro b' j hj
      simp only [ids, List.mem_cons] at hj
      rcases hj with rfl | hj
      · exact ⟨Nat.le_refl _, by omega⟩
      · have := h3 j hj; omega
    cases b with
    | plain =>
      exact ⟨.node k n .plain (keys.map Leaf.copied) kids', n', by simp [deepcopyV, h1], by omega, idsok _,
        by simp [norm, h4, hn]⟩
    | detached via => exact absurd rfl (h.1 via)
    | ownerless sh =>
      exact ⟨.node k n (.ownerless sh) (keys.map Leaf.copied) kids', n', by simp [deepcopyV, h1], by omega,
        idsok _, by simp [norm, h4, hn]⟩
    | bound o sh =>
      exact ⟨.node k n (.ownerless sh) (keys.map Leaf.copied) kids', n', by simp [deepcopyV, h1], by omega,
        idsok _, by simp [norm, h4, hn]⟩
theorem deepcopyL_spec : ∀ (l : List CVal) (n : Nat), NoDetachedL l →
    ∃ l' n', deepcopyL n l = .ok (l', n') ∧ n ≤ n' ∧ (∀ i ∈ idsL l', n ≤ i ∧ i < n') ∧ normL l' = normL l
  | [], n, _ => ⟨[], n, rfl, Nat.le_refl _, by simp [idsL], rfl⟩
  | v :: vs, n, h => by
    simp only [NoDetachedL] at h
    obtain ⟨v', n1, a1, a2, a3, a4⟩ := deepcopyV_spec v n h.1
    obtain ⟨vs', n2, b1, b2, b3, b4⟩ := deepcopyL_spec vs n1 h.2
    refine ⟨v' :: vs', n2, by simp [deepcopyL, a1, b1], by omega, ?_, by simp [normL, a4, b4]⟩
    intro j hj
    simp only [idsL, List.mem_append] at hj
    rcases hj with hj | hj
    · have := a3 j hj; omega
    · have := b3 j hj; omega
end

theorem deepcopyL_mem : ∀ (l : List CVal) (n : Nat) (l' : List CVal) (n' : Nat),
    deepcopyL n l = .ok (l', n') → l'.length = l.length ∧
      ∀ kid' ∈ l', ∃ kid ∈ l, ∃ m m', deepcopyV m kid = .ok (kid', m')
  | [], n, l', n', h => by
    simp only [deepcopyL] at h
    cases h
    exact ⟨rfl, fun _ hk => by cases hk⟩
  | v :: vs, n, l', n', h => by
    simp only [deepcopyL] at h
    split at h
    · cases h
    · rename_i v' n1 hv
      split at h
      · cases h
      · rename_i vs' n2 hvs
        cases h
        have ih := deepcopyL_mem vs n1 vs' _ hvs
        refine ⟨by simp [ih.1], ?_⟩
        intro kid' hk
        rcases List.mem_cons.mp hk with rfl | hk
        · exact ⟨v, by simp, n, n1, hv⟩
        · obtain ⟨kid, h1, h2⟩ := ih.2 kid' hk
          exact ⟨kid, by simp [h1], h2⟩

/-- A deep copy of a valid value is valid for the same trait. -/
theorem deepcopyV_valid {E : Env} (hC : CopyStable E) {sh : Shape} {v : CVal} (h : Valid E sh v) :
    ∀ n v' n', deepcopyV n v = .ok (v', n') → Valid E sh v' := by
  induction h with
  | any v => intro n v' n' _; exact .any _
  | leaf ha =>
    intro n v' n' h
    simp only [deepcopyV] at h
    cases h
    exact .leaf (hC _ _ ha)
  | node hlen hkeys _ ih =>
    intro n v' n' h
    rename_i k kT iT lo hi i b keys kids _
    simp only [deepcopyV] at h
    split at h
    · cases h
    · rename_i kids' n2 hk
      have hm := deepcopyL_mem kids (n + 1) kids' n2 hk
      have hv : ∀ b', Valid E (.cont k kT iT lo hi) (.node k n b' (keys.map Leaf.copied) kids') := by
        intro b'
        refine .node ?_ ?_ ?_
        · intro hc; rw [hm.1]; exact hlen hc
        · intro key hk'
          obtain ⟨a, ha, rfl⟩ := List.mem_map.mp hk'
          exact hC _ _ (hkeys a ha)
        · intro kid' hk'
          obtain ⟨kid, h1, m, m', h2⟩ := hm.2 kid' hk'
          exact ih kid h1 m kid' m' h2
      cases b with
      | plain => simp only at h; cases h; exact hv _
      | detached via => simp at h
      | ownerless sh => simp only at h; cases h; exact hv _
      | bound o sh => simp only at h; cases h; exact hv _

/-- One iteration of `copy_traits` whose effective mode is deep. -/
theorem cloneSlot_deep_spec' {E : Env} (hI : Idem E) (hC : CopyStable E) {src : Slot} (hw : WFSlot E src)
    (hc : src.decl.copyable = true) (hk : src.decl.kind ≠ .event) {arg : Option CopyMode}
    (hm : effMode src.decl.copy arg = .deep) (oS oD n : Nat) (all : Bool)
    (hd : NoDetached (readSlot E oS n src).1) :
    ∃ w, (cloneSlot E oS oD arg all n src).1.val = some w ∧
      (cloneSlot E oS oD arg all n src).1.decl = src.decl ∧
      norm w = norm (readSlot E oS n src).1 ∧ Live E oD src.decl.shape w ∧
      (∀ i ∈ ids w, (readSlot E oS n src).2.2 ≤ i) ∧
      (cloneSlot E oS oD arg all n src).2.1 = (readSlot E oS n src).2.1 := by
  obtain ⟨hv, _, _, _⟩ := readSlot_spec hI hw oS n
  obtain ⟨u, n1, h1, h2, h3, h4⟩ := deepcopyV_spec _ (readSlot E oS n src).2.2 hd
  have hvu := deepcopyV_valid hC hv _ _ _ h1
  obtain ⟨w, n2, h5, h6⟩ := validate_of_valid hvu oD n1
  have hl := validate_ids oD _ _ _ _ _ h5
  refine ⟨w, ?_, ?_, by rw [h6, h4], validate_live hI oD _ _ _ _ _ h5, ?_, ?_⟩
  · simp [cloneSlot, hc, hm, copyValue, h1, assignSlot_fresh src.decl hk, h5]
  · simp [cloneSlot, hc, hm, copyValue, h1, assignSlot_fresh src.decl hk, h5]
  · intro i hi
    rcases hl.2 i hi with h | h
    · omega
    · exact (h3 i h).1
  · simp [cloneSlot, hc, hm, copyValue, h1, assignSlot_fresh src.decl hk, h5]

theorem cloneSlot_deep_spec {E : Env} (hI : Idem E) (hC : CopyStable E) {src : Slot} (hw : WFSlot E src)
    (hc : src.decl.copyable = true) (hk : src.decl.kind ≠ .event)
    (hm : src.decl.copy = none ∨ src.decl.copy = some .deep)
    (oS oD n : Nat) (all : Bool) (hd : NoDetached (readSlot E oS n src).1) :
    ∃ w, (cloneSlot E oS oD (some .deep) all n src).1.val = some w ∧
      (cloneSlot E oS oD (some .deep) all n src).1.decl = src.decl ∧
      norm w = norm (readSlot E oS n src).1 ∧ Live E oD src.decl.shape w ∧
      (∀ i ∈ ids w, (readSlot E oS n src).2.2 ≤ i) ∧
      (cloneSlot E oS oD (some .deep) all n src).2.1 = (readSlot E oS n src).2.1 := by
  apply cloneSlot_deep_spec' hI hC hw hc hk _ oS oD n all hd
  rcases hm with h | h <;> simp [effMode, h]

/-! ## A concrete environment for witnesses and examples -/

/-- Leaf validators of the witnesses: tag 0 accepts integers only. -/
def lv0 : LeafTy → Leaf → Except Exc Leaf
  | 0, .int n => .ok (.int n)
  | 0, _ => .error .traitError
  | _, a => .ok a
def E0 : Env := ⟨lv0⟩

theorem E0_idem : Idem E0 := by
  intro t a b h
  cases t with
  | zero => cases a <;> simp [E0, lv0] at h ⊢ <;> (subst h; rfl)
  | succ t => simp_all [E0, lv0]

theorem E0_copyStable : CopyStable E0 := by
  intro t a h
  cases t with
  | zero => cases a <;> simp [E0, lv0, Leaf.copied] at h ⊢
  | succ t => simp [E0, lv0]

end TraitsVerif.Lemmas.Persist
