/-
Consequences of the footprint lemma: a trait no link leads to is never touched
(one-way links, removed links, dead partners); which exceptions escape a
command; an in-place mutation notifies each trait at most once when no trait is
reached twice.
-/
import TraitsVerif.Lemmas.SyncMutate
import TraitsVerif.Lemmas.SyncAssign
namespace TraitsVerif.Model.Sync
open TraitsVerif TraitsVerif.Py TraitsVerif.Model
variable {α : Type}

/-- A trait that is not the destination of any table entry is visited only if
the propagation starts on it. -/
theorem not_mem_visit (es : List Edge) (r : Pair) (hr : ∀ e ∈ es, e.dst ≠ r) (d : Nat) :
    ∀ (L : List Pair) (p : Pair), r ≠ p → r ∉ visit es d L p := by
  induction d with
  | zero => intro L p _; simp [visit]
  | succ d ih =>
    intro L p hrp
    rw [visit_succ]
    simp only [List.mem_cons, not_or]
    refine ⟨hrp, ?_⟩
    intro hmem
    obtain ⟨q, hq, hin⟩ := List.mem_flatMap.mp hmem
    split at hin
    · cases hin
    · have hqr : r ≠ q := by
        rintro rfl
        obtain ⟨e, he, hd⟩ := List.mem_map.mp hq
        exact hr e (List.mem_filter.mp he).1 hd
      exact ih _ q hqr hin

/-- An assignment / mutation elsewhere leaves alone a trait no link leads to. -/
theorem assign_untouched [DecidableEq α] (E : Env α) (w : World α) (p r : Pair) (v : AVal α)
    (hL : w.locked = []) (hr : ∀ e ∈ w.edges, e.dst ≠ r) (hrp : r ≠ p) :
    SameAt r w (w.assign E p v).world := by
  unfold World.assign
  cases hc : cascade (applyAssign E) w.budget w p v with
  | error e => exact SameAt.refl _ _
  | ok x =>
    obtain ⟨w', ret⟩ := x
    exact cascade_footprint (local_assign E) r _ w p v w' ret (by simp [hL])
      (not_mem_visit _ r hr _ _ p hrp) hc

theorem mutate_untouched (E : Env α) (w : World α) (p r : Pair) (op : Op α)
    (hL : w.locked = []) (hr : ∀ e ∈ w.edges, e.dst ≠ r) (hrp : r ≠ p) :
    SameAt r w (w.mutate E p op).world := by
  unfold World.mutate
  cases hc : cascade (applyMutate E) w.budget w p op with
  | error e => exact SameAt.refl _ _
  | ok x =>
    obtain ⟨w', ret⟩ := x
    exact cascade_footprint (local_mutate E) r _ w p op w' ret (by simp [hL])
      (not_mem_visit _ r hr _ _ p hrp) hc

/-! ### Which exceptions escape -/

/-- An assignment raises exactly what the object's own trait raises. -/
theorem assign_exc [DecidableEq α] (E : Env α) (w : World α) (p : Pair) (v : AVal α) :
    (w.assign E p v).exc = (match validate E p v with | .ok _ => none | .error e => some e) := by
  unfold World.assign World.budget
  cases hv : validate E p v with
  | error e =>
    have : cascade (applyAssign E) (w.edges.length + 1) w p v = .error e := by
      rw [cascade_succ_error]; simp [applyAssign, hv]
    rw [this]; rfl
  | ok y =>
    have : ∃ w1 pay, applyAssign E w p v = .ok (w1, none, pay) := by
      unfold applyAssign; rw [hv]; simp only; split <;> exact ⟨_, _, rfl⟩
    obtain ⟨w1, pay, happ⟩ := this
    obtain ⟨w', hc⟩ := cascade_succ_of_apply (d := w.edges.length) happ
    rw [hc]; rfl

/-- A failed assignment changes nothing. -/
theorem assign_error_world [DecidableEq α] (E : Env α) (w : World α) (p : Pair) (v : AVal α) (e : Exc)
    (h : (w.assign E p v).exc = some e) : (w.assign E p v).world = w := by
  unfold World.assign at h ⊢
  cases hc : cascade (applyAssign E) w.budget w p v with
  | error e => rfl
  | ok x => rw [hc] at h; cases h

/-- An in-place mutation raises exactly what the same call raises on an
unlinked list trait. -/
theorem mutate_exc (E : Env α) (w : World α) (p : Pair) (op : Op α) (hl : E.isList p = true) :
    (w.mutate E p op).exc =
      (match listStep (E.tl p) (w.list p) op with | .ok _ => none | .error e => some e) := by
  unfold World.mutate World.budget
  cases hs : listStep (E.tl p) (w.list p) op with
  | error e =>
    have : cascade (applyMutate E) (w.edges.length + 1) w p op = .error e := by
      rw [cascade_succ_error]; simp [applyMutate, hl, hs]
    rw [this]; rfl
  | ok o =>
    have : ∃ w1 pay, applyMutate E w p op = .ok (w1, o.ret, pay) := by
      unfold applyMutate; rw [hl, if_pos rfl, hs]; simp only; split <;> exact ⟨_, _, rfl⟩
    obtain ⟨w1, pay, happ⟩ := this
    obtain ⟨w', hc⟩ := cascade_succ_of_apply (d := w.edges.length) happ
    rw [hc]; rfl

/-! ### At most one `name_items` notification per trait -/

/-- `nItems` grew by at most one at `r`, `nChg` not at all. -/
def ItemsOnce (r : Pair) (w w' : World α) : Prop :=
  w'.nItems r ≤ w.nItems r + 1 ∧ w'.nChg r = w.nChg r

theorem applyMutate_itemsOnce {E : Env α} {w w1 : World α} {p : Pair} {op : Op α}
    {ret : Option α} {y : Option (Op α)} (h : applyMutate E w p op = .ok (w1, ret, y)) (r : Pair) :
    ItemsOnce r w w1 := by
  obtain ⟨_, o, _, _, h | ⟨e, _, _, h⟩⟩ := applyMutate_ok h
  · obtain ⟨_, _, rfl⟩ := h; exact ⟨Nat.le_succ _, rfl⟩
  · subst h
    refine ⟨?_, rfl⟩
    by_cases hr : r = p
    · subst hr; simp [upd]
    · simp [upd, hr]

/-- **At most once (lists).** When the propagation of an in-place mutation
reaches no trait twice, every recording `name_items` handler is called at most
once, and no whole-trait handler at all. -/
theorem mutate_itemsOnce (E : Env α) (r : Pair) (d : Nat) :
    ∀ (w : World α) (p : Pair) (op : Op α) (w' : World α) (ret : Option α),
      p ∉ w.locked → (visit w.edges d w.locked p).Nodup →
      cascade (applyMutate E) d w p op = .ok (w', ret) → ItemsOnce r w w' := by
  induction d with
  | zero => intro w p op w' ret _ _ h; simp [cascade] at h
  | succ d ih =>
    intro w p op w' ret hp hnd hc
    obtain ⟨w1, pay, happ, hshape⟩ := cascade_succ_ok hc
    have h1 : SameTabs w w1 :=
      ⟨(local_mutate E).edges happ, (local_mutate E).locked happ, (local_mutate E).hooked happ⟩
    have hfirst := applyMutate_itemsOnce happ r
    rcases hshape with ⟨_, rfl⟩ | ⟨y', _, _, rfl⟩ | ⟨y', _, _, rfl⟩
    · exact hfirst
    · exact hfirst
    · by_cases hrp : r = p
      · subst hrp
        have := cascade_self (local_mutate E) hnd happ hc
        exact ⟨by rw [this.2.2]; exact hfirst.1, by rw [this.2.1]; exact hfirst.2⟩
      · -- r ≠ p: `apply` left r alone; at most one partner's propagation reaches r
        have hsame1 : SameAt r w w1 :=
          ⟨(local_mutate E).val happ r hrp, (local_mutate E).nChg happ r hrp, (local_mutate E).nItems happ r hrp⟩
        rw [visit_succ, List.nodup_cons] at hnd
        obtain ⟨_, hnd⟩ := hnd
        have hparts : w1.partners p = (w.edges.filter (fun e => e.src = p)).map (·.dst) :=
          partners_congr h1.1 p
        rw [← hparts] at hnd
        have hframe : ∀ acc t' acc' r', t' ∉ acc.locked →
            cascade (applyMutate E) d acc t' y' = .ok (acc', r') → SameTabs acc acc' :=
          fun acc t' acc' r' hq hc => cascade_frame (local_mutate E) _ acc t' _ acc' r' hq hc
        have hfoot : ∀ acc t' acc' r', acc.edges = w.edges → acc.locked = p :: w.locked → t' ∉ p :: w.locked →
            r ∉ visit w.edges d (p :: w.locked) t' →
            cascade (applyMutate E) d acc t' y' = .ok (acc', r') → SameAt r acc acc' :=
          fun acc t' acc' r' he hL hq hrq hc => cascade_footprint (local_mutate E) r _ acc t' _ acc' r'
            (by rw [hL]; exact hq) (by rw [he, hL]; exact hrq) hc
        -- the loop: either untouched, or touched by one partner only
        have key : ∀ (ps : List Pair) (acc : World α), acc.edges = w.edges → acc.locked = p :: w.locked →
            (ps.flatMap (fun q => if q ∈ p :: w.locked then [] else visit w.edges d (p :: w.locked) q)).Nodup →
            ItemsOnce r acc (ps.foldl (visitPartner (cascade (applyMutate E) d) y') acc) := by
          intro ps
          induction ps with
          | nil => intro acc _ _ _; exact ⟨Nat.le_succ _, rfl⟩
          | cons t ts iht =>
            intro acc hae hal hndps
            rw [List.flatMap_cons, List.nodup_append] at hndps
            obtain ⟨hndt, hndts, hdis⟩ := hndps
            simp only [List.foldl_cons]
            -- the step on t
            have hstepT : SameTabs acc (visitPartner (cascade (applyMutate E) d) y' acc t) := by
              unfold visitPartner
              split
              · exact SameTabs.refl _
              · rename_i hq
                split
                · rename_i acc' r' h; exact hframe acc t acc' r' hq h
                · exact SameTabs.refl _
            by_cases hin : r ∈ (if t ∈ p :: w.locked then [] else visit w.edges d (p :: w.locked) t)
            · -- r is reached through t: the rest of the loop does not touch it
              have htl : t ∉ p :: w.locked := by
                intro h; rw [if_pos h] at hin; cases hin
              rw [if_neg htl] at hin hndt
              have hrest := foldl_footprint (rec := cascade (applyMutate E) d) (y := y') (es := w.edges)
                (L := p :: w.locked) (r := r) (fun t' => visit w.edges d (p :: w.locked) t') hframe hfoot ts
                (visitPartner (cascade (applyMutate E) d) y' acc t)
                (by rw [hstepT.1]; exact hae) (by rw [hstepT.2.1]; exact hal) (by
                  intro t' ht' hl hmem
                  refine hdis r (by rw [if_neg htl]; exact hin) r (List.mem_flatMap.mpr ⟨t', ht', ?_⟩) rfl
                  rw [if_neg hl]; exact hmem)
              have hthis : ItemsOnce r acc (visitPartner (cascade (applyMutate E) d) y' acc t) := by
                unfold visitPartner
                rw [if_neg (by rw [hal]; exact htl)]
                split
                · rename_i acc' r' h
                  exact ih acc t y' acc' r' (by rw [hal]; exact htl) (by rw [hae, hal]; exact hndt) h
                · exact ⟨Nat.le_succ _, rfl⟩
              exact ⟨by rw [hrest.2.2]; exact hthis.1, by rw [hrest.2.1]; exact hthis.2⟩
            · -- r is not reached through t
              have hthis : SameAt r acc (visitPartner (cascade (applyMutate E) d) y' acc t) := by
                unfold visitPartner
                split
                · exact SameAt.refl _ _
                · rename_i hq
                  have htl : t ∉ p :: w.locked := by rw [← hal]; exact hq
                  rw [if_neg htl] at hin
                  split
                  · rename_i acc' r' h; exact hfoot acc t acc' r' hae hal htl hin h
                  · exact SameAt.refl _ _
              have := iht _ (by rw [hstepT.1]; exact hae) (by rw [hstepT.2.1]; exact hal) hndts
              exact ⟨by rw [← hthis.2.2]; exact this.1, by rw [← hthis.2.1]; exact this.2⟩
        have := key (w1.partners p) (w1.lock p) (by simp [World.lock, h1.1]) (by simp [World.lock, h1.2.1]) hnd
        simp only [World.unlock]
        exact ⟨by rw [← hsame1.2.2]; exact this.1, by rw [← hsame1.2.1]; exact this.2⟩

end TraitsVerif.Model.Sync
