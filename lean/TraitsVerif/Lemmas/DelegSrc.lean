/-
Lemmas of the translation tie of C11: the hand-written functions of `Model/Delegate.lean` equal the
interpretation (`Model/DelegSrc.lean`) of the terms `harness/translate/delegsrc.py` generates from the
working tree (`Generated/DelegSrc.lean`).  Every proof runs the interpreter on the generated term
(`simp` with the interpreter's equations); the loop of `setattr_delegate` is handled by induction on the
remaining number of iterations (`loop_eq`), with the C bound `++i >= 100` discharged by `omega`.
-/
import TraitsVerif.Generated.DelegSrc
set_option linter.unusedSimpArgs false
namespace TraitsVerif.Model.DelegSrc
open TraitsVerif TraitsVerif.Model.Deleg
open TraitsVerif.Generated.DelegSrc

theorem attrName_is_source (d : DelegInfo) (clsPfx : Option Name) (n : Name) :
    attrNameSrc attrNameHandlers d clsPfx n = some (attrName d clsPfx n) := by
  obtain ⟨raw, stored, pt, m⟩ := d
  cases pt <;> cases clsPfx <;>
    simp [attrNameSrc, attrNameHandlers, PrefixType.toNat, execN, NExpr.eval, attrName, setReg, clsAttr]


theorem mkDelegate_is_source (dname pfx : Name) (modify : Bool) :
    initDelegateSrc initDelegate dname pfx modify = some (mkDelegate pfx modify) := by
  unfold mkDelegate
  by_cases h1 : pfx = []
  · subst h1
    simp [initDelegateSrc, initDelegate, PCtx.exec, PCtx.test, PCtx.eval, setReg, lookupP, PVal.toStr, PrefixType.ofNat, List.lookup]
  · cases hl : pfx.getLast? with
    | none => simp [List.getLast?_eq_none_iff] at hl; exact absurd hl h1
    | some ch =>
      by_cases h2 : ch = '*'
      · subst h2
        by_cases h3 : pfx.dropLast = []
        · simp [initDelegateSrc, initDelegate, PCtx.exec, PCtx.test, PCtx.eval, setReg, lookupP, PVal.toStr, PrefixType.ofNat, List.lookup, h1, hl, h3]
        · simp [initDelegateSrc, initDelegate, PCtx.exec, PCtx.test, PCtx.eval, setReg, lookupP, PVal.toStr, PrefixType.ofNat, List.lookup, h1, hl, h3]
      · simp [initDelegateSrc, initDelegate, PCtx.exec, PCtx.test, PCtx.eval, setReg, lookupP, PVal.toStr, PrefixType.ofNat, List.lookup, h1, hl, h2]

theorem delegatePattern_is_source (dname raw n : Name) :
    delegatePatternSrc Generated.DelegSrc.delegatePattern dname raw n
      = some (' ' :: dname ++ ':' :: Deleg.delegatePattern n raw) := by
  unfold Deleg.delegatePattern
  by_cases h1 : raw = []
  · subst h1
    simp [delegatePatternSrc, Generated.DelegSrc.delegatePattern, PCtx.exec, PCtx.test, PCtx.eval, setReg, PVal.toStr, traitMeta]
  · cases hl : raw.getLast? with
    | none => simp [List.getLast?_eq_none_iff] at hl; exact absurd hl h1
    | some ch =>
      by_cases h2 : ch = '*' <;> by_cases h3 : raw.length > 1 <;>
      simp [delegatePatternSrc, Generated.DelegSrc.delegatePattern, PCtx.exec, PCtx.test, PCtx.eval, setReg, PVal.toStr, traitMeta, h1, hl, h2, h3]

theorem traitDelegateName_is_source (clsPfx : Option Name) (n head pat : Name) (hp : pat ≠ []) :
    traitDelegateNameSrc Generated.DelegSrc.traitDelegateName clsPfx n (head ++ pat)
      = some (head ++ Deleg.traitDelegateName clsPfx n pat) := by
  unfold Deleg.traitDelegateName
  have hl : (head ++ pat).getLast? = pat.getLast? := by
    simp [List.getLast?_append, hp]
    cases h : pat.getLast? with
    | none => simp [List.getLast?_eq_none_iff] at h; exact absurd h hp
    | some c => simp
  have hd : (head ++ pat).dropLast = head ++ pat.dropLast := List.dropLast_append_of_ne_nil hp
  cases hc : pat.getLast? with
  | none => simp [List.getLast?_eq_none_iff] at hc; exact absurd hc hp
  | some ch =>
    by_cases h2 : ch = '*' <;> cases clsPfx <;>
    simp [traitDelegateNameSrc, Generated.DelegSrc.traitDelegateName, PCtx.exec, PCtx.test, PCtx.eval, setReg, PVal.toStr, clsAttr, hl, hd, hc, h2]

theorem removeListener_remove_is_source (hooked : Option ObjId) (f : Option (Option ObjId)) :
    removeListenerSrc removeListener true hooked f = LSt.ofFwd none := by
  cases f <;> simp [removeListenerSrc, removeListener, execL, LSt.ofFwd]

theorem removeListener_restore_is_source (hooked : Option ObjId) (f : Option (Option ObjId)) :
    removeListenerSrc removeListener false hooked f
      = LSt.ofFwd (match f with | some h => some h | none => some hooked) := by
  cases f <;> simp [removeListenerSrc, removeListener, execL, LSt.ofFwd]

theorem unlink_fwd_self (p : Pool) (o : ObjId) (n : Name) : ((unlink p o n).obj o).fwd n = none := by
  simp [unlink, Pool.setFwd, Pool.upd]

theorem relink_fwd_self (p : Pool) (o : ObjId) (n : Name) (d : DelegInfo) (evs : List Event) :
    (((relink p o n d evs).pool).obj o).fwd n
      = (match (p.obj o).fwd n with | some h => some h | none => some (hook p o n d).1) := by
  unfold relink
  cases h : (p.obj o).fwd n with
  | some x => simp [h]
  | none =>
    simp only []
    unfold hook
    cases (p.obj o).deleg <;> simp [Pool.setFwd, Pool.upd]

theorem read_defer_is_source (p : Pool) (f : Nat) (o : ObjId) (n : Name) (d : DelegInfo)
    (hdict : (p.obj o).dict n = none) (hd : (p.obj o).cls.trait n = .defer d) :
    read p (f + 1) o n = execGet getattrDelegate p (some (read p f)) o n d := by
  unfold Deleg.read
  simp only [hdict, hd]
  cases hx : (p.obj o).deleg with
  | none => simp [execGet, getattrDelegate, GetCtx.exec, GetCtx.cond, totalName, setReg, hx, CErr.exc]
  | some x =>
    cases hr : read p f x (attrName d (p.obj o).cls.pfx n) <;>
      simp [execGet, getattrDelegate, GetCtx.exec, GetCtx.cond, totalName, setReg, hx, hr, CErr.exc]

theorem read_limit_is_source (p : Pool) (o x : ObjId) (n : Name) (d : DelegInfo) (hx : (p.obj o).deleg = some x) :
    execGet getattrDelegate p none o n d = .error .runtimeError := by
  simp [execGet, getattrDelegate, GetCtx.exec, GetCtx.cond, totalName, setReg, hx, CErr.exc]

/-- What `setattr_delegate` does once the chain walk has reached a non-deferring trait. -/
def terminal (E : Env) (k : Nat) (p : Pool) (o : ObjId) (n : Name) (d0 : DelegInfo) (v : Option Val)
    (x : ObjId) (t : Name) (td : TraitDef) : StepOut :=
  if d0.modify then plainSet E k p x t td v
  else
    let r := protoSet E k p o n td v
    if isOk r then removeListenerCall r o n d0 v.isSome else r

def loopBody : Stmt := (setattrDelegate.loop).getD .skip

/-- One iteration of the loop of `setattr_delegate`. -/
def bodyResult (E : Env) (k : Nat) (p : Pool) (o : ObjId) (n : Name) (d0 : DelegInfo) (v : Option Val)
    (i : Nat) (cur : ObjId) (d : DelegInfo) (da : Name) : Outcome SetSt StepOut :=
  match (p.obj cur).deleg with
  | none => .ret (fail p .traitError)
  | some x =>
    let da' := attrName d (p.obj o).cls.pfx da
    match (p.obj x).cls.trait da' with
    | .defer d' =>
      if i + 1 ≥ 100 then .ret (fail p .traitError)
      else .next { O := [.obj o, .obj x, .obj x], S := [n, da', da'], T := [.defer d0, .defer d'], i := i + 1, result := none }
    | td => .ret (terminal E k p o n d0 v x da' td)

theorem body_eq (E : Env) (k : Nat) (p : Pool) (o : ObjId) (n : Name) (d0 : DelegInfo) (v : Option Val)
    (i : Nat) (cur : ObjId) (d : DelegInfo) (da : Name) (o2 : OVal) (s2 : Name) :
    (SetCtx.mk E k p d0 v totalName).exec loopBody
        { O := [.obj o, .obj cur, o2], S := [n, da, s2], T := [.defer d0, .defer d], i := i, result := none }
      = bodyResult E k p o n d0 v i cur d da := by
  unfold bodyResult
  cases hx : (p.obj cur).deleg with
  | none => simp [loopBody, setattrDelegate, SetCtx.exec, SetCtx.cond, totalName, setReg, hx, CErr.exc]
  | some x =>
    cases htd : (p.obj x).cls.trait (attrName d (p.obj o).cls.pfx da) with
    | defer d' =>
      by_cases hi : i + 1 ≥ 100 <;>
        simp [loopBody, setattrDelegate, SetCtx.exec, SetCtx.cond, totalName, setReg, hx, htd, CErr.exc, hi]
      all_goals omega
    | plain vid dflt cmp =>
      cases hm : d0.modify
      · cases h1 : isOk (protoSet E k p o n (TraitDef.plain vid dflt cmp) v)
        · simp [loopBody, setattrDelegate, SetCtx.exec, SetCtx.cond, totalName, setReg, hx, htd, CErr.exc, terminal, hm, h1]
        · cases h2 : isOk (removeListenerCall (protoSet E k p o n (TraitDef.plain vid dflt cmp) v) o n d0 v.isSome) <;>
            simp [loopBody, setattrDelegate, SetCtx.exec, SetCtx.cond, totalName, setReg, hx, htd, CErr.exc, terminal, hm, h1, h2]
      · simp [loopBody, setattrDelegate, SetCtx.exec, SetCtx.cond, totalName, setReg, hx, htd, CErr.exc, terminal, hm]
    | python =>
      cases hm : d0.modify
      · cases h1 : isOk (protoSet E k p o n TraitDef.python v)
        · simp [loopBody, setattrDelegate, SetCtx.exec, SetCtx.cond, totalName, setReg, hx, htd, CErr.exc, terminal, hm, h1]
        · cases h2 : isOk (removeListenerCall (protoSet E k p o n TraitDef.python v) o n d0 v.isSome) <;>
            simp [loopBody, setattrDelegate, SetCtx.exec, SetCtx.cond, totalName, setReg, hx, htd, CErr.exc, terminal, hm, h1, h2]
      · simp [loopBody, setattrDelegate, SetCtx.exec, SetCtx.cond, totalName, setReg, hx, htd, CErr.exc, terminal, hm]

theorem loop_eq (E : Env) (k : Nat) (p : Pool) (o : ObjId) (n : Name) (d0 : DelegInfo) (v : Option Val) :
    ∀ (f g i : Nat) (cur : ObjId) (d : DelegInfo) (da : Name) (o2 : OVal) (s2 : Name),
      i + f + 1 = 100 → f ≤ g →
      (SetCtx.mk E k p d0 v totalName).loop loopBody (g + 1)
          { O := [.obj o, .obj cur, o2], S := [n, da, s2], T := [.defer d0, .defer d], i := i, result := none }
        = .ret (match walk p (p.obj o).cls.pfx (f + 1) cur d da with
                | .error e => fail p e
                | .ok (x, t, td) => terminal E k p o n d0 v x t td) := by
  intro f
  induction f with
  | zero =>
    intro g i cur d da o2 s2 hi hg
    unfold SetCtx.loop walk
    rw [body_eq]
    unfold bodyResult
    cases hx : (p.obj cur).deleg with
    | none => simp
    | some x =>
      cases htd : (p.obj x).cls.trait (attrName d (p.obj o).cls.pfx da) with
      | defer d' =>
        have : 99 ≤ i := by omega
        simp [walk, this, htd]
      | plain vid dflt cmp => simp [htd]
      | python => simp [htd]
  | succ f ih =>
    intro g i cur d da o2 s2 hi hg
    unfold SetCtx.loop walk
    rw [body_eq]
    unfold bodyResult
    cases hx : (p.obj cur).deleg with
    | none => simp
    | some x =>
      cases htd : (p.obj x).cls.trait (attrName d (p.obj o).cls.pfx da) with
      | defer d' =>
        have h1 : ¬ (99 ≤ i) := by omega
        obtain ⟨g', rfl⟩ : ∃ g', g = g' + 1 := ⟨g - 1, by omega⟩
        simp only [htd, ge_iff_le, Nat.reduceLeDiff, h1, if_false]
        rw [ih g' (i + 1) x d' _ _ _ (by omega) (by omega)]
      | plain vid dflt cmp => simp [htd]
      | python => simp [htd]

theorem setDefer_eq_terminal (E : Env) (k : Nat) (p : Pool) (o : ObjId) (n : Name) (d : DelegInfo) (v : Option Val) :
    setDefer E k p o n d v =
      match walk p (p.obj o).cls.pfx 100 o d n with
      | .error e => fail p e
      | .ok (x, t, td) => terminal E k p o n d v x t td := by
  unfold setDefer
  cases hw : walk p (p.obj o).cls.pfx 100 o d n with
  | error e => rfl
  | ok r =>
    obtain ⟨x, t, td⟩ := r
    simp only [terminal]
    cases hm : d.modify <;> simp only [Bool.false_eq_true, ↓reduceIte]
    · -- PrototypedFrom
      cases td <;> cases v <;> simp only [protoSet] <;>
        (try simp [isOk, fail, removeListenerCall]) <;>
        repeat' (split <;> simp_all [isOk, fail, removeListenerCall])
    · cases td <;> cases v <;> simp [plainSet]

theorem setDefer_is_source (E : Env) (k : Nat) (p : Pool) (o : ObjId) (n : Name) (d : DelegInfo) (v : Option Val) :
    setDefer E k p o n d v = execSet setattrDelegate E k p o n d v := by
  rw [setDefer_eq_terminal]
  have hl := loop_eq E k p o n d v 99 999 0 o d n .null [] (by omega) (by omega)
  simp only [loopBody, setattrDelegate, Option.getD] at hl
  simp [execSet, setattrDelegate, SetCtx.exec, setReg, loopFuel, hl]

theorem setDefer_set_fail_or_ok (E : Env) (k : Nat) (p : Pool) (o : ObjId) (n : Name) (d : DelegInfo) (v : Val) :
    (∃ e', setDefer E k p o n d (some v) = fail p e') ∨ isOk (setDefer E k p o n d (some v)) = true := by
  unfold setDefer
  split
  · exact .inl ⟨_, rfl⟩
  · split
    · split <;> (try simp_all) <;> (try (simp only [setPlain]; split)) <;> simp [isOk, fail, setPython]
    · split <;> (try simp_all) <;> (try split) <;> (try split) <;> simp [isOk, fail]

/-- An assignment through a deferring attribute that raises has done nothing. -/
theorem setDefer_error_no_effect (E : Env) (k : Nat) (p : Pool) (o : ObjId) (n : Name) (d : DelegInfo) (v : Val)
    (e : Exc) (h : (setDefer E k p o n d (some v)).res = .error e) :
    setDefer E k p o n d (some v) = fail p e := by
  rcases setDefer_set_fail_or_ok E k p o n d v with ⟨e', he⟩ | hok
  · rw [he] at h ⊢
    simp only [fail, Except.error.injEq] at h
    rw [h]
  · simp [isOk, h] at hok


theorem afterLastColon_append (h t : Name) (ht : ':' ∉ t) : afterLastColon (h ++ ':' :: t) = t := by
  unfold afterLastColon
  have h1 : (h ++ ':' :: t).reverse = t.reverse ++ (':' :: h.reverse) := by simp
  rw [h1, List.takeWhile_append_of_pos, List.takeWhile_cons_of_neg (by simp), List.append_nil, List.reverse_reverse]
  intro c hc
  have : c ∈ t := by simpa using hc
  simp only [ne_eq, decide_not, Bool.not_eq_eq_eq_not, Bool.not_true, decide_eq_false_iff_not]
  intro hcc; subst hcc; exact ht this

/-- `_init_trait_delegate_listener(name, 0, head ++ ':' ++ pat)`: the listener is registered under the
name `_trait_delegate_name` returns, stored under `name`, and a change of the listened attribute of the
delegate is reported as a change of `name`. -/
theorem initListener_is_source (clsPfx : Option Name) (n head pat : Name) (hp : pat ≠ [])
    (hc : ':' ∉ Deleg.traitDelegateName clsPfx n pat) :
    let out := initListenerSrc initListener
      (fun a b => (traitDelegateNameSrc Generated.DelegSrc.traitDelegateName clsPfx a b).getD [])
      clsPfx n (head ++ ':' :: pat)
    out.registered = head ++ ':' :: Deleg.traitDelegateName clsPfx n pat
    ∧ out.key = n
    ∧ out.reported (Deleg.traitDelegateName clsPfx n pat) = n := by
  have htdn := traitDelegateName_is_source clsPfx n (head ++ [':']) pat hp
  simp only [List.append_assoc, List.cons_append, List.nil_append] at htdn
  simp [initListenerSrc, initListener, PCtx.exec, PCtx.eval, setReg, PVal.toStr, PVal.toNat, htdn,
    afterLastColon_append _ _ hc]

/-! ### `_has_traits_trait` (`base_trait`) -/

def baseBody : Stmt := (hasTraitsTrait.loop).getD .skip

def isBrkRaised : Outcome BaseSt (Option TraitDef) → Bool
  | .brk st => st.raised
  | _ => false

theorem base_body_nondefer (p : Pool) (o cur : ObjId) (n da s2 : Name) (o2 : OVal) (i : Nat) (td : TraitDef)
    (h : ∀ d, td ≠ .defer d) :
    (BaseCtx.mk p (-2) totalName).exec baseBody { O := [.obj o, .obj cur, o2], S := [n, da, s2], T := [some td], i := i }
      = .ret (some td) := by
  cases td with
  | defer d => exact absurd rfl (h d)
  | plain a b c => simp [baseBody, hasTraitsTrait, BaseCtx.exec, BaseCtx.cond, totalName, setReg]
  | python => simp [baseBody, hasTraitsTrait, BaseCtx.exec, BaseCtx.cond, totalName, setReg]

theorem base_body_defer (p : Pool) (o cur : ObjId) (n da s2 : Name) (o2 : OVal) (i : Nat) (d : DelegInfo) :
    let out := (BaseCtx.mk p (-2) totalName).exec baseBody
      { O := [.obj o, .obj cur, o2], S := [n, da, s2], T := [some (.defer d)], i := i }
    match (p.obj cur).deleg with
    | none => isBrkRaised out = true
    | some x =>
      let da' := attrName d (p.obj o).cls.pfx da
      if i + 1 ≥ 100 then isBrkRaised out = true
      else out = .next { O := [.obj o, .obj x, .obj x], S := [n, da', da'], T := [some ((p.obj x).cls.trait da')], i := i + 1 } := by
  intro out
  cases hx : (p.obj cur).deleg with
  | none => simp [out, baseBody, hasTraitsTrait, BaseCtx.exec, BaseCtx.cond, totalName, setReg, hx, isBrkRaised]
  | some x =>
    by_cases hi : i + 1 ≥ 100 <;>
      simp [out, baseBody, hasTraitsTrait, BaseCtx.exec, BaseCtx.cond, totalName, setReg, hx, isBrkRaised, hi]
    all_goals omega

theorem base_loop (p : Pool) (o : ObjId) (n : Name) :
    ∀ (f g i : Nat) (cur : ObjId) (td : TraitDef) (da : Name) (o2 : OVal) (s2 : Name),
      i + f = 99 → f ≤ g →
      let out := (BaseCtx.mk p (-2) totalName).loop baseBody (g + 1)
          { O := [.obj o, .obj cur, o2], S := [n, da, s2], T := [some td], i := i }
      if baseOk p (p.obj o).cls.pfx f cur td da then (∃ r, out = .ret (some r)) else isBrkRaised out = true := by
  intro f
  induction f with
  | zero =>
    intro g i cur td da o2 s2 hi hg out
    cases td with
    | plain a b c =>
      simp only [baseOk, if_true]
      exact ⟨_, by simp only [out, BaseCtx.loop]; rw [base_body_nondefer _ _ _ _ _ _ _ _ _ (by intro d; simp)]⟩
    | python =>
      simp only [baseOk, if_true]
      exact ⟨_, by simp only [out, BaseCtx.loop]; rw [base_body_nondefer _ _ _ _ _ _ _ _ _ (by intro d; simp)]⟩
    | defer d =>
      simp only [baseOk, Bool.false_eq_true, if_false]
      have hb := base_body_defer p o cur n da s2 o2 i d
      simp only [out, BaseCtx.loop]
      cases hx : (p.obj cur).deleg with
      | none =>
        simp only [hx] at hb
        revert hb
        generalize (BaseCtx.mk p (-2) totalName).exec baseBody _ = r
        intro hb
        cases r <;> simp_all [isBrkRaised]
      | some x =>
        have h100 : i + 1 ≥ 100 := by omega
        simp only [hx, h100, if_true] at hb
        revert hb
        generalize (BaseCtx.mk p (-2) totalName).exec baseBody _ = r
        intro hb
        cases r <;> simp_all [isBrkRaised]
  | succ f ih =>
    intro g i cur td da o2 s2 hi hg out
    cases td with
    | plain a b c =>
      simp only [baseOk, if_true]
      exact ⟨_, by simp only [out, BaseCtx.loop]; rw [base_body_nondefer _ _ _ _ _ _ _ _ _ (by intro d; simp)]⟩
    | python =>
      simp only [baseOk, if_true]
      exact ⟨_, by simp only [out, BaseCtx.loop]; rw [base_body_nondefer _ _ _ _ _ _ _ _ _ (by intro d; simp)]⟩
    | defer d =>
      have hb := base_body_defer p o cur n da s2 o2 i d
      simp only [out, BaseCtx.loop, baseOk]
      cases hx : (p.obj cur).deleg with
      | none =>
        simp only [hx] at hb
        simp only [Bool.false_eq_true, if_false]
        revert hb
        generalize (BaseCtx.mk p (-2) totalName).exec baseBody _ = r
        intro hb
        cases r <;> simp_all [isBrkRaised]
      | some x =>
        have h100 : ¬ (i + 1 ≥ 100) := by omega
        simp only [hx, h100, if_false] at hb
        rw [hb]
        obtain ⟨g', rfl⟩ : ∃ g', g = g' + 1 := ⟨g - 1, by omega⟩
        exact ih g' (i + 1) x _ _ _ _ (by omega) (by omega)

/-- `obj.base_trait(name)` resolves exactly when the model's `hookOk` says so. -/
theorem hookOk_is_source (p : Pool) (x : ObjId) (t : Name) :
    (execBase hasTraitsTrait p x t).isSome = hookOk p x t := by
  have hl := base_loop p x t 99 999 0 x ((p.obj x).cls.trait t) t .null [] (by omega) (by omega)
  simp only [baseBody, hasTraitsTrait, Option.getD] at hl
  unfold hookOk
  cases hb : baseOk p (p.obj x).cls.pfx 99 x ((p.obj x).cls.trait t) t
  · simp only [hb, Bool.false_eq_true, if_false] at hl
    revert hl
    simp only [execBase, hasTraitsTrait, BaseCtx.exec, BaseCtx.cond, totalName, setReg, loopFuel]
    simp
    generalize (BaseCtx.mk p (-2) totalName).loop _ _ _ = r
    intro hl
    cases r <;> simp_all [isBrkRaised, BaseCtx.exec]
  · simp only [hb, if_true] at hl
    obtain ⟨r, hr⟩ := hl
    simp [execBase, hasTraitsTrait, BaseCtx.exec, BaseCtx.cond, totalName, setReg, loopFuel, hr]

/-! ### the name computation fails -/

/-- `getattr_delegate` when the name computation fails: the failure is the result (no dereference). -/
theorem read_name_failure (p : Pool) (recur : Option (ObjId → Name → Except Exc Val)) (o : ObjId) (n : Name)
    (d : DelegInfo) (e : Exc) :
    execGet getattrDelegate p recur o n d (fun _ _ _ => .error e) = .error e := by
  cases hx : (p.obj o).deleg <;>
    simp [execGet, getattrDelegate, GetCtx.exec, GetCtx.cond, setReg, hx, CErr.exc]

/-- `setattr_delegate` when the name computation fails at the first level: nothing is changed, the failure
is raised (a delegate that is None is reported first). -/
theorem write_name_failure (E : Env) (k : Nat) (p : Pool) (o : ObjId) (n : Name) (d : DelegInfo) (v : Option Val)
    (e : Exc) :
    execSet setattrDelegate E k p o n d v (fun _ _ _ => .error e)
      = match (p.obj o).deleg with
        | none => fail p .traitError
        | some _ => fail p e := by
  cases hx : (p.obj o).deleg <;>
    simp [execSet, setattrDelegate, SetCtx.exec, SetCtx.cond, SetCtx.loop, setReg, loopFuel, hx, CErr.exc]

/-- `base_trait` when the name computation fails (fix 4e38e77 of finding F111): on a deferring attribute
the call raises (returns NULL with the exception set) and is free of undefined behaviour. -/
theorem base_name_failure (p : Pool) (o : ObjId) (n : Name) (d : DelegInfo) (e : Exc)
    (hd : (p.obj o).cls.trait n = .defer d) :
    execBase hasTraitsTrait p o n (fun _ _ _ => .error e) = none
    ∧ execBaseDefined hasTraitsTrait p o n (fun _ _ _ => .error e) = true := by
  cases hx : (p.obj o).deleg <;>
    simp [execBase, execBaseDefined, hasTraitsTrait, BaseCtx.exec, BaseCtx.cond, BaseCtx.loop, setReg, loopFuel, hx, hd]

end TraitsVerif.Model.DelegSrc
