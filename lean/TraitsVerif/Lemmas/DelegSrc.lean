/-
Lemmas of the translation tie of C11: the hand-written functions of `Model/Delegate.lean` equal the
interpretation (`Model/DelegSrc.lean`) of the terms `harness/translate/delegsrc.py` generates from the
working tree (`Generated/DelegSrc.lean`).  Every proof runs the interpreter on the generated term
(`simp` with the interpreter's equations); the loop of `setattr_delegate` is handled by induction on the
remaining number of iterations (`loop_eq`), with the C bound `++i >= 100` discharged by `omega`.
-/
import TraitsVerif.Generated.DelegSrc
set_option linter.unusedSimpArgs false
namespace TraitsVerif.Model.DelegSrc
open TraitsVerif TraitsVerif.Model.Deleg
open TraitsVerif.Generated.DelegSrc

theorem attrName_is_source (d : DelegInfo) (clsPfx : Option Name) (n : Name) :
    attrNameSrc attrNameHandlers d clsPfx n = some (attrName d clsPfx n) := by
  obtain ⟨raw, stored, pt, m⟩ := d
  cases pt <;> cases clsPfx <;>
    simp [attrNameSrc, attrNameHandlers, PrefixType.toNat, execN, NExpr.eval, attrName, setReg, clsAttr]


theorem mkDelegate_is_source (dname pfx : Name) (modify : Bool) :
    initDelegateSrc initDelegate dname pfx modify = some (mkDelegate pfx modify) := by
  unfold mkDelegate
  by_cases h1 : pfx = []
  · subst h1
    simp [initDelegateSrc, initDelegate, PCtx.exec, PCtx.test, PCtx.eval, setReg, lookupP, PVal.toStr, PrefixType.ofNat, List.lookup]
  · cases hl : pfx.getLast? with
    | none => simp [List.getLast?_eq_none_iff] at hl; exact absurd hl h1
    | some ch =>
      by_cases h2 : ch = '*'
      · subst h2
        by_cases h3 : pfx.dropLast = []
        · simp [initDelegateSrc, initDelegate, PCtx.exec, PCtx.test, PCtx.eval, setReg, lookupP, PVal.toStr, PrefixType.ofNat, List.lookup, h1, hl, h3]
        · simp [initDelegateSrc, initDelegate, PCtx.exec, PCtx.test, PCtx.eval, setReg, lookupP, PVal.toStr, PrefixType.ofNat, List.lookup, h1, hl, h3]
      · simp [initDelegateSrc, initDelegate, PCtx.exec, PCtx.test, PCtx.eval, setReg, lookupP, PVal.toStr, PrefixType.ofNat, List.lookup, h1, hl, h2]

theorem delegatePattern_is_source (dname raw n : Name) :
    delegatePatternSrc Generated.DelegSrc.delegatePattern dname raw n
      = some (' ' :: dname ++ ':' :: Deleg.delegatePattern n raw) := by
  unfold Deleg.delegatePattern
  by_cases h1 : raw = []
  · subst h1
    simp [delegatePatternSrc, Generated.DelegSrc.delegatePattern, PCtx.exec, PCtx.test, PCtx.eval, setReg, PVal.toStr, traitMeta]
  · cases hl : raw.getLast? with
    | none => simp [List.getLast?_eq_none_iff] at hl; exact absurd hl h1
    | some ch =>
      by_cases h2 : ch = '*' <;> by_cases h3 : raw.length > 1 <;>
      simp [delegatePatternSrc, Generated.DelegSrc.delegatePattern, PCtx.exec, PCtx.test, PCtx.eval, setReg, PVal.toStr, traitMeta, h1, hl, h2, h3]

theorem traitDelegateName_is_source (clsPfx : Option Name) (n head pat : Name) (hp : pat ≠ []) :
    traitDelegateNameSrc Generated.DelegSrc.traitDelegateName clsPfx n (head ++ pat)
      = some (head ++ Deleg.traitDelegateName clsPfx n pat) := by
  unfold Deleg.traitDelegateName
  have hl : (head ++ pat).getLast? = pat.getLast? := by
    simp [List.getLast?_append, hp]
    cases h : pat.getLast? with
    | none => simp [List.getLast?_eq_none_iff] at h; exact absurd h hp
    | some c => simp
  have hd : (head ++ pat).dropLast = head ++ pat.dropLast := List.dropLast_append_of_ne_nil hp
  cases hc : pat.getLast? with
  | none => simp [List.getLast?_eq_none_iff] at hc; exact absurd hc hp
  | some ch =>
    by_cases h2 : ch = '*' <;> cases clsPfx <;>
    simp [traitDelegateNameSrc, Generated.DelegSrc.traitDelegateName, PCtx.exec, PCtx.test, PCtx.eval, setReg, PVal.toStr, clsAttr, hl, hd, hc, h2]

theorem removeListener_remove_is_source (hooked : Option ObjId) (f : Option (Option ObjId)) :
    removeListenerSrc removeListener true hooked f = LSt.ofFwd none := by
  cases f <;> simp [removeListenerSrc, removeListener, execL, LSt.ofFwd]

theorem removeListener_restore_is_source (hooked : Option ObjId) (f : Option (Option ObjId)) :
    removeListenerSrc removeListener false hooked f
      = LSt.ofFwd (match f with | some h => some h | none => some hooked) := by
  cases f <;> simp [removeListenerSrc, removeListener, execL, LSt.ofFwd]

theorem unlink_fwd_self (p : Pool) (o : ObjId) (n : Name) : ((unlink p o n).obj o).fwd n = none := by
  simp [unlink, Pool.setFwd, Pool.upd]

theorem relink_fwd_self (p : Pool) (o : ObjId) (n : Name) (d : DelegInfo) (evs : List Event) :
    (((relink p o n d evs).pool).obj o).fwd n
      = (match (p.obj o).fwd n with | some h => some h | none => some (hook p o n d).1) := by
  unfold relink
  cases h : (p.obj o).fwd n with
  | some x => simp [h]
  | none =>
    simp only []
    unfold hook
    cases (p.obj o).deleg <;> simp [Pool.setFwd, Pool.upd]

theorem read_defer_is_source (p : Pool) (f : Nat) (o : ObjId) (n : Name) (d : DelegInfo)
    (hdict : (p.obj o).dict n = none) (hd : (p.obj o).cls.trait n = .defer d) :
    read p (f + 1) o n = execGet getattrDelegate p (some (read p f)) o n d := by
  unfold Deleg.read
  simp only [hdict, hd]
  cases hx : (p.obj o).deleg with
  | none => simp [execGet, getattrDelegate, GetCtx.exec, GetCtx.cond, setReg, hx, CErr.exc]
  | some x =>
    cases hr : read p f x (attrName d (p.obj o).cls.pfx n) <;>
      simp [execGet, getattrDelegate, GetCtx.exec, GetCtx.cond, setReg, hx, hr, CErr.exc]

theorem read_limit_is_source (p : Pool) (o x : ObjId) (n : Name) (d : DelegInfo) (hx : (p.obj o).deleg = some x) :
    execGet getattrDelegate p none o n d = .error .runtimeError := by
  simp [execGet, getattrDelegate, GetCtx.exec, GetCtx.cond, setReg, hx, CErr.exc]

/-- What `setattr_delegate` does once the chain walk has reached a non-deferring trait. -/
def terminal (E : Env) (k : Nat) (p : Pool) (o : ObjId) (n : Name) (d0 : DelegInfo) (v : Option Val)
    (x : ObjId) (t : Name) (td : TraitDef) : StepOut :=
  if d0.modify then plainSet E k p x t td v
  else
    let r := protoSet E k p o n td v
    if isOk r then removeListenerCall r o n d0 v.isSome else r

def loopBody : Stmt := (setattrDelegate.loop).getD .skip

/-- One iteration of the loop of `setattr_delegate`. -/
def bodyResult (E : Env) (k : Nat) (p : Pool) (o : ObjId) (n : Name) (d0 : DelegInfo) (v : Option Val)
    (i : Nat) (cur : ObjId) (d : DelegInfo) (da : Name) : Outcome SetSt StepOut :=
  match (p.obj cur).deleg with
  | none => .ret (fail p .traitError)
  | some x =>
    let da' := attrName d (p.obj o).cls.pfx da
    match (p.obj x).cls.trait da' with
    | .defer d' =>
      if i + 1 ≥ 100 then .ret (fail p .traitError)
      else .next { O := [.obj o, .obj x, .obj x], S := [n, da', da'], T := [.defer d0, .defer d'], i := i + 1, result := none }
    | td => .ret (terminal E k p o n d0 v x da' td)

theorem body_eq (E : Env) (k : Nat) (p : Pool) (o : ObjId) (n : Name) (d0 : DelegInfo) (v : Option Val)
    (i : Nat) (cur : ObjId) (d : DelegInfo) (da : Name) (o2 : OVal) (s2 : Name) :
    (SetCtx.mk E k p d0 v).exec loopBody
        { O := [.obj o, .obj cur, o2], S := [n, da, s2], T := [.defer d0, .defer d], i := i, result := none }
      = bodyResult E k p o n d0 v i cur d da := by
  unfold bodyResult
  cases hx : (p.obj cur).deleg with
  | none => simp [loopBody, setattrDelegate, SetCtx.exec, SetCtx.cond, setReg, hx, CErr.exc]
  | some x =>
    cases htd : (p.obj x).cls.trait (attrName d (p.obj o).cls.pfx da) with
    | defer d' =>
      by_cases hi : i + 1 ≥ 100 <;>
        simp [loopBody, setattrDelegate, SetCtx.exec, SetCtx.cond, setReg, hx, htd, CErr.exc, hi]
      all_goals omega
    | plain vid dflt cmp =>
      cases hm : d0.modify
      · cases h1 : isOk (protoSet E k p o n (TraitDef.plain vid dflt cmp) v)
        · simp [loopBody, setattrDelegate, SetCtx.exec, SetCtx.cond, setReg, hx, htd, CErr.exc, terminal, hm, h1]
        · cases h2 : isOk (removeListenerCall (protoSet E k p o n (TraitDef.plain vid dflt cmp) v) o n d0 v.isSome) <;>
            simp [loopBody, setattrDelegate, SetCtx.exec, SetCtx.cond, setReg, hx, htd, CErr.exc, terminal, hm, h1, h2]
      · simp [loopBody, setattrDelegate, SetCtx.exec, SetCtx.cond, setReg, hx, htd, CErr.exc, terminal, hm]
    | python =>
      cases hm : d0.modify
      · cases h1 : isOk (protoSet E k p o n TraitDef.python v)
        · simp [loopBody, setattrDelegate, SetCtx.exec, SetCtx.cond, setReg, hx, htd, CErr.exc, terminal, hm, h1]
        · cases h2 : isOk (removeListenerCall (protoSet E k p o n TraitDef.python v) o n d0 v.isSome) <;>
            simp [loopBody, setattrDelegate, SetCtx.exec, SetCtx.cond, setReg, hx, htd, CErr.exc, terminal, hm, h1, h2]
      · simp [loopBody, setattrDelegate, SetCtx.exec, SetCtx.cond, setReg, hx, htd, CErr.exc, terminal, hm]

theorem loop_eq (E : Env) (k : Nat) (p : Pool) (o : ObjId) (n : Name) (d0 : DelegInfo) (v : Option Val) :
    ∀ (f g i : Nat) (cur : ObjId) (d : DelegInfo) (da : Name) (o2 : OVal) (s2 : Name),
      i + f + 1 = 100 → f ≤ g →
      (SetCtx.mk E k p d0 v).loop loopBody (g + 1)
          { O := [.obj o, .obj cur, o2], S := [n, da, s2], T := [.defer d0, .defer d], i := i, result := none }
        = .ret (match walk p (p.obj o).cls.pfx (f + 1) cur d da with
                | .error e => fail p e
                | .ok (x, t, td) => terminal E k p o n d0 v x t td) := by
  intro f
  induction f with
  | zero =>
    intro g i cur d da o2 s2 hi hg
    unfold SetCtx.loop walk
    rw [body_eq]
    unfold bodyResult
    cases hx : (p.obj cur).deleg with
    | none => simp
    | some x =>
      cases htd : (p.obj x).cls.trait (attrName d (p.obj o).cls.pfx da) with
      | defer d' =>
        have : 99 ≤ i := by omega
        simp [walk, this, htd]
      | plain vid dflt cmp => simp [htd]
      | python => simp [htd]
  | succ f ih =>
    intro g i cur d da o2 s2 hi hg
    unfold SetCtx.loop walk
    rw [body_eq]
    unfold bodyResult
    cases hx : (p.obj cur).deleg with
    | none => simp
    | some x =>
      cases htd : (p.obj x).cls.trait (attrName d (p.obj o).cls.pfx da) with
      | defer d' =>
        have h1 : ¬ (99 ≤ i) := by omega
        obtain ⟨g', rfl⟩ : ∃ g', g = g' + 1 := ⟨g - 1, by omega⟩
        simp only [htd, ge_iff_le, Nat.reduceLeDiff, h1, if_false]
        rw [ih g' (i + 1) x d' _ _ _ (by omega) (by omega)]
      | plain vid dflt cmp => simp [htd]
      | python => simp [htd]

theorem setDefer_eq_terminal (E : Env) (k : Nat) (p : Pool) (o : ObjId) (n : Name) (d : DelegInfo) (v : Option Val) :
    setDefer E k p o n d v =
      match walk p (p.obj o).cls.pfx 100 o d n with
      | .error e => fail p e
      | .ok (x, t, td) => terminal E k p o n d v x t td := by
  unfold setDefer
  cases hw : walk p (p.obj o).cls.pfx 100 o d n with
  | error e => rfl
  | ok r =>
    obtain ⟨x, t, td⟩ := r
    simp only [terminal]
    cases hm : d.modify <;> simp only [Bool.false_eq_true, ↓reduceIte]
    · -- PrototypedFrom
      cases td <;> cases v <;> simp only [protoSet] <;>
        (try simp [isOk, fail, removeListenerCall]) <;>
        repeat' (split <;> simp_all [isOk, fail, removeListenerCall])
    · cases td <;> cases v <;> simp [plainSet]

theorem setDefer_is_source (E : Env) (k : Nat) (p : Pool) (o : ObjId) (n : Name) (d : DelegInfo) (v : Option Val) :
    setDefer E k p o n d v = execSet setattrDelegate E k p o n d v := by
  rw [setDefer_eq_terminal]
  have hl := loop_eq E k p o n d v 99 999 0 o d n .null [] (by omega) (by omega)
  simp only [loopBody, setattrDelegate, Option.getD] at hl
  simp [execSet, setattrDelegate, SetCtx.exec, setReg, loopFuel, hl]

end TraitsVerif.Model.DelegSrc
