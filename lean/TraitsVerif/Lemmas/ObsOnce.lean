/-
Cluster `obs`: "exactly once".  At most one user notifier per handler key sits on
an observable (`UniqueUsers`, an invariant of every operation), so a change
delivers to a key at most once; with the refinement invariant, exactly once iff
the registrations reach the changed trait.
-/
import TraitsVerif.Lemmas.ObsInvSet
namespace TraitsVerif.Model.Obs
open TraitsVerif

def isUserKey (k : HKey) : Notifier → Bool
  | .user k' _ => k' == k
  | _ => false

/-- at most one user notifier per handler key and observable -/
def UniqueUsers (H : Hooks) : Prop := ∀ o k, (H.get o).countP (isUserKey k) ≤ 1

theorem countP_userAdd (k k' : HKey) (ns : List Notifier) :
    (userAdd k ns).countP (isUserKey k') =
      if k = k' ∧ ns.countP (isUserKey k) = 0 then 1 else ns.countP (isUserKey k') := by
  induction ns with
  | nil =>
    by_cases e : k = k' <;> simp [userAdd, isUserKey, e]
  | cons nt ns ih =>
    cases nt with
    | user k'' rc =>
      simp only [userAdd]
      by_cases e : (k == k'') = true
      · have e' : k = k'' := by simpa using e
        subst e'
        simp only [beq_self_eq_true, if_true, List.countP_cons, isUserKey]
        by_cases e2 : k = k' <;> simp [e2]
      · have e3 : (k == k'') = false := by simpa using e
        have e' : ¬ k = k'' := by simpa using e
        have e'' : (k'' == k) = false := by simp; exact fun h => e' h.symm
        simp only [e3, Bool.false_eq_true, if_false, List.countP_cons, ih, isUserKey]
        by_cases e2 : k = k'
        · subst e2
          simp only [e'', true_and, Bool.false_eq_true, if_false, Nat.add_zero]
        · simp [e2]
    | maint mk g k'' =>
      simp only [userAdd, List.countP_cons, ih, isUserKey]
      simp

theorem countP_addKey_le (q : NKey) (k' : HKey) (ns : List Notifier) (hu : ns.countP (isUserKey k') ≤ 1) :
    (addKey q ns).countP (isUserKey k') ≤ 1 := by
  cases q with
  | user k =>
    simp only [addKey, countP_userAdd]
    split <;> omega
  | maint mk g k =>
    simp [addKey, maintAdd, List.countP_append, isUserKey]; exact hu

theorem countP_userRemove_le (k k' : HKey) (ns ns' : List Notifier) (h : userRemove k ns = .ok ns') :
    ns'.countP (isUserKey k') ≤ ns.countP (isUserKey k') := by
  induction ns generalizing ns' with
  | nil => simp [userRemove] at h
  | cons nt ns ih =>
    cases nt with
    | user k'' rc =>
      simp only [userRemove] at h
      split at h
      · split at h
        · cases h; simp [List.countP_cons]
        · split at h
          · cases h
          · cases h; simp [List.countP_cons, isUserKey]
      · cases hr : userRemove k ns with
        | error e => simp [hr, Except.map] at h
        | ok l =>
          simp [hr, Except.map] at h
          subst h
          have := ih l hr
          simp only [List.countP_cons]; omega
    | maint mk g k'' =>
      simp only [userRemove] at h
      cases hr : userRemove k ns with
      | error e => simp [hr, Except.map] at h
      | ok l =>
        simp [hr, Except.map] at h
        subst h
        have := ih l hr
        simp only [List.countP_cons]; omega

theorem countP_maintRemove_le (mk : MKind) (g : Graph) (k k' : HKey) (ns ns' : List Notifier)
    (h : maintRemove mk g k ns = .ok ns') : ns'.countP (isUserKey k') ≤ ns.countP (isUserKey k') := by
  induction ns generalizing ns' with
  | nil => simp [maintRemove] at h
  | cons nt ns ih =>
    simp only [maintRemove] at h
    split at h
    · cases h; simp [List.countP_cons]
    · cases hr : maintRemove mk g k ns with
      | error e => simp [hr, Except.map] at h
      | ok l =>
        simp [hr, Except.map] at h
        subst h
        have := ih l hr
        simp only [List.countP_cons]; omega

theorem addItem_unique (it : Item) (H : Hooks) (hu : UniqueUsers H) : UniqueUsers (addItem it H) := by
  intro o k
  unfold addItem
  rw [Hooks.get_upd]
  split
  · exact countP_addKey_le _ _ _ (hu _ _)
  · exact hu o k

theorem removeItem_unique (it : Item) (H H' : Hooks) (hu : UniqueUsers H) (h : removeItem it H = .ok H') :
    UniqueUsers H' := by
  unfold removeItem at h
  cases hr : removeKey it.2 (H.get it.1) with
  | error e => simp [hr] at h
  | ok l =>
    simp [hr] at h
    subst h
    intro o k
    rw [Hooks.get_upd]
    split
    · have := hu it.1 k
      cases hit : it.2 with
      | user k0 => rw [hit] at hr; have := countP_userRemove_le k0 k _ _ hr; omega
      | maint mk g k0 => rw [hit] at hr; have := countP_maintRemove_le mk g k0 k _ _ hr; omega
    · exact hu o k

/-! ### any predicate on hooks kept by `add_to` / `remove_from` is kept by everything -/

section pres
variable (P : Hooks → Prop) (hadd : ∀ it H, P H → P (addItem it H))
  (hrm : ∀ it H H', P H → removeItem it H = .ok H' → P H')
include hadd hrm

theorem addRemove_pres (h : Heap) (k : HKey) (g : Graph) (rm extra : Bool) (x : W) (H : Hooks) (hP : P H) :
    P (addRemove h k rm extra g x H).H :=
  addRemove_touch P (fun _ => True) (fun it H _ hP => hadd it H hP) (fun it H H' _ hP hr => hrm it H H' hP hr)
    h k g rm extra x H (fun _ _ => trivial) hP

theorem maintTrait_pres (h : Heap) (mk : MKind) (g : Graph) (k : HKey) (o : Id) (old new : Val) (H : Hooks)
    (hP : P H) : P (maintTrait h mk g k o old new H).H := by
  have hAR := addRemove_pres P hadd hrm
  unfold maintTrait
  cases mk with
  | trait =>
    simp only []
    have r1 : P (removeOld h k g old H).H := by
      unfold removeOld
      split
      · rename_i w _ _
        have := hAR h k g true true w H hP
        simp only []
        split
        · exact this
        · exact this
      · exact hP
    split
    · exact r1
    · unfold addNew
      split
      · exact hAR h k g false true _ _ r1
      · exact r1
  | added =>
    simp only []
    split
    · split
      · exact hAR h k _ false false _ H hP
      · exact hP
    · exact hP
  | list => exact hP
  | dict => exact hP
  | set => exact hP

theorem callTrait_pres (E : Env) (h : Heap) (o : Id) (n : Name) (old new : Val) :
    ∀ (ns : List Notifier) (H : Hooks) (ds : List Delivered), P H → P (callTrait E h o n old new ns H ds).1 := by
  intro ns
  induction ns with
  | nil => intro H ds hP; exact hP
  | cons nt ns ih =>
    intro H ds hP
    cases nt with
    | user k rc =>
      simp only [callTrait]
      split
      · exact ih H ds hP
      · exact ih H _ hP
    | maint mk g k =>
      simp only [callTrait]
      split
      · exact ih H ds hP
      · have hm := maintTrait_pres P hadd hrm h mk g k o old new H hP
        split
        · exact hm
        · exact ih _ ds hm

theorem maintCont_pres (h : Heap) (g : Graph) (k : HKey) (ev : CEvent) (H : Hooks) (hP : P H) :
    P (maintCont h g k ev H).H := by
  have hAR := addRemove_pres P hadd hrm
  unfold maintCont walkAll
  have r1 := foldRes_pres P (addRemove h k true true g) (fun y H' hP' => hAR h k g true true y H' hP')
    (ev.removed.map some) H hP
  simp only []
  split
  · exact r1
  · exact foldRes_pres P (addRemove h k false true g) (fun y H' hP' => hAR h k g false true y H' hP')
      (ev.added.map some) _ r1

theorem notifyCont_pres (E : Env) (h : Heap) (c : Id) (ev : CEvent) :
    ∀ (fuel i : Nat) (H : Hooks) (ds : List Delivered), P H → P (notifyCont E h c ev fuel i H ds).1 := by
  intro fuel
  induction fuel with
  | zero => intro i H ds hP; exact hP
  | succ fuel ih =>
    intro i H ds hP
    simp only [notifyCont]
    cases hgt : (H.get (.cont c))[i]? with
    | none => exact hP
    | some nt =>
      cases nt with
      | user k' rc =>
        simp only []
        split
        · exact ih _ H ds hP
        · exact ih _ H _ hP
      | maint mk g k' =>
        simp only []
        split
        · exact ih _ H ds hP
        · have hmq := maintCont_pres P hadd hrm h g k' ev H hP
          split
          · exact hmq
          · exact ih _ _ ds hmq

theorem runCont_pres (E : Env) (st : St) (h' : Heap) (c : Id) (ev : Option CEvent) (hP : P st.H) :
    P (runCont E st h' c ev).st.H := by
  cases ev with
  | none => exact hP
  | some ev => simp only [runCont]; exact notifyCont_pres P hadd hrm E h' c ev _ 0 st.H [] hP

theorem fire_pres (E : Env) (H : Hooks) (h' : Heap) (o : Id) (n : Name) (old new : Val) (hP : P H) :
    P (fire E H h' o n old new).st.H := by
  simp only [fire]; exact callTrait_pres P hadd hrm E h' o n old new _ H [] hP

theorem refire_pres (E : Env) (r1 : Out) (o : Id) (n : Name) (cmp : Cmp) (old new : Val) (hP : P r1.st.H) :
    P (refire E r1 o n cmp old new).st.H := by
  unfold refire
  split
  · exact hP
  · split
    · exact fire_pres P hadd hrm E _ _ o n old new hP
    · exact hP

/-- every mutation keeps `P` -/
theorem mutate_pres (E : Env) (st : St) (m : Mutation) (hP : P st.H) : P (mutate E st m).st.H := by
  cases m with
  | alloc i o => exact hP
  | setField o n v fresh =>
    simp only [mutate]
    split
    · split
      · exact hP
      · split
        · exact hP
        · split
          · exact hP
          · exact fire_pres P hadd hrm E st.H _ o n _ v hP
    · exact hP
  | read o n fresh =>
    simp only [mutate]
    split
    · split
      · exact hP
      · split
        · exact fire_pres P hadd hrm E st.H _ o n _ _ hP
        · exact hP
    · exact hP
  | delField o n fresh =>
    simp only [mutate]
    split
    · split
      · exact hP
      · split
        · exact hP
        · exact refire_pres P hadd hrm E _ o n _ _ _ (fire_pres P hadd hrm E st.H _ o n _ _ hP)
    · exact hP
  | addTrait o n tagged dflt =>
    simp only [mutate]
    split
    · split
      · exact hP
      · exact fire_pres P hadd hrm E st.H _ o _ _ _ hP
    · exact hP
  | announce o n guard =>
    simp only [mutate]
    split
    · split
      · exact hP
      · exact fire_pres P hadd hrm E st.H _ o _ _ _ hP
    · exact hP
  | listAppend c x =>
    simp only [mutate]; split
    · exact runCont_pres P hadd hrm E st _ c _ hP
    · exact hP
  | listInsert c i x =>
    simp only [mutate]; split
    · split
      · exact runCont_pres P hadd hrm E st _ c _ hP
      · exact hP
    · exact hP
  | listDel c i =>
    simp only [mutate]; split
    · split
      · exact runCont_pres P hadd hrm E st _ c _ hP
      · exact hP
    · exact hP
  | listSet c i x =>
    simp only [mutate]; split
    · split
      · exact runCont_pres P hadd hrm E st _ c _ hP
      · exact hP
    · exact hP
  | listSlice c i j xs =>
    simp only [mutate]; split
    · split
      · exact runCont_pres P hadd hrm E st _ c _ hP
      · exact hP
    · exact hP
  | listStride c i step xs =>
    simp only [mutate]; split
    · split
      · exact runCont_pres P hadd hrm E st _ c _ hP
      · exact hP
    · exact hP
  | listClear c =>
    simp only [mutate]; split
    · exact runCont_pres P hadd hrm E st _ c _ hP
    · exact hP
  | listExtend c xs =>
    simp only [mutate]; split
    · exact runCont_pres P hadd hrm E st _ c _ hP
    · exact hP
  | dictSet c key x =>
    simp only [mutate]; split
    · split
      · exact runCont_pres P hadd hrm E st _ c _ hP
      · exact runCont_pres P hadd hrm E st _ c _ hP
    · exact hP
  | dictDel c key =>
    simp only [mutate]; split
    · split
      · exact runCont_pres P hadd hrm E st _ c _ hP
      · exact hP
    · exact hP
  | dictClear c =>
    simp only [mutate]; split
    · exact runCont_pres P hadd hrm E st _ c _ hP
    · exact hP
  | setAdd c x =>
    simp only [mutate]; split
    · split
      · exact hP
      · exact runCont_pres P hadd hrm E st _ c _ hP
    · exact hP
  | setDiscard c x =>
    simp only [mutate]; split
    · split
      · exact runCont_pres P hadd hrm E st _ c _ hP
      · exact hP
    · exact hP
  | setClear c =>
    simp only [mutate]; split
    · exact runCont_pres P hadd hrm E st _ c _ hP
    · exact hP

end pres

/-- `UniqueUsers` is an invariant of registration, removal and every mutation. -/
theorem addRemove_unique (h : Heap) (k : HKey) (g : Graph) (rm extra : Bool) (x : W) (H : Hooks)
    (hu : UniqueUsers H) : UniqueUsers (addRemove h k rm extra g x H).H :=
  addRemove_pres UniqueUsers addItem_unique removeItem_unique h k g rm extra x H hu

theorem mutate_unique (E : Env) (st : St) (m : Mutation) (hu : UniqueUsers st.H) :
    UniqueUsers (mutate E st m).st.H :=
  mutate_pres UniqueUsers addItem_unique removeItem_unique E st m hu

theorem UniqueUsers_empty : UniqueUsers Hooks.empty := by
  intro o k; simp [Hooks.empty]

/-! ### what a non-raising call of the copied notifier list delivers -/

def deliv (E : Env) (h : Heap) (o : Id) (n : Name) (old new : Val) : Notifier → Option Delivered
  | .user k _ => if E.dead k || preventTrait E h o n old new then none else some (.trait k o n old new)
  | .maint .. => none

theorem callTrait_delivered_eq (E : Env) (h : Heap) (o : Id) (n : Name) (old new : Val) :
    ∀ (ns : List Notifier) (H : Hooks) (ds : List Delivered),
      (callTrait E h o n old new ns H ds).2.2 = none →
      (callTrait E h o n old new ns H ds).2.1 = ds ++ ns.filterMap (deliv E h o n old new) := by
  intro ns
  induction ns with
  | nil => intro H ds _; simp [callTrait]
  | cons nt ns ih =>
    intro H ds hok
    cases nt with
    | user k rc =>
      simp only [callTrait] at hok ⊢
      simp only [List.filterMap_cons, deliv]
      split
      · rename_i hc
        simp only [hc, if_true] at hok ⊢
        exact ih H ds hok
      · rename_i hc
        simp only [hc, if_false] at hok ⊢
        rw [ih H _ hok]; simp
    | maint mk g k =>
      simp only [callTrait] at hok ⊢
      simp only [List.filterMap_cons, deliv]
      split
      · rename_i hc
        simp only [hc, if_true] at hok
        exact ih H ds hok
      · rename_i hc
        simp only [hc, if_false] at hok
        cases he : (maintTrait h mk g k o old new H).err with
        | some e => simp [he] at hok
        | none =>
          simp only [he] at hok ⊢
          exact ih _ ds hok

theorem count_deliv (E : Env) (h : Heap) (o : Id) (n : Name) (old new : Val) (k : HKey) (ns : List Notifier) :
    ((ns.filterMap (deliv E h o n old new)).filter (fun d => d.key == k)).length =
      if E.dead k || preventTrait E h o n old new then 0 else ns.countP (isUserKey k) := by
  induction ns with
  | nil => simp
  | cons nt ns ih =>
    cases nt with
    | maint mk g k' => simp only [List.filterMap_cons, deliv, List.countP_cons, isUserKey]; simpa using ih
    | user k' rc =>
      simp only [List.filterMap_cons, deliv, List.countP_cons, isUserKey]
      by_cases hp : preventTrait E h o n old new = true
      · simp only [hp, Bool.or_true, if_true] at ih ⊢
        exact ih
      · have hp' : preventTrait E h o n old new = false := by simpa using hp
        simp only [hp', Bool.or_false] at ih ⊢
        by_cases e : k' = k
        · subst e
          by_cases hd : E.dead k' = true
          · simp only [hd, if_true] at ih ⊢; exact ih
          · have hd' : E.dead k' = false := by simpa using hd
            simp only [hd', Bool.false_eq_true, if_false] at ih ⊢
            simp only [List.filter_cons, Delivered.key, beq_self_eq_true, if_true, List.length_cons]
            rw [← ih]; simp only [Delivered.key]
        · have e' : (k' == k) = false := by simpa using e
          by_cases hd : E.dead k' = true
          · simp only [hd, if_true, e', Bool.false_eq_true, if_false, Nat.add_zero]
            exact ih
          · have hd' : E.dead k' = false := by simpa using hd
            simp only [hd', Bool.false_eq_true, if_false, List.filter_cons, Delivered.key, e', Nat.add_zero]
            exact ih

theorem cntList_pos_iff_countP (k : HKey) (ns : List Notifier) (hw : WFList ns) :
    0 < cntList (.user k) ns ↔ 0 < ns.countP (isUserKey k) := by
  induction ns with
  | nil => simp [cntList]
  | cons nt ns ih =>
    have hns : WFList ns := fun k' rc hm => hw k' rc (List.mem_cons_of_mem _ hm)
    have ih' := ih hns
    cases nt with
    | maint mk g k' =>
      simp only [cntList, NKey.equals, List.countP_cons, isUserKey]
      simp only [Bool.false_eq_true, if_false, Nat.zero_add, Nat.add_zero]
      exact ih'
    | user k' rc =>
      have hrc : 0 < rc := hw k' rc (List.mem_cons_self ..)
      simp only [cntList, NKey.equals, List.countP_cons, isUserKey, beq_iff_eq]
      by_cases e : k' = k
      · simp [e]; omega
      · simp only [e, if_false, Nat.zero_add, Bool.false_eq_true, Nat.add_zero]
        exact ih'

/-- Within the fragment of `setField_preserves`: an assignment that really changes
the value calls handler key `k` exactly once if some registration of `k` reaches
`o.n` through a notifying node, and not at all otherwise. -/
theorem setField_calls (E : Env) (st : St) (regs : List Reg) (o : Id) (n : Name) (v : Val) (fresh : Id)
    (fs : List Field) (f : Field) (hinv : HooksEqReach st.h st.H regs) (fr : SetFrag E st regs o n v fs f)
    (hset : f.val ≠ .unset) (hu : UniqueUsers st.H) (hne : f.val ≠ v)
    (hprev : preventTrait E (storeField st.h o n v) o n f.val v = false) (k : HKey) :
    ((mutate E st (.setField o n v fresh)).delivered.filter (fun d => d.key == k)).length =
      if 0 < specCnt st.h regs (.trait o n) (.user k) then 1 else 0 := by
  obtain ⟨hfire, _, _⟩ := fire_preserves E st regs o n v fs f hinv fr
  have hset' : (f.val == Val.unset) = false := by
    cases hv : f.val with
    | unset => exact absurd hv hset
    | _ => rfl
  have hsv : (f.cmp != Cmp.none && f.val == v) = false := by simp [hne]
  have hpos := cntList_pos_iff_countP k (st.H.get (.trait o n)) (hinv.1 _)
  have hc := hinv.2 (.trait o n) (.user k)
  unfold cnt at hc
  rw [hc] at hpos
  have hle := hu (.trait o n) k
  simp only [mutate, fr.ho, fr.hf]
  by_cases hemp : (st.H.get (.trait o n)).isEmpty = true
  · simp only [hemp, if_true, List.filter_nil, List.length_nil]
    have hnil : st.H.get (.trait o n) = [] := by simpa using hemp
    rw [hnil] at hpos
    simp only [List.countP_nil, Nat.lt_irrefl, iff_false] at hpos
    simp [hpos]
  · simp only [hemp, Bool.false_eq_true, if_false, oldValue, hset', hsv]
    have hd := callTrait_delivered_eq E (storeField st.h o n v) o n f.val v _ st.H [] hfire.2
    simp only [fire] at hd ⊢
    rw [hd, List.nil_append, count_deliv, fr.alive k, hprev]
    simp only [Bool.or_self, Bool.false_eq_true, if_false]
    by_cases h0 : 0 < specCnt st.h regs (.trait o n) (.user k)
    · have := hpos.1 h0
      simp only [h0, if_true]; omega
    · have : ¬ 0 < (st.H.get (.trait o n)).countP (isUserKey k) := fun h => h0 (hpos.2 h)
      simp only [h0, if_false]; omega

end TraitsVerif.Model.Obs
