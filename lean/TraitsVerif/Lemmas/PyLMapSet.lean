/-
The hand-written model `SetM.TraitSet.step` is the interpretation of the
translated source (`Generated/MapSetProg.lean` `traitSetProg`) — one lemma per
operation.  Symbolic execution of the interpreter by `simp`, after the case
splits the model itself makes.
-/
import TraitsVerif.Generated.MapSetProg
import TraitsVerif.Lemmas.SetStep
set_option linter.unusedSimpArgs false
set_option linter.unusedVariables false
set_option linter.unusedSectionVars false
namespace TraitsVerif.Lemmas.PyLMS
open TraitsVerif TraitsVerif.Py TraitsVerif.Model.SetM TraitsVerif.Model.PyLM TraitsVerif.Model.PyLM.S
open TraitsVerif.Py.PSet (insert erase union ofList inter diff symm popChoice Op)
variable {α : Type} [DecidableEq α]

local notation "runTSM" => runTraitSetM Generated.traitSetProg

macro "pyls_exec" "[" ts:Lean.Parser.Tactic.simpLemma,* "]" : tactic =>
  `(tactic| simp [runTraitSetM, Generated.traitSetProg, lookupFn, bindArgs, exec, eval, evalAll, itemsOf,
      getVar, setVar, truthy, builtinSup, PSet.step, summarize, summaryOfStep, retOf, valOfRet, TraitSet.step,
      notifyRemoved, notifyAdded, symParts, operand, opCall, opHint, $ts,*])

theorem diff_self (s : PSet α) : diff s s = [] := by
  simp [diff, List.filter_eq_nil_iff]

theorem ts_add (v : Callback α α) (s : PSet α) (x : α) :
    runTSM v none "add" [.item x] s = summaryOfStep s (.add x) (TraitSet.step v s (.add x)) := by
  cases hv : v 0 x with
  | error e => pyls_exec [hv]
  | ok y => by_cases hy : y ∈ s <;> pyls_exec [hv, hy]

theorem ts_discard (v : Callback α α) (s : PSet α) (x : α) :
    runTSM v none "discard" [.item x] s = summaryOfStep s (.discard x) (TraitSet.step v s (.discard x)) := by
  by_cases hx : x ∈ s <;> pyls_exec [hx]

theorem ts_remove (v : Callback α α) (s : PSet α) (x : α) :
    runTSM v none "remove" [.item x] s = summaryOfStep s (.remove x) (TraitSet.step v s (.remove x)) := by
  by_cases hx : x ∈ s <;> pyls_exec [hx]

theorem ts_pop (v : Callback α α) (s : PSet α) (hint : Option α) :
    runTSM v hint "pop" [] s = summaryOfStep s (.pop hint) (TraitSet.step v s (.pop hint)) := by
  cases hp : popChoice s hint <;> pyls_exec [hp]

theorem ts_clear (v : Callback α α) (s : PSet α) :
    runTSM v none "clear" [] s = summaryOfStep s .clear (TraitSet.step v s .clear) := by
  cases ho : ofList s <;> pyls_exec [ho]

theorem ts_update (v : Callback α α) (s : PSet α) (args : List (List α)) :
    runTSM v none "update" [.iters args] s = summaryOfStep s (.update args) (TraitSet.step v s (.update args)) := by
  cases hv : valAll v 0 args.flatten with
  | error e => pyls_exec [hv]
  | ok ys => cases ha : diff (ofList ys) s <;> pyls_exec [hv, ha]

theorem ts_differenceUpdate (v : Callback α α) (s : PSet α) (args : List (List α)) :
    runTSM v none "difference_update" [.iters args] s
      = summaryOfStep s (.differenceUpdate args) (TraitSet.step v s (.differenceUpdate args)) := by
  cases hr : diff s (args.foldl diff s) <;> pyls_exec [hr]

theorem ts_intersectionUpdate (v : Callback α α) (s : PSet α) (args : List (List α)) :
    runTSM v none "intersection_update" [.iters args] s
      = summaryOfStep s (.intersectionUpdate args) (TraitSet.step v s (.intersectionUpdate args)) := by
  cases hr : diff s (args.foldl inter s) <;> pyls_exec [hr]

theorem ts_symmetricDifferenceUpdate (v : Callback α α) (s : PSet α) (xs : List α) :
    runTSM v none "symmetric_difference_update" [.iter xs] s
      = summaryOfStep s (.symmetricDifferenceUpdate xs) (TraitSet.step v s (.symmetricDifferenceUpdate xs)) := by
  generalize hR : inter s (ofList xs) = R
  cases hv : valAll v 0 (diff (ofList xs) R) with
  | error e => pyls_exec [hv, hR]
  | ok ws => cases R <;> cases ha : diff (ofList ws) s <;> pyls_exec [hv, hR, ha]

theorem ts_ior (v : Callback α α) (s : PSet α) (b : Bool) (xs : List α) :
    runTSM v none "__ior__" [operand b xs] s = summaryOfStep s (.ior b xs) (TraitSet.step v s (.ior b xs)) := by
  cases b with
  | false => pyls_exec [diff_self]
  | true =>
    cases hv : valAll v 0 xs with
    | error e => pyls_exec [hv]
    | ok ys => cases ha : diff (union s (ofList ys)) s <;> pyls_exec [hv, ha]

theorem ts_iand (v : Callback α α) (s : PSet α) (b : Bool) (xs : List α) :
    runTSM v none "__iand__" [operand b xs] s = summaryOfStep s (.iand b xs) (TraitSet.step v s (.iand b xs)) := by
  cases b with
  | false => pyls_exec [diff_self]
  | true => cases hr : diff s (inter s xs) <;> pyls_exec [hr]

theorem ts_isub (v : Callback α α) (s : PSet α) (b : Bool) (xs : List α) :
    runTSM v none "__isub__" [operand b xs] s = summaryOfStep s (.isub b xs) (TraitSet.step v s (.isub b xs)) := by
  cases b with
  | false => pyls_exec [diff_self]
  | true => cases hr : diff s (diff s xs) <;> pyls_exec [hr]

theorem ts_ixor (v : Callback α α) (s : PSet α) (b : Bool) (xs : List α) :
    runTSM v none "__ixor__" [operand b xs] s = summaryOfStep s (.ixor b xs) (TraitSet.step v s (.ixor b xs)) := by
  cases b with
  | false => pyls_exec [diff_self]
  | true =>
    generalize hR : inter s (ofList xs) = R
    cases hv : valAll v 0 (diff (ofList xs) R) with
    | error e => pyls_exec [hv, hR]
    | ok ws => cases R <;> cases ha : diff (ofList ws) s <;> pyls_exec [hv, hR, ha]

/-- **`SetM.TraitSet.step` is the interpretation of the translated source**, for
every validator, set and operation. -/
theorem ts_step_is_source (v : Callback α α) (s : PSet α) (op : Op α) :
    runTraitSetOp Generated.traitSetProg v s op = summaryOfStep s op (TraitSet.step v s op) := by
  cases op with
  | add x => exact ts_add v s x
  | discard x => exact ts_discard v s x
  | remove x => exact ts_remove v s x
  | pop hint => exact ts_pop v s hint
  | clear => exact ts_clear v s
  | update args => exact ts_update v s args
  | differenceUpdate args => exact ts_differenceUpdate v s args
  | intersectionUpdate args => exact ts_intersectionUpdate v s args
  | symmetricDifferenceUpdate xs => exact ts_symmetricDifferenceUpdate v s xs
  | ior b xs => exact ts_ior v s b xs
  | iand b xs => exact ts_iand v s b xs
  | isub b xs => exact ts_isub v s b xs
  | ixor b xs => exact ts_ixor v s b xs

/-! ### `TraitSetObject._validator` -/

/-- **`TraitSetObject.validator` is the interpretation of the translated
`_validator`**, for every combination of the attributes it reads, every inner
trait, ordinal and value. -/
theorem tso_validator_is_source (σ : TSOSelf) (inner : Bool → Callback α α) (n : Nat) (x : α) :
    V.runValidator Generated.traitSetObjectValidator σ inner n x = TraitSetObject.validator σ inner n x := by
  obtain ⟨o, t⟩ := σ
  cases o with
  | none =>
    cases t <;>
      simp [V.runValidator, Generated.traitSetObjectValidator, V.exec, V.eval, V.getVar, V.setVar, V.truthy,
        TraitSetObject.validator]
  | some alive =>
    cases t with
    | none =>
      simp [V.runValidator, Generated.traitSetObjectValidator, V.exec, V.eval, V.getVar, V.setVar, V.truthy,
        TraitSetObject.validator]
    | some vn =>
      cases vn with
      | true =>
        cases alive <;>
          simp [V.runValidator, Generated.traitSetObjectValidator, V.exec, V.eval, V.getVar, V.setVar, V.truthy,
            TraitSetObject.validator]
      | false =>
        cases alive with
        | false =>
          cases hi : inner false n x with
          | ok y =>
            simp [V.runValidator, Generated.traitSetObjectValidator, V.exec, V.eval, V.getVar, V.setVar, V.truthy,
              TraitSetObject.validator, hi, Except.map]
          | error e =>
            by_cases he : e = .traitError <;>
              simp [V.runValidator, Generated.traitSetObjectValidator, V.exec, V.eval, V.getVar, V.setVar,
                V.truthy, TraitSetObject.validator, hi, Except.map, he]
        | true =>
          cases hi : inner true n x with
          | ok y =>
            simp [V.runValidator, Generated.traitSetObjectValidator, V.exec, V.eval, V.getVar, V.setVar, V.truthy,
              TraitSetObject.validator, hi, Except.map]
          | error e =>
            by_cases he : e = .traitError <;>
              simp [V.runValidator, Generated.traitSetObjectValidator, V.exec, V.eval, V.getVar, V.setVar,
                V.truthy, TraitSetObject.validator, hi, Except.map, he]

end TraitsVerif.Lemmas.PyLMS
