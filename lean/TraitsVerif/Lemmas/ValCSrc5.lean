/-
Source tie of the compiled validators, part 5: the two loops of the coerce check
(`validate_trait_coerce_type` and `case 11` of `validate_trait_complex`) compute
`coerceScan` / `coerceAny`: generic loop lemmas stated on the semantics of the
loop's condition, increment and body, and the stand-alone function.
-/
import TraitsVerif.Lemmas.ValCSrc4
namespace TraitsVerif.Model.CSrc
open TraitsVerif TraitsVerif.Py.Value TraitsVerif.Model.Val TraitsVerif.Generated.CValidators

/-- An entry of a coerce descriptor after the main type. -/
def fTy : Option Ty → CV
  | none => .obj Val.none
  | some t => .ty t

/-- The first loop of the coerce check, semantically: `cond` tests `j < n`, `incr`
is `j++`, the body reads item `j`, stops at a `None`, accepts (`acc`) when the value is an
instance of the type read.  It computes `coerceScan`. -/
theorem iter_coerce_scan {R : Type} (cond incr : St → (CV → St → R) → R) (body : St → (Out → St → R) → R)
    (k : Out → St → R) (S : Nat → CV → St) (item : Nat → CV) (n : Nat) (v : Val) (acc : Out)
    (hacc : acc ≠ .norm ∧ acc ≠ .brk)
    (hc : ∀ j t k', cond (S j t) k' = k' (ofBool (decide (j < n))) (S j t))
    (hi : ∀ j t k', incr (S j t) k' = k' (.int j) (S (j + 1) t))
    (hb : ∀ j t k' (x : Option Ty), item j = fTy x → body (S j t) k' =
      match x with
      | none => k' .brk (S j (item j))
      | some t' => if Val.isInst t' v then k' acc (S j (item j)) else k' .norm (S j (item j))) :
    ∀ (l : List (Option Ty)) (j : Nat) (t : CV) (m : Nat), l.length < m → n = j + l.length →
      (∀ idx (h : idx < l.length), item (j + idx) = fTy l[idx]) →
      ∃ j' t', iter cond incr body k m (S j t) =
          (if (coerceScan v l).1 then k acc (S j' t') else k .norm (S j' t')) ∧
        ((coerceScan v l).1 = false →
          ((n = j' + 1 + (coerceScan v l).2.length ∧
            ∀ idx (h : idx < (coerceScan v l).2.length), item (j' + 1 + idx) = fTy (coerceScan v l).2[idx]) ∨
          ((coerceScan v l).2 = [] ∧ n ≤ j' + 1))) := by
  intro l
  induction l with
  | nil =>
    intro j t m hm hn _
    cases m with
    | zero => omega
    | succ m =>
      refine ⟨j, t, ?_, fun _ => Or.inr ⟨rfl, by simp at hn; omega⟩⟩
      have : ¬ j < n := by simp at hn; omega
      simp [iter, hc, this, coerceScan]
  | cons x rest ih =>
    intro j t m hm hn hit
    simp only [List.length_cons] at hm hn
    cases m with
    | zero => omega
    | succ m =>
      have hjn : j < n := by omega
      have hx : item j = fTy x := by
        have := hit 0 (by simp)
        rw [List.getElem_cons_zero] at this
        simpa using this
      cases x with
      | none =>
        refine ⟨j, item j, ?_, fun _ => Or.inl ⟨by simp [coerceScan]; omega, ?_⟩⟩
        · simp [iter, hc, hjn, hb _ _ _ _ hx, hx, fTy, coerceScan]
        · intro idx h
          simp only [coerceScan] at h ⊢
          have := hit (idx + 1) (by simp; omega)
          simpa [Nat.add_assoc, Nat.add_comm 1 idx] using this
      | some t0 =>
        by_cases hinst : Val.isInst t0 v = true
        · refine ⟨j, item j, ?_, fun hf => by simp [coerceScan, hinst] at hf⟩
          have h1 := hacc.1; have h2 := hacc.2
          simp [iter, hc, hjn, hb _ _ _ _ hx, hx, fTy, coerceScan, hinst]
          try (cases acc <;> simp_all)
        · obtain ⟨j', t', h1, h2⟩ := ih (j + 1) (item j) m (by omega) (by omega)
            (fun idx h => by
              have := hit (idx + 1) (by simp; omega)
              simpa [Nat.add_assoc, Nat.add_comm 1 idx] using this)
          simp only [hx, fTy] at h1
          refine ⟨j', t', ?_, ?_⟩
          · simp [iter, hc, hjn, hb _ _ _ _ hx, hx, fTy, coerceScan, hinst, hi, h1]
          · simpa [coerceScan, hinst] using h2

/-- The second loop: the value is an instance of one of the remaining types (`coerceAny`). -/
theorem iter_coerce_any {R : Type} (cond incr : St → (CV → St → R) → R) (body : St → (Out → St → R) → R)
    (k : Out → St → R) (S : Nat → CV → St) (item : Nat → CV) (n : Nat) (v : Val) (acc : Out) (accS : St → St)
    (hacc : acc ≠ .norm ∧ acc ≠ .brk)
    (hc : ∀ j t k', cond (S j t) k' = k' (ofBool (decide (j < n))) (S j t))
    (hi : ∀ j t k', incr (S j t) k' = k' (.int j) (S (j + 1) t))
    (hb : ∀ j t k' (x : Option Ty), item j = fTy x → body (S j t) k' =
      match x with
      | none => k' .norm (S j (item j))
      | some t' => if Val.isInst t' v then k' acc (accS (S j (item j))) else k' .norm (S j (item j))) :
    ∀ (l : List (Option Ty)) (j : Nat) (t : CV) (m : Nat), l.length < m →
      (n = j + l.length ∨ (l = [] ∧ n ≤ j)) →
      (∀ idx (h : idx < l.length), item (j + idx) = fTy l[idx]) →
      ∃ j' t', iter cond incr body k m (S j t) =
          (if coerceAny v l then k acc (accS (S j' t')) else k .norm (S j' t')) := by
  intro l
  induction l with
  | nil =>
    intro j t m hm hn _
    cases m with
    | zero => omega
    | succ m =>
      refine ⟨j, t, ?_⟩
      have : ¬ j < n := by rcases hn with h | h <;> simp at h <;> omega
      simp [iter, hc, this, coerceAny]
  | cons x rest ih =>
    intro j t m hm hn hit
    simp only [List.length_cons] at hm
    cases m with
    | zero => omega
    | succ m =>
      have hn' : n = j + (rest.length + 1) := by
        rcases hn with h | h
        · simpa using h
        · simp at h
      have hjn : j < n := by omega
      have hx : item j = fTy x := by
        have := hit 0 (by simp)
        rw [List.getElem_cons_zero] at this
        simpa using this
      have hrec := ih (j + 1) (item j) m (by omega) (Or.inl (by omega))
            (fun idx h => by
              have := hit (idx + 1) (by simp; omega)
              simpa [Nat.add_assoc, Nat.add_comm 1 idx] using this)
      simp only [hx] at hrec
      cases x with
      | none =>
        obtain ⟨j', t', h1⟩ := hrec
        simp only [fTy] at h1
        exact ⟨j', t', by simp [iter, hc, hjn, hb _ _ _ _ hx, hx, fTy, coerceAny, hi, h1]; split <;> simp_all⟩
      | some t0 =>
        by_cases hinst : Val.isInst t0 v = true
        · refine ⟨j, item j, ?_⟩
          have h1 := hacc.1; have h2 := hacc.2
          simp [iter, hc, hjn, hb _ _ _ _ hx, hx, fTy, coerceAny, hinst]
          try (cases acc <;> simp_all)
        · obtain ⟨j', t', h1⟩ := hrec
          simp only [fTy] at h1
          exact ⟨j', t', by simp [iter, hc, hjn, hb _ _ _ _ hx, hx, fTy, coerceAny, hinst, hi, h1]⟩



/-- Hoare-style forms of the two loop lemmas (convenient to apply to a goal). -/
theorem iter_coerce_scan_Q {R : Type} (cond incr : St → (CV → St → R) → R) (body : St → (Out → St → R) → R)
    (k : Out → St → R) (S : Nat → CV → St) (item : Nat → CV) (n : Nat) (v : Val) (acc : Out)
    (hacc : acc ≠ .norm ∧ acc ≠ .brk)
    (hc : ∀ j t k', cond (S j t) k' = k' (ofBool (decide (j < n))) (S j t))
    (hi : ∀ j t k', incr (S j t) k' = k' (.int j) (S (j + 1) t))
    (hb : ∀ j t k' (x : Option Ty), item j = fTy x → body (S j t) k' =
      match x with
      | none => k' .brk (S j (item j))
      | some t' => if Val.isInst t' v then k' acc (S j (item j)) else k' .norm (S j (item j)))
    (l : List (Option Ty)) (j : Nat) (t : CV) (m : Nat) (hm : l.length < m) (hn : n = j + l.length)
    (hit : ∀ idx (h : idx < l.length), item (j + idx) = fTy l[idx])
    (Q : R → Prop)
    (hQ : ∀ j' t', ((coerceScan v l).1 = false →
          ((n = j' + 1 + (coerceScan v l).2.length ∧
            ∀ idx (h : idx < (coerceScan v l).2.length), item (j' + 1 + idx) = fTy (coerceScan v l).2[idx]) ∨
          ((coerceScan v l).2 = [] ∧ n ≤ j' + 1))) →
        Q (if (coerceScan v l).1 then k acc (S j' t') else k .norm (S j' t'))) :
    Q (iter cond incr body k m (S j t)) := by
  obtain ⟨j', t', h, hr⟩ := iter_coerce_scan cond incr body k S item n v acc hacc hc hi hb l j t m hm hn hit
  rw [h]; exact hQ j' t' hr

theorem iter_coerce_any_Q {R : Type} (cond incr : St → (CV → St → R) → R) (body : St → (Out → St → R) → R)
    (k : Out → St → R) (S : Nat → CV → St) (item : Nat → CV) (n : Nat) (v : Val) (acc : Out) (accS : St → St)
    (hacc : acc ≠ .norm ∧ acc ≠ .brk)
    (hc : ∀ j t k', cond (S j t) k' = k' (ofBool (decide (j < n))) (S j t))
    (hi : ∀ j t k', incr (S j t) k' = k' (.int j) (S (j + 1) t))
    (hb : ∀ j t k' (x : Option Ty), item j = fTy x → body (S j t) k' =
      match x with
      | none => k' .norm (S j (item j))
      | some t' => if Val.isInst t' v then k' acc (accS (S j (item j))) else k' .norm (S j (item j)))
    (l : List (Option Ty)) (j : Nat) (t : CV) (m : Nat) (hm : l.length < m)
    (hn : n = j + l.length ∨ (l = [] ∧ n ≤ j))
    (hit : ∀ idx (h : idx < l.length), item (j + idx) = fTy l[idx])
    (Q : R → Prop)
    (hQ : ∀ j' t', Q (if coerceAny v l then k acc (accS (S j' t')) else k .norm (S j' t'))) :
    Q (iter cond incr body k m (S j t)) := by
  obtain ⟨j', t', h⟩ := iter_coerce_any cond incr body k S item n v acc accS hacc hc hi hb l j t m hm hn hit
  rw [h]; exact hQ j' t'

variable (E : Env) (inner : Desc → Val → Res) (cdflt : Val) (fuel : Nat)

theorem layout_coerce_item (ty : Ty) (rest : List (Option Ty)) (idx : Nat) (h : idx < rest.length) :
    (layout (.coerce ty rest)).getD (2 + idx) .undef = fTy rest[idx] := by
  have : 2 + idx = idx + 1 + 1 := by omega
  simp only [layout, this, List.getD_cons_succ]
  simp [List.getD_eq_getElem?_getD, h, fTy]
  cases rest[idx] <;> rfl

theorem coerceScan_length (v : Val) (l : List (Option Ty)) : (coerceScan v l).2.length ≤ l.length := by
  induction l with
  | nil => simp [coerceScan]
  | cons x rest ih =>
    cases x with
    | none => simp [coerceScan]
    | some t => simp only [coerceScan]; split <;> simp <;> omega

theorem src_coerce (ty : Ty) (rest : List (Option Ty)) (v : Val) (hf : rest.length < fuel) :
    srcFn E inner cdflt fuel "validate_trait_coerce_type" (.coerce ty rest) v =
      some (norm (fastAlone E (.coerce ty rest) v)) := by
  src_start fn_validate_trait_coerce_type "validate_trait_coerce_type"
  csrc_eval
  simp only [fastAlone]
  by_cases h0 : Val.isInst ty v = true
  · simp [h0]
  · simp only [h0]
    simp only [Bool.false_eq_true, if_false]
    refine iter_coerce_scan_Q _ _ _ _
      (fun j t => ⟨[.trait (.coerce ty rest), .hobj, .name, .obj v, .int j, .int (↑rest.length + 1 + 1), t,
        .info (.coerce ty rest), .ty ty], none⟩)
      (fun j => (layout (.coerce ty rest)).getD j .undef) (rest.length + 2) v (.ret (.obj v)) (by simp)
      ?hc ?hi ?hb rest 2 .undef fuel hf (by omega) (fun idx h => layout_coerce_item ty rest idx h)
      (fun r => toRes r = _) ?hQ
    case hc =>
      intro j t k'
      have : ((j : Int) < ↑rest.length + 1 + 1) ↔ (j < rest.length + 2) := by omega
      simp [cvLt, this]
    case hi =>
      intro j t k'
      simp [Int.natCast_add]
    case hb =>
      intro j t k' x hx
      simp only [List.getD_eq_getElem?_getD] at hx
      cases x <;> simp [prim_GET_ITEM, prim_TypeCheck, getItem, hx, fTy, cvEq]
    case hQ =>
      intro j' t' hrel
      rcases hcs : coerceScan v rest with ⟨b, after⟩
      rw [hcs] at hrel
      cases b with
      | true => simp
      | false =>
        have hrel' := hrel rfl
        simp only [Bool.false_eq_true, if_false]
        simp only [List.getElem?_cons_succ, List.getElem?_cons_zero, Option.getD_some, List.set_cons_succ, List.set_cons_zero]
        refine iter_coerce_any_Q _ _ _ _
          (fun j t => ⟨[.trait (.coerce ty rest), .hobj, .name, .obj v, .int j, .int (↑rest.length + 1 + 1), t,
            .info (.coerce ty rest), .ty ty], none⟩)
          (fun j => (layout (.coerce ty rest)).getD j .undef) (rest.length + 2) v
          (.ret (exceptToC (E.cast ty v)).1) (fun s => { s with err := (exceptToC (E.cast ty v)).2 }) (by simp)
          ?hc ?hi ?hb after (j' + 1) t' fuel ?hm ?hn ?hit
          (fun r => toRes r = _) ?hQ
        case hc =>
          intro j t k'
          have : ((j : Int) < ↑rest.length + 1 + 1) ↔ (j < rest.length + 2) := by omega
          simp [this]
        case hi =>
          intro j t k'
          simp [Int.natCast_add]
        case hb =>
          intro j t k' x hx
          simp only [List.getD_eq_getElem?_getD] at hx
          cases x with
          | none => simp [prim_GET_ITEM, getItem, hx, fTy, prim, CV.truthy]
          | some t0 => simp [prim_GET_ITEM, prim_TypeCheck, getItem, hx, fTy, helpers_type_converter]
        case hm =>
          have := coerceScan_length v rest
          rw [hcs] at this
          simp at this; omega
        case hn =>
          rcases hrel' with h | h
          · exact Or.inl (by simpa using h.1)
          · exact Or.inr (by simpa using h)
        case hit =>
          intro idx h
          rcases hrel' with h' | h'
          · simpa using h'.2 idx h
          · simp at h'; simp [h'.1] at h
        case hQ =>
          intro j2 t2
          by_cases hany : coerceAny v after = true
          · simp [hany]
            cases E.cast ty v <;> simp [exceptToC]
          · simp [hany, prim_raise]

end TraitsVerif.Model.CSrc
