/-
Helper lemmas for C10, part 4: freshness.  For default kinds that promise a copy
(`GoodCore`), `default_value_for` returns an atom, the object itself, or an
identity allocated by this very call, whose elements are atoms or identities
allocated by this call.
-/
import TraitsVerif.Lemmas.AttrWorld
namespace TraitsVerif.Model.Attr
open TraitsVerif

/-- Identities below `P` are atoms (immutable values: None, numbers, strings …);
containers live in `[P, alloc)` and hold identities below `alloc`. -/
structure CtxWF (P : Nat) (c : Ctx) : Prop where
  base : P ≤ c.alloc
  heap : ∀ x ys, heapGet c.heap x = some ys → P ≤ x ∧ x < c.alloc ∧ ∀ y ∈ ys, y < c.alloc

/-- `c'` extends `c` by allocations only; the new containers hold atoms or
identities at or above `b`. -/
structure CGrow (P b : Nat) (c c' : Ctx) : Prop where
  wf : CtxWF P c'
  le : c.alloc ≤ c'.alloc
  old : ∀ x, x < c.alloc → heapGet c'.heap x = heapGet c.heap x
  new : ∀ x ys, c.alloc ≤ x → heapGet c'.heap x = some ys → ∀ y ∈ ys, y < P ∨ b ≤ y

theorem CGrow.refl {P : Nat} (b : Nat) {c : Ctx} (h : CtxWF P c) : CGrow P b c c :=
  ⟨h, Nat.le_refl _, fun _ _ => rfl, fun x ys hx hg => absurd (h.heap x ys hg).2.1 (Nat.not_lt.mpr hx)⟩

theorem CGrow.trans {P b : Nat} {c1 c2 c3 : Ctx} (h1 : CGrow P b c1 c2) (h2 : CGrow P b c2 c3) :
    CGrow P b c1 c3 := by
  refine ⟨h2.wf, Nat.le_trans h1.le h2.le,
    fun x hx => (h2.old x (Nat.lt_of_lt_of_le hx h1.le)).trans (h1.old x hx), ?_⟩
  intro x ys hx hg
  rcases Nat.lt_or_ge x c2.alloc with h | h
  · rw [h2.old x h] at hg
    exact h1.new x ys hx hg
  · exact h2.new x ys h hg

/-- Same heap and allocation counter (only logs / ordinals differ). -/
theorem CGrow.ofSame {P : Nat} (b : Nat) {c c' : Ctx} (h : CtxWF P c) (ha : c'.alloc = c.alloc)
    (hh : c'.heap = c.heap) : CGrow P b c c' :=
  ⟨⟨by rw [ha]; exact h.base, fun x ys hg => by rw [hh] at hg; rw [ha]; exact h.heap x ys hg⟩,
   Nat.le_of_eq ha.symm, fun _ _ => by rw [hh],
   fun x ys hx hg => by rw [hh] at hg; exact absurd (h.heap x ys hg).2.1 (Nat.not_lt.mpr hx)⟩

theorem heapGet_fresh_none {P : Nat} {c : Ctx} (h : CtxWF P c) (x : Id) (hx : c.alloc ≤ x) :
    heapGet c.heap x = none := by
  cases hg : heapGet c.heap x with
  | none => rfl
  | some ys => exact absurd (h.heap x ys hg).2.1 (Nat.not_lt.mpr hx)

theorem newContainer_grow {P b : Nat} {c : Ctx} (h : CtxWF P c) (xs : List Id)
    (hxs : ∀ y ∈ xs, y < P ∨ (b ≤ y ∧ y < c.alloc)) :
    CGrow P b c (c.newContainer xs).2 ∧ (c.newContainer xs).1 = c.alloc ∧
    (c.newContainer xs).2.alloc = c.alloc + 1 := by
  unfold Ctx.newContainer
  refine ⟨⟨⟨Nat.le_succ_of_le h.base, ?_⟩, Nat.le_succ _, fun x hx => heapGet_append_ne _ _ _ _ (Nat.ne_of_lt hx),
    ?_⟩, rfl, rfl⟩
  · intro x ys hg
    simp only [] at hg ⊢
    by_cases hx : x = c.alloc
    · subst hx
      rw [heapGet_append_self _ _ _ (heapGet_fresh_none h _ (Nat.le_refl _))] at hg
      injection hg with hg
      subst hg
      refine ⟨h.base, Nat.lt_succ_self _, fun y hy => ?_⟩
      rcases hxs y hy with h1 | h1
      · exact Nat.lt_succ_of_lt (Nat.lt_of_lt_of_le h1 h.base)
      · exact Nat.lt_succ_of_lt h1.2
    · rw [heapGet_append_ne _ _ _ _ hx] at hg
      obtain ⟨a1, a2, a3⟩ := h.heap x ys hg
      exact ⟨a1, Nat.lt_succ_of_lt a2, fun y hy => Nat.lt_succ_of_lt (a3 y hy)⟩
  · intro x ys hx hg
    simp only [] at hg
    by_cases hxa : x = c.alloc
    · subst hxa
      rw [heapGet_append_self _ _ _ (heapGet_fresh_none h _ (Nat.le_refl _))] at hg
      injection hg with hg
      subst hg
      intro y hy
      rcases hxs y hy with h1 | h1
      · exact Or.inl h1
      · exact Or.inr h1.1
    · rw [heapGet_append_ne _ _ _ _ hxa] at hg
      exact absurd (h.heap x ys hg).2.1 (Nat.not_lt.mpr hx)

/-- What a default factory may return: an atom, or a fresh container of atoms
and fresh containers of atoms. -/
def GoodRes (P : Nat) : FRes → Prop
  | .existing v => v < P
  | .fresh es _ => ∀ e ∈ es, match e with
    | .atom v => v < P
    | .inner xs => ∀ y ∈ xs, y < P

theorem allocElems_grow {P b : Nat} : ∀ (es : List Elem) (c : Ctx), CtxWF P c → b ≤ c.alloc →
    (∀ e ∈ es, match e with
      | .atom v => v < P
      | .inner xs => ∀ y ∈ xs, y < P) →
    CGrow P b c (c.allocElems es).2 ∧ (c.allocElems es).2.frozen = c.frozen ∧
    ∀ v ∈ (c.allocElems es).1, v < P ∨ (b ≤ v ∧ v < (c.allocElems es).2.alloc)
  | [], c, h, _, _ => ⟨CGrow.refl b h, rfl, by simp [Ctx.allocElems]⟩
  | .atom v :: es, c, h, hb, he => by
    have ih := allocElems_grow es c h hb (fun e hm => he e (List.mem_cons_of_mem _ hm))
    have hv : v < P := he (.atom v) List.mem_cons_self
    simp only [Ctx.allocElems]
    refine ⟨ih.1, ih.2.1, ?_⟩
    intro u hu
    rcases List.mem_cons.mp hu with h1 | h1
    · exact Or.inl (h1 ▸ hv)
    · exact ih.2.2 u h1
  | .inner xs :: es, c, h, hb, he => by
    have hxs : ∀ y ∈ xs, y < P := he (.inner xs) List.mem_cons_self
    have h1 := newContainer_grow (b := b) h xs (fun y hy => Or.inl (hxs y hy))
    have ih := allocElems_grow es (c.newContainer xs).2 h1.1.wf (Nat.le_trans hb h1.1.le)
      (fun e hm => he e (List.mem_cons_of_mem _ hm))
    simp only [Ctx.allocElems]
    refine ⟨h1.1.trans ih.1, ih.2.1, ?_⟩
    intro u hu
    rcases List.mem_cons.mp hu with h2 | h2
    · right
      rw [h2, h1.2.1]
      exact ⟨hb, Nat.lt_of_lt_of_le (by rw [h1.2.2]; exact Nat.lt_succ_self _) ih.1.le⟩
    · exact ih.2.2 u h2

theorem allocRes_grow {P : Nat} (r : FRes) (c : Ctx) (h : CtxWF P c) (hr : GoodRes P r) :
    CGrow P c.alloc c (c.allocRes r).2 ∧
    ((c.allocRes r).1 < P ∨ (c.alloc ≤ (c.allocRes r).1 ∧ (c.allocRes r).1 < (c.allocRes r).2.alloc)) := by
  cases r with
  | existing v => exact ⟨CGrow.refl _ h, Or.inl hr⟩
  | fresh es fr =>
    have h1 := allocElems_grow (b := c.alloc) es c h (Nat.le_refl _) hr
    have h2 := newContainer_grow (b := c.alloc) h1.1.wf (c.allocElems es).1 (fun y hy => h1.2.2 y hy)
    have hg : CGrow P c.alloc c ((c.allocElems es).2.newContainer (c.allocElems es).1).2 := h1.1.trans h2.1
    have hid : ((c.allocElems es).2.newContainer (c.allocElems es).1).1 = (c.allocElems es).2.alloc := h2.2.1
    simp only [Ctx.allocRes]
    cases fr
    · refine ⟨hg, Or.inr ⟨?_, ?_⟩⟩
      · show c.alloc ≤ ((c.allocElems es).2.newContainer (c.allocElems es).1).1
        rw [hid]; exact h1.1.le
      · show ((c.allocElems es).2.newContainer (c.allocElems es).1).1 < _
        rw [hid, h2.2.2]; exact Nat.lt_succ_self _
    · refine ⟨⟨⟨hg.wf.base, hg.wf.heap⟩, hg.le, hg.old, hg.new⟩, Or.inr ⟨?_, ?_⟩⟩
      · show c.alloc ≤ ((c.allocElems es).2.newContainer (c.allocElems es).1).1
        rw [hid]; exact h1.1.le
      · show ((c.allocElems es).2.newContainer (c.allocElems es).1).1 <
          ((c.allocElems es).2.newContainer (c.allocElems es).1).2.alloc
        rw [hid, h2.2.2]; exact Nat.lt_succ_self _

/-- A trait definition whose default is copy-promising: constants are atoms,
copied templates hold atoms, factories return atoms or fresh containers;
validators map atoms to atoms and leave other values alone. -/
structure GoodCore (E : Env) (P : Nat) (c : Ctx) (t : TraitCore) : Prop where
  const : (t.dvt = Generated.CONSTANT_DEFAULT_VALUE ∨ t.dvt = Generated.MISSING_DEFAULT_VALUE) →
    t.dv.getD noneId < P
  copy : (t.dvt = Generated.LIST_COPY_DEFAULT_VALUE ∨ t.dvt = Generated.DICT_COPY_DEFAULT_VALUE
        ∨ t.dvt = Generated.TRAIT_LIST_OBJECT_DEFAULT_VALUE ∨ t.dvt = Generated.TRAIT_DICT_OBJECT_DEFAULT_VALUE
        ∨ t.dvt = Generated.TRAIT_SET_OBJECT_DEFAULT_VALUE) →
    ∀ y ∈ (heapGet c.heap (t.dv.getD noneId)).getD [], y < P
  factory : ∀ n a r, E.factory (t.dv.getD noneId) n a = .ok r → GoodRes P r
  validate : ∀ k, t.validate = some k → ∀ n v u, E.validate k n v = .ok u → u = v ∨ u < P

/-- Where a default value comes from. -/
def FreshVal (P : Nat) (self lo hi : Nat) (v : Id) : Prop := v < P ∨ v = self ∨ (lo ≤ v ∧ v < hi)

theorem callFactory_grow {E : Env} {P : Nat} (f obj : Id) (name : Name) (arg : Id) (c : Ctx) (h : CtxWF P c)
    (hf : ∀ n a r, E.factory f n a = .ok r → GoodRes P r) :
    CGrow P c.alloc c (callFactory E f obj name arg c).2 ∧
    ∀ v, (callFactory E f obj name arg c).1 = .ok v →
      v < P ∨ (c.alloc ≤ v ∧ v < (callFactory E f obj name arg c).2.alloc) := by
  unfold callFactory
  have h1 : CtxWF P { c with fcalls := c.fcalls ++ [(f, obj, name)] } := ⟨h.base, h.heap⟩
  cases hr : E.factory f c.fcalls.length arg with
  | error e => exact ⟨CGrow.ofSame _ h rfl rfl, fun v hv => by simp at hv⟩
  | ok r =>
    have h2 := allocRes_grow r { c with fcalls := c.fcalls ++ [(f, obj, name)] } h1 (hf _ _ _ hr)
    refine ⟨⟨h2.1.wf, h2.1.le, h2.1.old, h2.1.new⟩, fun v hv => ?_⟩
    simp only [] at hv
    injection hv with hv
    subst hv
    exact h2.2

theorem validateDefault_grow {E : Env} {P : Nat} (t : TraitCore) (v : Id) (c : Ctx) (b : Nat) (h : CtxWF P c)
    (hv : ∀ k, t.validate = some k → ∀ n v u, E.validate k n v = .ok u → u = v ∨ u < P) :
    CGrow P b c (validateDefault E t v c).2 ∧ (validateDefault E t v c).2.alloc = c.alloc ∧
    ∀ u, (validateDefault E t v c).1 = .ok u → u = v ∨ u < P := by
  unfold validateDefault
  cases hk : t.validate with
  | none => exact ⟨CGrow.refl b h, rfl, fun u hu => by simp at hu; exact Or.inl hu.symm⟩
  | some k =>
    simp only [runValidate, hk]
    cases hr : E.validate k c.nval v with
    | error e => exact ⟨CGrow.ofSame _ h rfl rfl, rfl, fun u hu => by simp at hu⟩
    | ok w =>
      simp only []
      split
      · exact ⟨CGrow.ofSame _ h rfl rfl, rfl, fun u hu => by simp at hu; exact Or.inl hu.symm⟩
      · exact ⟨CGrow.ofSame _ h rfl rfl, rfl, fun u hu => by
          simp at hu; subst hu; exact hv k hk _ _ _ hr⟩

theorem warn_ok {E : Env} {r : Except Exc Id} {v : Id} (h : warnOnAttributeError E r = .ok v) : r = .ok v := by
  unfold warnOnAttributeError at h
  split at h
  · split at h <;> cases h
  · exact h

/-- **Freshness of one default computation.** -/
theorem defaultValueFor_grow {E : Env} {P : Nat} (t : TraitCore) (obj : Id) (name : Name) (c : Ctx)
    (h : CtxWF P c) (g : GoodCore E P c t) :
    CGrow P c.alloc c (defaultValueFor E t obj name c).2 ∧
    ∀ v, (defaultValueFor E t obj name c).1 = .ok v →
      FreshVal P obj c.alloc (defaultValueFor E t obj name c).2.alloc v := by
  unfold defaultValueFor
  split
  · rename_i hk
    exact ⟨CGrow.refl _ h, fun v hv => by simp at hv; subst hv; exact Or.inl (g.const hk)⟩
  split
  · exact ⟨CGrow.refl _ h, fun v hv => by simp at hv; subst hv; exact Or.inr (Or.inl rfl)⟩
  split
  · rename_i hk
    have h1 := newContainer_grow (b := c.alloc) h ((heapGet c.heap (t.dv.getD noneId)).getD [])
      (fun y hy => Or.inl (g.copy hk y hy))
    refine ⟨h1.1, fun v hv => ?_⟩
    simp only [Ctx.copyOf] at hv ⊢
    injection hv with hv
    subst hv
    refine Or.inr (Or.inr ⟨?_, ?_⟩)
    · rw [h1.2.1]; exact Nat.le_refl _
    · rw [h1.2.1, h1.2.2]; exact Nat.lt_succ_self _
  split
  · have h1 := callFactory_grow (E := E) (t.dv.getD noneId) obj name noneId c h g.factory
    cases hc : callFactory E (t.dv.getD noneId) obj name noneId c with
    | mk r c1 =>
      rw [hc] at h1
      exact ⟨h1.1, fun v hv => (h1.2 v (warn_ok hv)).elim Or.inl (fun x => Or.inr (Or.inr x))⟩
  split
  · have h1 := callFactory_grow (E := E) (t.dv.getD noneId) obj name obj c h g.factory
    cases hc : callFactory E (t.dv.getD noneId) obj name obj c with
    | mk r c1 =>
      rw [hc] at h1
      cases r with
      | error e => exact ⟨h1.1, fun v hv => by have := warn_ok hv; cases this⟩
      | ok v0 =>
        have h2 := validateDefault_grow (E := E) t v0 c1 c.alloc h1.1.wf g.validate
        refine ⟨h1.1.trans h2.1, fun u hu => ?_⟩
        simp only [] at hu ⊢
        rcases h2.2.2 u (warn_ok hu) with e | e
        · subst e
          rw [h2.2.1]
          exact (h1.2 u rfl).elim Or.inl (fun x => Or.inr (Or.inr x))
        · exact Or.inl e
  · exact ⟨CGrow.refl _ h, fun v hv => by simp at hv⟩

/-! ### One statement on one (object, attribute) pair -/

theorem CGrow.mono {P b b' : Nat} {c c' : Ctx} (h : CGrow P b c c') (hb : b' ≤ b) : CGrow P b' c c' :=
  ⟨h.wf, h.le, h.old, fun x ys hx hg y hy => (h.new x ys hx hg y hy).elim Or.inl (fun e => Or.inr (Nat.le_trans hb e))⟩

theorem GoodCore.ofHeap {E : Env} {P : Nat} {c c' : Ctx} {t : TraitCore} (g : GoodCore E P c t)
    (h : c'.heap = c.heap) : GoodCore E P c' t :=
  ⟨g.const, fun hk => by rw [h]; exact g.copy hk, g.factory, g.validate⟩

/-- Effect of one statement for a copy-promising trait: the context grows by
allocations; the slot keeps its value or receives an atom, the object itself or
an identity allocated by this statement. -/
structure OGrow (P : Nat) (s s' : OSt) : Prop where
  self : s'.self = s.self
  grow : CGrow P s.ctx.alloc s.ctx s'.ctx
  slot : s'.slot = s.slot ∨ ∃ v, s'.slot = some v ∧ FreshVal P s.self s.ctx.alloc s'.ctx.alloc v

theorem OGrow.refl {P : Nat} {s : OSt} (h : CtxWF P s.ctx) : OGrow P s s :=
  ⟨rfl, CGrow.refl _ h, Or.inl rfl⟩

theorem FreshVal.widen {P self lo hi lo' hi' : Nat} {v : Id} (h : FreshVal P self lo hi v) (h1 : lo' ≤ lo)
    (h2 : hi ≤ hi') : FreshVal P self lo' hi' v :=
  h.elim Or.inl (fun h => h.elim (fun e => Or.inr (Or.inl e))
    (fun e => Or.inr (Or.inr ⟨Nat.le_trans h1 e.1, Nat.lt_of_lt_of_le e.2 h2⟩)))

theorem OGrow.trans {P : Nat} {a b c : OSt} (h1 : OGrow P a b) (h2 : OGrow P b c) : OGrow P a c := by
  refine ⟨h2.self.trans h1.self, h1.grow.trans (h2.grow.mono h1.grow.le), ?_⟩
  rcases h2.slot with e2 | ⟨v, e2, f2⟩
  · rcases h1.slot with e1 | ⟨v, e1, f1⟩
    · exact Or.inl (e2.trans e1)
    · exact Or.inr ⟨v, e2.trans e1, f1.widen (Nat.le_refl _) h2.grow.le⟩
  · exact Or.inr ⟨v, e2, by rw [h1.self] at f2; exact f2.widen h1.grow.le (Nat.le_refl _)⟩

/-- A change that leaves heap, allocation counter and slot alone. -/
theorem OGrow.ofSame {P : Nat} {s s' : OSt} (h : CtxWF P s.ctx) (h1 : s'.self = s.self) (h2 : s'.slot = s.slot)
    (h3 : s'.ctx.alloc = s.ctx.alloc) (h4 : s'.ctx.heap = s.ctx.heap) : OGrow P s s' :=
  ⟨h1, CGrow.ofSame _ h h3 h4, Or.inl h2⟩

/-- Storing an atom / the object / a fresh identity. -/
theorem OGrow.store {P : Nat} {s : OSt} (h : CtxWF P s.ctx) (v : Id)
    (hv : FreshVal P s.self s.ctx.alloc s.ctx.alloc v ∨ v < P) : OGrow P s { s with slot := some v } :=
  ⟨rfl, CGrow.refl _ h, Or.inr ⟨v, rfl, hv.elim id Or.inl⟩⟩

theorem NFrame.toO {P : Nat} {s s' : OSt} (h : CtxWF P s.ctx) (f : NFrame s s') : OGrow P s s' :=
  OGrow.ofSame h f.self f.slot f.alloc f.heap

theorem postSetattr_ogrow {P : Nat} (E : Env) (t : TraitCore) (v : Id) (s : OSt) (h : CtxWF P s.ctx) :
    OGrow P s (postSetattr E t v s).2 := by
  unfold postSetattr
  cases t.post with
  | none => exact OGrow.refl h
  | some p =>
    simp only []
    split <;> exact OGrow.ofSame h rfl rfl rfl rfl

theorem defaultValueFor_ogrow {E : Env} {P : Nat} (t : TraitCore) (s : OSt) (h : CtxWF P s.ctx)
    (g : GoodCore E P s.ctx t) :
    OGrow P s (s.defaultValueFor E t).2 ∧ (s.defaultValueFor E t).2.slot = s.slot ∧
    ∀ v, (s.defaultValueFor E t).1 = .ok v →
      FreshVal P s.self s.ctx.alloc (s.defaultValueFor E t).2.ctx.alloc v := by
  have h1 := defaultValueFor_grow (E := E) t s.self s.name s.ctx h g
  unfold OSt.defaultValueFor
  exact ⟨⟨rfl, h1.1, Or.inl rfl⟩, rfl, h1.2⟩

theorem getattrTrait_ogrow {E : Env} {P : Nat} (t : TraitCore) (s : OSt) (h : CtxWF P s.ctx)
    (g : GoodCore E P s.ctx t) : OGrow P s (getattrTrait E t s).2 := by
  unfold getattrTrait
  have h1 := defaultValueFor_ogrow (E := E) t s h g
  cases hd : s.defaultValueFor E t with
  | mk r s1 =>
    rw [hd] at h1
    cases r with
    | error e => exact h1.1
    | ok v =>
      simp only []
      have hv := h1.2.2 v rfl
      have h2 : OGrow P s { s1 with slot := some v } :=
        ⟨h1.1.self, h1.1.grow, Or.inr ⟨v, rfl, hv⟩⟩
      have hwf : CtxWF P ({ s1 with slot := some v } : OSt).ctx := h1.1.grow.wf
      have h3 := postSetattr_ogrow E t v { s1 with slot := some v } hwf
      cases hp : postSetattr E t v { s1 with slot := some v } with
      | mk r2 s3 =>
        rw [hp] at h3
        cases r2 with
        | some e => exact h2.trans h3
        | none =>
          simp only []
          split
          · rw [callNotifiers_uninit']
            exact h2.trans h3
          · exact h2.trans h3

theorem getattro_ogrow {E : Env} {P : Nat} (t : TraitCore) (s : OSt) (h : CtxWF P s.ctx)
    (g : GoodCore E P s.ctx t) : OGrow P s (getattro E t s).2 := by
  unfold getattro
  cases s.slot with
  | some v => exact OGrow.refl h
  | none =>
    simp only [traitGetattr]
    cases t.kind
    · exact getattrTrait_ogrow t s h g
    · exact OGrow.refl h

theorem validateAssigned_ogrow {E : Env} {P : Nat} (t : TraitCore) (v : Id) (s : OSt) (h : CtxWF P s.ctx)
    (hv : v < P) (g : ∀ k, t.validate = some k → ∀ n v u, E.validate k n v = .ok u → u = v ∨ u < P) :
    OGrow P s (s.validateAssigned E t v).2 ∧ (s.validateAssigned E t v).2.ctx.heap = s.ctx.heap ∧
    (s.validateAssigned E t v).2.slot = s.slot ∧
    ∀ u, (s.validateAssigned E t v).1 = .ok u → u < P := by
  unfold OSt.validateAssigned
  split
  · unfold runValidate
    cases hk : t.validate with
    | none => exact ⟨OGrow.refl h, rfl, rfl, fun u hu => by simp at hu; exact hu ▸ hv⟩
    | some k =>
      refine ⟨OGrow.ofSame h rfl rfl rfl rfl, rfl, rfl, fun u hu => ?_⟩
      simp only [] at hu
      rcases g k hk _ _ _ hu with e | e
      · exact e ▸ hv
      · exact e
  · exact ⟨OGrow.refl h, rfl, rfl, fun u hu => by simp at hu; exact hu ▸ hv⟩

theorem fetchOld_ogrow {E : Env} {P : Nat} (t : TraitCore) (c0 dn : Bool) (w : Id) (s : OSt) (h : CtxWF P s.ctx)
    (g : GoodCore E P s.ctx t) : OGrow P s (s.fetchOld E t c0 dn w).2 := by
  unfold OSt.fetchOld
  split
  · cases hs : s.slot with
    | some old => exact OGrow.refl h
    | none =>
      simp only []
      have h1 := defaultValueFor_ogrow (E := E) t s h g
      cases hd : s.defaultValueFor E t with
      | mk r s2 =>
        rw [hd] at h1
        cases r with
        | error e => exact h1.1
        | ok old =>
          simp only []
          have hv := h1.2.2 old rfl
          have h2 : OGrow P s { s2 with slot := some old } := ⟨h1.1.self, h1.1.grow, Or.inr ⟨old, rfl, hv⟩⟩
          have hwf : CtxWF P ({ s2 with slot := some old } : OSt).ctx := h1.1.grow.wf
          have h3 := postSetattr_ogrow E t old { s2 with slot := some old } hwf
          cases hp : postSetattr E t old { s2 with slot := some old } with
          | mk r2 s4 =>
            rw [hp] at h3
            cases r2 <;> exact h2.trans h3
  · exact OGrow.refl h

theorem setattrTrait_ogrow {E : Env} {P : Nat} (t : TraitCore) (v : Id) (s : OSt) (h : CtxWF P s.ctx)
    (hv : v < P) (g : GoodCore E P s.ctx t) : OGrow P s (setattrTrait E t (some v) s).2 := by
  unfold setattrTrait
  simp only []
  have h1 := validateAssigned_ogrow (E := E) t v s h hv g.validate
  cases hva : s.validateAssigned E t v with
  | mk r s1 =>
    rw [hva] at h1
    cases r with
    | error e => exact h1.1
    | ok value =>
      simp only []
      have hval : value < P := h1.2.2.2 value rfl
      have hwf1 : CtxWF P s1.ctx := h1.1.grow.wf
      have g1 : GoodCore E P s1.ctx t := g.ofHeap h1.2.1
      have h2 := fetchOld_ogrow (E := E) t (testFlag t.flags Generated.TRAIT_COMPARISON_MODE_NONE)
        (hasNotifiers s1.tn s1.on) value s1 hwf1 g1
      cases hf : s1.fetchOld E t (testFlag t.flags Generated.TRAIT_COMPARISON_MODE_NONE)
          (hasNotifiers s1.tn s1.on) value with
      | mk r2 s2 =>
        rw [hf] at h2
        cases r2 with
        | error e => exact h1.1.trans h2
        | ok p =>
          obtain ⟨oldOpt, changed⟩ := p
          simp only []
          have hwf2 : CtxWF P s2.ctx := h2.grow.wf
          have hnew : (if testFlag t.flags Generated.TRAIT_SETATTR_ORIGINAL_VALUE = true then v else value) < P := by
            split
            · exact hv
            · exact hval
          have h3 : OGrow P s { s2 with slot := some (if testFlag t.flags Generated.TRAIT_SETATTR_ORIGINAL_VALUE = true
              then v else value) } :=
            (h1.1.trans h2).trans (OGrow.store hwf2 _ (Or.inr hnew))
          split
          · have hwf3 : CtxWF P ({ s2 with slot := some (if testFlag t.flags Generated.TRAIT_SETATTR_ORIGINAL_VALUE
                = true then v else value) } : OSt).ctx := hwf2
            have h4 := postSetattr_ogrow E t
              (if testFlag t.flags Generated.TRAIT_POST_SETATTR_ORIGINAL_VALUE = true then v else value)
              { s2 with slot := some (if testFlag t.flags Generated.TRAIT_SETATTR_ORIGINAL_VALUE = true
                then v else value) } hwf3
            cases hp : postSetattr E t
              (if testFlag t.flags Generated.TRAIT_POST_SETATTR_ORIGINAL_VALUE = true then v else value)
              { s2 with slot := some (if testFlag t.flags Generated.TRAIT_SETATTR_ORIGINAL_VALUE = true
                then v else value) } with
            | mk r3 s4 =>
              rw [hp] at h4
              cases r3 with
              | some e => exact h3.trans h4
              | none =>
                simp only []
                split
                · exact (h3.trans h4).trans ((callNotifiers_frame E t _ _ _ _ s4).toO h4.grow.wf)
                · exact h3.trans h4
          · exact h3

theorem setattrEvent_ogrow {E : Env} {P : Nat} (t : TraitCore) (v : Id) (s : OSt) (h : CtxWF P s.ctx) :
    OGrow P s (setattrEvent E t (some v) s).2 := by
  unfold setattrEvent
  simp only []
  cases hv : t.validate with
  | none =>
    simp only []
    split
    · exact (callNotifiers_frame E t _ _ _ _ s).toO h
    · exact OGrow.refl h
  | some k =>
    simp only [runValidate, hv]
    cases E.validate k s.ctx.nval v with
    | error e => exact OGrow.ofSame h rfl rfl rfl rfl
    | ok w =>
      simp only []
      have h1 : OGrow P s { s with ctx := { s.ctx with nval := s.ctx.nval + 1 } } := OGrow.ofSame h rfl rfl rfl rfl
      split
      · exact h1.trans ((callNotifiers_frame E t _ _ _ _ _).toO h1.grow.wf)
      · exact h1

/-- The four operations the world model performs on one attribute. -/
theorem step_ogrow {E : Env} {P : Nat} (t : TraitCore) (s : OSt) (op : Op) (h : CtxWF P s.ctx)
    (g : GoodCore E P s.ctx t)
    (hop : op = .get ∨ (∃ v, op = .set v ∧ v < P) ∨ (∃ k p, op = .regDyn k p) ∨ (∃ k, op = .regObs k)) :
    OGrow P s (step E t s op).2 := by
  rcases hop with rfl | ⟨v, rfl, hv⟩ | ⟨k, p, rfl⟩ | ⟨k, rfl⟩
  · have h1 := getattro_ogrow (E := E) t s h g
    show OGrow P s (match getattro E t s with
      | (.ok v, s') => (({ val := some v } : Res), s')
      | (.error e, s') => ({ exc := some e }, s')).2
    cases hg : getattro E t s with
    | mk r s' => rw [hg] at h1; cases r <;> exact h1
  · show OGrow P s (traitSetattr E t (some v) s).2
    unfold traitSetattr
    cases t.kind
    · exact setattrTrait_ogrow t v s h hv g
    · exact setattrEvent_ogrow t v s h
  · have f := regDynamic_sframe s k p
    show OGrow P s (s.regDynamic k p)
    unfold OSt.regDynamic
    have h0 : OGrow P s s.ensureItrait := (NFrame.ensureItrait s).toO h
    simp only []
    split <;> exact h0.trans (OGrow.ofSame h0.grow.wf rfl rfl rfl rfl)
  · show OGrow P s (s.regObserve k)
    unfold OSt.regObserve
    have h0 : OGrow P s s.ensureItrait := (NFrame.ensureItrait s).toO h
    simp only []
    split <;> exact h0.trans (OGrow.ofSame h0.grow.wf rfl rfl rfl rfl)

end TraitsVerif.Model.Attr
