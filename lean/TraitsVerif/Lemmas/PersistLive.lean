/-
Liveness lemmas for the `persist` cluster: a `Live` value rejects invalid items
at every declared container, at every depth, and stays `Live` under the
mutations it accepts (so the copy is a reachable state of the live container
model, C04).
-/
import TraitsVerif.Lemmas.PersistValue
set_option linter.unusedSimpArgs false
namespace TraitsVerif.Lemmas.Persist
open TraitsVerif TraitsVerif.Model.Persist

/-- The declared shape at a position (child indices) below a trait of shape `sh`. -/
def shapeAt : Shape → List Nat → Shape
  | sh, [] => sh
  | .cont _ _ iT _ _, _ :: ps => shapeAt iT ps
  | _, _ :: _ => .any

/-- What the container at a declared position demands of a new item. -/
def Accepts (E : Env) (o n : Nat) (sh : Shape) (key : Leaf) (item : CVal) : Prop :=
  match sh with
  | .cont .lst _ iT _ _ => ∃ r, validate E o iT n item = .ok r
  | .cont .dct kT iT _ _ => (∃ k', E.lv kT key = .ok k') ∧ ∃ r, validate E o iT n item = .ok r
  | .cont .st kT _ _ _ => ∃ k', E.lv kT key = .ok k'
  | _ => True

theorem putKV_forall {P : Leaf → Prop} {Q : CVal → Prop} {key : Leaf} {item : CVal} (hk : P key) (hi : Q item) :
    ∀ (keys : List Leaf) (kids : List CVal), (∀ k ∈ keys, P k) → (∀ v ∈ kids, Q v) →
      (∀ k ∈ (putKV keys kids key item).1, P k) ∧ (∀ v ∈ (putKV keys kids key item).2, Q v)
  | [], kids, h1, h2 => by
    simp only [putKV]
    exact ⟨fun k hk' => by simp at hk'; rw [hk']; exact hk,
      fun v hv => by rcases List.mem_append.mp hv with h | h; exact h2 v h; simp at h; rw [h]; exact hi⟩
  | k :: ks, [], h1, h2 => by
    simp only [putKV]
    exact ⟨fun k' hk' => by
        rcases List.mem_append.mp hk' with h | h
        · exact h1 k' h
        · simp at h; rw [h]; exact hk,
      fun v hv => by simp at hv; rw [hv]; exact hi⟩
  | k :: ks, v :: vs, h1, h2 => by
    simp only [putKV]
    split
    · exact ⟨h1, fun w hw => by
        rcases List.mem_cons.mp hw with rfl | hw
        · exact hi
        · exact h2 w (by simp [hw])⟩
    · have ih := putKV_forall hk hi ks vs (fun a ha => h1 a (by simp [ha])) (fun a ha => h2 a (by simp [ha]))
      exact ⟨fun a ha => by
          rcases List.mem_cons.mp ha with rfl | ha
          · exact h1 _ (by simp)
          · exact ih.1 a ha,
        fun a ha => by
          rcases List.mem_cons.mp ha with rfl | ha
          · exact h2 _ (by simp)
          · exact ih.2 a ha⟩

/-- The step at the target node. -/
theorem nodeAdd_live {E : Env} (hI : Idem E) {o : Nat} {k : Kind} {kT : LeafTy} {iT : Shape} {lo hi i : Nat}
    {keys : List Leaf} {kids : List CVal} {n : Nat} {key : Leaf} {item : CVal} {v' : CVal} {n' : Nat}
    (hlen : k = .lst → lo ≤ kids.length ∧ kids.length ≤ hi)
    (hkeys : ∀ key ∈ keys, E.lv kT key = .ok key)
    (hkids : ∀ kid ∈ kids, Live E o iT kid)
    (h : nodeAdd E n k i (.bound o (.cont k kT iT lo hi)) keys kids key item = .ok (v', n')) :
    Live E o (.cont k kT iT lo hi) v' ∧ Accepts E o n (.cont k kT iT lo hi) key item := by
  unfold nodeAdd at h
  split at h
  · cases h
  · rename_i hlen'
    simp only [Binding.rule] at h
    cases k with
    | st =>
      simp only at h
      split at h
      · cases h
      · rename_i key' hk
        cases h
        refine ⟨?_, ⟨key', hk⟩⟩
        simp only [rawAdd]
        refine .node (fun hc => by cases hc) ?_ hkids
        intro a ha
        unfold addKey at ha
        split at ha
        · exact hkeys a ha
        · rcases List.mem_append.mp ha with h | h
          · exact hkeys a h
          · simp at h; rw [h]; exact hI _ _ _ hk
    | lst =>
      simp only at h
      split at h
      · cases h
      · rename_i item' n2 hv
        cases h
        refine ⟨?_, ⟨_, hv⟩⟩
        simp only [rawAdd]
        have hl := validate_live hI o _ _ _ _ _ hv
        refine .node ?_ hkeys ?_
        · intro _
          have := hlen rfl
          simp only [lengthOk, Bool.not_eq_true, Bool.not_eq_eq_eq_not, Bool.not_true] at hlen'
          have h3 : kids.length + 1 ≤ hi := by
            have := hlen'
            simp only [Bool.not_eq_true', decide_eq_false_iff_not, Nat.not_le] at this
            simp only [decide_eq_false_iff_not, Nat.not_le, Nat.not_lt] at this
            omega
          simp; omega
        · intro a ha
          rcases List.mem_append.mp ha with h | h
          · exact hkids a h
          · simp at h; rw [h]; exact hl
    | dct =>
      simp only at h
      split at h
      · cases h
      · rename_i key' hk
        split at h
        · cases h
        · rename_i item' n2 hv
          cases h
          refine ⟨?_, ⟨⟨key', hk⟩, ⟨_, hv⟩⟩⟩
          simp only [rawAdd]
          have hl := validate_live hI o _ _ _ _ _ hv
          have := putKV_forall (P := fun a => E.lv kT a = .ok a) (Q := fun a => Live E o iT a)
            (hI _ _ _ hk) hl keys kids hkeys hkids
          exact .node (fun hc => by cases hc) this.1 this.2

theorem accepts_any {E : Env} (o n : Nat) (path : List Nat) (key : Leaf) (item : CVal) :
    Accepts E o n (shapeAt .any path) key item := by
  cases path <;> simp [shapeAt, Accepts]

mutual
/-- A live value stays live under every mutation it accepts, and it accepts an
item at a declared container (at any depth) only if the trait of that position
accepts the item. -/
theorem addAt_live {E : Env} (hI : Idem E) (o : Nat) :
    ∀ (v : CVal) (path : List Nat) (sh : Shape) (n : Nat) (key : Leaf) (item : CVal) (v' : CVal) (n' : Nat),
      Live E o sh v → addAt E n key item path v = .ok (v', n') →
      Live E o sh v' ∧ Accepts E o n (shapeAt sh path) key item
  | .leaf a, path, sh, n, key, item, v', n', _, h => by
    cases path <;> simp [addAt] at h
  | .node k i b keys kids, [], sh, n, key, item, v', n', hl, h => by
    simp only [addAt] at h
    cases hl with
    | any _ => exact ⟨.any _, by simp [shapeAt, Accepts]⟩
    | node h1 h2 h3 => exact nodeAdd_live hI h1 h2 h3 h
  | .node k i b keys kids, p :: ps, sh, n, key, item, v', n', hl, h => by
    simp only [addAt] at h
    split at h
    · cases h
    · rename_i kids' n2 hk
      cases h
      cases hl with
      | any _ => exact ⟨.any _, accepts_any o n _ key item⟩
      | node h1 h2 h3 =>
        have ih := addAtL_live hI o kids p ps _ n key item kids' _ h3 hk
        refine ⟨.node ?_ h2 ih.1, ?_⟩
        · intro hc; rw [ih.2.1]; exact h1 hc
        · simpa [shapeAt] using ih.2.2
theorem addAtL_live {E : Env} (hI : Idem E) (o : Nat) :
    ∀ (l : List CVal) (p : Nat) (ps : List Nat) (sh : Shape) (n : Nat) (key : Leaf) (item : CVal)
      (l' : List CVal) (n' : Nat),
      (∀ kid ∈ l, Live E o sh kid) → addAtL E n key item p ps l = .ok (l', n') →
      (∀ kid ∈ l', Live E o sh kid) ∧ l'.length = l.length ∧ Accepts E o n (shapeAt sh ps) key item
  | [], p, ps, sh, n, key, item, l', n', _, h => by
    cases p <;> simp [addAtL] at h
  | v :: vs, 0, ps, sh, n, key, item, l', n', hl, h => by
    simp only [addAtL] at h
    split at h
    · cases h
    · rename_i v' n2 hv
      cases h
      have ih := addAt_live hI o v ps sh n key item v' _ (hl v (by simp)) hv
      refine ⟨?_, by simp, ih.2⟩
      intro kid hk
      rcases List.mem_cons.mp hk with rfl | hk
      · exact ih.1
      · exact hl kid (by simp [hk])
  | v :: vs, p + 1, ps, sh, n, key, item, l', n', hl, h => by
    simp only [addAtL] at h
    split at h
    · cases h
    · rename_i vs' n2 hv
      cases h
      have ih := addAtL_live hI o vs p ps sh n key item vs' _ (fun k hk => hl k (by simp [hk])) hv
      refine ⟨?_, by simp [ih.2.1], ih.2.2⟩
      intro kid hk
      rcases List.mem_cons.mp hk with rfl | hk
      · exact hl _ (by simp)
      · exact ih.1 kid hk
end

/-- A top-level declared container notifies the object it is bound to. -/
theorem live_notifies {E : Env} {o : Nat} {k : Kind} {kT : LeafTy} {iT : Shape} {lo hi : Nat} {v : CVal}
    (h : Live E o (.cont k kT iT lo hi) v) : notifiesAt [] v = some o := by
  cases h with
  | node _ _ _ => simp [notifiesAt]

end TraitsVerif.Lemmas.Persist
