/-
Cluster `obs`: the decomposition lemmas of `ObsInv.lean` for an arbitrary mutated
cell ("site"): a trait `o.n` read by `named n` nodes standing on `o`, or a
container read by its items observer.  Used for container mutations
(`ObsInvList.lean`); the trait-assignment proof keeps its own specialised copy.
-/
import TraitsVerif.Lemmas.ObsOnce
namespace TraitsVerif.Model.Obs.Gen
open TraitsVerif TraitsVerif.Model.Obs

/-- A mutated cell as the walks see it. -/
structure Site where
  /-- the node reads the cell when standing here (and has children) -/
  rd : Observer → W → Bool
  /-- the observable whose notifiers the mutation calls -/
  tgt : Observable
  /-- kind of the maintainers a reading node leaves there -/
  kind : MKind

variable (S : Site) (act : Observer → W → Bool)

mutual
def visits (h : Heap) : Graph → W → List Graph
  | .node ob cs, x => (if S.rd ob x && act ob x then cs else []) ++ visitsCs h ob x cs
def visitsCs (h : Heap) (ob : Observer) (x : W) : List Graph → List Graph
  | [] => []
  | c :: cs =>
    (if S.rd ob x then [] else (okOr [] (objects h ob x)).flatMap (fun y => visits h c y)) ++ visitsCs h ob x cs
end

mutual
def stable (h : Heap) (k : HKey) (extra : Bool) : Graph → W → List Item
  | .node ob cs, x =>
    ownItems h k ob cs x ++ stableCs h k ob x cs ++
    (if extra then (okOr [] (extraObservables h ob x)).map (fun ob' => (ob', NKey.maint .added (.node ob cs) k)) else [])
def stableCs (h : Heap) (k : HKey) (ob : Observer) (x : W) : List Graph → List Item
  | [] => []
  | c :: cs =>
    (if S.rd ob x then [] else (okOr [] (objects h ob x)).flatMap (fun y => stable h k true c y)) ++
    stableCs h k ob x cs
end

/-- what the site looks like in heap `h` (`act` = the read is effective there) -/
structure SiteOK (h : Heap) : Prop where
  own : ∀ ob x, S.rd ob x = true → act ob x = true → observables h ob x = .ok [S.tgt] ∧ ob.mkind = S.kind
  inactive : ∀ ob x, S.rd ob x = true → act ob x = false →
    (okOr [] (objects h ob x) : List W) = [] ∧ S.tgt ∉ (okOr [] (observables h ob x) : List Observable)
  other : ∀ ob x, ob.isFiltered = false → S.rd ob x = false →
    S.tgt ∉ (okOr [] (observables h ob x) : List Observable)

/-- `h'` differs from `h` only in the cell, whose content is `newObjs` in `h'`. -/
structure Rel (h h' : Heap) (newObjs : List W) : Prop where
  obs : ∀ ob x, ob.isFiltered = false → observables h' ob x = observables h ob x
  ext : ∀ ob x, ob.isFiltered = false → extraObservables h' ob x = extraObservables h ob x
  objs : ∀ ob x, ob.isFiltered = false → S.rd ob x = false → objects h' ob x = objects h ob x
  objsR : ∀ ob x, S.rd ob x = true → act ob x = true → objects h' ob x = .ok newObjs
  objsN : ∀ ob x, S.rd ob x = true → act ob x = false → objects h' ob x = objects h ob x

def blocks (h' : Heap) (k : HKey) (newObjs : List W) (vs : List Graph) (o' : Observable) (q : NKey) : Nat :=
  (vs.map (fun c => cntItems (newObjs.flatMap (fun w => hookList h' k true c w)) o' q)).sum

theorem blocks_append (h' : Heap) (k : HKey) (no : List W) (a b : List Graph) (o' : Observable) (q : NKey) :
    blocks h' k no (a ++ b) o' q = blocks h' k no a o' q + blocks h' k no b o' q := by
  simp [blocks, List.map_append, List.sum_append]

theorem blocks_nil (h' : Heap) (k : HKey) (no : List W) (o' : Observable) (q : NKey) :
    blocks h' k no [] o' q = 0 := rfl

theorem blocks_flatMap {α} (h' : Heap) (k : HKey) (no : List W) (l : List α) (f : α → List Graph)
    (o' : Observable) (q : NKey) :
    blocks h' k no (l.flatMap f) o' q = (l.map (fun a => blocks h' k no (f a) o' q)).sum := by
  induction l with
  | nil => rfl
  | cons a l ih => simp [List.flatMap_cons, blocks_append, ih]

variable {S act}

theorem ownItems_rel {h h' : Heap} {no : List W} (R : Rel S act h h' no) (k : HKey)
    (ob : Observer) (cs : List Graph) (x : W) (hf : ob.isFiltered = false) :
    ownItems h' k ob cs x = ownItems h k ob cs x := by
  simp [ownItems, R.obs ob x hf]

/-- L4 for a site. -/
theorem dec {h h' : Heap} {no : List W} (ok : SiteOK S act h) (R : Rel S act h h' no) (k : HKey) :
    ∀ g : Graph, g.noFiltered = true → ∀ (e : Bool) (x : W) (o' : Observable) (q : NKey),
      cntItems (hookList h' k e g x) o' q =
        cntItems (stable S h k e g x) o' q + blocks h' k no (visits S act h g x) o' q := by
  apply Graph.ind (P := fun g => g.noFiltered = true → ∀ (e : Bool) (x : W) (o' : Observable) (q : NKey),
      cntItems (hookList h' k e g x) o' q =
        cntItems (stable S h k e g x) o' q + blocks h' k no (visits S act h g x) o' q)
  intro ob cs ih hnf e x o' q
  obtain ⟨hf, hcs⟩ := (Graph.noFiltered_node ob cs).1 hnf
  have hC : ∀ cs' : List Graph, (∀ c ∈ cs', c ∈ cs) →
      cntItems (hookListCs h' k ob x cs') o' q =
        cntItems (stableCs S h k ob x cs') o' q +
        blocks h' k no ((if S.rd ob x && act ob x then cs' else []) ++ visitsCs S act h ob x cs') o' q := by
    intro cs'
    induction cs' with
    | nil => intro _; simp [hookListCs, stableCs, visitsCs, cntItems_nil, blocks_nil]
    | cons c cs' ihc =>
      intro hsub
      have hc := hsub c (List.mem_cons_self ..)
      have ihc' := ihc (fun c' hc' => hsub c' (List.mem_cons_of_mem _ hc'))
      rw [hookListCs_cons, cntItems_append, ihc']
      simp only [stableCs, visitsCs, cntItems_append, blocks_append]
      by_cases hr : S.rd ob x = true
      · by_cases ht : act ob x = true
        · simp only [hr, ht, Bool.and_self, if_true, cntItems_nil, blocks_nil, R.objsR ob x hr ht, okOr]
          have : blocks h' k no (c :: cs') o' q =
              cntItems (no.flatMap (fun w => hookList h' k true c w)) o' q + blocks h' k no cs' o' q := by
            simp [blocks]
          rw [this]; omega
        · have ht' : act ob x = false := by simpa using ht
          have hobj : (okOr [] (objects h' ob x) : List W) = [] := by
            rw [R.objsN ob x hr ht']; exact (ok.inactive ob x hr ht').1
          simp only [hr, ht', Bool.and_false, Bool.false_eq_true, if_false, if_true, hobj, List.flatMap_nil,
            cntItems_nil, blocks_nil, List.nil_append]
          omega
      · have hr' : S.rd ob x = false := by simpa using hr
        simp only [hr', Bool.false_and, Bool.false_eq_true, if_false, List.nil_append, R.objs ob x hf hr']
        rw [cntItems_flatMap, cntItems_flatMap, blocks_flatMap]
        have : ∀ y, cntItems (hookList h' k true c y) o' q =
            cntItems (stable S h k true c y) o' q + blocks h' k no (visits S act h c y) o' q :=
          fun y => ih c hc (hcs c hc) true y o' q
        simp only [this, sum_map_add]
        simp only [blocks_nil, blocks_append] at *
        omega
  rw [hookList_node, cntItems_append, cntItems_append, hC cs (fun c hc => hc)]
  simp only [stable, visits, cntItems_append, ownItems_rel R k ob cs x hf, R.ext ob x hf, extraItems]
  omega

/-- at a visit every child graph leaves a maintainer on the target -/
theorem visit_item {h : Heap} (ok : SiteOK S act h) (k : HKey) (ob : Observer) (cs : List Graph) (x : W)
    (hr : S.rd ob x = true) (ht : act ob x = true) (c : Graph) (hc : c ∈ cs) :
    (S.tgt, NKey.maint S.kind c k) ∈ ownItems h k ob cs x := by
  obtain ⟨hos, hmk⟩ := ok.own ob x hr ht
  simp only [ownItems, hos, okOr, List.mem_append, List.mem_flatMap, List.mem_map]
  exact Or.inr ⟨S.tgt, by simp, c, hc, by rw [hmk]⟩

/-- L3 for a site. -/
theorem locality {h h' : Heap} {no : List W} (ok : SiteOK S act h) (R : Rel S act h h' no) (k : HKey) :
    ∀ g : Graph, g.noFiltered = true → ∀ (e : Bool) (x : W), (∀ it ∈ hookList h k e g x, it.1 ≠ S.tgt) →
      hookList h' k e g x = hookList h k e g x := by
  apply Graph.ind (P := fun g => g.noFiltered = true → ∀ (e : Bool) (x : W),
      (∀ it ∈ hookList h k e g x, it.1 ≠ S.tgt) → hookList h' k e g x = hookList h k e g x)
  intro ob cs ih hnf e x hno
  obtain ⟨hf, hcs⟩ := (Graph.noFiltered_node ob cs).1 hnf
  have hobj : cs ≠ [] → objects h' ob x = objects h ob x := by
    intro hne
    by_cases hr : S.rd ob x = true
    · by_cases ht : act ob x = true
      · exfalso
        obtain ⟨c, hc⟩ := List.exists_mem_of_ne_nil cs hne
        exact hno _ (mem_hookList_own h k e ob cs x _ (visit_item ok k ob cs x hr ht c hc)) rfl
      · exact R.objsN ob x hr (by simpa using ht)
    · exact R.objs ob x hf (by simpa using hr)
  have hC : ∀ cs' : List Graph, (∀ c ∈ cs', c ∈ cs) → hookListCs h' k ob x cs' = hookListCs h k ob x cs' := by
    intro cs'
    induction cs' with
    | nil => intro _; rfl
    | cons c cs' ihc =>
      intro hsub
      have hc := hsub c (List.mem_cons_self ..)
      have hne : cs ≠ [] := by intro e'; rw [e'] at hc; cases hc
      rw [hookListCs_cons, hookListCs_cons, ihc (fun c' hc' => hsub c' (List.mem_cons_of_mem _ hc')), hobj hne]
      congr 1
      apply flatMap_congr'
      intro y hy
      exact ih c hc (hcs c hc) true y (fun it hit => hno it (mem_hookList_child h k e ob cs x it c hc y hy hit))
  rw [hookList_node, hookList_node, hC cs (fun c hc => hc), ownItems_rel R k ob cs x hf, R.ext ob x hf]

/-! ### the maintainers `stable` leaves on the target are the visits -/

def visitHits (mk : MKind) (k : HKey) (vs : List Graph) (q0 : NKey) : Nat :=
  (vs.map (fun c => hit (NKey.maint mk c k) q0)).sum

theorem visitHits_append (mk : MKind) (k : HKey) (a b : List Graph) (q0 : NKey) :
    visitHits mk k (a ++ b) q0 = visitHits mk k a q0 + visitHits mk k b q0 := by
  simp [visitHits, List.map_append, List.sum_append]

theorem visitHits_flatMap {α} (mk : MKind) (k : HKey) (l : List α) (f : α → List Graph) (q0 : NKey) :
    visitHits mk k (l.flatMap f) q0 = (l.map (fun a => visitHits mk k (f a) q0)).sum := by
  induction l with
  | nil => rfl
  | cons a l ih => simp [List.flatMap_cons, visitHits_append, ih]

theorem cntItems_map_added' (g : Graph) (k : HKey) (os : List Observable) (o' : Observable) (mk : MKind)
    (hmk : mk ≠ .added) (c0 : Graph) (k0 : HKey) :
    cntItems (os.map (fun ob' => (ob', NKey.maint .added g k))) o' (.maint mk c0 k0) = 0 := by
  induction os with
  | nil => rfl
  | cons a os ih =>
    rw [List.map_cons, cntItems_cons, ih]
    have : (MKind.added == mk) = false := by cases mk <;> simp_all
    simp [wt, hit, NKey.equals, this]

theorem cntItems_flatMap_maint_notin (os : List Observable) (tgt : Observable) (mk : MKind) (k : HKey)
    (cs : List Graph) (q0 : NKey) (hn : tgt ∉ os) :
    cntItems (os.flatMap (fun ob' => cs.map (fun c => (ob', NKey.maint mk c k)))) tgt q0 = 0 := by
  rw [cntItems_flatMap]
  apply sum_map_zero
  intro ob' hob'
  rw [cntItems_maint_at]
  have : ob' ≠ tgt := fun e => hn (e ▸ hob')
  simp [this]

theorem ownItems_at_target {h : Heap} (ok : SiteOK S act h) (k : HKey) (ob : Observer) (cs : List Graph) (x : W)
    (hf : ob.isFiltered = false) (c0 : Graph) (k0 : HKey) :
    cntItems (ownItems h k ob cs x) S.tgt (.maint S.kind c0 k0) =
      visitHits S.kind k (if S.rd ob x && act ob x then cs else []) (.maint S.kind c0 k0) := by
  unfold ownItems
  rw [cntItems_append]
  have hu : cntItems (if ob.notify then (okOr [] (observables h ob x)).map (fun o' => (o', NKey.user k)) else [])
      S.tgt (.maint S.kind c0 k0) = 0 := by
    split
    · exact cntItems_map_user k _ _ _ _ _
    · rfl
  rw [hu, Nat.zero_add]
  by_cases hr : S.rd ob x = true
  · by_cases ht : act ob x = true
    · obtain ⟨hos, hmk⟩ := ok.own ob x hr ht
      simp only [hr, ht, Bool.and_self, if_true, hos, okOr, List.flatMap_cons, List.flatMap_nil, List.append_nil,
        cntItems_maint_at, hmk, visitHits]
    · have ht' : act ob x = false := by simpa using ht
      simp only [hr, ht', Bool.and_false, Bool.false_eq_true, if_false, visitHits, List.map_nil, List.sum_nil]
      exact cntItems_flatMap_maint_notin _ _ _ _ _ _ (ok.inactive ob x hr ht').2
  · have hr' : S.rd ob x = false := by simpa using hr
    simp only [hr', Bool.false_and, Bool.false_eq_true, if_false, visitHits, List.map_nil, List.sum_nil]
    exact cntItems_flatMap_maint_notin _ _ _ _ _ _ (ok.other ob x hf hr')

theorem stable_at_target {h : Heap} (ok : SiteOK S act h) (hmk : S.kind ≠ .added) (k : HKey) :
    ∀ g : Graph, g.noFiltered = true → ∀ (e : Bool) (x : W) (c0 : Graph) (k0 : HKey),
      cntItems (stable S h k e g x) S.tgt (.maint S.kind c0 k0) =
        visitHits S.kind k (visits S act h g x) (.maint S.kind c0 k0) := by
  apply Graph.ind (P := fun g => g.noFiltered = true → ∀ (e : Bool) (x : W) (c0 : Graph) (k0 : HKey),
      cntItems (stable S h k e g x) S.tgt (.maint S.kind c0 k0) =
        visitHits S.kind k (visits S act h g x) (.maint S.kind c0 k0))
  intro ob cs ih hnf e x c0 k0
  obtain ⟨hf, hcs⟩ := (Graph.noFiltered_node ob cs).1 hnf
  have hC : ∀ cs' : List Graph, (∀ c ∈ cs', c ∈ cs) →
      cntItems (stableCs S h k ob x cs') S.tgt (.maint S.kind c0 k0) =
        visitHits S.kind k (visitsCs S act h ob x cs') (.maint S.kind c0 k0) := by
    intro cs'
    induction cs' with
    | nil => intro _; rfl
    | cons c cs' ihc =>
      intro hsub
      have hc := hsub c (List.mem_cons_self ..)
      simp only [stableCs, visitsCs, cntItems_append, visitHits_append,
        ihc (fun c' hc' => hsub c' (List.mem_cons_of_mem _ hc'))]
      by_cases hr : S.rd ob x = true
      · simp [hr, cntItems_nil, visitHits]
      · have hr' : S.rd ob x = false := by simpa using hr
        simp only [hr', Bool.false_eq_true, if_false, cntItems_flatMap, visitHits_flatMap]
        have : ∀ y, cntItems (stable S h k true c y) S.tgt (.maint S.kind c0 k0) =
            visitHits S.kind k (visits S act h c y) (.maint S.kind c0 k0) := fun y => ih c hc (hcs c hc) true y c0 k0
        simp only [this]
  simp only [stable, visits, cntItems_append, visitHits_append, hC cs (fun c hc => hc),
    ownItems_at_target ok k ob cs x hf c0 k0]
  have : cntItems (if e then (okOr [] (extraObservables h ob x)).map
      (fun ob' => (ob', NKey.maint .added (.node ob cs) k)) else []) S.tgt (.maint S.kind c0 k0) = 0 := by
    split
    · exact cntItems_map_added' _ _ _ _ _ hmk _ _
    · rfl
  rw [this]; omega

theorem visits_noFiltered (h : Heap) :
    ∀ g : Graph, g.noFiltered = true → ∀ x, ∀ c ∈ visits S act h g x, c.noFiltered = true := by
  apply Graph.ind (P := fun g => g.noFiltered = true → ∀ x, ∀ c ∈ visits S act h g x, c.noFiltered = true)
  intro ob cs ih hnf x c hc
  obtain ⟨_, hcs⟩ := (Graph.noFiltered_node ob cs).1 hnf
  have hC : ∀ cs' : List Graph, (∀ c' ∈ cs', c' ∈ cs) → ∀ c ∈ visitsCs S act h ob x cs', c.noFiltered = true := by
    intro cs'
    induction cs' with
    | nil => intro _ c hc; simp [visitsCs] at hc
    | cons c' cs' ihc =>
      intro hsub c hc
      simp only [visitsCs, List.mem_append] at hc
      rcases hc with h1 | h1
      · split at h1
        · cases h1
        · simp only [List.mem_flatMap] at h1
          obtain ⟨y, _, hy⟩ := h1
          exact ih c' (hsub c' (List.mem_cons_self ..)) (hcs c' (hsub c' (List.mem_cons_self ..))) y c hy
      · exact ihc (fun c'' h'' => hsub c'' (List.mem_cons_of_mem _ h'')) c h1
  simp only [visits, List.mem_append] at hc
  rcases hc with h1 | h1
  · split at h1
    · exact hcs c h1
    · cases h1
  · exact hC cs (fun c' h' => h') c h1

end TraitsVerif.Model.Obs.Gen
