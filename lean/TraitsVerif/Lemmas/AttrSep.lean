/-
Helper lemmas for C10, part 5: the separation invariant.  In a world whose
trait definitions are all copy-promising (`GoodCore`), mutable objects reachable
from two different instances are disjoint, and disjoint from the class-level
default templates — after every history of operations.
-/
import TraitsVerif.Lemmas.AttrFresh
namespace TraitsVerif.Model.Attr
open TraitsVerif

/-! ### Association lists -/

theorem find?_assoc_map_other {β : Type} (l : List (Name × β)) (n m : Name) (b : β) (h : m ≠ n) :
    List.find? (fun e => e.1 == m) (l.map (fun e => if (e.1 == n) = true then (n, b) else e)) =
      List.find? (fun e => e.1 == m) l := by
  induction l with
  | nil => rfl
  | cons p l ih =>
    simp only [List.map_cons, List.find?_cons]
    by_cases hp : (p.1 == n) = true
    · have hpn : p.1 = n := by simpa using hp
      have h1 : (p.1 == m) = false := by simp [hpn]; exact fun e => h e.symm
      have h2 : ((n, b).1 == m) = false := by simp; exact fun e => h e.symm
      simp only [hp, if_true, h1, h2]
      exact ih
    · simp only [hp, Bool.false_eq_true, if_false]
      cases (p.1 == m)
      · exact ih
      · rfl

theorem assocGet_assocSet_ne {β : Type} (l : List (Name × β)) (n m : Name) (b : β) (h : m ≠ n) :
    assocGet (assocSet l n b) m = assocGet l m := by
  unfold assocGet assocSet
  split
  · rw [find?_assoc_map_other l n m b h]
  · rw [List.find?_append]
    cases hf : l.find? (fun e => e.1 == m) with
    | some p => simp
    | none =>
      have : ((n, b).1 == m) = false := by simp; exact fun e => h e.symm
      simp [List.find?, this]

theorem assocGet_assocErase {β : Type} (l : List (Name × β)) (n m : Name) :
    assocGet (assocErase l n) m = if m = n then none else assocGet l m := by
  unfold assocGet assocErase
  induction l with
  | nil => simp
  | cons p l ih =>
    by_cases hp : (p.1 == n) = true
    · have hpn : p.1 = n := by simpa using hp
      simp only [List.filter_cons, hp, Bool.not_true, Bool.false_eq_true, if_false, List.find?_cons]
      rw [ih]
      by_cases hm : m = n
      · simp [hm]
      · have : (p.1 == m) = false := by simp [hpn]; exact fun e => hm e.symm
        simp [hm, this]
    · simp only [List.filter_cons, hp, Bool.not_false, if_true, List.find?_cons]
      cases hpm : (p.1 == m)
      · simp only []
        exact ih
      · have hpm' : p.1 = m := by simpa using hpm
        have : m ≠ n := by rw [← hpm']; simpa using hp
        simp [this]

theorem assocGet_mem {β : Type} (l : List (Name × β)) (n : Name) (b : β) (h : assocGet l n = some b) :
    ∃ p ∈ l, p.2 = b := by
  unfold assocGet at h
  cases hf : l.find? (fun e => e.1 == n) with
  | none => simp [hf] at h
  | some p =>
    simp [hf] at h
    exact ⟨p, List.mem_of_find?_eq_some hf, h⟩

theorem mem_assocSet {β : Type} (l : List (Name × β)) (n : Name) (b : β) (p : Name × β)
    (h : p ∈ assocSet l n b) : p ∈ l ∨ p = (n, b) := by
  unfold assocSet at h
  split at h
  · simp only [List.mem_map] at h
    obtain ⟨q, hq, rfl⟩ := h
    split
    · exact Or.inr rfl
    · exact Or.inl hq
  · simp only [List.mem_append, List.mem_singleton] at h
    exact h

/-! ### The invariant -/

/-- The default kinds that promise a copy of a template. -/
def copyKind (t : TraitCore) : Prop :=
  t.dvt = Generated.LIST_COPY_DEFAULT_VALUE ∨ t.dvt = Generated.DICT_COPY_DEFAULT_VALUE
  ∨ t.dvt = Generated.TRAIT_LIST_OBJECT_DEFAULT_VALUE ∨ t.dvt = Generated.TRAIT_DICT_OBJECT_DEFAULT_VALUE
  ∨ t.dvt = Generated.TRAIT_SET_OBJECT_DEFAULT_VALUE

/-- `t` is the definition of a class trait or of an instance trait. -/
def World.Cores (w : World) (t : TraitCore) : Prop :=
  (∃ k ∈ w.classes, ∃ p ∈ k.traits, p.2.ctrait.core = t) ∨ (∃ o ∈ w.insts, ∃ p ∈ o.itraits, p.2.core = t)

/-- Well-formed world with copy-promising defaults, in which instances are
separated. -/
structure Good (E : Env) (P : Nat) (w : World) : Prop where
  wf : CtxWF P w.ctx
  three : noneId < P
  cores : ∀ t, w.Cores t → GoodCore E P w.ctx t
  templ : ∀ t, w.Cores t → copyKind t → t.dv.getD noneId < w.ctx.alloc
  vals : ∀ (i : Nat) (o : Inst), w.insts[i]? = some o → ∀ n v, assocGet o.dict n = some v → v < w.ctx.alloc
  oids : ∀ (i : Nat) (o : Inst), w.insts[i]? = some o → o.oid < w.ctx.alloc ∧ heapGet w.ctx.heap o.oid = none
  distinct : ∀ (a b : Nat) (oa ob : Inst), w.insts[a]? = some oa → w.insts[b]? = some ob → oa.oid = ob.oid → a = b
  /-- mutable objects reachable from two instances are disjoint -/
  sepI : ∀ a b x, a ≠ b → w.ReachIdx a x → w.Mut x → ¬ w.ReachIdx b x
  /-- … and are not default templates -/
  sepC : ∀ a x, w.ReachIdx a x → w.Mut x → ∀ t, w.Cores t → copyKind t → x ≠ t.dv.getD noneId

theorem World.traitOf_cores (w : World) (i : Nat) (o : Inst) (n : Name) (td : TraitDef)
    (hi : w.insts[i]? = some o) (h : w.traitOf o n = some td) : w.Cores td.core := by
  unfold World.traitOf at h
  cases hg : assocGet o.itraits n with
  | some t =>
    simp only [hg] at h
    injection h with h
    subst h
    obtain ⟨p, hp, rfl⟩ := assocGet_mem _ _ _ hg
    exact Or.inr ⟨o, List.mem_of_getElem? hi, p, hp, rfl⟩
  | none =>
    simp only [hg] at h
    unfold World.classTrait at h
    cases hc : w.classes[o.cls]? with
    | none => simp [hc] at h
    | some k =>
      simp only [hc, Option.bind_some] at h
      unfold ClassRec.get at h
      cases hf : k.traits.find? (fun e => e.1 == n) with
      | none => simp [hf] at h
      | some p =>
        simp [hf] at h
        exact Or.inl ⟨k, List.mem_of_getElem? hc, p, List.mem_of_find?_eq_some hf, by rw [h]⟩

/-- Reachability in terms of stored values. -/
theorem reach_lt {E : Env} {P : Nat} {w : World} (g : Good E P w) (i : Nat) (x : Id) (h : w.ReachIdx i x) :
    x < w.ctx.alloc := by
  obtain ⟨o, ho, n, v, hv, hx⟩ := h
  have hvl := g.vals i o ho n v hv
  rcases hx with rfl | hx
  · exact hvl
  · unfold World.kids at hx
    cases hg : heapGet w.ctx.heap v with
    | none => simp [hg] at hx
    | some ys =>
      simp [hg] at hx
      exact (g.wf.heap v ys hg).2.2 x hx

/-! ### Preservation by a statement that only allocates -/

/-- `w'` is `w` after a statement on instance `i` that only allocates: other
instances and the classes are untouched, instance `i` keeps its identity, its
values are old ones, atoms, itself or fresh identities, its trait definitions
are old ones or definitions already present in the world (or `extra`). -/
structure Extends (P : Nat) (i : Nat) (extra : TraitCore → Prop) (w w' : World) : Prop where
  classes : w'.classes = w.classes
  others : ∀ j, j ≠ i → w'.insts[j]? = w.insts[j]?
  grow : CGrow P w.ctx.alloc w.ctx w'.ctx
  self : ∀ o', w'.insts[i]? = some o' → ∃ o, w.insts[i]? = some o ∧ o'.oid = o.oid ∧
    (∀ n v, assocGet o'.dict n = some v →
      assocGet o.dict n = some v ∨ FreshVal P o.oid w.ctx.alloc w'.ctx.alloc v) ∧
    (∀ p ∈ o'.itraits, w.Cores p.2.core ∨ extra p.2.core)

theorem Extends.cores {P i : Nat} {extra : TraitCore → Prop} {w w' : World} (e : Extends P i extra w w')
    (t : TraitCore) (h : w'.Cores t) : w.Cores t ∨ extra t := by
  rcases h with ⟨k, hk, p, hp, rfl⟩ | ⟨o', ho', p, hp, rfl⟩
  · exact Or.inl (Or.inl ⟨k, e.classes ▸ hk, p, hp, rfl⟩)
  · obtain ⟨j, hj⟩ := List.getElem?_of_mem ho'
    by_cases hji : j = i
    · subst hji
      obtain ⟨o, -, -, -, hit⟩ := e.self o' hj
      exact hit p hp
    · rw [e.others j hji] at hj
      exact Or.inl (Or.inr ⟨o', List.mem_of_getElem? hj, p, hp, rfl⟩)

/-- Reachability after an allocating statement. -/
theorem Extends.reach_other {E : Env} {P i : Nat} {extra : TraitCore → Prop} {w w' : World}
    (g : Good E P w) (e : Extends P i extra w w') (j : Nat) (hj : j ≠ i) (x : Id) :
    w'.ReachIdx j x ↔ w.ReachIdx j x := by
  unfold World.ReachIdx World.kids
  rw [e.others j hj]
  constructor
  · rintro ⟨o, ho, n, v, hv, hx⟩
    have hvl := g.vals j o ho n v hv
    rw [e.grow.old v hvl] at hx
    exact ⟨o, ho, n, v, hv, hx⟩
  · rintro ⟨o, ho, n, v, hv, hx⟩
    have hvl := g.vals j o ho n v hv
    rw [← e.grow.old v hvl] at hx
    exact ⟨o, ho, n, v, hv, hx⟩

theorem Extends.reach_self {E : Env} {P i : Nat} {extra : TraitCore → Prop} {w w' : World}
    (g : Good E P w) (e : Extends P i extra w w') (x : Id) (h : w'.ReachIdx i x) :
    w.ReachIdx i x ∨ x < P ∨ (∃ o, w.insts[i]? = some o ∧ x = o.oid) ∨ w.ctx.alloc ≤ x := by
  obtain ⟨o', ho', n, v, hv, hx⟩ := h
  obtain ⟨o, ho, hoid, hvals, -⟩ := e.self o' ho'
  rcases hvals n v hv with hold | hfresh
  · -- an old value: its elements are the old elements
    have hvl := g.vals i o ho n v hold
    left
    unfold World.kids at hx
    rw [e.grow.old v hvl] at hx
    exact ⟨o, ho, n, v, hold, hx⟩
  · rcases hx with rfl | hx
    · rcases hfresh with h1 | h1 | h1
      · exact Or.inr (Or.inl h1)
      · exact Or.inr (Or.inr (Or.inl ⟨o, ho, h1⟩))
      · exact Or.inr (Or.inr (Or.inr h1.1))
    · unfold World.kids at hx
      cases hg : heapGet w'.ctx.heap v with
      | none => simp [hg] at hx
      | some ys =>
        simp [hg] at hx
        rcases hfresh with h1 | h1 | h1
        · -- atoms have no elements
          exact absurd h1 (Nat.not_lt.mpr (e.grow.wf.heap v ys hg).1)
        · -- the object itself is not a container
          have := (g.oids i o ho)
          rw [h1, e.grow.old o.oid this.1, this.2] at hg
          cases hg
        · rcases e.grow.new v ys h1.1 hg x hx with h2 | h2
          · exact Or.inr (Or.inl h2)
          · exact Or.inr (Or.inr (Or.inr h2))

theorem Extends.good {E : Env} {P i : Nat} {extra : TraitCore → Prop} {w w' : World}
    (g : Good E P w) (e : Extends P i extra w w')
    (hx : ∀ t, extra t → ¬ copyKind t ∧ ∀ c, GoodCore E P c t) : Good E P w' := by
  have hmut_old : ∀ x, x < w.ctx.alloc → (w'.Mut x ↔ w.Mut x) := by
    intro x hx
    unfold World.Mut
    rw [e.grow.old x hx]
  have hnot_mut_atom : ∀ x, x < P → ¬ w'.Mut x := by
    intro x hx hm
    unfold World.Mut at hm
    cases hg : heapGet w'.ctx.heap x with
    | none => simp [hg] at hm
    | some ys => exact absurd hx (Nat.not_lt.mpr (e.grow.wf.heap x ys hg).1)
  have hnot_mut_oid : ∀ o, w.insts[i]? = some o → ¬ w'.Mut o.oid := by
    intro o ho hm
    have := g.oids i o ho
    unfold World.Mut at hm
    rw [e.grow.old o.oid this.1, this.2] at hm
    simp at hm
  have hoidOf : ∀ (j : Nat) (o' : Inst), w'.insts[j]? = some o' → ∃ o, w.insts[j]? = some o ∧ o'.oid = o.oid := by
    intro j o' ho'
    by_cases hji : j = i
    · subst hji
      obtain ⟨o, ho, hoid, -, -⟩ := e.self o' ho'
      exact ⟨o, ho, hoid⟩
    · rw [e.others j hji] at ho'
      exact ⟨o', ho', rfl⟩
  refine ⟨e.grow.wf, g.three, ?_, ?_, ?_, ?_, ?dist, ?_, ?_⟩
  case dist =>
    intro a b oa ob ha hb hab
    obtain ⟨oa0, ha0, ea⟩ := hoidOf a oa ha
    obtain ⟨ob0, hb0, eb⟩ := hoidOf b ob hb
    exact g.distinct a b oa0 ob0 ha0 hb0 (by rw [← ea, ← eb]; exact hab)
  · -- cores
    intro t ht
    rcases e.cores t ht with h | h
    · have gc := g.cores t h
      refine ⟨gc.const, fun hk => ?_, gc.factory, gc.validate⟩
      rw [e.grow.old _ (g.templ t h hk)]
      exact gc.copy hk
    · exact (hx t h).2 _
  · -- templ
    intro t ht hk
    rcases e.cores t ht with h | h
    · exact Nat.lt_of_lt_of_le (g.templ t h hk) e.grow.le
    · exact absurd hk (hx t h).1
  · -- vals
    intro j o' ho' n v hv
    by_cases hji : j = i
    · subst hji
      obtain ⟨o, ho, hoid, hvals, -⟩ := e.self o' ho'
      rcases hvals n v hv with h | h
      · exact Nat.lt_of_lt_of_le (g.vals j o ho n v h) e.grow.le
      · rcases h with h | h | h
        · exact Nat.lt_of_lt_of_le h e.grow.wf.base
        · rw [h]; exact Nat.lt_of_lt_of_le (g.oids j o ho).1 e.grow.le
        · exact h.2
    · rw [e.others j hji] at ho'
      exact Nat.lt_of_lt_of_le (g.vals j o' ho' n v hv) e.grow.le
  · -- oids
    intro j o' ho'
    by_cases hji : j = i
    · subst hji
      obtain ⟨o, ho, hoid, -, -⟩ := e.self o' ho'
      have := g.oids j o ho
      rw [hoid]
      exact ⟨Nat.lt_of_lt_of_le this.1 e.grow.le, by rw [e.grow.old _ this.1]; exact this.2⟩
    · rw [e.others j hji] at ho'
      have := g.oids j o' ho'
      exact ⟨Nat.lt_of_lt_of_le this.1 e.grow.le, by rw [e.grow.old _ this.1]; exact this.2⟩
  · -- sepI
    intro a b x hab ha hm hb
    by_cases hai : a = i
    · subst hai
      have hb' := (e.reach_other g b (Ne.symm hab) x).mp hb
      have hxl := reach_lt g b x hb'
      rcases e.reach_self g x ha with h | h | ⟨o, ho, rfl⟩ | h
      · exact g.sepI a b x hab h ((hmut_old x hxl).mp hm) hb'
      · exact hnot_mut_atom x h hm
      · exact hnot_mut_oid o ho hm
      · exact absurd hxl (Nat.not_lt.mpr h)
    · have ha' := (e.reach_other g a hai x).mp ha
      have hxl := reach_lt g a x ha'
      by_cases hbi : b = i
      · subst hbi
        rcases e.reach_self g x hb with h | h | ⟨o, ho, rfl⟩ | h
        · exact g.sepI a b x hab ha' ((hmut_old x hxl).mp hm) h
        · exact hnot_mut_atom x h hm
        · exact hnot_mut_oid o ho hm
        · exact absurd hxl (Nat.not_lt.mpr h)
      · exact g.sepI a b x hab ha' ((hmut_old x hxl).mp hm) ((e.reach_other g b hbi x).mp hb)
  · -- sepC
    intro a x ha hm t ht hk
    rcases e.cores t ht with hc | hc
    · have htl := g.templ t hc hk
      by_cases hai : a = i
      · subst hai
        rcases e.reach_self g x ha with h | h | ⟨o, ho, rfl⟩ | h
        · exact g.sepC a x h ((hmut_old x (reach_lt g a x h)).mp hm) t hc hk
        · exact fun _ => hnot_mut_atom x h hm
        · exact fun _ => hnot_mut_oid o ho hm
        · exact fun e' => absurd htl (Nat.not_lt.mpr (e' ▸ h))
      · have ha' := (e.reach_other g a hai x).mp ha
        exact g.sepC a x ha' ((hmut_old x (reach_lt g a x ha')).mp hm) t hc hk
    · exact absurd hk (hx t hc).1

/-! ### The operations of the world model -/

/-- A focused statement that satisfies `OGrow` extends the world. -/
theorem onAttr_extends {E : Env} {P : Nat} {w : World} (g : Good E P w) (i : Nat) (n : Name)
    (f : TraitCore → OSt → Res × OSt)
    (hf : ∀ t s, CtxWF P s.ctx → GoodCore E P s.ctx t → OGrow P s (f t s).2) :
    Extends P i (fun _ => False) w (w.onAttr i n f).2 := by
  have hrefl : Extends P i (fun _ => False) w w :=
    ⟨rfl, fun _ _ => rfl, CGrow.refl _ g.wf, fun o' ho' => ⟨o', ho', rfl, fun _ _ h => Or.inl h,
      fun p hp => Or.inl (Or.inr ⟨o', List.mem_of_getElem? ho', p, hp, rfl⟩)⟩⟩
  unfold World.onAttr
  cases hi : w.insts[i]? with
  | none => exact hrefl
  | some o =>
    simp only []
    cases ht : w.traitOf o n with
    | none => exact hrefl
    | some td =>
      simp only []
      have hcore := w.traitOf_cores i o n td hi ht
      have hs := hf td.core (w.focus o n) g.wf (g.cores td.core hcore)
      cases hr : f td.core (w.focus o n) with
      | mk r s =>
        rw [hr] at hs
        simp only []
        refine ⟨rfl, fun j hj => setInst_get_other w i j _ _ hj, hs.grow, ?_⟩
        intro o' ho'
        rw [setInst_get_self w i o _ _ hi] at ho'
        injection ho' with ho'
        subst ho'
        refine ⟨o, hi, rfl, ?_, ?_⟩
        · intro m u hu
          unfold Inst.absorb at hu
          simp only [] at hu
          by_cases hmn : m = n
          · subst hmn
            cases hsl : s.slot with
            | none =>
              simp only [hsl, assocGet_assocErase, if_true] at hu
              cases hu
            | some v =>
              simp only [hsl, assocGet_assocSet_self] at hu
              injection hu with hu
              subst hu
              have hslot := hs.slot
              simp only [hsl] at hslot
              rcases hslot with e | ⟨v', e, fv⟩
              · left
                exact e.symm
              · right
                injection e with e
                subst e
                exact fv
          · left
            cases hsl : s.slot with
            | none => simpa [hsl, assocGet_assocErase, hmn] using hu
            | some v => simpa [hsl, assocGet_assocSet_ne _ _ _ _ hmn] using hu
        · intro p hp
          left
          unfold Inst.absorb at hp
          simp only [] at hp
          cases hit : s.it with
          | none =>
            simp only [hit] at hp
            exact Or.inr ⟨o, List.mem_of_getElem? hi, p, hp, rfl⟩
          | some l =>
            simp only [hit] at hp
            rcases mem_assocSet _ _ _ _ hp with h | h
            · exact Or.inr ⟨o, List.mem_of_getElem? hi, p, h, rfl⟩
            · subst h
              simp only []
              cases hcur : assocGet o.itraits n with
              | none => simpa [hcur] using hcore
              | some t0 =>
                obtain ⟨q, hq, hq2⟩ := assocGet_mem _ _ _ hcur
                simp only [Option.map_some, Option.getD_some]
                exact Or.inr ⟨o, List.mem_of_getElem? hi, q, hq, by rw [hq2]⟩

/-- Appending an atom to a container reachable from an instance keeps the world good. -/
theorem mutate_good {E : Env} {P : Nat} {w : World} (g : Good E P w) (i : Nat) (cid x : Id)
    (hr : w.ReachIdx i cid) (hx : x < P) : Good E P { w with ctx := (w.ctx.mutate cid x).2 } := by
  unfold Ctx.mutate
  cases hg : heapGet w.ctx.heap cid with
  | none => exact g
  | some ys =>
    simp only []
    split
    · exact g
    · have hmut : w.Mut cid := by unfold World.Mut; rw [hg]; rfl
      have hk : (heapGet w.ctx.heap cid).isSome = true := by rw [hg]; rfl
      have hne : ∀ y, y ≠ cid → heapGet (heapSet w.ctx.heap cid (ys ++ [x])) y = heapGet w.ctx.heap y :=
        fun y hy => heapGet_heapSet_ne _ _ _ _ hy
      have hself : heapGet (heapSet w.ctx.heap cid (ys ++ [x])) cid = some (ys ++ [x]) :=
        heapGet_heapSet_self _ _ _ hk
      have hsome : ∀ y, (heapGet (heapSet w.ctx.heap cid (ys ++ [x])) y).isSome = (heapGet w.ctx.heap y).isSome :=
        fun y => heapSet_isSome _ _ _ _ hk
      -- reachability grows by the atom only
      have hreach : ∀ a y, World.ReachIdx { w with ctx := { w.ctx with heap := heapSet w.ctx.heap cid (ys ++ [x]) } } a y →
          w.ReachIdx a y ∨ y = x := by
        rintro a y ⟨o, ho, n, v, hv, hy⟩
        rcases hy with rfl | hy
        · exact Or.inl ⟨o, ho, n, y, hv, Or.inl rfl⟩
        · unfold World.kids at hy
          simp only [] at hy
          by_cases hvc : v = cid
          · subst hvc
            rw [hself] at hy
            simp at hy
            rcases hy with hy | hy
            · exact Or.inl ⟨o, ho, n, v, hv, Or.inr (by unfold World.kids; rw [hg]; exact hy)⟩
            · exact Or.inr hy
          · rw [hne v hvc] at hy
            exact Or.inl ⟨o, ho, n, v, hv, Or.inr hy⟩
      have hxnm : ¬ w.Mut x := by
        intro hm
        unfold World.Mut at hm
        cases hgx : heapGet w.ctx.heap x with
        | none => simp [hgx] at hm
        | some zs => exact absurd hx (Nat.not_lt.mpr (g.wf.heap x zs hgx).1)
      have hmut' : ∀ y, World.Mut { w with ctx := { w.ctx with heap := heapSet w.ctx.heap cid (ys ++ [x]) } } y ↔ w.Mut y := by
        intro y
        unfold World.Mut
        simp only []
        rw [hsome y]
      refine ⟨⟨g.wf.base, ?_⟩, g.three, ?_, g.templ, g.vals, ?_, g.distinct, ?_, ?_⟩
      · intro y zs hy
        simp only [] at hy
        by_cases hyc : y = cid
        · subst hyc
          rw [hself] at hy
          injection hy with hy
          subst hy
          obtain ⟨a1, a2, a3⟩ := g.wf.heap y ys hg
          refine ⟨a1, a2, fun z hz => ?_⟩
          rcases List.mem_append.mp hz with h | h
          · exact a3 z h
          · simp at h; subst h; exact Nat.lt_of_lt_of_le hx g.wf.base
        · rw [hne y hyc] at hy
          exact g.wf.heap y zs hy
      · intro t ht
        have gc := g.cores t ht
        refine ⟨gc.const, fun hkind => ?_, gc.factory, gc.validate⟩
        have : t.dv.getD noneId ≠ cid := fun e => g.sepC i cid hr hmut t ht hkind e.symm
        simp only []
        rw [hne _ this]
        exact gc.copy hkind
      · intro j o ho
        have := g.oids j o ho
        refine ⟨this.1, ?_⟩
        have : o.oid ≠ cid := fun e => by rw [e, hg] at this; cases this.2
        simp only []
        rw [hne _ this]
        exact (g.oids j o ho).2
      · intro a b y hab ha hm hb
        have hm' := (hmut' y).mp hm
        rcases hreach a y ha with h1 | h1
        · rcases hreach b y hb with h2 | h2
          · exact g.sepI a b y hab h1 hm' h2
          · exact hxnm (h2 ▸ hm')
        · exact hxnm (h1 ▸ hm')
      · intro a y ha hm t ht hkind
        have hm' := (hmut' y).mp hm
        rcases hreach a y ha with h1 | h1
        · exact g.sepC a y h1 hm' t ht hkind
        · exact absurd (h1 ▸ hm') hxnm

/-- The world after `cls()`. -/
def World.withNew (w : World) (k : Nat) : World :=
  { w with insts := w.insts ++ [{ oid := w.ctx.alloc, cls := k }],
           ctx := { w.ctx with alloc := w.ctx.alloc + 1 } }

/-- A new instance keeps the world good. -/
theorem new_good {E : Env} {P : Nat} {w : World} (g : Good E P w) (k : Nat) : Good E P (w.withNew k) := by
  have hget : ∀ (j : Nat) (o : Inst), (w.withNew k).insts[j]? = some o →
      w.insts[j]? = some o ∨ o = { oid := w.ctx.alloc, cls := k } := by
    intro j o ho
    unfold World.withNew at ho
    simp only [] at ho
    rcases Nat.lt_or_ge j w.insts.length with h | h
    · rw [List.getElem?_append_left h] at ho; exact Or.inl ho
    · rw [List.getElem?_append_right h] at ho
      right
      cases hj : j - w.insts.length with
      | zero => rw [hj] at ho; simp at ho; exact ho.symm
      | succ m => rw [hj] at ho; simp at ho
  have hreach : ∀ a y, (w.withNew k).ReachIdx a y → w.ReachIdx a y := by
    rintro a y ⟨o, ho, n, v, hv, hy⟩
    rcases hget a o ho with h | h
    · exact ⟨o, h, n, v, hv, hy⟩
    · subst h
      simp [assocGet] at hv
  have hcores : ∀ t, (w.withNew k).Cores t → w.Cores t := by
    rintro t (⟨c, hc, p, hp, rfl⟩ | ⟨o, ho, p, hp, rfl⟩)
    · exact Or.inl ⟨c, hc, p, hp, rfl⟩
    · unfold World.withNew at ho
      simp only [List.mem_append, List.mem_singleton] at ho
      rcases ho with ho | ho
      · exact Or.inr ⟨o, ho, p, hp, rfl⟩
      · subst ho
        simp at hp
  have hheap : (w.withNew k).ctx.heap = w.ctx.heap := rfl
  have halloc : (w.withNew k).ctx.alloc = w.ctx.alloc + 1 := rfl
  have hgetn : ∀ (j : Nat) (o : Inst), (w.withNew k).insts[j]? = some o →
      w.insts[j]? = some o ∨ (j = w.insts.length ∧ o = { oid := w.ctx.alloc, cls := k }) := by
    intro j o ho
    unfold World.withNew at ho
    simp only [] at ho
    rcases Nat.lt_or_ge j w.insts.length with h | h
    · rw [List.getElem?_append_left h] at ho; exact Or.inl ho
    · rw [List.getElem?_append_right h] at ho
      right
      cases hj : j - w.insts.length with
      | zero => rw [hj] at ho; simp at ho; exact ⟨by omega, ho.symm⟩
      | succ m => rw [hj] at ho; simp at ho
  refine ⟨⟨Nat.le_succ_of_le g.wf.base, fun x ys h => ?_⟩, g.three, fun t ht => ?_, fun t ht hk => ?_,
    fun j o ho n v hv => ?_, fun j o ho => ?_, ?dist, fun a b x hab ha hm hb => ?_, fun a x ha hm t ht hk => ?_⟩
  case dist =>
    intro a b oa ob ha hb hab
    rcases hgetn a oa ha with h1 | ⟨h1, rfl⟩
    · rcases hgetn b ob hb with h2 | ⟨h2, rfl⟩
      · exact g.distinct a b oa ob h1 h2 hab
      · exact absurd hab (Nat.ne_of_lt (g.oids a oa h1).1)
    · rcases hgetn b ob hb with h2 | ⟨h2, rfl⟩
      · exact absurd hab.symm (Nat.ne_of_lt (g.oids b ob h2).1)
      · rw [h1, h2]
  · obtain ⟨a1, a2, a3⟩ := g.wf.heap x ys h
    exact ⟨a1, Nat.lt_succ_of_lt a2, fun y hy => Nat.lt_succ_of_lt (a3 y hy)⟩
  · have gc := g.cores t (hcores t ht)
    exact ⟨gc.const, gc.copy, gc.factory, gc.validate⟩
  · exact Nat.lt_succ_of_lt (g.templ t (hcores t ht) hk)
  · rcases hget j o ho with h | h
    · exact Nat.lt_succ_of_lt (g.vals j o h n v hv)
    · subst h; simp [assocGet] at hv
  · rcases hget j o ho with h | h
    · exact ⟨Nat.lt_succ_of_lt (g.oids j o h).1, (g.oids j o h).2⟩
    · subst h
      exact ⟨Nat.lt_succ_self _, heapGet_fresh_none g.wf _ (Nat.le_refl _)⟩
  · exact g.sepI a b x hab (hreach a x ha) hm (hreach b x hb)
  · exact g.sepC a x (hreach a x ha) hm t (hcores t ht) hk

/-- Side conditions on the operations of a history: assigned and inserted values
are atoms, traits added at run time are copy-promising and bring no template. -/
def OpOk (E : Env) (P : Nat) : WOp → Prop
  | .set _ _ v => v < P
  | .mutate _ _ x => x < P
  | .mutateInner _ _ x => x < P
  | .addTrait _ _ t => ¬ copyKind t ∧ ∀ c, GoodCore E P c t
  | .del _ _ => False        -- a reset re-arms the default: outside the histories of C10_fresh / C10_once
  | _ => True

/-- Boolean version of `OpOk` for histories without `add_trait`. -/
def opOkB (P : Nat) : WOp → Bool
  | .set _ _ v => decide (v < P)
  | .mutate _ _ x => decide (x < P)
  | .mutateInner _ _ x => decide (x < P)
  | .addTrait _ _ _ => false
  | .del _ _ => false
  | _ => true

theorem opOk_of_bool {E : Env} {P : Nat} (l : List WOp) (h : l.all (opOkB P) = true) : ∀ op ∈ l, OpOk E P op := by
  intro op hop
  have := List.all_eq_true.mp h op hop
  cases op <;> simp_all [opOkB, OpOk]

theorem setInst_extends {E : Env} {P : Nat} {w : World} (g : Good E P w) (i : Nat) (o o' : Inst)
    (extra : TraitCore → Prop) (hi : w.insts[i]? = some o) (h1 : o'.oid = o.oid) (h2 : o'.dict = o.dict)
    (h3 : ∀ p ∈ o'.itraits, w.Cores p.2.core ∨ extra p.2.core) :
    Extends P i extra w (w.setInst i o' w.ctx) := by
  refine ⟨rfl, fun j hj => setInst_get_other w i j _ _ hj, CGrow.refl _ g.wf, ?_⟩
  intro o2 ho2
  rw [setInst_get_self w i o _ _ hi] at ho2
  injection ho2 with ho2
  subst ho2
  exact ⟨o, hi, h1, fun n v hv => Or.inl (h2 ▸ hv), h3⟩

/-- **The invariant is preserved by every operation.** -/
theorem step_good {E : Env} {P : Nat} {w : World} (g : Good E P w) (op : WOp) (hop : OpOk E P op) :
    Good E P (World.step E w op).2 := by
  have hnone : ∀ t : TraitCore, False → ¬ copyKind t ∧ ∀ c, GoodCore E P c t := fun _ h => h.elim
  have hget : ∀ i n, Good E P (w.onAttr i n (fun t s => Attr.step E t s .get)).2 := fun i n =>
    (onAttr_extends g i n _ (fun t s h gc => step_ogrow t s .get h gc (Or.inl rfl))).good g hnone
  cases op with
  | new k =>
    simp only [World.step]
    split
    · exact new_good g k
    · exact g
  | get i n => exact hget i n
  | set i n v =>
    exact (onAttr_extends g i n _ (fun t s h gc =>
      step_ogrow t s (.set v) h gc (Or.inr (Or.inl ⟨v, rfl, hop⟩)))).good g hnone
  | regDyn i n k =>
    exact (onAttr_extends g i n _ (fun t s h gc =>
      step_ogrow t s (.regDyn k false) h gc (Or.inr (Or.inr (Or.inl ⟨k, false, rfl⟩))))).good g hnone
  | regObs i n k =>
    exact (onAttr_extends g i n _ (fun t s h gc =>
      step_ogrow t s (.regObs k) h gc (Or.inr (Or.inr (Or.inr ⟨k, rfl⟩))))).good g hnone
  | regAny i k =>
    simp only [World.step]
    cases hi : w.insts[i]? with
    | none => exact g
    | some o =>
      simp only []
      have e := setInst_extends g i o
        { o with on := (({ on := o.on } : OSt).regAny k false).on } (fun _ => False) hi rfl rfl
        (fun p hp => Or.inl (Or.inr ⟨o, List.mem_of_getElem? hi, p, hp, rfl⟩))
      exact e.good g hnone
  | del i n => exact hop.elim
  | query i =>
    simp only [World.step]
    cases w.insts[i]? <;> exact g
  | addTrait i n t =>
    simp only [World.step, World.addTrait]
    cases hi : w.insts[i]? with
    | none => exact g
    | some o =>
      simp only []
      have e := setInst_extends g i o
        { o with itraits := assocSet o.itraits n { core := t, notifiers := match w.traitOf o n with
            | some td => td.notifiers.map (fun l => l)
            | none => none } } (fun c => c = t) hi rfl rfl (by
          intro p hp
          rcases mem_assocSet _ _ _ _ hp with h | h
          · exact Or.inl (Or.inr ⟨o, List.mem_of_getElem? hi, p, h, rfl⟩)
          · subst h; exact Or.inr rfl)
      exact e.good g (fun c (hc : c = t) => by rw [hc]; exact hop)
  | mutate i n x =>
    have g1 := hget i n
    have hst := onAttr_get_stored E w i n
    simp only [World.step]
    cases hr : w.onAttr i n (fun t s => Attr.step E t s .get) with
    | mk r w1 =>
      rw [hr] at g1 hst
      simp only []
      cases hv : r.val with
      | none => exact g1
      | some cid =>
        simp only []
        obtain ⟨o1, ho1, hd1⟩ := hst cid hv
        have hreach : w1.ReachIdx i cid := ⟨o1, ho1, n, cid, hd1, Or.inl rfl⟩
        have := mutate_good g1 i cid x hreach hop
        cases hm : w1.ctx.mutate cid x with
        | mk e c =>
          rw [hm] at this
          cases e <;> exact this
  | mutateInner i n x =>
    have g1 := hget i n
    have hst := onAttr_get_stored E w i n
    simp only [World.step]
    cases hr : w.onAttr i n (fun t s => Attr.step E t s .get) with
    | mk r w1 =>
      rw [hr] at g1 hst
      simp only []
      cases hv : r.val with
      | none => exact g1
      | some cid =>
        simp only []
        obtain ⟨o1, ho1, hd1⟩ := hst cid hv
        cases hin : (heapGet w1.ctx.heap cid).bind (·.head?) with
        | none => exact g1
        | some inner =>
          simp only []
          have hreach : w1.ReachIdx i inner := by
            refine ⟨o1, ho1, n, cid, hd1, Or.inr ?_⟩
            unfold World.kids
            cases hg : heapGet w1.ctx.heap cid with
            | none => simp [hg] at hin
            | some ys =>
              simp only [hg, Option.bind_some] at hin
              simpa using List.mem_of_head? hin
          have := mutate_good g1 i inner x hreach hop
          cases hm : w1.ctx.mutate inner x with
          | mk e c =>
            rw [hm] at this
            cases e <;> exact this

/-- … hence by every history. -/
theorem run_good {E : Env} {P : Nat} : ∀ (h : List WOp) (w : World), Good E P w → (∀ op ∈ h, OpOk E P op) →
    Good E P (World.run E w h)
  | [], _, g, _ => g
  | op :: h, w, g, H => by
    rw [World.run]
    exact run_good h _ (step_good g op (H op List.mem_cons_self)) (fun o ho => H o (List.mem_cons_of_mem _ ho))

end TraitsVerif.Model.Attr
