/-
Helper lemmas for C10, part 5: the separation invariant.  In a world whose
trait definitions are all copy-promising (`GoodCore`), mutable objects reachable
from two different instances are disjoint, and disjoint from the class-level
default templates — after every history of operations.
-/
import TraitsVerif.Lemmas.AttrFresh
namespace TraitsVerif.Model.Attr
open TraitsVerif

/-! ### Association lists -/

theorem find?_assoc_map_other {β : Type} (l : List (Name × β)) (n m : Name) (b : β) (h : m ≠ n) :
    List.find? (fun e => e.1 == m) (l.map (fun e => if (e.1 == n) = true then (n, b) else e)) =
      List.find? (fun e => e.1 == m) l := by
  induction l with
  | nil => rfl
  | cons p l ih =>
    simp only [List.map_cons, List.find?_cons]
    by_cases hp : (p.1 == n) = true
    · have hpn : p.1 = n := by simpa using hp
      have h1 : (p.1 == m) = false := by simp [hpn]; exact fun e => h e.symm
      have h2 : ((n, b).1 == m) = false := by simp; exact fun e => h e.symm
      simp only [hp, if_true, h1, h2]
      exact ih
    · simp only [hp, Bool.false_eq_true, if_false]
      cases (p.1 == m)
      · exact ih
      · rfl

theorem assocGet_assocSet_ne {β : Type} (l : List (Name × β)) (n m : Name) (b : β) (h : m ≠ n) :
    assocGet (assocSet l n b) m = assocGet l m := by
  unfold assocGet assocSet
  split
  · rw [find?_assoc_map_other l n m b h]
  · rw [List.find?_append]
    cases hf : l.find? (fun e => e.1 == m) with
    | some p => simp
    | none =>
      have : ((n, b).1 == m) = false := by simp; exact fun e => h e.symm
      simp [List.find?, this]

theorem assocGet_assocErase {β : Type} (l : List (Name × β)) (n m : Name) :
    assocGet (assocErase l n) m = if m = n then none else assocGet l m := by
  unfold assocGet assocErase
  induction l with
  | nil => simp
  | cons p l ih =>
    by_cases hp : (p.1 == n) = true
    · have hpn : p.1 = n := by simpa using hp
      simp only [List.filter_cons, hp, Bool.not_true, Bool.false_eq_true, if_false, List.find?_cons]
      rw [ih]
      by_cases hm : m = n
      · simp [hm]
      · have : (p.1 == m) = false := by simp [hpn]; exact fun e => hm e.symm
        simp [hm, this]
    · simp only [List.filter_cons, hp, Bool.not_false, if_true, List.find?_cons]
      cases hpm : (p.1 == m)
      · simp only []
        exact ih
      · have hpm' : p.1 = m := by simpa using hpm
        have : m ≠ n := by rw [← hpm']; simpa using hp
        simp [this]

theorem assocGet_mem {β : Type} (l : List (Name × β)) (n : Name) (b : β) (h : assocGet l n = some b) :
    ∃ p ∈ l, p.2 = b := by
  unfold assocGet at h
  cases hf : l.find? (fun e => e.1 == n) with
  | none => simp [hf] at h
  | some p =>
    simp [hf] at h
    exact ⟨p, List.mem_of_find?_eq_some hf, h⟩

theorem mem_assocSet {β : Type} (l : List (Name × β)) (n : Name) (b : β) (p : Name × β)
    (h : p ∈ assocSet l n b) : p ∈ l ∨ p = (n, b) := by
  unfold assocSet at h
  split at h
  · simp only [List.mem_map] at h
    obtain ⟨q, hq, rfl⟩ := h
    split
    · exact Or.inr rfl
    · exact Or.inl hq
  · simp only [List.mem_append, List.mem_singleton] at h
    exact h

/-! ### The invariant -/

/-- The default kinds that promise a copy of a template. -/
def copyKind (t : TraitCore) : Prop :=
  t.dvt = Generated.LIST_COPY_DEFAULT_VALUE ∨ t.dvt = Generated.DICT_COPY_DEFAULT_VALUE
  ∨ t.dvt = Generated.TRAIT_LIST_OBJECT_DEFAULT_VALUE ∨ t.dvt = Generated.TRAIT_DICT_OBJECT_DEFAULT_VALUE
  ∨ t.dvt = Generated.TRAIT_SET_OBJECT_DEFAULT_VALUE

/-- `t` is the definition of a class trait or of an instance trait. -/
def World.Cores (w : World) (t : TraitCore) : Prop :=
  (∃ k ∈ w.classes, ∃ p ∈ k.traits, p.2.ctrait.core = t) ∨ (∃ o ∈ w.insts, ∃ p ∈ o.itraits, p.2.core = t)

/-- Well-formed world with copy-promising defaults, in which instances are
separated. -/
structure Good (E : Env) (P : Nat) (w : World) : Prop where
  wf : CtxWF P w.ctx
  three : noneId < P
  cores : ∀ t, w.Cores t → GoodCore E P w.ctx t
  templ : ∀ t, w.Cores t → copyKind t → t.dv.getD noneId < w.ctx.alloc
  vals : ∀ (i : Nat) (o : Inst), w.insts[i]? = some o → ∀ n v, assocGet o.dict n = some v → v < w.ctx.alloc
  oids : ∀ (i : Nat) (o : Inst), w.insts[i]? = some o → o.oid < w.ctx.alloc ∧ heapGet w.ctx.heap o.oid = none
  /-- mutable objects reachable from two instances are disjoint -/
  sepI : ∀ a b x, a ≠ b → w.ReachIdx a x → w.Mut x → ¬ w.ReachIdx b x
  /-- … and are not default templates -/
  sepC : ∀ a x, w.ReachIdx a x → w.Mut x → ∀ t, w.Cores t → copyKind t → x ≠ t.dv.getD noneId

theorem World.traitOf_cores (w : World) (i : Nat) (o : Inst) (n : Name) (td : TraitDef)
    (hi : w.insts[i]? = some o) (h : w.traitOf o n = some td) : w.Cores td.core := by
  unfold World.traitOf at h
  cases hg : assocGet o.itraits n with
  | some t =>
    simp only [hg] at h
    injection h with h
    subst h
    obtain ⟨p, hp, rfl⟩ := assocGet_mem _ _ _ hg
    exact Or.inr ⟨o, List.mem_of_getElem? hi, p, hp, rfl⟩
  | none =>
    simp only [hg] at h
    unfold World.classTrait at h
    cases hc : w.classes[o.cls]? with
    | none => simp [hc] at h
    | some k =>
      simp only [hc, Option.bind_some] at h
      unfold ClassRec.get at h
      cases hf : k.traits.find? (fun e => e.1 == n) with
      | none => simp [hf] at h
      | some p =>
        simp [hf] at h
        exact Or.inl ⟨k, List.mem_of_getElem? hc, p, List.mem_of_find?_eq_some hf, by rw [h]⟩

/-- Reachability in terms of stored values. -/
theorem reach_lt {E : Env} {P : Nat} {w : World} (g : Good E P w) (i : Nat) (x : Id) (h : w.ReachIdx i x) :
    x < w.ctx.alloc := by
  obtain ⟨o, ho, n, v, hv, hx⟩ := h
  have hvl := g.vals i o ho n v hv
  rcases hx with rfl | hx
  · exact hvl
  · unfold World.kids at hx
    cases hg : heapGet w.ctx.heap v with
    | none => simp [hg] at hx
    | some ys =>
      simp [hg] at hx
      exact (g.wf.heap v ys hg).2.2 x hx

/-! ### Preservation by a statement that only allocates -/

/-- `w'` is `w` after a statement on instance `i` that only allocates: other
instances and the classes are untouched, instance `i` keeps its identity, its
values are old ones, atoms, itself or fresh identities, its trait definitions
are old ones or definitions already present in the world (or `extra`). -/
structure Extends (P : Nat) (i : Nat) (extra : TraitCore → Prop) (w w' : World) : Prop where
  classes : w'.classes = w.classes
  others : ∀ j, j ≠ i → w'.insts[j]? = w.insts[j]?
  grow : CGrow P w.ctx.alloc w.ctx w'.ctx
  self : ∀ o', w'.insts[i]? = some o' → ∃ o, w.insts[i]? = some o ∧ o'.oid = o.oid ∧
    (∀ n v, assocGet o'.dict n = some v →
      assocGet o.dict n = some v ∨ FreshVal P o.oid w.ctx.alloc w'.ctx.alloc v) ∧
    (∀ p ∈ o'.itraits, w.Cores p.2.core ∨ extra p.2.core)

theorem Extends.cores {P i : Nat} {extra : TraitCore → Prop} {w w' : World} (e : Extends P i extra w w')
    (t : TraitCore) (h : w'.Cores t) : w.Cores t ∨ extra t := by
  rcases h with ⟨k, hk, p, hp, rfl⟩ | ⟨o', ho', p, hp, rfl⟩
  · exact Or.inl (Or.inl ⟨k, e.classes ▸ hk, p, hp, rfl⟩)
  · obtain ⟨j, hj⟩ := List.getElem?_of_mem ho'
    by_cases hji : j = i
    · subst hji
      obtain ⟨o, -, -, -, hit⟩ := e.self o' hj
      exact hit p hp
    · rw [e.others j hji] at hj
      exact Or.inl (Or.inr ⟨o', List.mem_of_getElem? hj, p, hp, rfl⟩)

/-- Reachability after an allocating statement. -/
theorem Extends.reach_other {E : Env} {P i : Nat} {extra : TraitCore → Prop} {w w' : World}
    (g : Good E P w) (e : Extends P i extra w w') (j : Nat) (hj : j ≠ i) (x : Id) :
    w'.ReachIdx j x ↔ w.ReachIdx j x := by
  unfold World.ReachIdx World.kids
  rw [e.others j hj]
  constructor
  · rintro ⟨o, ho, n, v, hv, hx⟩
    have hvl := g.vals j o ho n v hv
    rw [e.grow.old v hvl] at hx
    exact ⟨o, ho, n, v, hv, hx⟩
  · rintro ⟨o, ho, n, v, hv, hx⟩
    have hvl := g.vals j o ho n v hv
    rw [← e.grow.old v hvl] at hx
    exact ⟨o, ho, n, v, hv, hx⟩

theorem Extends.reach_self {E : Env} {P i : Nat} {extra : TraitCore → Prop} {w w' : World}
    (g : Good E P w) (e : Extends P i extra w w') (x : Id) (h : w'.ReachIdx i x) :
    w.ReachIdx i x ∨ x < P ∨ (∃ o, w.insts[i]? = some o ∧ x = o.oid) ∨ w.ctx.alloc ≤ x := by
  obtain ⟨o', ho', n, v, hv, hx⟩ := h
  obtain ⟨o, ho, hoid, hvals, -⟩ := e.self o' ho'
  rcases hvals n v hv with hold | hfresh
  · -- an old value: its elements are the old elements
    have hvl := g.vals i o ho n v hold
    left
    unfold World.kids at hx
    rw [e.grow.old v hvl] at hx
    exact ⟨o, ho, n, v, hold, hx⟩
  · rcases hx with rfl | hx
    · rcases hfresh with h1 | h1 | h1
      · exact Or.inr (Or.inl h1)
      · exact Or.inr (Or.inr (Or.inl ⟨o, ho, h1⟩))
      · exact Or.inr (Or.inr (Or.inr h1.1))
    · unfold World.kids at hx
      cases hg : heapGet w'.ctx.heap v with
      | none => simp [hg] at hx
      | some ys =>
        simp [hg] at hx
        rcases hfresh with h1 | h1 | h1
        · -- atoms have no elements
          exact absurd h1 (Nat.not_lt.mpr (e.grow.wf.heap v ys hg).1)
        · -- the object itself is not a container
          have := (g.oids i o ho)
          rw [h1, e.grow.old o.oid this.1, this.2] at hg
          cases hg
        · rcases e.grow.new v ys h1.1 hg x hx with h2 | h2
          · exact Or.inr (Or.inl h2)
          · exact Or.inr (Or.inr (Or.inr h2))

theorem Extends.good {E : Env} {P i : Nat} {extra : TraitCore → Prop} {w w' : World}
    (g : Good E P w) (e : Extends P i extra w w')
    (hx : ∀ t, extra t → ¬ copyKind t ∧ ∀ c, GoodCore E P c t) : Good E P w' := by
  have hmut_old : ∀ x, x < w.ctx.alloc → (w'.Mut x ↔ w.Mut x) := by
    intro x hx
    unfold World.Mut
    rw [e.grow.old x hx]
  have hnot_mut_atom : ∀ x, x < P → ¬ w'.Mut x := by
    intro x hx hm
    unfold World.Mut at hm
    cases hg : heapGet w'.ctx.heap x with
    | none => simp [hg] at hm
    | some ys => exact absurd hx (Nat.not_lt.mpr (e.grow.wf.heap x ys hg).1)
  have hnot_mut_oid : ∀ o, w.insts[i]? = some o → ¬ w'.Mut o.oid := by
    intro o ho hm
    have := g.oids i o ho
    unfold World.Mut at hm
    rw [e.grow.old o.oid this.1, this.2] at hm
    simp at hm
  refine ⟨e.grow.wf, g.three, ?_, ?_, ?_, ?_, ?_, ?_⟩
  · -- cores
    intro t ht
    rcases e.cores t ht with h | h
    · have gc := g.cores t h
      refine ⟨gc.const, fun hk => ?_, gc.factory, gc.validate⟩
      rw [e.grow.old _ (g.templ t h hk)]
      exact gc.copy hk
    · exact (hx t h).2 _
  · -- templ
    intro t ht hk
    rcases e.cores t ht with h | h
    · exact Nat.lt_of_lt_of_le (g.templ t h hk) e.grow.le
    · exact absurd hk (hx t h).1
  · -- vals
    intro j o' ho' n v hv
    by_cases hji : j = i
    · subst hji
      obtain ⟨o, ho, hoid, hvals, -⟩ := e.self o' ho'
      rcases hvals n v hv with h | h
      · exact Nat.lt_of_lt_of_le (g.vals j o ho n v h) e.grow.le
      · rcases h with h | h | h
        · exact Nat.lt_of_lt_of_le h e.grow.wf.base
        · rw [h]; exact Nat.lt_of_lt_of_le (g.oids j o ho).1 e.grow.le
        · exact h.2
    · rw [e.others j hji] at ho'
      exact Nat.lt_of_lt_of_le (g.vals j o' ho' n v hv) e.grow.le
  · -- oids
    intro j o' ho'
    by_cases hji : j = i
    · subst hji
      obtain ⟨o, ho, hoid, -, -⟩ := e.self o' ho'
      have := g.oids j o ho
      rw [hoid]
      exact ⟨Nat.lt_of_lt_of_le this.1 e.grow.le, by rw [e.grow.old _ this.1]; exact this.2⟩
    · rw [e.others j hji] at ho'
      have := g.oids j o' ho'
      exact ⟨Nat.lt_of_lt_of_le this.1 e.grow.le, by rw [e.grow.old _ this.1]; exact this.2⟩
  · -- sepI
    intro a b x hab ha hm hb
    by_cases hai : a = i
    · subst hai
      have hb' := (e.reach_other g b (Ne.symm hab) x).mp hb
      have hxl := reach_lt g b x hb'
      rcases e.reach_self g x ha with h | h | ⟨o, ho, rfl⟩ | h
      · exact g.sepI a b x hab h ((hmut_old x hxl).mp hm) hb'
      · exact hnot_mut_atom x h hm
      · exact hnot_mut_oid o ho hm
      · exact absurd hxl (Nat.not_lt.mpr h)
    · have ha' := (e.reach_other g a hai x).mp ha
      have hxl := reach_lt g a x ha'
      by_cases hbi : b = i
      · subst hbi
        rcases e.reach_self g x hb with h | h | ⟨o, ho, rfl⟩ | h
        · exact g.sepI a b x hab ha' ((hmut_old x hxl).mp hm) h
        · exact hnot_mut_atom x h hm
        · exact hnot_mut_oid o ho hm
        · exact absurd hxl (Nat.not_lt.mpr h)
      · exact g.sepI a b x hab ha' ((hmut_old x hxl).mp hm) ((e.reach_other g b hbi x).mp hb)
  · -- sepC
    intro a x ha hm t ht hk
    rcases e.cores t ht with hc | hc
    · have htl := g.templ t hc hk
      by_cases hai : a = i
      · subst hai
        rcases e.reach_self g x ha with h | h | ⟨o, ho, rfl⟩ | h
        · exact g.sepC a x h ((hmut_old x (reach_lt g a x h)).mp hm) t hc hk
        · exact fun _ => hnot_mut_atom x h hm
        · exact fun _ => hnot_mut_oid o ho hm
        · exact fun e' => absurd htl (Nat.not_lt.mpr (e' ▸ h))
      · have ha' := (e.reach_other g a hai x).mp ha
        exact g.sepC a x ha' ((hmut_old x (reach_lt g a x ha')).mp hm) t hc hk
    · exact absurd hk (hx t hc).1

end TraitsVerif.Model.Attr
