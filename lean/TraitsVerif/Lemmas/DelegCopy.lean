/-
The copy operation of C11 (`Pool.restore`: pickle round trip of the pool / `copy.copy` of one object, both
through `HasTraits.__setstate__`): it preserves every invariant the C11 theorems are proved from, reads,
and the link state — so every theorem stated "in every pool satisfying `Inv`" continues to hold on copies.
-/
import TraitsVerif.Lemmas.DelegInv
namespace TraitsVerif.Model.Deleg
open TraitsVerif

theorem restore_cls (p : Pool) (w : Option ObjId) (j : ObjId) : ((p.restore w).obj j).cls = (p.obj j).cls := by
  unfold Pool.restore; simp only; split <;> rfl

theorem restore_dict (p : Pool) (w : Option ObjId) (j : ObjId) : ((p.restore w).obj j).dict = (p.obj j).dict := by
  unfold Pool.restore; simp only; split <;> rfl

theorem restore_deleg (p : Pool) (w : Option ObjId) (j : ObjId) : ((p.restore w).obj j).deleg = (p.obj j).deleg := by
  unfold Pool.restore; simp only; split <;> rfl

theorem restore_fwd (p : Pool) (w : Option ObjId) (j : ObjId) (n : Name) :
    ((p.restore w).obj j).fwd n =
      if w = none ∨ w = some j then
        (match (p.obj j).cls.trait n with
         | .defer _ => (match (p.obj j).dict n with | some _ => none | none => some (p.obj j).deleg)
         | _ => none)
      else (p.obj j).fwd n := by
  unfold Pool.restore; simp only; split <;> rfl

/-- A copy reads what the original reads, through every chain. -/
theorem read_restore (p : Pool) (w : Option ObjId) : ∀ (f : Nat) (o : ObjId) (n : Name),
    read (p.restore w) f o n = read p f o n := by
  intro f
  induction f with
  | zero => intro o n; rfl
  | succ f ih =>
    intro o n
    unfold read
    rw [restore_dict, restore_cls, restore_deleg]
    cases (p.obj o).dict n with
    | some v => rfl
    | none =>
      cases (p.obj o).cls.trait n with
      | plain a b c => rfl
      | python => rfl
      | defer d =>
        cases (p.obj o).deleg with
        | none => rfl
        | some x => exact ih x _

/-- The invariants of C11 hold on the copy. -/
theorem restore_inv (p : Pool) (w : Option ObjId) (I : Inv p) : Inv (p.restore w) := by
  refine ⟨fun o => by rw [restore_cls]; exact I.wf o, ?_, ?_, ?_⟩
  · intro o n d htd hm
    rw [restore_cls] at htd; rw [restore_dict]; exact I.noLocal o n d htd hm
  · intro o n
    rw [restore_cls, restore_dict, restore_fwd]
    split
    · refine ⟨?_, ?_⟩
      · intro h
        cases ht : (p.obj o).cls.trait n with
        | defer d => exact ⟨d, rfl⟩
        | plain a b c => simp [ht] at h
        | python => simp [ht] at h
      · intro d htd hd
        simp only [htd]
        cases hdn : (p.obj o).dict n with
        | none => exact absurd hdn hd
        | some v => rfl
    · exact I.fwd o n
  · intro o n h hf
    rw [restore_deleg]
    rw [restore_fwd] at hf
    split at hf
    · cases ht : (p.obj o).cls.trait n with
      | defer d =>
        simp only [ht] at hf
        cases hdn : (p.obj o).dict n with
        | none => simp only [hdn, Option.some.injEq] at hf; exact hf
        | some v => simp [hdn] at hf
      | plain a b c => simp [ht] at hf
      | python => simp [ht] at hf
    · exact I.hook o n h hf

/-- On a copied object every linked deferring attribute has its forwarder on the current delegate, and an
attribute with a local value (a broken prototype link) has none. -/
theorem restore_link_state (p : Pool) (w : Option ObjId) (o : ObjId) (n : Name) (d : DelegInfo)
    (hw : w = none ∨ w = some o) (htd : (p.obj o).cls.trait n = .defer d) :
    ((p.restore w).obj o).fwd n = (match (p.obj o).dict n with | some _ => none | none => some (p.obj o).deleg) := by
  rw [restore_fwd, if_pos hw, htd]

end TraitsVerif.Model.Deleg
