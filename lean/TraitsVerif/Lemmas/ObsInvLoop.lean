/-
Cluster `obs`: the operational half of the invariant proof for a trait assignment:
what the copied notifier list does (`callTrait`), and the multiset argument that
matches the maintainers found on the mutated trait with the visits of the
from-scratch walks.
-/
import TraitsVerif.Lemmas.ObsInv
namespace TraitsVerif.Model.Obs
open TraitsVerif

/-! ### two lists with the same counts up to `equals` have the same sums -/

theorem countP_equals_congr {a b : NKey} (hab : a.equals b = true) (q : NKey) :
    a.equals q = b.equals q := NKey.equals_congr hab q

theorem sum_eq_of_equiv_counts (F : NKey → Nat) :
    ∀ (L1 L2 : List NKey), (∀ q, L1.countP (fun a => a.equals q) = L2.countP (fun a => a.equals q)) →
      (∀ a ∈ L1, ∀ b ∈ L2, a.equals b = true → F a = F b) → (L1.map F).sum = (L2.map F).sum := by
  intro L1
  induction L1 with
  | nil =>
    intro L2 hc _
    cases L2 with
    | nil => rfl
    | cons b L2 =>
      have := hc b
      simp [List.countP_cons, NKey.equals_refl] at this
  | cons a L1 ih =>
    intro L2 hc hF
    -- `a` is matched by some `b` of `L2`
    have hpos : 0 < L2.countP (fun x => x.equals a) := by
      rw [← hc a]; simp [List.countP_cons, NKey.equals_refl]
    obtain ⟨b, hb, hba⟩ := List.countP_pos_iff.1 hpos
    obtain ⟨pre, post, rfl⟩ := List.append_of_mem hb
    have hab : a.equals b = true := NKey.equals_symm hba
    have hc' : ∀ q, L1.countP (fun x => x.equals q) = (pre ++ post).countP (fun x => x.equals q) := by
      intro q
      have := hc q
      simp only [List.countP_cons, List.countP_append] at this ⊢
      rw [countP_equals_congr hab q] at this
      omega
    have hF' : ∀ a' ∈ L1, ∀ b' ∈ pre ++ post, a'.equals b' = true → F a' = F b' := by
      intro a' ha' b' hb' he
      apply hF a' (List.mem_cons_of_mem _ ha') b' _ he
      rcases List.mem_append.1 hb' with h1 | h1
      · exact List.mem_append.2 (Or.inl h1)
      · exact List.mem_append.2 (Or.inr (List.mem_cons_of_mem _ h1))
    have := ih (pre ++ post) hc' hF'
    have hFab : F a = F b := hF a (List.mem_cons_self ..) b hb hab
    simp only [List.map_cons, List.sum_cons, List.map_append, List.sum_append] at this ⊢
    omega

/-! ### what the maintainers of a copied notifier list do -/

/-- per-notifier effect: only trait maintainers contribute -/
def effect (F : Graph → HKey → Nat) : Notifier → Nat
  | .maint .trait c k => F c k
  | _ => 0

def effectSum (F : Graph → HKey → Nat) (ns : List Notifier) : Nat := (ns.map (effect F)).sum

/-- the items a trait maintainer removes (walk from the old value) / adds (from the new value), in heap `h'` -/
def blockAt (h' : Heap) (val : Val) (o' : Observable) (q : NKey) (c : Graph) (k : HKey) : Nat :=
  cntItems ((valObjects val).flatMap (fun w => hookList h' k true c w)) o' q

/-- The notifiers of the copied list are such that every call succeeds. -/
structure LoopOk (E : Env) (h' : Heap) (old new : Val) (ns : List Notifier) : Prop where
  alive : ∀ k, E.dead k = false
  kinds : ∀ nt ∈ ns, ∀ mk g k, nt = .maint mk g k → mk = .trait ∨ mk = .added
  notName : ∀ m, new ≠ .name m
  okOld : ∀ c k, Notifier.maint .trait c k ∈ ns → ∀ w ∈ valObjects old, walkOk h' true c w = true
  okNew : ∀ c k, Notifier.maint .trait c k ∈ ns → ∀ w ∈ valObjects new, walkOk h' true c w = true

theorem valObjects_cases (v : Val) : valObjects v = [] ∨ ∃ w, valObjects v = [w] := by
  cases v <;> simp [valObjects]

theorem removeOld_spec (h' : Heap) (c : Graph) (k : HKey) (old : Val) (H : Hooks) (hw : WF H)
    (hokO : ∀ w ∈ valObjects old, walkOk h' true c w = true)
    (hle : ∀ o' q, blockAt h' old o' q c k ≤ cnt H o' q) :
    (removeOld h' k c old H).err = none ∧ WF (removeOld h' k c old H).H ∧
    ∀ o' q, cnt (removeOld h' k c old H).H o' q + blockAt h' old o' q c k = cnt H o' q := by
  unfold removeOld
  rcases valObjects_cases old with h0 | ⟨w, h1⟩
  · simp only [h0]
    refine ⟨trivial, hw, ?_⟩
    intro o' q; simp [blockAt, h0, cntItems_nil]
  · have hle' : ∀ o' q, cntItems (hookList h' k true c w) o' q ≤ cnt H o' q := by
      intro o' q
      have := hle o' q
      simpa [blockAt, h1] using this
    obtain ⟨e, cc, w'⟩ := addRemove_remove h' k c true w H hw (hokO w (by simp [h1])) hle'
    simp only [h1, e]
    refine ⟨trivial, w', ?_⟩
    intro o' q
    have := cc o' q
    simpa [blockAt, h1] using this

theorem addNew_spec (h' : Heap) (c : Graph) (k : HKey) (new : Val) (H : Hooks) (hw : WF H)
    (hokN : ∀ w ∈ valObjects new, walkOk h' true c w = true) :
    (addNew h' k c new H).err = none ∧ WF (addNew h' k c new H).H ∧
    ∀ o' q, cnt (addNew h' k c new H).H o' q = cnt H o' q + blockAt h' new o' q c k := by
  unfold addNew
  rcases valObjects_cases new with h0 | ⟨w, h1⟩
  · simp only [h0]
    refine ⟨trivial, hw, ?_⟩
    intro o' q; simp [blockAt, h0, cntItems_nil]
  · simp only [h1]
    have he := addRemove_add_ok h' k c true w H (hokN w (by simp [h1]))
    obtain ⟨_, hc2, hw2⟩ := addRemove_add h' k c true w H he
    refine ⟨he, hw2 hw, ?_⟩
    intro o' q
    rw [hc2]
    simp [blockAt, h1]

/-- one trait maintainer: remove below the old value, add below the new one -/
theorem maintTrait_step (h' : Heap) (c : Graph) (k : HKey) (o : Id) (old new : Val) (H : Hooks) (hw : WF H)
    (hokO : ∀ w ∈ valObjects old, walkOk h' true c w = true)
    (hokN : ∀ w ∈ valObjects new, walkOk h' true c w = true)
    (hle : ∀ o' q, blockAt h' old o' q c k ≤ cnt H o' q) :
    (maintTrait h' .trait c k o old new H).err = none ∧ WF (maintTrait h' .trait c k o old new H).H ∧
    ∀ o' q, cnt (maintTrait h' .trait c k o old new H).H o' q + blockAt h' old o' q c k =
      cnt H o' q + blockAt h' new o' q c k := by
  obtain ⟨e1, w1, c1⟩ := removeOld_spec h' c k old H hw hokO hle
  obtain ⟨e2, w2, c2⟩ := addNew_spec h' c k new _ w1 hokN
  simp only [maintTrait, e1]
  refine ⟨e2, w2, ?_⟩
  intro o' q
  have := c1 o' q
  rw [c2]
  omega

/-- The whole copied list: nothing raises, and every count moves by the sum of the
maintainers' removals and additions. -/
theorem callTrait_effect (E : Env) (h' : Heap) (o : Id) (n : Name) (old new : Val) :
    ∀ (ns : List Notifier) (H : Hooks) (ds : List Delivered), LoopOk E h' old new ns → WF H →
      (∀ o' q, effectSum (blockAt h' old o' q) ns ≤ cnt H o' q) →
      (callTrait E h' o n old new ns H ds).2.2 = none ∧ WF (callTrait E h' o n old new ns H ds).1 ∧
      ∀ o' q, cnt (callTrait E h' o n old new ns H ds).1 o' q + effectSum (blockAt h' old o' q) ns =
        cnt H o' q + effectSum (blockAt h' new o' q) ns := by
  intro ns
  induction ns with
  | nil => intro H ds _ hw _; exact ⟨rfl, hw, by simp [callTrait, effectSum]⟩
  | cons nt ns ih =>
    intro H ds hl hw hle
    have hl' : LoopOk E h' old new ns :=
      { alive := hl.alive
        kinds := fun nt' hn' => hl.kinds nt' (List.mem_cons_of_mem _ hn')
        notName := hl.notName
        okOld := fun c k hm => hl.okOld c k (List.mem_cons_of_mem _ hm)
        okNew := fun c k hm => hl.okNew c k (List.mem_cons_of_mem _ hm) }
    have hsplit : ∀ F, effectSum F (nt :: ns) = effect F nt + effectSum F ns := by
      intro F; simp [effectSum]
    cases nt with
    | user k rc =>
      have hle' : ∀ o' q, effectSum (blockAt h' old o' q) ns ≤ cnt H o' q := by
        intro o' q; have := hle o' q; rw [hsplit] at this; simpa [effect] using this
      simp only [callTrait]
      split
      · obtain ⟨a, b, c⟩ := ih H ds hl' hw hle'
        exact ⟨a, b, by intro o' q; rw [hsplit, hsplit]; simpa [effect] using c o' q⟩
      · obtain ⟨a, b, c⟩ := ih H (ds ++ [.trait k o n old new]) hl' hw hle'
        exact ⟨a, b, by intro o' q; rw [hsplit, hsplit]; simpa [effect] using c o' q⟩
    | maint mk g k =>
      simp only [callTrait, hl.alive k, Bool.false_eq_true, if_false]
      rcases hl.kinds _ (List.mem_cons_self ..) mk g k rfl with rfl | rfl
      · -- a trait maintainer
        have hle1 : ∀ o' q, blockAt h' old o' q g k ≤ cnt H o' q := by
          intro o' q; have := hle o' q; rw [hsplit] at this; simp only [effect] at this; omega
        obtain ⟨e1, w1, c1⟩ := maintTrait_step h' g k o old new H hw
          (hl.okOld g k (List.mem_cons_self ..)) (hl.okNew g k (List.mem_cons_self ..)) hle1
        simp only [e1]
        have hle' : ∀ o' q, effectSum (blockAt h' old o' q) ns ≤ cnt (maintTrait h' .trait g k o old new H).H o' q := by
          intro o' q
          have := hle o' q
          rw [hsplit] at this
          simp only [effect] at this
          have := c1 o' q
          omega
        obtain ⟨a, b, c⟩ := ih _ ds hl' w1 hle'
        refine ⟨a, b, ?_⟩
        intro o' q
        rw [hsplit, hsplit]
        simp only [effect]
        have := c o' q
        have := c1 o' q
        omega
      · -- a trait_added maintainer called with a non-name value: prevented
        have hno : maintTrait h' .added g k o old new H = ⟨H, none⟩ := by
          simp only [maintTrait]
          split
          · split
            · rename_i m _; exact absurd rfl (hl.notName m)
            · rfl
          · rfl
        simp only [hno]
        have hle' : ∀ o' q, effectSum (blockAt h' old o' q) ns ≤ cnt H o' q := by
          intro o' q; have := hle o' q; rw [hsplit] at this; simpa [effect] using this
        obtain ⟨a, b, c⟩ := ih H ds hl' hw hle'
        exact ⟨a, b, by intro o' q; rw [hsplit, hsplit]; simpa [effect] using c o' q⟩

end TraitsVerif.Model.Obs
