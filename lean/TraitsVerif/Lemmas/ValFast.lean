/-
Lemmas about the compiled validators (Model/FastValidate.lean): the two C copies
of every case agree, the compound loop is "first alternative that does not say
TraitError", the tuple check is element-wise.
-/
import TraitsVerif.Model.PyValidate
namespace TraitsVerif.Model.Val
open TraitsVerif TraitsVerif.Py.Value

/-- A stand-alone result seen from inside the compound loop. -/
def Res.lift : Res → Step
  | .ok w => .accept w
  | .traitError => .next
  | .raised e => .fail e

/-- Descriptors that can be an alternative of a compound: `_trait_set_validate`
accepts them on their own and `validate_trait_complex` has a `case` for them. -/
def Desc.isAlt : Desc → Bool
  | .complex _ | .python _ | .slow _ => false
  | _ => true

theorem Desc.isAlt_kind (d : Desc) (h : d.isAlt = true) :
    d.kind ∈ complexCaseLabels ∧ d.kind ∈ setValidateLabels := by
  cases d <;> simp [Desc.isAlt] at h <;> simp [Desc.kind, complexCaseLabels, setValidateLabels]

variable (E : Env)

theorem complexCase_eq_lift (d : Desc) (v : Val) (h : d.isAlt = true) :
    complexCase E d v = (fastAlone E d v).lift := by
  cases d <;> simp [Desc.isAlt] at h <;> simp only [complexCase, fastAlone] <;>
    (repeat' split) <;> simp_all [Res.lift]


theorem fastInCompound_eq (d : Desc) (v : Val) (h : d.isAlt = true) :
    fastInCompound E d v = fastAlone E d v := by
  unfold fastInCompound
  simp only [fastComplex, complexCase_eq_lift E d v h]
  cases fastAlone E d v <;> simp [Res.lift]

/-- First result that is not a TraitError; TraitError if there is none. -/
def firstAccept : List Res → Res
  | [] => .traitError
  | .traitError :: rs => firstAccept rs
  | r :: _ => r

/-- An entry of a compound descriptor on its own: the stand-alone validator, or,
for the `(slow, compound)` entry, `compound.slow_validate`. -/
def altAlone (d : Desc) (v : Val) : Res :=
  match d with
  | .slow h => h v
  | d => fastAlone E d v

/-- Entries `set_validate` can put into a compound descriptor. -/
def Desc.isEntry : Desc → Bool
  | .complex _ | .python _ => false
  | _ => true

theorem complexCase_eq_lift_entry (d : Desc) (v : Val) (h : d.isEntry = true) :
    complexCase E d v = (altAlone E d v).lift := by
  cases d <;> simp [Desc.isEntry] at h
  case slow f =>
    simp only [complexCase, altAlone]; cases f v <;> simp [Res.lift]
  all_goals (simp only [altAlone]; exact complexCase_eq_lift E _ v (by simp [Desc.isAlt]))

theorem fastComplex_first (ds : List Desc) (v : Val) (h : ∀ d ∈ ds, d.isEntry = true) :
    fastComplex E ds v = firstAccept (ds.map (altAlone E · v)) := by
  induction ds with
  | nil => simp [fastComplex, firstAccept]
  | cons d ds ih =>
    have hd := h d (by simp)
    have ih' := ih (fun d' hd' => h d' (by simp [hd']))
    simp only [fastComplex, List.map_cons, complexCase_eq_lift_entry E d v hd]
    cases hr : altAlone E d v <;> simp [Res.lift, firstAccept, ih']

theorem firstAccept_append (as bs : List Res) :
    firstAccept (as ++ bs) = match firstAccept as with
      | .traitError => firstAccept bs
      | r => r := by
  induction as with
  | nil => simp [firstAccept]
  | cons a as ih =>
    cases a <;> simp [firstAccept, ih]

theorem fastComplex_append (ds1 ds2 : List Desc) (v : Val)
    (h1 : ∀ d ∈ ds1, d.isEntry = true) (h2 : ∀ d ∈ ds2, d.isEntry = true) :
    fastComplex E (ds1 ++ ds2) v = match fastComplex E ds1 v with
      | .traitError => fastComplex E ds2 v
      | r => r := by
  rw [fastComplex_first E (ds1 ++ ds2) v (by
        intro d hd; rcases List.mem_append.mp hd with h | h
        · exact h1 d h
        · exact h2 d h),
      fastComplex_first E ds1 v h1, fastComplex_first E ds2 v h2, List.map_append, firstAccept_append]

/-- A compound accepts iff some entry accepts before any entry raises. -/
theorem firstAccept_ok_iff (rs : List Res) (w : Val) :
    firstAccept rs = .ok w ↔ ∃ pre post, rs = pre ++ .ok w :: post ∧ ∀ r ∈ pre, r = .traitError := by
  induction rs with
  | nil => simp [firstAccept]
  | cons r rs ih =>
    cases r with
    | traitError =>
      simp only [firstAccept, ih]
      constructor
      · rintro ⟨pre, post, rfl, hp⟩
        exact ⟨.traitError :: pre, post, rfl, by simpa using hp⟩
      · rintro ⟨pre, post, he, hp⟩
        cases pre with
        | nil => simp at he
        | cons p pre =>
          simp at he
          exact ⟨pre, post, he.2, fun r hr => hp r (by simp [hr])⟩
    | ok u =>
      simp only [firstAccept]
      constructor
      · intro h; cases h; exact ⟨[], rs, rfl, by simp⟩
      · rintro ⟨pre, post, he, hp⟩
        cases pre with
        | nil => simp at he; simp [he.1]
        | cons p pre =>
          simp at he
          have := hp p (by simp)
          simp [← he.1] at this
    | raised e =>
      simp only [firstAccept]
      constructor
      · intro h; cases h
      · rintro ⟨pre, post, he, hp⟩
        cases pre with
        | nil => simp at he
        | cons p pre =>
          simp at he
          have := hp p (by simp)
          simp [← he.1] at this


/-! ## The tuple check is element-wise -/

/-- Element results combined left to right: the first element that is not
accepted decides (TraitError → `none`, another exception → `some e`). -/
def elementwise : List Res → Except (Option Exc) (List Val)
  | [] => .ok []
  | .traitError :: _ => .error none
  | .raised e :: _ => .error (some e)
  | .ok a :: rs =>
    match elementwise rs with
    | .error x => .error x
    | .ok as => .ok (a :: as)

theorem tupleItems_elementwise (items : List (Option Desc)) (vs : List Val) :
    tupleItems E items vs = elementwise (List.zipWith (optValidate E) items vs) := by
  induction items generalizing vs with
  | nil => simp [tupleItems, elementwise]
  | cons d ds ih =>
    cases vs with
    | nil => simp [tupleItems, elementwise]
    | cons b bs =>
      simp only [tupleItems, List.zipWith_cons_cons]
      cases h : optValidate E d b <;> simp [elementwise, ih]
      cases elementwise (List.zipWith (optValidate E) ds bs) <;> rfl

theorem elementwise_ok_length (rs : List Res) (ws : List Val) (h : elementwise rs = .ok ws) :
    ws.length = rs.length := by
  induction rs generalizing ws with
  | nil => simp [elementwise] at h; simp [← h]
  | cons r rs ih =>
    cases r with
    | traitError => simp [elementwise] at h
    | raised e => simp [elementwise] at h
    | ok a =>
      simp only [elementwise] at h
      cases h2 : elementwise rs with
      | error x => simp [h2] at h
      | ok as => simp [h2] at h; simp [← h, ih as h2]

/-- Every element was accepted, with these results. -/
theorem elementwise_ok_iff (rs : List Res) (ws : List Val) :
    elementwise rs = .ok ws ↔ rs = ws.map Res.ok := by
  induction rs generalizing ws with
  | nil => cases ws <;> simp [elementwise]
  | cons r rs ih =>
    cases r with
    | traitError => simp [elementwise]; cases ws <;> simp
    | raised e => simp [elementwise]; cases ws <;> simp
    | ok a =>
      simp only [elementwise]
      cases h2 : elementwise rs with
      | error x =>
        simp
        cases ws with
        | nil => simp
        | cons w ws =>
          simp; intro _ h3
          have := (ih ws).mpr h3
          simp [h2] at this
      | ok as =>
        have := (ih as).mp h2
        cases ws with
        | nil => simp
        | cons w ws =>
          simp [this]
          intro _
          constructor
          · rintro rfl; rfl
          · intro h3
            exact (List.map_inj_right (fun a b h => by cases h; rfl)).mp h3

end TraitsVerif.Model.Val
