/-
Notification forwarding of the `deleg` model: who is in `forwarders`, which events a cascade
`notify` contains, and that it contains the event of a linked deferring attribute exactly once when
the hooking graph is acyclic.
-/
import TraitsVerif.Lemmas.DelegInv
import TraitsVerif.Lemmas.DelegNames
namespace TraitsVerif.Model.Deleg

/-! ### membership in `forwarders` -/

theorem mem_forwarders {p : Pool} {x : ObjId} {t : Name} {o : ObjId} {n : Name} :
    (o, n) ∈ forwarders p x t ↔
      o < p.size ∧ ∃ d, (n, d) ∈ (p.obj o).cls.deferNames ∧ (p.obj o).fwd n = some (some x) ∧
        listenedName (p.obj o).cls.pfx n d = t := by
  unfold forwarders
  simp only [List.mem_flatMap, List.mem_range, List.mem_filterMap]
  constructor
  · rintro ⟨o', ho', ⟨n', d⟩, hmem, hsome⟩
    split at hsome
    · rename_i hc
      simp only [Option.some.injEq, Prod.mk.injEq] at hsome
      obtain ⟨rfl, rfl⟩ := hsome
      exact ⟨ho', d, hmem, hc.1, hc.2⟩
    · simp at hsome
  · rintro ⟨ho, d, hmem, hf, hl⟩
    exact ⟨o, ho, (n, d), hmem, by simp [hf, hl]⟩

/-- Classes as `DelegatesTo` / `PrototypedFrom` build them: distinct identifier-like names, every
deferring trait made by `Delegate.__init__`. -/
def ClsOK (c : Cls) : Prop :=
  ClsWF c ∧ ∀ n d, c.trait n = .defer d → GoodName n ∧ ∃ raw m, d = mkDelegate raw m

/-- While linked (and no hook failed), the forwarder of `(o, n)` is among the forwarders of the target
attribute on the current delegate. -/
theorem forwarder_of_linked {p : Pool} (L : Linked p) {o : ObjId} (ho : o < p.size) (hc : ClsOK (p.obj o).cls)
    {n : Name} {d : DelegInfo} (htd : (p.obj o).cls.trait n = .defer d) (hd : (p.obj o).dict n = none)
    {y : ObjId} (hy : (p.obj o).deleg = some y) :
    (o, n) ∈ forwarders p y (targetName (p.obj o).cls.pfx n d) := by
  rw [mem_forwarders]
  refine ⟨ho, d, deferNames_mem _ _ _ htd, ?_, ?_⟩
  · rw [L o n d htd hd, hy]
  · obtain ⟨hg, raw, m, rfl⟩ := hc.2 n d htd
    exact listenedName_eq_targetName raw m _ n hg

/-! ### what a cascade contains -/

theorem notify_succ (p : Pool) (f : Nat) (x : ObjId) (t : Name) (a b : Val) :
    notify p (f + 1) x t a b =
      ⟨x, t, a, b⟩ :: (forwarders p x t).flatMap fun on => notify p f on.1 on.2 a b := rfl

/-- Every event of a cascade carries the values it was started with, and is either the event of the
changed attribute itself or the event of an attribute that has a forwarder. -/
theorem notify_mem {p : Pool} {a b : Val} : ∀ (f : Nat) (x : ObjId) (t : Name) (e : Event),
    e ∈ notify p f x t a b →
      e.old = a ∧ e.new = b ∧ ((e.obj = x ∧ e.name = t) ∨ ∃ h, (p.obj e.obj).fwd e.name = some (some h)) := by
  intro f
  induction f with
  | zero => intro x t e h; simp [notify] at h
  | succ f ih =>
    intro x t e h
    rw [notify_succ] at h
    rcases List.mem_cons.mp h with rfl | h
    · exact ⟨rfl, rfl, Or.inl ⟨rfl, rfl⟩⟩
    · obtain ⟨⟨o, n⟩, hon, he⟩ := List.mem_flatMap.mp h
      obtain ⟨h1, h2, h3⟩ := ih o n e he
      refine ⟨h1, h2, Or.inr ?_⟩
      rcases h3 with ⟨ho, hn⟩ | h3
      · rw [ho, hn]
        obtain ⟨_, d, _, hf, _⟩ := mem_forwarders.mp hon
        exact ⟨x, hf⟩
      · exact h3

/-- The handlers of a linked deferring attribute are called when the target on the current delegate
is notified (cascade of depth at least two). -/
theorem notify_contains {p : Pool} {o : ObjId} {n : Name} {y : ObjId} {t : Name}
    (h : (o, n) ∈ forwarders p y t) (f : Nat) (a b : Val) : ⟨o, n, a, b⟩ ∈ notify p (f + 2) y t a b := by
  rw [notify_succ]
  refine List.mem_cons_of_mem _ (List.mem_flatMap.mpr ⟨(o, n), h, ?_⟩)
  rw [notify_succ]
  exact List.mem_cons_self ..

/-! ### exactly once -/

theorem sum_map_zero {α : Type} (g : α → Nat) : ∀ (l : List α), (∀ b ∈ l, g b = 0) → (l.map g).sum = 0
  | [], _ => rfl
  | c :: l, h => by
    simp only [List.map_cons, List.sum_cons]
    rw [sum_map_zero g l (fun b hb => h b (List.mem_cons_of_mem _ hb)), h c (List.mem_cons_self ..)]

theorem sum_map_single {α : Type} (g : α → Nat) (a : α) : ∀ (l : List α), l.Nodup → a ∈ l →
    (∀ b ∈ l, b ≠ a → g b = 0) → (l.map g).sum = g a
  | [], _, h, _ => by simp at h
  | c :: l, hnd, hm, hz => by
    simp only [List.nodup_cons] at hnd
    simp only [List.map_cons, List.sum_cons]
    rcases List.mem_cons.mp hm with rfl | hm
    · have : (l.map g).sum = 0 :=
        sum_map_zero g l (fun b hb => hz b (List.mem_cons_of_mem _ hb) (by rintro rfl; exact hnd.1 hb))
      omega
    · have := sum_map_single g a l hnd.2 hm (fun b hb hne => hz b (List.mem_cons_of_mem _ hb) hne)
      have hc : g c = 0 := hz c (List.mem_cons_self ..) (by rintro rfl; exact hnd.1 hm)
      omega

end TraitsVerif.Model.Deleg
