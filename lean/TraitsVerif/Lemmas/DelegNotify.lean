/-
Notification forwarding of the `deleg` model: who is in `forwarders`, which events a cascade
`notify` contains, and that it contains the event of a linked deferring attribute exactly once when
the hooking graph is acyclic.
-/
import TraitsVerif.Lemmas.DelegInv
import TraitsVerif.Lemmas.DelegNames
namespace TraitsVerif.Model.Deleg

/-! ### membership in `forwarders` -/

theorem mem_forwarders {p : Pool} {x : ObjId} {t : Name} {o : ObjId} {n : Name} :
    (o, n) ∈ forwarders p x t ↔
      o < p.size ∧ ∃ d, (n, d) ∈ (p.obj o).cls.deferNames ∧ (p.obj o).fwd n = some (some x) ∧
        listenedName (p.obj o).cls.pfx n d = t := by
  unfold forwarders
  simp only [List.mem_flatMap, List.mem_range, List.mem_filterMap]
  constructor
  · rintro ⟨o', ho', ⟨n', d⟩, hmem, hsome⟩
    split at hsome
    · rename_i hc
      simp only [Option.some.injEq, Prod.mk.injEq] at hsome
      obtain ⟨rfl, rfl⟩ := hsome
      exact ⟨ho', d, hmem, hc.1, hc.2⟩
    · simp at hsome
  · rintro ⟨ho, d, hmem, hf, hl⟩
    exact ⟨o, ho, (n, d), hmem, by simp [hf, hl]⟩

/-- Classes as `DelegatesTo` / `PrototypedFrom` build them: distinct identifier-like names, every
deferring trait made by `Delegate.__init__`. -/
def ClsOK (c : Cls) : Prop :=
  ClsWF c ∧ ∀ n d, c.trait n = .defer d → GoodName n ∧ ∃ raw m, d = mkDelegate raw m

theorem clsOK_of_forall {c : Cls} (hwf : ClsWF c)
    (h : ∀ ntd ∈ c.traits, ∀ d, ntd.2 = .defer d → GoodName ntd.1 ∧ ∃ raw m, d = mkDelegate raw m) : ClsOK c := by
  refine ⟨hwf, fun n d htd => ?_⟩
  unfold Cls.trait at htd
  cases hl : c.traits.lookup n with
  | none => rw [hl] at htd; simp at htd
  | some td =>
    rw [hl] at htd
    simp only [Option.getD_some] at htd
    subst htd
    obtain ⟨l₁, l₂, heq, _⟩ := List.lookup_eq_some_iff.mp hl
    exact h (n, .defer d) (by rw [heq]; simp) d rfl

theorem clsOK_empty : ClsOK ⟨none, []⟩ :=
  clsOK_of_forall (by simp [ClsWF]) (by intro ntd h; simp at h)

/-- While linked (and no hook failed), the forwarder of `(o, n)` is among the forwarders of the target
attribute on the current delegate. -/
theorem forwarder_of_linked {p : Pool} (L : Linked p) {o : ObjId} (ho : o < p.size) (hc : ClsOK (p.obj o).cls)
    {n : Name} {d : DelegInfo} (htd : (p.obj o).cls.trait n = .defer d) (hd : (p.obj o).dict n = none)
    {y : ObjId} (hy : (p.obj o).deleg = some y) :
    (o, n) ∈ forwarders p y (targetName (p.obj o).cls.pfx n d) := by
  rw [mem_forwarders]
  refine ⟨ho, d, deferNames_mem _ _ _ htd, ?_, ?_⟩
  · rw [L o n d htd hd, hy]
  · obtain ⟨hg, raw, m, rfl⟩ := hc.2 n d htd
    exact listenedName_eq_targetName raw m _ n hg

/-! ### what a cascade contains -/

theorem notify_succ (p : Pool) (f : Nat) (x : ObjId) (t : Name) (a b : Val) :
    notify p (f + 1) x t a b =
      ⟨x, t, a, b⟩ :: (forwarders p x t).flatMap fun on => notify p f on.1 on.2 a b := rfl

/-- Every event of a cascade carries the values it was started with, and is either the event of the
changed attribute itself or the event of an attribute that has a forwarder. -/
theorem notify_mem {p : Pool} {a b : Val} : ∀ (f : Nat) (x : ObjId) (t : Name) (e : Event),
    e ∈ notify p f x t a b →
      e.old = a ∧ e.new = b ∧ ((e.obj = x ∧ e.name = t) ∨ ∃ h, (p.obj e.obj).fwd e.name = some (some h)) := by
  intro f
  induction f with
  | zero => intro x t e h; simp [notify] at h
  | succ f ih =>
    intro x t e h
    rw [notify_succ] at h
    rcases List.mem_cons.mp h with rfl | h
    · exact ⟨rfl, rfl, Or.inl ⟨rfl, rfl⟩⟩
    · obtain ⟨⟨o, n⟩, hon, he⟩ := List.mem_flatMap.mp h
      obtain ⟨h1, h2, h3⟩ := ih o n e he
      refine ⟨h1, h2, Or.inr ?_⟩
      rcases h3 with ⟨ho, hn⟩ | h3
      · rw [ho, hn]
        obtain ⟨_, d, _, hf, _⟩ := mem_forwarders.mp hon
        exact ⟨x, hf⟩
      · exact h3

/-- The handlers of a linked deferring attribute are called when the target on the current delegate
is notified (cascade of depth at least two). -/
theorem notify_contains {p : Pool} {o : ObjId} {n : Name} {y : ObjId} {t : Name}
    (h : (o, n) ∈ forwarders p y t) (f : Nat) (a b : Val) : ⟨o, n, a, b⟩ ∈ notify p (f + 2) y t a b := by
  rw [notify_succ]
  refine List.mem_cons_of_mem _ (List.mem_flatMap.mpr ⟨(o, n), h, ?_⟩)
  rw [notify_succ]
  exact List.mem_cons_self ..

/-! ### exactly once -/

theorem sum_map_zero {α : Type} (g : α → Nat) : ∀ (l : List α), (∀ b ∈ l, g b = 0) → (l.map g).sum = 0
  | [], _ => rfl
  | c :: l, h => by
    simp only [List.map_cons, List.sum_cons]
    rw [sum_map_zero g l (fun b hb => h b (List.mem_cons_of_mem _ hb)), h c (List.mem_cons_self ..)]

theorem sum_map_single {α : Type} (g : α → Nat) (a : α) : ∀ (l : List α), l.Nodup → a ∈ l →
    (∀ b ∈ l, b ≠ a → g b = 0) → (l.map g).sum = g a
  | [], _, h, _ => by simp at h
  | c :: l, hnd, hm, hz => by
    simp only [List.nodup_cons] at hnd
    simp only [List.map_cons, List.sum_cons]
    rcases List.mem_cons.mp hm with rfl | hm
    · have : (l.map g).sum = 0 :=
        sum_map_zero g l (fun b hb => hz b (List.mem_cons_of_mem _ hb) (by rintro rfl; exact hnd.1 hb))
      omega
    · have := sum_map_single g a l hnd.2 hm (fun b hb hne => hz b (List.mem_cons_of_mem _ hb) hne)
      have hc : g c = 0 := hz c (List.mem_cons_self ..) (by rintro rfl; exact hnd.1 hm)
      omega

theorem nodup_flatMap_of_key {α β : Type} (F : α → List β) (key : β → α) : ∀ (l : List α), l.Nodup →
    (∀ a ∈ l, (F a).Nodup) → (∀ a, ∀ b ∈ F a, key b = a) → (l.flatMap F).Nodup
  | [], _, _, _ => by simp
  | c :: l, hnd, hF, hk => by
    simp only [List.nodup_cons] at hnd
    simp only [List.flatMap_cons]
    rw [List.nodup_append]
    refine ⟨hF c (List.mem_cons_self ..), nodup_flatMap_of_key F key l hnd.2
      (fun a ha => hF a (List.mem_cons_of_mem _ ha)) hk, ?_⟩
    intro b hb b' hb' heq
    obtain ⟨a', ha', hb''⟩ := List.mem_flatMap.mp hb'
    have h1 := hk c b hb
    have h2 := hk a' b' hb''
    rw [heq, h2] at h1
    rw [h1] at ha'
    exact hnd.1 ha'

theorem nodup_filterMap_names (o : ObjId) (c : Name → DelegInfo → Bool) : ∀ (l : List (Name × DelegInfo)),
    (l.map (·.1)).Nodup →
    (l.filterMap fun (nd : Name × DelegInfo) => if c nd.1 nd.2 then some (o, nd.1) else none).Nodup
  | [], _ => by simp
  | (n, d) :: l, hnd => by
    simp only [List.map_cons, List.nodup_cons] at hnd
    rw [List.filterMap_cons]
    have ih := nodup_filterMap_names o c l hnd.2
    split
    · exact ih
    · rename_i b hb
      split at hb
      · simp only [Option.some.injEq] at hb
        subst hb
        rw [List.nodup_cons]
        refine ⟨?_, ih⟩
        intro hmem
        obtain ⟨⟨n', d'⟩, hm', hs⟩ := List.mem_filterMap.mp hmem
        split at hs
        · simp only [Option.some.injEq, Prod.mk.injEq, true_and] at hs
          subst hs
          exact hnd.1 (List.mem_map_of_mem (f := (·.1)) hm')
        · simp at hs
      · simp at hb

theorem forwarders_nodup {p : Pool} (hwf : PoolWF p) (x : ObjId) (t : Name) : (forwarders p x t).Nodup := by
  unfold forwarders
  refine nodup_flatMap_of_key _ (·.1) _ List.nodup_range (fun o _ => ?_) (fun o b hb => ?_)
  · have := nodup_filterMap_names o
      (fun n d => decide ((p.obj o).fwd n = some (some x) ∧ listenedName (p.obj o).cls.pfx n d = t))
      _ (deferNames_nodup _ (hwf o))
    simpa using this
  · obtain ⟨⟨n, d⟩, _, hs⟩ := List.mem_filterMap.mp hb
    simp only [] at hs
    by_cases hc : (p.obj o).fwd n = some (some x) ∧ listenedName (p.obj o).cls.pfx n d = t
    · rw [if_pos hc] at hs
      cases hs; rfl
    · rw [if_neg hc] at hs
      cases hs

/-- The hooking graph is acyclic: some rank decreases along every hook. -/
def Acyclic (p : Pool) (rank : ObjId → Nat) : Prop :=
  ∀ o n h, (p.obj o).fwd n = some (some h) → rank h < rank o

/-- With an acyclic delegate graph the hooking graph is acyclic (a forwarder is hooked on the current
delegate or on nothing). -/
theorem acyclic_of_deleg {p : Pool} (H : HookInv p) (rank : ObjId → Nat)
    (h : ∀ o y, (p.obj o).deleg = some y → rank y < rank o) : Acyclic p rank :=
  fun o n y hf => h o y (H o n y hf)

theorem notify_tail_rank {p : Pool} {rank : ObjId → Nat} (hac : Acyclic p rank) {a b : Val} :
    ∀ (f : Nat) (x : ObjId) (t : Name) (e : Event),
      e ∈ (forwarders p x t).flatMap (fun on => notify p f on.1 on.2 a b) →
      rank x < rank e.obj ∧ ∃ z, (p.obj e.obj).fwd e.name = some (some z) ∧ rank x ≤ rank z := by
  intro f
  induction f with
  | zero =>
    intro x t e h
    obtain ⟨on, _, he⟩ := List.mem_flatMap.mp h
    simp [notify] at he
  | succ f ih =>
    intro x t e h
    obtain ⟨⟨o', n'⟩, hon, he⟩ := List.mem_flatMap.mp h
    obtain ⟨_, d, _, hf, _⟩ := mem_forwarders.mp hon
    have hr := hac o' n' x hf
    rw [notify_succ] at he
    rcases List.mem_cons.mp he with rfl | he
    · exact ⟨hr, x, hf, Nat.le_refl _⟩
    · obtain ⟨h1, z, h2, h3⟩ := ih o' n' e he
      exact ⟨by omega, z, h2, by omega⟩

/-- **Exactly once**: in an acyclic pool, the cascade started on the target of a hooked forwarder
contains the event of the deferring attribute exactly once. -/
theorem notify_count_one {p : Pool} (hwf : PoolWF p) {rank : ObjId → Nat} (hac : Acyclic p rank)
    {o : ObjId} {n : Name} {y : ObjId} {t : Name} (h : (o, n) ∈ forwarders p y t) (f : Nat) (a b : Val) :
    (notify p (f + 2) y t a b).countP (fun e => decide (e.obj = o ∧ e.name = n)) = 1 := by
  obtain ⟨_, d, _, hf, _⟩ := mem_forwarders.mp h
  have hry := hac o n y hf
  rw [notify_succ, List.countP_cons, List.countP_flatMap]
  have hhead : (decide ((⟨y, t, a, b⟩ : Event).obj = o ∧ (⟨y, t, a, b⟩ : Event).name = n)) = false := by
    simp only [decide_eq_false_iff_not]
    rintro ⟨rfl, _⟩
    omega
  rw [hhead]
  simp only [Bool.false_eq_true, if_false, Nat.add_zero]
  rw [sum_map_single _ (o, n) _ (forwarders_nodup hwf y t) h]
  · -- the sub-cascade of (o, n) itself: its head, and nothing else
    simp only [Function.comp]
    rw [notify_succ, List.countP_cons]
    have h0 : List.countP (fun e => decide (e.obj = o ∧ e.name = n))
        ((forwarders p o n).flatMap fun on => notify p f on.1 on.2 a b) = 0 := by
      rw [List.countP_eq_zero]
      intro e he
      obtain ⟨h1, _⟩ := notify_tail_rank hac f o n e he
      simp only [decide_eq_true_eq]
      rintro ⟨rfl, _⟩
      omega
    rw [h0]; simp
  · -- the sub-cascades of the other forwarders never reach (o, n)
    rintro ⟨o', n'⟩ hon hne
    simp only [Function.comp]
    rw [List.countP_eq_zero]
    intro e he
    simp only [decide_eq_true_eq]
    rintro ⟨ho, hn⟩
    obtain ⟨_, d', _, hf', _⟩ := mem_forwarders.mp hon
    have hr' := hac o' n' y hf'
    rw [notify_succ] at he
    rcases List.mem_cons.mp he with rfl | he
    · simp only at ho hn
      exact hne (by rw [ho, hn])
    · obtain ⟨_, z, h2, h3⟩ := notify_tail_rank hac f o' n' e he
      rw [ho, hn, hf] at h2
      simp only [Option.some.injEq] at h2
      subst h2
      omega

end TraitsVerif.Model.Deleg
