/-
Lemmas for the source tie of the compiled validators (C03_fast_is_source): the C-API
primitives of Model/CSrc.lean as rewrite rules, the tactic `csrc_eval` (symbolic
evaluation of a translated function to its decision tree), and the helpers of ctraits.c
(as_integer, validate_float, validate_complex_number, in_float_range,
_validate_trait_callable, type_converter, call_validator): the interpretation of their
translated source text is the model's function of the same name.
-/
import TraitsVerif.Model.CSrcRun
import TraitsVerif.Lemmas.ValFast
namespace TraitsVerif.Model.CSrc
open TraitsVerif TraitsVerif.Py.Value TraitsVerif.Model.Val TraitsVerif.Generated.CValidators

section prims
variable {R : Type} (C : Ctx) (err : Err) (k : CV → Err → R)

@[simp] theorem truthy_ofBool (b : Bool) : (ofBool b).truthy = b := by cases b <;> rfl
@[simp] theorem truthy_int0 : (CV.int 0).truthy = false := rfl
@[simp] theorem truthy_int1 : (CV.int 1).truthy = true := rfl

theorem prim_GET_SIZE (x : CV) : prim C .PyTuple_GET_SIZE [x] err k = k (getSize x) err := rfl
theorem prim_GET_ITEM (x : CV) (i : Int) : prim C .PyTuple_GET_ITEM [x, .int i] err k = k (getItem x i) err := rfl
theorem prim_TypeCheck (v : Val) (t : Ty) : prim C .PyObject_TypeCheck [.obj v, .ty t] err k = k (ofBool (Val.isInst t v)) err := rfl
theorem prim_IsInstance (v : Val) (t : Ty) : prim C .PyObject_IsInstance [.obj v, .ty t] err k = k (ofBool (Val.isInst t v)) err := rfl
theorem prim_TYPE (v : Val) : prim C .Py_TYPE [.obj v] err k = k (.tyOf v) err := rfl
theorem prim_TYPE_obj : prim C .Py_TYPE [.hobj] err k = k (.ty (.user C.E.selfCls)) err := rfl
theorem prim_LongExact (v : Val) : prim C .PyLong_CheckExact [.obj v] err k = k (ofBool (Val.exactTy .int v)) err := rfl
theorem prim_FloatExact (v : Val) : prim C .PyFloat_CheckExact [.obj v] err k = k (ofBool (Val.exactTy .float v)) err := rfl
theorem prim_ComplexExact (v : Val) : prim C .PyComplex_CheckExact [.obj v] err k = k (ofBool (Val.exactTy .complex v)) err := rfl
theorem prim_TupleCheck (v : Val) : prim C .PyTuple_Check [.obj v] err k = k (ofBool (Val.isInst .tuple v)) err := rfl
theorem prim_Callable (v : Val) : prim C .PyCallable_Check [.obj v] err k = k (ofBool v.callable) err := rfl
theorem prim_Index (v : Val) : prim C .PyNumber_Index [.obj v] err k =
    (match index v with | .ok n => k (.obj (Val.ofInt n)) err | .error e => k .null (some e)) := rfl
theorem prim_Long (s : Bool) (n : Int) : prim C .PyNumber_Long [.obj (.atom (.int s n))] err k = k (.obj (Val.ofInt n)) err := rfl
theorem prim_AsDouble (v : Val) : prim C .PyFloat_AsDouble [.obj v] err k =
    (match asDouble v with | .ok f => k (.dbl f) err | .error e => k (.dbl (.fin (-4))) (some e)) := rfl
theorem prim_FromDouble (f : F) : prim C .PyFloat_FromDouble [.dbl f] err k = k (.obj (Val.ofFloat f)) err := rfl
theorem prim_AS_DOUBLE (v : Val) : prim C .PyFloat_AS_DOUBLE [.obj v] err k = k (.dbl (floatOf v)) err := rfl
theorem prim_AsCComplex (v : Val) : prim C .PyComplex_AsCComplex [.obj v] err k =
    (match asComplex v with | .ok (re, im) => k (.cpx re im) err | .error e => k (.cpx (.fin (-4)) (.fin 0)) (some e)) := rfl
theorem prim_FromCComplex (re im : F) : prim C .PyComplex_FromCComplex [.cpx re im] err k = k (.obj (Val.ofComplex re im)) err := rfl
theorem prim_AsLong (s : Bool) (n : Int) : prim C .PyLong_AsLong [.obj (.atom (.int s n))] err k = k (.int n) err := rfl
theorem prim_IsTrue (b : Bool) : prim C .PyObject_IsTrue [.obj (.atom (.bool b))] err k = k (ofBool b) err := rfl
theorem prim_Contains (vals : List Val) (v : Val) : prim C .PySequence_Contains [.seq vals, .obj v] err k =
    (match seqContains vals v with | .yes => k (.int 1) err | .no => k (.int 0) err | .raises e => k (.int (-1)) (some e)) := rfl
theorem prim_DictGet (keys : List Val) (v : Val) : prim C .PyDict_GetItemWithError [.dict keys, .obj v] err k =
    (match dictFind keys v with | .ok (some _) => k .borrowed err | .ok none => k .null err | .error e => k .null (some e)) := rfl
theorem prim_ExcMatches (e : Exc) : prim C .PyErr_ExceptionMatches [.exc e] err k = k (ofBool (err == some e)) err := rfl
theorem prim_Occurred : prim C .PyErr_Occurred [] err k = k (ofBool err.isSome) err := rfl
theorem prim_Clear : prim C .PyErr_Clear [] err k = k .undef none := rfl
theorem prim_Pack (n : Int) (xs : List CV) : prim C .PyTuple_Pack (.int n :: xs) err k = k (.tup xs) err := rfl
theorem prim_Call (f : CV) (xs : List CV) : prim C .PyObject_Call [f, .tup xs, .null] err k = pyCall C f xs err k := rfl
theorem prim_CallMethod (h : Val → Res) (v : Val) :
    prim C .PyObject_CallMethod [.handler h, .str "slow_validate", .str "(OOO)", .hobj, .name, .obj v] err k =
      pyCall C (.handler h) [.hobj, .name, .obj v] err k := rfl
theorem prim_New (n : Int) : prim C .PyTuple_New [.int n] err k = k (.mtuple (List.replicate n.toNat .null)) err := rfl
theorem prim_INCREF (x : CV) : prim C .Py_INCREF [x] err k = k .undef err := rfl
theorem prim_DECREF (x : CV) : prim C .Py_DECREF [x] err k = k .undef err := rfl
theorem prim_XDECREF (x : CV) : prim C .Py_XDECREF [x] err k = k .undef err := rfl
theorem prim_raise (d : Desc) (v : Val) : prim C .raise_trait_error [.trait d, .hobj, .name, .obj v] err k = k .null (some .traitError) := rfl
theorem prim_default_adapt (cls : Ty) (m : Nat) (an : Bool) (dflt : Val) :
    prim C .default_value_for [.trait (.adapt cls m an dflt), .hobj, .name] err k = k (.obj dflt) err := rfl
theorem prim_default_complex (ds : List Desc) :
    prim C .default_value_for [.trait (.complex ds), .hobj, .name] err k = k (.obj C.cdflt) err := rfl
theorem prim_helper (name : String) (xs : List CV) :
    prim C (.helper name) xs err k = k (C.helper name xs err).1 (C.helper name xs err).2 := rfl

theorem pyCall_ty (t : Ty) (v : Val) : pyCall C (.ty t) [.obj v] err k =
    (match C.E.cast t v with | .ok w => k (.obj w) err | .error e => k .null (some e)) := rfl
theorem pyCall_fn (f : Nat) (v : Val) : pyCall C (.fn f) [.hobj, .name, .obj v] err k =
    (match C.E.fn f v with | .ok w => k (.obj w) err | .error e => k .null (some e)) := rfl
theorem pyCall_handler (h : Val → Res) (v : Val) : pyCall C (.handler h) [.hobj, .name, .obj v] err k =
    (match h v with | .ok w => k (.obj w) err | .traitError => k .null (some .traitError) | .raised e => k .null (some e)) := rfl
theorem pyCall_adapt (v : Val) (cls : Ty) : pyCall C .adaptFn [.obj v, .ty cls, .obj (.atom .none)] err k =
    (match C.E.adapt v cls with | .ok (some r) => k (.obj r) err | .ok none => k (.obj Val.none) err | .error e => k .null (some e)) := rfl
end prims

macro "csrc_eval" : tactic => `(tactic|
  simp [runFn, exec, evalE, evalArgs, execCases, runTails, Tails.from, St.get, St.set, evalField,
    prim_GET_SIZE, prim_GET_ITEM, prim_TypeCheck, prim_IsInstance, prim_TYPE, prim_TYPE_obj, prim_LongExact,
    prim_FloatExact, prim_ComplexExact, prim_TupleCheck, prim_Callable, prim_Index, prim_Long, prim_AsDouble,
    prim_FromDouble, prim_AS_DOUBLE, prim_AsCComplex, prim_FromCComplex, prim_AsLong, prim_IsTrue, prim_Contains,
    prim_DictGet, prim_ExcMatches, prim_Occurred, prim_Clear, prim_Pack, prim_Call, prim_CallMethod, prim_New,
    prim_INCREF, prim_DECREF, prim_XDECREF, prim_raise, prim_default_adapt, prim_default_complex, prim_helper,
    pyCall_ty, pyCall_fn, pyCall_handler, pyCall_adapt,
    cvEq, cvLt, cvLe, cvBitAnd, cvAdd, cvSub, cvNeg, pyValidateOf, layout, getItem, getSize, kindItem, noneSlot, optF])

variable (C : Ctx)

theorem exactInt_iff (v : Val) : Val.exactTy .int v = true ↔ ∃ n, v = .atom (.int false n) := by
  rcases v with a | ⟨s, vs⟩ | vs
  · cases a <;> simp [Val.exactTy]
    case int sub n => cases sub <;> simp [Val.exactTy]
  · simp [Val.exactTy]
  · simp [Val.exactTy]

theorem run_as_integer (fuel : Nat) (v : Val) :
    runFn C fuel fn_as_integer [.obj v] none = some (exceptToC (asInteger v)) := by
  simp only [fn_as_integer]
  csrc_eval
  rcases v with a | ⟨s, vs⟩ | vs
  · cases a <;> simp [asInteger, exceptToC, Val.exactTy]
    all_goals (try (split <;> simp_all))
    all_goals (try simp [index])
  · simp [asInteger, exceptToC, Val.exactTy, index]
  · simp [asInteger, exceptToC, Val.exactTy, index]

theorem run_validate_float (fuel : Nat) (v : Val) :
    runFn C fuel fn_validate_float [.obj v] none = some (exceptToC (validateFloat v)) := by
  simp only [fn_validate_float]
  csrc_eval
  rcases v with a | ⟨s, vs⟩ | vs
  · cases a <;> simp [validateFloat, exceptToC, Val.exactTy, F.eq, F.key]
    all_goals (try (split <;> simp_all))
    all_goals (try simp [asDouble])
    all_goals (try (split <;> simp_all))
  · simp [validateFloat, exceptToC, Val.exactTy, asDouble, F.eq, F.key]
  · simp [validateFloat, exceptToC, Val.exactTy, asDouble, F.eq, F.key]

theorem run_validate_complex_number (fuel : Nat) (v : Val) :
    runFn C fuel fn_validate_complex_number [.obj v] none = some (exceptToC (validateComplexNumber v)) := by
  simp only [fn_validate_complex_number]
  csrc_eval
  rcases v with a | ⟨s, vs⟩ | vs
  · cases a <;> simp [validateComplexNumber, exceptToC, Val.exactTy, F.eq, F.key]
    all_goals (try (split <;> simp_all))
    all_goals (try simp [asComplex])
    all_goals (try (split <;> simp_all))
  · simp [validateComplexNumber, exceptToC, Val.exactTy, asComplex, asDouble, F.eq, F.key]
  · simp [validateComplexNumber, exceptToC, Val.exactTy, asComplex, asDouble, F.eq, F.key]

@[simp] theorem floatOf_ofFloat (f : F) : floatOf (Val.ofFloat f) = f := rfl

theorem some_ite (b : Bool) : (if b = false then some (CV.int 0, (none : Err)) else some (CV.int 1, none)) =
    some (CV.int (if b = true then 1 else 0), none) := by cases b <;> rfl
theorem some_ite2 (b c : Bool) : (if b = false then some (CV.int 0, (none : Err)) else
    if c = false then some (CV.int 0, none) else some (CV.int 1, none)) =
    some (CV.int (if b = true ∧ c = true then 1 else 0), none) := by cases b <;> cases c <;> rfl

theorem and_two (m : Nat) : (m &&& 2 = 0) ↔ (m / 2 % 2 = 0) := by
  have ht := Nat.testBit_eq_decide_div_mod_eq (x := m) (i := 1)
  have h2 : ∀ i, Nat.testBit 2 i = decide (1 = i) := fun i => Nat.testBit_two_pow (n := 1) (m := i)
  simp only [Nat.pow_one] at ht
  constructor
  · intro h
    have : (m &&& 2).testBit 1 = false := by rw [h]; simp
    rw [Nat.testBit_and, h2] at this
    simp [ht] at this; omega
  · intro h
    apply Nat.eq_of_testBit_eq; intro i
    simp only [Nat.testBit_and, Nat.zero_testBit, h2]
    by_cases hi : 1 = i
    · subst hi; simp [ht]; omega
    · simp [hi]

theorem run_in_float_range (fuel : Nat) (w : Val) (lo hi : Option F) (mask : Nat) :
    runFn C fuel fn_in_float_range [.obj w, .info (.floatRange lo hi mask)] none =
      some (ofBool (inFloatRange (floatOf w) lo hi mask), none) := by
  simp only [fn_in_float_range]
  have h1 : mask % 2 = 0 ∨ mask % 2 = 1 := by omega
  have h2 : mask / 2 % 2 = 0 ∨ mask / 2 % 2 = 1 := by omega
  have h1' : (mask : Int) % 2 = (mask % 2 : Nat) := by omega
  cases lo <;> cases hi <;> csrc_eval
  all_goals simp only [inFloatRange, F.gt, F.ge, and_two]
  all_goals generalize floatOf w = x
  all_goals (rcases h1 with h1 | h1 <;> rcases h2 with h2 | h2)
  all_goals simp [h1, h2, h1', ofBool, floatOf_ofFloat]
  all_goals first | exact some_ite _ | exact some_ite2 _ _

theorem run_validate_trait_callable (fuel : Nat) (v : Val) (an : Option Bool) :
    runFn C fuel fn__validate_trait_callable [.info (.callable an), .obj v] none =
      some (ofBool (validateCallable an v), none) := by
  simp only [fn__validate_trait_callable]
  have hn : (v = Val.none) ↔ v.isNone = true := by
    rcases v with a | _ | _
    · cases a <;> simp [Val.isNone]
    · simp [Val.isNone]
    · simp [Val.isNone]
  rcases an with _ | b <;> csrc_eval <;> simp only [validateCallable, hn] <;> split <;> simp_all [ofBool]

theorem run_type_converter (fuel : Nat) (t : Ty) (v : Val) :
    runFn C fuel fn_type_converter [.ty t, .obj v] none = some (exceptToC (C.E.cast t v)) := by
  simp only [fn_type_converter]
  csrc_eval
  cases C.E.cast t v <;> simp [exceptToC]

theorem run_call_validator (fuel : Nat) (f : Nat) (v : Val) :
    runFn C fuel fn_call_validator [.fn f, .hobj, .name, .obj v] none = some (exceptToC (C.E.fn f v)) := by
  simp only [fn_call_validator]
  csrc_eval
  cases C.E.fn f v <;> simp [exceptToC]


/-! ## The function table and the source semantics of the validators -/

variable (E : Env) (inner : Desc → Val → Res) (cdflt : Val) (fuel : Nat)

@[simp] theorem finishT_exceptToC (r : Except Exc Val) :
    (finishT (exceptToC r).1, (exceptToC r).2) = exceptToC r := by cases r <;> rfl
@[simp] theorem finishT_ofBool (b : Bool) : finishT (ofBool b) = ofBool b := by cases b <;> rfl

theorem helpers_as_integer (v : Val) :
    helpers E inner cdflt fuel "as_integer" [.obj v] none = exceptToC (asInteger v) := by
  have : table.lookup "as_integer" = some fn_as_integer := by rfl
  simp [helpers, this, run_as_integer]

end TraitsVerif.Model.CSrc
