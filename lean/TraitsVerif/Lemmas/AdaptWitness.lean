/-
Concrete configurations used by the negation witnesses and the non-vacuity examples
of `Props/C17.lean`.  Each one is replayed on the real code by the C17 harness
(corpus of `harness/props/c17.py`).
-/
import TraitsVerif.Lemmas.AdaptExtra
namespace TraitsVerif.Lemmas.Adapt
open TraitsVerif TraitsVerif.Model.Adapt

/-- issubclass table from a list of strict pairs (reflexive closure added). -/
def providesOf (pairs : List (Nat × Nat)) (t p : Nat) : Bool := t == p || pairs.contains (t, p)

/-- A factory that always succeeds (adapters carry no information). -/
def okFactory : Factory Unit := fun _ _ a => .adapter a

/-- A factory that refuses exactly the offers whose id is listed. -/
def refusing (ids : List Nat) : Factory Unit := fun _ o a => if ids.contains o.id then .none else .adapter a

/-- F14.  0 = IBase, 1 = IChild(IBase), 2 = IOther, 3 = Foo (provides IChild and IOther
by registration, so every distance is 0), 4 = T.  Offers registered in the order
IBase→T, IOther→T, IChild→T. -/
def specCfg : Cfg :=
  { provides := providesOf [(1, 0), (3, 0), (3, 1), (3, 2)]
    supers := fun _ => []
    groups := [[⟨0, 0, 4, 0⟩], [⟨1, 2, 4, 2⟩], [⟨2, 1, 4, 1⟩]] }

/-- F16.  0 = A.P, 1 = B.P (same `__name__`, same module: one bucket, key 0), 2 = T, 3 = U.
Registered: A.P→U, then B.P→T. -/
def collideCfg : Cfg :=
  { provides := providesOf []
    supers := fun _ => []
    groups := [[⟨0, 0, 3, 0⟩, ⟨1, 1, 2, 0⟩]] }

/-- A chain of three types with a detour: 0 → 1 → 2 and a direct conditional offer 0 → 2;
type 3 is a subclass of 0 (distance 1). -/
def chainCfg : Cfg :=
  { provides := providesOf [(3, 0)]
    supers := fun t => if t == 3 then [0] else []
    groups := [[⟨0, 0, 2, 0⟩, ⟨1, 0, 1, 0⟩], [⟨2, 1, 2, 1⟩], [⟨3, 2, 0, 2⟩]] }

/-- 0 = Base, 1 = Sub(Base), 2 = T; the Base offer is registered before the Sub offer. -/
def distCfg : Cfg :=
  { provides := providesOf [(1, 0)]
    supers := fun t => if t == 1 then [0] else []
    groups := [[⟨0, 0, 2, 0⟩], [⟨1, 1, 2, 1⟩]] }

/-- Two unrelated one-step offers 0→1. -/
def twoCfg : Cfg :=
  { provides := providesOf []
    supers := fun _ => []
    groups := [[⟨0, 0, 1, 0⟩, ⟨1, 0, 1, 0⟩]] }

/-- A factory whose answer depends on *when* it is called: only the very first
factory call of the `adapt` call is accepted, and only for offer 1. -/
def firstCallOnly : Factory Unit := fun k o a => if k == 0 && o.id == 1 then .adapter a else .none

theorem distCfg_homogeneous : Homogeneous distCfg := by
  intro g hg o0 h0 o ho
  simp only [distCfg, List.mem_cons, List.not_mem_nil, or_false] at hg
  rcases hg with rfl | rfl <;> simp_all

theorem twoCfg_homogeneous : Homogeneous twoCfg := by
  intro g hg o0 h0 o ho
  simp only [twoCfg, List.mem_cons, List.not_mem_nil, or_false] at hg
  subst hg
  simp only [List.head?_cons, Option.some.injEq] at h0
  subst h0
  simp only [List.mem_cons, List.not_mem_nil, or_false] at ho
  rcases ho with rfl | rfl <;> rfl

/-- Late registration.  0 = Printable (ABC), 1 = Legacy, 2 = LegacyChild(Legacy), 3 = Page; one offer
Printable→Page.  `late = false`: before `Printable.register(Legacy)`; `late = true`: after. -/
def lateCfg (late : Bool) : Cfg :=
  { provides := providesOf (if late then [(2, 1), (1, 0), (2, 0)] else [(2, 1)])
    supers := fun t => if t == 2 then [1] else []
    groups := [[⟨0, 0, 3, 0⟩]] }

theorem specCfg_homogeneous : Homogeneous specCfg := by
  intro g hg o0 h0 o ho
  simp only [specCfg, List.mem_cons, List.not_mem_nil, or_false] at hg
  rcases hg with rfl | rfl | rfl <;> simp_all

theorem chainCfg_homogeneous : Homogeneous chainCfg := by
  intro g hg o0 h0 o ho
  simp only [chainCfg, List.mem_cons, List.not_mem_nil, or_false] at hg
  rcases hg with rfl | rfl | rfl <;> simp only [List.head?_cons, Option.some.injEq] at h0 <;>
    subst h0 <;> simp only [List.mem_cons, List.not_mem_nil, or_false] at ho <;>
    first
      | (rcases ho with rfl | rfl <;> rfl)
      | (subst ho; rfl)

theorem okFactory_det : Deterministic okFactory := fun _ _ _ _ => rfl
theorem refusing_det (ids : List Nat) : Deterministic (refusing ids) := fun _ _ _ _ => rfl
theorem okFactory_noRaise : NoRaise okFactory := by intro k o a e h; simp [okFactory] at h
theorem refusing_noRaise (ids : List Nat) : NoRaise (refusing ids) := by
  intro k o a e h
  simp only [refusing] at h
  split at h <;> cases h

end TraitsVerif.Lemmas.Adapt
