/-
`Model.Adapt` is the interpretation of the translated source
(`Generated/AdaptProg.lean`), part 1: the pure functions `provides_protocol`,
`mro_distance_to_protocol`, `_get_applicable_offers`,
`_by_weight_then_from_protocol_specificity`.  Symbolic execution of the PyA
interpreter by `simp`; every `for` loop by induction on the list it iterates.
-/
import TraitsVerif.Generated.AdaptProg
import TraitsVerif.Model.Adapt
set_option linter.unusedSimpArgs false
set_option linter.unusedVariables false
namespace TraitsVerif.Lemmas.AdaptSource
open TraitsVerif TraitsVerif.Model.Adapt TraitsVerif.Model.PyA TraitsVerif.Generated.AdaptProg

variable {α : Type}

/-! ## Encodings of the model's data as PyA values -/

def encEdge (e : Edge) : Val α := .tuple [.int e.1, .offer e.2]
def encPath (p : List Offer) : Val α := .list (p.map .offer)
def encEntry (e : Entry) : Val α :=
  .tuple [.tuple [.int e.nAd, .int e.mroSum, .int e.cnt], encPath e.path, .ty e.cur]
def encDist : Option Nat → Val α
  | some n => .int n
  | none => .none

/-- The context a translated function runs in, `d` levels of calls below it. -/
abbrev ctx (cfg : Cfg) (f : Factory α) (s : Nat) (d : Nat) : Ctx α := ctxAt adaptProg cfg f s d

/-! ## `provides_protocol` -/

theorem call_provides (cfg : Cfg) (f : Factory α) (s d a b : Nat) :
    callAt adaptProg cfg f s (d + 1) "provides_protocol" [.ty a, .ty b] = .ok (.bool (cfg.provides a b)) := by
  simp [callAt, adaptProg, lookupFn, runFn, providesProtocolBody, exec, eval, getVar, initFrame, builtin]

/-! ## `mro_distance_to_protocol` -/

theorem mro_loop (C : Ctx α)
    (hC : ∀ a b, C.call "provides_protocol" [.ty a, .ty b] = .ok (.bool (C.cfg.provides a b))) (p : Nat) :
    ∀ (ts : List Nat) (st : St α) (n : Nat), st.vars 1 = some (.ty p) → st.vars 3 = some (.int n) →
      ((forLoop [4] (fun s => exec C 0 mroDistanceLoop1 s) (ts.map .ty) st).2 = .next ∨
       (forLoop [4] (fun s => exec C 0 mroDistanceLoop1 s) (ts.map .ty) st).2 = .brk) ∧
      (forLoop [4] (fun s => exec C 0 mroDistanceLoop1 s) (ts.map .ty) st).1.vars 3 =
        some (.int ((n + countWhile (fun s => C.cfg.provides s p) ts : Nat) : Int)) ∧
      (forLoop [4] (fun s => exec C 0 mroDistanceLoop1 s) (ts.map .ty) st).1.trace = st.trace := by
  intro ts
  induction ts with
  | nil => intro st n h1 h3; simp [forLoop, countWhile, h3]
  | cons t ts ih =>
    intro st n h1 h3
    cases hp : C.cfg.provides t p with
    | false =>
      simp [forLoop, bindTargets, mroDistanceLoop1, exec, truth, eval, getVar, setVar, builtin, h1, h3, hC, hp,
        countWhile]
    | true =>
      have := ih { st with vars := setVar (setVar st.vars 4 (.ty t)) 3 (.int (n + 1)) } (n + 1)
        (by simp [setVar, h1]) (by simp [setVar])
      simp [forLoop, bindTargets, mroDistanceLoop1, exec, truth, eval, getVar, setVar, builtin, h1, h3, hC, hp,
        countWhile] at this ⊢
      have e : (n : Int) + (↑(countWhile (fun s => C.cfg.provides s p) ts) + 1) =
          (n : Int) + 1 + ↑(countWhile (fun s => C.cfg.provides s p) ts) := by omega
      rw [e]; exact this

theorem lookup_mro : lookupFn "mro_distance_to_protocol" adaptProg =
    some { nparams := 2, nslots := 5, body := mroDistanceBody } := by
  simp [lookupFn, adaptProg]

theorem call_mro (cfg : Cfg) (f : Factory α) (s d t p : Nat) :
    callAt adaptProg cfg f s (d + 2) "mro_distance_to_protocol" [.ty t, .ty p] = .ok (encDist (dist cfg t p)) := by
  rw [callAt, lookup_mro]
  simp only [runFn, List.length_cons, List.length_nil]
  cases hp : cfg.provides t p with
  | false =>
    simp [mroDistanceBody, exec, truth, eval, getVar, setVar, initFrame, builtin,
      call_provides, hp, dist, encDist]
  | true =>
    have hC : ∀ a b, (ctx cfg f s (d + 1)).call "provides_protocol" [.ty a, .ty b] =
        .ok (.bool ((ctx cfg f s (d + 1)).cfg.provides a b)) := fun a b => call_provides cfg f s d a b
    have hl := mro_loop (ctx cfg f s (d + 1)) hC p (cfg.supers t)
      { vars := setVar (setVar (initFrame [.ty t, .ty p]) 2 (.list ((cfg.supers t).map .ty))) 3 (.int 0) } 0
      (by simp [setVar, initFrame]) (by simp [setVar])
    simp only [ctx, ctxAt] at hl
    simp [mroDistanceBody, exec, truth, eval, getVar, setVar, initFrame, builtin,
      call_provides, hp, dist, encDist] at hl ⊢
    generalize forLoop [4] _ _ _ = r at hl ⊢
    obtain ⟨st', fl⟩ := r
    obtain ⟨hf, hv, ht⟩ := hl
    simp only at hf hv ht
    rcases hf with hf | hf <;> subst hf <;> simp [hv, ht]

/-! ## `_by_weight_then_from_protocol_specificity` -/

/-- What the comparison function returns on two edges. -/
def cmpI (cfg : Cfg) (e1 e2 : Edge) : Int :=
  if e1.1 < e2.1 then -1 else if e2.1 < e1.1 then 1
  else if e1.2.frm = e2.2.frm then 0
  else if cfg.provides e1.2.frm e2.2.frm then -1
  else if cfg.provides e2.2.frm e1.2.frm then 1 else 0

theorem lookup_cmp : lookupFn "_by_weight_then_from_protocol_specificity" adaptProg =
    some { nparams := 2, nslots := 6, body := byWeightBody } := by
  simp [lookupFn, adaptProg]

theorem call_cmp (cfg : Cfg) (f : Factory α) (s d : Nat) (e1 e2 : Edge) :
    callAt adaptProg cfg f s (d + 1) "_by_weight_then_from_protocol_specificity" [encEdge e1, encEdge e2] =
      .ok (.int (cmpI cfg e1 e2)) := by
  obtain ⟨d1, o1⟩ := e1
  obtain ⟨d2, o2⟩ := e2
  rw [callAt, lookup_cmp]
  simp only [runFn, List.length_cons, List.length_nil, encEdge]
  by_cases h1 : d1 < d2
  · simp [byWeightBody, exec, truth, eval, getVar, setVar, initFrame, builtin, bindAll, cmpI, h1]
  · by_cases h2 : d2 < d1
    · simp [byWeightBody, exec, truth, eval, getVar, setVar, initFrame, builtin, bindAll, cmpI, h1, h2]
    · by_cases h3 : o1.frm = o2.frm
      · simp [byWeightBody, exec, truth, eval, getVar, setVar, initFrame, builtin, bindAll, cmpI, h1, h2, h3, isSame]
      · have h3' : (o1.frm == o2.frm) = false := by simp [h3]
        cases h4 : cfg.provides o1.frm o2.frm <;> cases h5 : cfg.provides o2.frm o1.frm <;>
          simp [byWeightBody, exec, truth, eval, getVar, setVar, initFrame, builtin, bindAll, cmpI, h1, h2, h3, h3', h4,
            h5, isSame]

theorem cmpI_lt (cfg : Cfg) (e1 e2 : Edge) : decide (cmpI cfg e1 e2 < 0) = edgeLt cfg e1 e2 := by
  obtain ⟨d1, o1⟩ := e1
  obtain ⟨d2, o2⟩ := e2
  simp only [cmpI, edgeLt]
  by_cases h1 : d1 < d2
  · simp [h1]
  · by_cases h2 : d2 < d1
    · have : ¬ d1 = d2 := by omega
      simp [h1, h2, this]
    · have : d1 = d2 := by omega
      by_cases h3 : o1.frm = o2.frm
      · simp [h1, h2, h3, this]
      · cases h4 : cfg.provides o1.frm o2.frm <;> cases h5 : cfg.provides o2.frm o1.frm <;>
          simp [h1, h2, h3, h4, h5, this]

/-! ## `_get_applicable_offers` -/

theorem containsOffer_path (o : Offer) (path : List Offer) :
    containsOffer (α := α) o (path.map .offer) = inPath o path := by
  simp [containsOffer, inPath, List.any_map, Function.comp_def]

theorem app_loop2 (C : Ctx α) (path : List Offer) (d : Nat) :
    ∀ (g : List Offer) (st : St α) (acc : List (Val α)),
      st.vars 1 = some (encPath path) → st.vars 2 = some (.list acc) → st.vars 6 = some (.int d) →
      ∀ r, forLoop [7] (fun s => exec C 0 applicableOffersLoop2 s) (g.map .offer) st = r →
        r.2 = .next ∧
        r.1.vars 2 = some (.list (acc ++ ((g.filter (fun o => !inPath o path)).map (fun o => encEdge (d, o))))) ∧
        r.1.trace = st.trace ∧ r.1.vars 0 = st.vars 0 ∧ r.1.vars 1 = st.vars 1 := by
  intro g
  induction g with
  | nil => intro st acc h1 h2 h6 r hr; subst hr; simp [forLoop, h2]
  | cons o g ih =>
    intro st acc h1 h2 h6 r hr
    subst hr
    cases hin : inPath o path with
    | true =>
      have := ih { st with vars := setVar st.vars 7 (.offer o) } acc (by simp [setVar, h1]) (by simp [setVar, h2])
        (by simp [setVar, h6]) _ rfl
      simp [forLoop, bindTargets, applicableOffersLoop2, exec, truth, eval, getVar, setVar, h1, h2, h6, encPath,
        containsOffer_path, hin] at this ⊢
      exact this
    | false =>
      have := ih { st with vars := setVar (setVar st.vars 7 (.offer o)) 2 (.list (acc ++ [encEdge (d, o)])) }
        (acc ++ [encEdge (d, o)]) (by simp [setVar, h1]) (by simp [setVar]) (by simp [setVar, h6]) _ rfl
      simp [forLoop, bindTargets, applicableOffersLoop2, exec, truth, eval, getVar, setVar, h1, h2, h6, encPath,
        containsOffer_path, hin, encEdge] at this ⊢
      exact this

/-- One `(from_protocol_name, offers)` item of the registry. -/
def encGroup (g : List Offer) : Val α := .tuple [.opaque, .list (g.map .offer)]

theorem app_loop1 (C : Ctx α)
    (hmro : ∀ t p, C.call "mro_distance_to_protocol" [.ty t, .ty p] = .ok (encDist (dist C.cfg t p)))
    (cur : Nat) (path : List Offer) :
    ∀ (gs : List (List Offer)), (∀ g ∈ gs, g ≠ []) → ∀ (st : St α) (acc : List (Val α)),
      st.vars 0 = some (.ty cur) → st.vars 1 = some (encPath path) → st.vars 2 = some (.list acc) →
      ∀ r, forLoop [3, 4] (fun s => exec C 0 applicableOffersLoop1 s) (gs.map encGroup) st = r →
        r.2 = .next ∧
        r.1.vars 2 = some (.list (acc ++ (gs.flatMap (groupEdges C.cfg cur path)).map encEdge)) ∧
        r.1.trace = st.trace := by
  intro gs
  induction gs with
  | nil => intro _ st acc h0 h1 h2 r hr; subst hr; simp [forLoop, h2]
  | cons g gs ih =>
    intro hne st acc h0 h1 h2 r hr
    subst hr
    have hne' : ∀ g ∈ gs, g ≠ [] := fun x hx => hne x (List.mem_cons_of_mem _ hx)
    obtain ⟨o0, g', rfl⟩ : ∃ o0 g', g = o0 :: g' := by
      cases g with
      | nil => exact absurd rfl (hne [] (List.mem_cons_self))
      | cons a b => exact ⟨a, b, rfl⟩
    cases hd : dist C.cfg cur o0.frm with
    | none =>
      have := ih hne' { st with vars := setVar (setVar (setVar (setVar st.vars 3 .opaque) 4
          (.list ((o0 :: g').map .offer))) 5 (.ty o0.frm)) 6 .none } acc
        (by simp [setVar, h0]) (by simp [setVar, h1]) (by simp [setVar, h2]) _ rfl
      simp [forLoop, bindTargets, bindAll, encGroup, applicableOffersLoop1, exec, truth, eval, getVar, setVar, builtin,
        h0, h1, h2, hmro, hd, encDist, isSame, groupEdges] at this ⊢
      exact this
    | some dd =>
      have hin := app_loop2 C path dd (o0 :: g')
        { st with vars := setVar (setVar (setVar (setVar st.vars 3 .opaque) 4
            (.list ((o0 :: g').map .offer))) 5 (.ty o0.frm)) 6 (.int (dd : Int)) } acc
        (by simp [setVar, h1]) (by simp [setVar, h2]) (by simp [setVar]) _ rfl
      generalize hr1 : forLoop [7] (fun s => exec C 0 applicableOffersLoop2 s) ((o0 :: g').map .offer) _ = r1 at hin
      obtain ⟨s1, f1⟩ := r1
      obtain ⟨hf, hv2, htr, hv0, hv1⟩ := hin
      simp only at hf hv2 htr hv0 hv1
      subst hf
      have := ih hne' s1 _ (by rw [hv0]; simp [setVar, h0]) (by rw [hv1]; simp [setVar, h1]) hv2 _ rfl
      simp [forLoop, bindTargets, bindAll, encGroup, applicableOffersLoop1, exec, truth, eval, getVar, setVar, builtin,
        h0, h1, h2, hmro, hd, encDist, isSame, groupEdges] at hr1 this ⊢
      simp [hr1, this, htr]

theorem lookup_app : lookupFn "_get_applicable_offers" adaptProg =
    some { nparams := 2, nslots := 8, body := applicableOffersBody } := by
  simp [lookupFn, adaptProg]

/-- Every bucket of the registry is non-empty (`register_offer` creates a bucket with its first offer). -/
def NonEmptyGroups (cfg : Cfg) : Prop := ∀ g ∈ cfg.groups, g ≠ []

theorem call_applicable (cfg : Cfg) (hne : NonEmptyGroups cfg) (f : Factory α) (s d cur : Nat) (path : List Offer) :
    callAt adaptProg cfg f s (d + 3) "_get_applicable_offers" [.ty cur, encPath path] =
      .ok (.list ((applicable cfg cur path).map encEdge)) := by
  rw [callAt, lookup_app]
  simp only [runFn, List.length_cons, List.length_nil]
  simp [applicableOffersBody, exec, truth, eval, getVar, setVar, initFrame, builtin, applicable]
  generalize hr : forLoop [3, 4] _ _ _ = r
  have hl := app_loop1 (ctx cfg f s (d + 2)) (fun t p => call_mro cfg f s d t p) cur path cfg.groups hne
    _ [] (by simp [setVar, initFrame]) (by simp [setVar, initFrame]) (by simp [setVar]) r hr
  obtain ⟨st', fl⟩ := r
  obtain ⟨hf, hv, ht⟩ := hl
  simp only at hf hv ht
  subst hf
  simp [hv, ht, getVar]
  rfl

end TraitsVerif.Lemmas.AdaptSource
