/-
Per-operation lemmas about `TraitList.step`: every emitted event replays to the
new contents and is in normal form; refinement of the builtin list model.
-/
import TraitsVerif.Lemmas.SeqEvent
namespace TraitsVerif.Model
open TraitsVerif TraitsVerif.Py
variable {α : Type}

theorem normIdx_some {len : Nat} {i : Int} {j : Nat} (h : normIdx len i = some j) :
    0 ≤ (if i < 0 then i + len else i) ∧ (if i < 0 then i + len else i) < len
      ∧ j = (if i < 0 then i + len else i).toNat := by
  unfold normIdx at h
  by_cases hc : 0 ≤ (if i < 0 then i + (len : Int) else i) ∧ (if i < 0 then i + (len : Int) else i) < len
  · simp only [hc, and_self, if_true, Option.some.injEq] at h
    exact ⟨hc.1, hc.2, h.symm⟩
  · simp only [hc, if_false] at h
    cases h

theorem flatten_replicate_succ (l : List α) (n : Nat) :
    (List.replicate (n + 1) l).flatten = l ++ (List.replicate n l).flatten := by
  simp [List.replicate_succ]

theorem insertPos_eq (len : Nat) (i : Int) :
    let n : Int := if i < 0 then max (i + len) 0 else min i len
    0 ≤ n ∧ n ≤ len ∧ insertPos len i = n.toNat := by
  simp only [insertPos]
  split <;> split <;> omega

theorem findIdx?_lt {p : α → Bool} {l : List α} {j : Nat} (h : l.findIdx? p = some j) :
    j < l.length := by
  have := List.findIdx?_eq_some_iff_getElem.mp h
  exact this.1

/-- Events of single-position operations. -/
theorem replay_single_set (l : List α) (j : Nat) (y : α) (hj : j < l.length) (n : Int)
    (hn : 0 ≤ n) (hnj : j = n.toNat) :
    replay l ⟨.idx n, (l[j]?).toList, [y]⟩ = some (l.set j y)
    ∧ NormalForm l ⟨.idx n, (l[j]?).toList, [y]⟩ := by
  subst hnj
  rw [replay_idx _ _ _ _ hn, List.getElem?_eq_getElem hj]
  constructor
  · simp [List.set_eq_take_append_cons_drop, hj]
  · simp only [NormalForm, Option.toList, List.length_cons, List.length_nil]
    refine ⟨hn, by omega, ?_⟩
    rw [List.drop_eq_getElem_cons hj]; rfl

theorem replay_single_del (l : List α) (j : Nat) (hj : j < l.length) (n : Int)
    (hn : 0 ≤ n) (hnj : j = n.toNat) :
    replay l ⟨.idx n, (l[j]?).toList, []⟩ = some (l.eraseIdx j)
    ∧ NormalForm l ⟨.idx n, (l[j]?).toList, []⟩ := by
  subst hnj
  rw [replay_idx _ _ _ _ hn, List.getElem?_eq_getElem hj]
  constructor
  · simp [List.eraseIdx_eq_take_drop_succ]
  · simp only [NormalForm, Option.toList, List.length_cons, List.length_nil]
    refine ⟨hn, by omega, ?_⟩
    rw [List.drop_eq_getElem_cons hj]; rfl

/-- Events that append `added` at the end. -/
theorem replay_append (l added : List α) :
    replay l ⟨.idx l.length, [], added⟩ = some (l ++ added)
    ∧ NormalForm l ⟨.idx l.length, [], added⟩ := by
  rw [replay_idx _ _ _ _ (by omega)]
  constructor
  · simp
  · simp [NormalForm]

/-- Events that replace the whole list. -/
theorem replay_whole (l added : List α) :
    replay l ⟨.idx 0, l, added⟩ = some added ∧ NormalForm l ⟨.idx 0, l, added⟩ := by
  rw [replay_idx _ _ _ _ (by omega)]
  constructor
  · simp
  · simp [NormalForm]

/-- **Replay law and normal form** for every operation of `TraitList`. -/
theorem step_event_ok (E : Env α) (l : List α) (op : Op α) (o : Out α) (e : Event α)
    (h : TraitList.step E l op = .ok o) (he : o.event = some e) :
    replay l e = some o.items ∧ NormalForm l e := by
  cases op with
  | setIdx i x =>
    simp only [TraitList.step] at h
    cases hv : E.v 0 x with
    | error e' => simp [hv] at h
    | ok y =>
      cases hj : normIdx l.length i with
      | none => simp [hv, Py.setIdx, hj] at h
      | some j =>
        simp only [hv, Py.setIdx, hj, normalizeIdx, Except.ok.injEq] at h
        subst h
        simp only [Option.some.injEq] at he
        subst he
        obtain ⟨h0, h1, hjn⟩ := normIdx_some hj
        exact replay_single_set l j y (by omega) _ h0 hjn
  | setSlice s xs =>
    simp only [TraitList.step] at h
    split at h
    · cases h
    · rename_i removed hrem
      split at h
      · cases h
      · rename_i ys _
        split at h
        · cases h
        · rename_i l' hset
          cases hidx : s.indices l.length with
          | none => simp [Py.getSlice, hidx] at hrem
          | some t =>
            obtain ⟨a, b, k⟩ := t
            simp only [Py.getSlice, hidx, Except.ok.injEq] at hrem
            split at h
            · simp only [Except.ok.injEq] at h; subst h; cases he
            · rename_i hne
              simp only [normalizeSlice, hidx] at h
              have hne' : ¬ (ys = [] ∧ getPositions l (positions a k (sliceLen a b k)) = []) := by
                intro hh; apply hne; rw [← hrem]; simp [hh.1, hh.2]
              have hev := setSlice_event hidx hset hne'
              rw [hrem] at hev
              simp only [sliceEvent] at hev
              split at h <;>
              · rename_i hr
                simp only [Except.ok.injEq] at h; subst h
                simp only [Option.some.injEq] at he; subst he
                simpa [hr] using hev
  | delIdx i =>
    simp only [TraitList.step] at h
    cases hj : normIdx l.length i with
    | none => simp [Py.delIdx, hj] at h
    | some j =>
      obtain ⟨h0, h1, hjn⟩ := normIdx_some hj
      have hjl : j < l.length := by omega
      simp only [Py.delIdx, hj, List.getElem?_eq_getElem hjl, Option.toList, List.isEmpty_cons,
        Bool.false_eq_true, if_false, normalizeIdx, Except.ok.injEq] at h
      subst h
      simp only [Option.some.injEq] at he
      subst he
      have := replay_single_del l j hjl _ h0 hjn
      simpa [List.getElem?_eq_getElem hjl, Option.toList] using this
  | delSlice s =>
    simp only [TraitList.step] at h
    split at h
    · cases h
    · rename_i removed hrem
      split at h
      · cases h
      · rename_i l' hdel
        cases hidx : s.indices l.length with
        | none => simp [Py.getSlice, hidx] at hrem
        | some t =>
          obtain ⟨a, b, k⟩ := t
          simp only [Py.getSlice, hidx, Except.ok.injEq] at hrem
          split at h
          · simp only [Except.ok.injEq] at h; subst h; cases he
          · rename_i hne
            simp only [normalizeSlice, hidx] at h
            have hne' : getPositions l (positions a k (sliceLen a b k)) ≠ [] := by
              intro hh; apply hne; rw [← hrem]; simp [hh]
            have hev := delSlice_event hidx hdel hne'
            rw [hrem] at hev
            simp only [sliceEvent] at hev
            simp only [Except.ok.injEq] at h; subst h
            simp only [Option.some.injEq] at he; subst he
            split <;>
            · rename_i hr
              simpa [hr] using hev
  | append x =>
    simp only [TraitList.step] at h
    split at h
    · cases h
    · rename_i y _
      simp only [Except.ok.injEq] at h; subst h
      simp only [Option.some.injEq] at he; subst he
      simpa using replay_append l [y]
  | extend xs =>
    simp only [TraitList.step] at h
    split at h
    · cases h
    · rename_i ys _
      split at h
      · simp only [Except.ok.injEq] at h; subst h; cases he
      · simp only [Except.ok.injEq] at h; subst h
        simp only [Option.some.injEq] at he; subst he
        exact replay_append l ys
  | iadd xs =>
    simp only [TraitList.step] at h
    split at h
    · cases h
    · rename_i ys _
      split at h
      · simp only [Except.ok.injEq] at h; subst h; cases he
      · simp only [Except.ok.injEq] at h; subst h
        simp only [Option.some.injEq] at he; subst he
        exact replay_append l ys
  | imul n =>
    simp only [TraitList.step] at h
    split at h
    · rename_i hn
      split at h
      · simp only [Except.ok.injEq] at h; subst h; cases he
      · simp only [Except.ok.injEq] at h; subst h
        simp only [Option.some.injEq] at he; subst he
        simpa [Py.imul, hn] using replay_whole l []
    · rename_i hn
      split at h
      · simp only [Except.ok.injEq] at h; subst h; cases he
      · simp only [Except.ok.injEq] at h; subst h
        simp only [Option.some.injEq] at he; subst he
        have hm : Py.imul l n = l ++ (Py.imul l n).drop l.length := by
          simp only [Py.imul, hn, if_false]
          obtain ⟨m, hm⟩ : ∃ m : Nat, n.toNat = m + 1 := ⟨n.toNat - 1, by omega⟩
          rw [hm, flatten_replicate_succ]
          simp
        have := replay_append l ((Py.imul l n).drop l.length)
        rw [← hm] at this
        exact this
  | insert i x =>
    simp only [TraitList.step] at h
    split at h
    · cases h
    · rename_i y _
      simp only [Except.ok.injEq] at h; subst h
      simp only [Option.some.injEq] at he; subst he
      obtain ⟨h0, h1, hp⟩ := insertPos_eq l.length i
      rw [replay_idx _ _ _ _ h0]
      constructor
      · simp [Py.insert, hp]
      · simp only [NormalForm, List.length_nil, List.take_zero]
        exact ⟨h0, by simpa using h1, trivial⟩
  | pop i =>
    simp only [TraitList.step] at h
    cases hj : normIdx l.length i with
    | none => simp [Py.pop, hj] at h
    | some j =>
      obtain ⟨h0, h1, hjn⟩ := normIdx_some hj
      have hjl : j < l.length := by omega
      simp only [Py.pop, hj, List.getElem?_eq_getElem hjl, Except.ok.injEq] at h
      subst h
      simp only [Option.some.injEq] at he
      subst he
      have := replay_single_del l j hjl _ h0 hjn
      simpa [List.getElem?_eq_getElem hjl, Option.toList] using this
  | remove x =>
    simp only [TraitList.step] at h
    split at h
    · cases h
    · rename_i j hj
      simp only [Py.remove, hj] at h
      simp only [Except.ok.injEq] at h; subst h
      simp only [Option.some.injEq] at he; subst he
      have hjl : j < l.length := findIdx?_lt hj
      exact replay_single_del l j hjl j (by omega) (by omega)
  | clear =>
    simp only [TraitList.step] at h
    split at h
    · simp only [Except.ok.injEq] at h; subst h; cases he
    · simp only [Except.ok.injEq] at h; subst h
      simp only [Option.some.injEq] at he; subst he
      exact replay_whole l []
  | reverse =>
    simp only [TraitList.step] at h
    split at h
    · simp only [Except.ok.injEq] at h; subst h; cases he
    · simp only [Except.ok.injEq] at h; subst h
      simp only [Option.some.injEq] at he; subst he
      exact replay_whole l l.reverse
  | sort sp =>
    simp only [TraitList.step] at h
    split at h
    · simp only [Except.ok.injEq] at h; subst h; cases he
    · simp only [Except.ok.injEq] at h; subst h
      simp only [Option.some.injEq] at he; subst he
      exact replay_whole l (E.sort sp l)


/-! ### number of selected items; silent operations -/

/-- The items a slice selects are as many as `sliceLen` says (all positions are in range). -/
theorem selected_length {l : List α} {s : Slice} {a b k : Int}
    (hidx : s.indices l.length = some (a, b, k)) :
    (getPositions l (positions a k (sliceLen a b k))).length = sliceLen a b k := by
  obtain ⟨hk0, ha, hb⟩ := indices_some hidx
  rw [getPositions_length, positions_length]
  rcases Int.lt_or_gt_of_ne hk0 with hkneg | hkpos
  · have hA := adjustStart_neg l.length k s.start hkneg
    have hB := adjustStop_neg l.length k s.stop hkneg
    rw [← ha] at hA; rw [← hb] at hB
    by_cases hab : b < a
    · obtain ⟨q, hq, h1, h2⟩ := sliceLen_neg hkneg hab
      rw [hq]
      exact positions_in_range_neg (by omega) hkneg (by omega)
    · rw [sliceLen_neg_empty hkneg (by omega)]; simp [positions]
  · have hA := adjustStart_pos l.length k s.start hkpos
    have hB := adjustStop_pos l.length k s.stop hkpos
    rw [← ha] at hA; rw [← hb] at hB
    by_cases hab : a < b
    · obtain ⟨q, hq, h1, h2⟩ := sliceLen_pos hkpos hab
      rw [hq]
      exact positions_in_range_pos hA.1 hkpos (by omega)
    · rw [sliceLen_pos_empty hkpos (by omega)]; simp [positions]

/-- A contiguous slice that selects nothing and is assigned nothing leaves the list alone. -/
theorem splice_nil_of_empty {l : List α} {s : Slice} {a b : Int}
    (hidx : s.indices l.length = some (a, b, 1)) (hm : sliceLen a b 1 = 0) :
    splice l a b [] = l := by
  obtain ⟨_, ha, hb⟩ := indices_some hidx
  have hA := adjustStart_pos l.length 1 s.start (by omega)
  rw [← ha] at hA
  have hba : b ≤ a := by
    unfold sliceLen at hm
    by_contra hc
    rw [if_neg (by omega), if_pos (by omega)] at hm
    omega
  unfold splice
  by_cases h : b < a
  · simp [h]
  · have : b = a := by omega
    simp [this]

theorem setSlice_silent {l : List α} {s : Slice} {l' : List α}
    (hset : Py.setSlice l s [] = .ok l') (hrem : Py.getSlice l s = .ok []) : l' = l := by
  cases hidx : s.indices l.length with
  | none => simp [Py.getSlice, hidx] at hrem
  | some t =>
    obtain ⟨a, b, k⟩ := t
    simp only [Py.getSlice, hidx, Except.ok.injEq] at hrem
    have hm : sliceLen a b k = 0 := by
      have := selected_length hidx
      rw [hrem] at this; simpa using this.symm
    simp only [Py.setSlice, hidx, hm] at hset
    by_cases hk : k = 1
    · subst hk
      simp only [if_true, Except.ok.injEq] at hset
      rw [← hset]; exact splice_nil_of_empty hidx hm
    · simp [hk, positions, setPositions] at hset
      exact hset.symm

theorem delSlice_silent {l : List α} {s : Slice} {l' : List α}
    (hdel : Py.delSlice l s = .ok l') (hrem : Py.getSlice l s = .ok []) : l' = l := by
  cases hidx : s.indices l.length with
  | none => simp [Py.getSlice, hidx] at hrem
  | some t =>
    obtain ⟨a, b, k⟩ := t
    simp only [Py.getSlice, hidx, Except.ok.injEq] at hrem
    have hm : sliceLen a b k = 0 := by
      have := selected_length hidx
      rw [hrem] at this; simpa using this.symm
    simp only [Py.delSlice, hidx, hm] at hdel
    by_cases hk : k = 1
    · subst hk
      simp only [if_true, Except.ok.injEq] at hdel
      rw [← hdel]; exact splice_nil_of_empty hidx hm
    · simp only [hk, if_false, positions, Except.ok.injEq] at hdel
      rw [← hdel]
      exact delPositionsAux_keep [] 0 l (by simp)

/-- `list.sort` returns a permutation of its input (all the model needs of it). -/
def SortOk (E : Env α) : Prop := ∀ (sp : Nat) (l : List α), (E.sort sp l).Perm l

/-- **Silence**: an operation that emits no event did not change the contents. -/
theorem step_silent (E : Env α) (hs : SortOk E) (l : List α) (op : Op α) (o : Out α)
    (h : TraitList.step E l op = .ok o) (he : o.event = none) : o.items = l := by
  cases op with
  | setIdx i x =>
    simp only [TraitList.step] at h
    cases hv : E.v 0 x with
    | error e' => simp [hv] at h
    | ok y =>
      cases hj : normIdx l.length i with
      | none => simp [hv, Py.setIdx, hj] at h
      | some j =>
        simp only [hv, Py.setIdx, hj, normalizeIdx, Except.ok.injEq] at h
        subst h; cases he
  | setSlice s xs =>
    simp only [TraitList.step] at h
    cases hrem : Py.getSlice l s with
    | error e' => simp [hrem] at h
    | ok removed =>
      cases hv : valAll E.v 0 xs with
      | error e' => simp [hrem, hv] at h
      | ok ys =>
        cases hset : Py.setSlice l s ys with
        | error e' => simp [hrem, hv, hset] at h
        | ok l' =>
          simp only [hrem, hv, hset] at h
          split at h
          · rename_i hemp
            simp only [Except.ok.injEq] at h; subst h
            simp only [Bool.and_eq_true, List.isEmpty_iff] at hemp
            obtain ⟨rfl, rfl⟩ := hemp
            exact setSlice_silent hset hrem
          · split at h
            · cases h
            · split at h <;> (simp only [Except.ok.injEq] at h; subst h; cases he)
  | delIdx i =>
    simp only [TraitList.step] at h
    cases hj : normIdx l.length i with
    | none => simp [Py.delIdx, hj] at h
    | some j =>
      obtain ⟨h0, h1, hjn⟩ := normIdx_some hj
      have hjl : j < l.length := by omega
      simp only [Py.delIdx, hj, List.getElem?_eq_getElem hjl, Option.toList, List.isEmpty_cons,
        Bool.false_eq_true, if_false, normalizeIdx, Except.ok.injEq] at h
      subst h; cases he
  | delSlice s =>
    simp only [TraitList.step] at h
    cases hrem : Py.getSlice l s with
    | error e' => simp [hrem] at h
    | ok removed =>
      cases hdel : Py.delSlice l s with
      | error e' => simp [hrem, hdel] at h
      | ok l' =>
        simp only [hrem, hdel] at h
        split at h
        · rename_i hemp
          simp only [Except.ok.injEq] at h; subst h
          simp only [List.isEmpty_iff] at hemp
          subst hemp
          exact delSlice_silent hdel hrem
        · split at h
          · cases h
          · simp only [Except.ok.injEq] at h; subst h; cases he
  | append x =>
    simp only [TraitList.step] at h
    split at h
    · cases h
    · simp only [Except.ok.injEq] at h; subst h; cases he
  | extend xs =>
    simp only [TraitList.step] at h
    split at h
    · cases h
    · split at h
      · rename_i hemp
        simp only [Except.ok.injEq] at h; subst h
        simp only [List.isEmpty_iff] at hemp; simp [hemp]
      · simp only [Except.ok.injEq] at h; subst h; cases he
  | iadd xs =>
    simp only [TraitList.step] at h
    split at h
    · cases h
    · split at h
      · rename_i hemp
        simp only [Except.ok.injEq] at h; subst h
        simp only [List.isEmpty_iff] at hemp; simp [hemp]
      · simp only [Except.ok.injEq] at h; subst h; cases he
  | imul n =>
    simp only [TraitList.step] at h
    split at h
    · rename_i hn
      split at h
      · rename_i hemp
        simp only [Except.ok.injEq] at h; subst h
        simp only [List.isEmpty_iff] at hemp; simp [Py.imul, hn, hemp]
      · simp only [Except.ok.injEq] at h; subst h; cases he
    · rename_i hn
      split at h
      · rename_i hemp
        simp only [Except.ok.injEq] at h; subst h
        simp only [List.isEmpty_iff] at hemp
        have hm : Py.imul l n = l ++ (Py.imul l n).drop l.length := by
          simp only [Py.imul, hn, if_false]
          obtain ⟨m, hm⟩ : ∃ m : Nat, n.toNat = m + 1 := ⟨n.toNat - 1, by omega⟩
          rw [hm, flatten_replicate_succ]
          simp
        rw [hemp] at hm; simpa using hm
      · simp only [Except.ok.injEq] at h; subst h; cases he
  | insert i x =>
    simp only [TraitList.step] at h
    split at h
    · cases h
    · simp only [Except.ok.injEq] at h; subst h; cases he
  | pop i =>
    simp only [TraitList.step] at h
    split at h
    · cases h
    · simp only [Except.ok.injEq] at h; subst h; cases he
  | remove x =>
    simp only [TraitList.step] at h
    split at h
    · cases h
    · split at h
      · cases h
      · simp only [Except.ok.injEq] at h; subst h; cases he
  | clear =>
    simp only [TraitList.step] at h
    split at h
    · rename_i hemp
      simp only [Except.ok.injEq] at h; subst h
      simp only [List.isEmpty_iff] at hemp; simp [hemp]
    · simp only [Except.ok.injEq] at h; subst h; cases he
  | reverse =>
    simp only [TraitList.step] at h
    split at h
    · rename_i hemp
      simp only [Except.ok.injEq] at h; subst h
      simp only [List.isEmpty_iff] at hemp; simp [hemp]
    · simp only [Except.ok.injEq] at h; subst h; cases he
  | sort sp =>
    simp only [TraitList.step] at h
    split at h
    · rename_i hemp
      simp only [Except.ok.injEq] at h; subst h
      simp only [List.isEmpty_iff] at hemp
      subst hemp
      exact List.perm_nil.mp (hs _ [])
    · simp only [Except.ok.injEq] at h; subst h; cases he

end TraitsVerif.Model
