/-
Reachability along a name on tree-shaped heaps (helper lemmas for C16).
-/
import TraitsVerif.Model.Legacy
namespace TraitsVerif.Model.Legacy
open List

variable {h : Heap} {L : List Link}

theorem mem_descFrom_zero {k o x} : x ∈ descFrom h L k o 0 ↔ x = o := by
  simp [descFrom]

/-- Last-step characterisation (the definition). -/
theorem mem_descFrom_succ {k o j x} :
    x ∈ descFrom h L k o (j + 1) ↔
      ∃ l p, L[k + j]? = some l ∧ p ∈ descFrom h L k o j ∧ x ∈ targets h l.attr p := by
  simp only [descFrom]
  cases hl : L[k + j]? with
  | none => simp
  | some l =>
    simp only [mem_flatMap, Option.some.injEq]
    constructor
    · rintro ⟨p, hp, hx⟩; exact ⟨l, p, rfl, hp, hx⟩
    · rintro ⟨l', p, rfl, hp, hx⟩; exact ⟨p, hp, hx⟩

/-- First-step characterisation. -/
theorem mem_descFrom_cons {k o j x} :
    x ∈ descFrom h L k o (j + 1) ↔
      ∃ l c, L[k]? = some l ∧ c ∈ targets h l.attr o ∧ x ∈ descFrom h L (k + 1) c j := by
  induction j generalizing x with
  | zero =>
    rw [mem_descFrom_succ]
    simp only [Nat.add_zero, mem_descFrom_zero]
    constructor
    · rintro ⟨l, p, hl, rfl, hx⟩; exact ⟨l, x, hl, hx, rfl⟩
    · rintro ⟨l, c, hl, hc, rfl⟩; exact ⟨l, o, hl, rfl, hc⟩
  | succ j ih =>
    rw [mem_descFrom_succ]
    constructor
    · rintro ⟨l, p, hl, hp, hx⟩
      obtain ⟨l0, c, hl0, hc, hpc⟩ := ih.mp hp
      refine ⟨l0, c, hl0, hc, ?_⟩
      rw [mem_descFrom_succ]
      refine ⟨l, p, ?_, hpc, hx⟩
      rw [show k + 1 + j = k + (j + 1) by omega]; exact hl
    · rintro ⟨l0, c, hl0, hc, hx⟩
      rw [mem_descFrom_succ] at hx
      obtain ⟨l, p, hl, hp, hx⟩ := hx
      refine ⟨l, p, ?_, ih.mpr ⟨l0, c, hl0, hc, hp⟩, hx⟩
      rw [show k + (j + 1) = k + 1 + j by omega]; exact hl

theorem mem_reach_zero {x} : x ∈ reach h L 0 ↔ x = root := by
  simp [reach, descFrom]

theorem mem_reach_succ {m x} :
    x ∈ reach h L (m + 1) ↔ ∃ l p, L[m]? = some l ∧ p ∈ reach h L m ∧ x ∈ targets h l.attr p := by
  unfold reach
  rw [mem_descFrom_succ]
  simp only [Nat.zero_add]

/-- Descendants are younger. -/
theorem descFrom_ge (ht : TreeShaped h) {k o j x} (hx : x ∈ descFrom h L k o j) : o + j ≤ x := by
  induction j generalizing x with
  | zero => simp [mem_descFrom_zero] at hx; omega
  | succ j ih =>
    obtain ⟨l, p, _, hp, hx⟩ := mem_descFrom_succ.mp hx
    have := ih hp
    have := ht.up _ _ _ hx
    omega

/-- Descendants are allocated. -/
theorem descFrom_lt_next (ht : TreeShaped h) {k o j x} (ho : o < h.next)
    (hx : x ∈ descFrom h L k o j) : x < h.next := by
  cases j with
  | zero => simp [mem_descFrom_zero] at hx; omega
  | succ j =>
    obtain ⟨l, p, _, _, hx⟩ := mem_descFrom_succ.mp hx
    exact ht.bound _ _ _ hx

/-- Walking up: two descents ending in the same object share their upper part. -/
theorem descFrom_walk_up (ht : TreeShaped h) {k o j k' o' j' x}
    (hx : x ∈ descFrom h L k o j) (hx' : x ∈ descFrom h L k' o' j') (hle : j ≤ j') :
    o ∈ descFrom h L k' o' (j' - j) := by
  induction j generalizing x j' with
  | zero =>
    simp [mem_descFrom_zero] at hx
    subst hx; simpa using hx'
  | succ j ih =>
    obtain ⟨l, p, _, hp, hxp⟩ := mem_descFrom_succ.mp hx
    obtain ⟨j'', rfl⟩ : ∃ j'', j' = j'' + 1 := ⟨j' - 1, by omega⟩
    obtain ⟨l', p', _, hp', hxp'⟩ := mem_descFrom_succ.mp hx'
    obtain ⟨rfl, _⟩ := ht.uniq _ _ _ _ _ hxp hxp'
    have := ih hp hp' (by omega)
    rwa [show j'' + 1 - (j + 1) = j'' - j by omega]

/-- Same relative depth ⇒ same ancestor. -/
theorem descFrom_same_depth (ht : TreeShaped h) {k o k' o' j x}
    (hx : x ∈ descFrom h L k o j) (hx' : x ∈ descFrom h L k' o' j) : o = o' := by
  have := descFrom_walk_up ht hx hx' (Nat.le_refl _)
  simpa [mem_descFrom_zero] using this

/-- An object occurs at one depth below a given ancestor only. -/
theorem descFrom_unique_depth (ht : TreeShaped h) {k o k' j j' x}
    (hx : x ∈ descFrom h L k o j) (hx' : x ∈ descFrom h L k' o j') : j = j' := by
  rcases Nat.lt_trichotomy j j' with hlt | heq | hgt
  · have := descFrom_ge ht (descFrom_walk_up ht hx hx' (Nat.le_of_lt hlt)); omega
  · exact heq
  · have := descFrom_ge ht (descFrom_walk_up ht hx' hx (Nat.le_of_lt hgt)); omega

theorem reach_unique_depth (ht : TreeShaped h) {m m' x}
    (hx : x ∈ reach h L m) (hx' : x ∈ reach h L m') : m = m' :=
  descFrom_unique_depth ht hx hx'

theorem reach_lt_next (ht : TreeShaped h) {m x} (hx : x ∈ reach h L m) : x < h.next :=
  descFrom_lt_next ht ht.pos hx

/-- Subtrees of two different children of one object are disjoint (at any depths). -/
theorem descFrom_siblings_disjoint (ht : TreeShaped h) {a a' o c c' k k' j j' x}
    (hc : c ∈ targets h a o) (hc' : c' ∈ targets h a' o) (hne : c ≠ c')
    (hx : x ∈ descFrom h L k c j) (hx' : x ∈ descFrom h L k' c' j') : False := by
  have key : ∀ {a a' c c' k k' j j'}, c ∈ targets h a o → c' ∈ targets h a' o → c ≠ c' →
      x ∈ descFrom h L k c j → x ∈ descFrom h L k' c' j' → j ≤ j' → False := by
    intro a a' c c' k k' j j' hc hc' hne hx hx' hle
    have hw := descFrom_walk_up ht hx hx' hle
    rcases Nat.eq_zero_or_pos (j' - j) with h0 | hpos
    · rw [h0] at hw; simp [mem_descFrom_zero] at hw; exact hne hw
    · obtain ⟨d, hd⟩ : ∃ d, j' - j = d + 1 := ⟨j' - j - 1, by omega⟩
      rw [hd] at hw
      obtain ⟨l, p, _, hp, hcp⟩ := mem_descFrom_succ.mp hw
      obtain ⟨rfl, _⟩ := ht.uniq _ _ _ _ _ hcp hc
      have := descFrom_ge ht hp
      have := ht.up _ _ _ hc'
      omega
  rcases Nat.le_total j j' with hle | hle
  · exact key hc hc' hne hx hx' hle
  · exact key hc' hc (Ne.symm hne) hx' hx hle

/-- A descent below an object reachable at depth `k` is reachable. -/
theorem descFrom_sub_reach {k o j x} (ho : o ∈ reach h L k) (hx : x ∈ descFrom h L k o j) :
    x ∈ reach h L (k + j) := by
  induction j generalizing x with
  | zero => simp [mem_descFrom_zero] at hx; subst hx; simpa using ho
  | succ j ih =>
    obtain ⟨l, p, hl, hp, hx⟩ := mem_descFrom_succ.mp hx
    rw [show k + (j + 1) = (k + j) + 1 by omega, mem_reach_succ]
    exact ⟨l, p, hl, ih hp, hx⟩

/-- Every reachable object at depth `k + j` lies below exactly one object of depth `k`. -/
theorem reach_split {k j x} (hx : x ∈ reach h L (k + j)) :
    ∃ o, o ∈ reach h L k ∧ x ∈ descFrom h L k o j := by
  induction j generalizing x with
  | zero => exact ⟨x, by simpa using hx, by simp [mem_descFrom_zero]⟩
  | succ j ih =>
    rw [show k + (j + 1) = (k + j) + 1 by omega, mem_reach_succ] at hx
    obtain ⟨l, p, hl, hp, hx⟩ := hx
    obtain ⟨o, ho, hpo⟩ := ih hp
    exact ⟨o, ho, mem_descFrom_succ.mpr ⟨l, p, hl, hpo, hx⟩⟩

/-- Descents only read the heap below their start. -/
theorem descFrom_congr {h' : Heap} (ht : TreeShaped h) {k o j x}
    (hsame : ∀ p a c, o ≤ p → (c ∈ targets h' a p ↔ c ∈ targets h a p)) :
    x ∈ descFrom h' L k o j ↔ x ∈ descFrom h L k o j := by
  induction j generalizing x with
  | zero => simp [mem_descFrom_zero]
  | succ j ih =>
    rw [mem_descFrom_succ, mem_descFrom_succ]
    constructor
    · rintro ⟨l, p, hl, hp, hx⟩
      have hp' := ih.mp hp
      have := descFrom_ge ht hp'
      exact ⟨l, p, hl, hp', (hsame p _ _ (by omega)).mp hx⟩
    · rintro ⟨l, p, hl, hp, hx⟩
      have := descFrom_ge ht hp
      exact ⟨l, p, hl, ih.mpr hp, (hsame p _ _ (by omega)).mpr hx⟩

end TraitsVerif.Model.Legacy
