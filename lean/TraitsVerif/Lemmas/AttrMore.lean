/-
Helper lemmas for C02, part 4: Event traits, truthfulness of old/new, handler
exceptions.
-/
import TraitsVerif.Lemmas.AttrRun
namespace TraitsVerif.Model.Attr
open TraitsVerif

/-! ### Event traits -/

theorem wrapperFires_event (c : Cmp) (flags : Nat) (k : NKind) (new : Id) :
    wrapperFires c .event flags k undef new = true := by
  unfold wrapperFires changeAccepted changeAcceptedCmp preventEvent eqMode
  cases k <;> simp [undef, uninit]

section event
variable {E : Env} {t : TraitCore}

theorem exactly_once_event_run (hk : t.kind = .event) (q : Quiet E) {k : Nat} {kind : NKind} :
    ∀ (h : List Op) (s : OSt), (∀ op ∈ h, op.isValue = true) → s.noNotify = false →
      UniqueIn k kind (snapshot s.tn s.on) →
      callsOf k (run E t s h).ctx.log = callsOf k s.ctx.log ++ realChangesEvent E t s.ctx.nval h
  | [], s, _, _, _ => by simp [run, realChangesEvent]
  | op :: h, s, H, hnn, u => by
    have Hop := H op (List.mem_cons_self)
    have Ht : ∀ op ∈ h, op.isValue = true := fun o ho => H o (List.mem_cons_of_mem _ ho)
    have hn := u.hasNotifiers
    cases op with
    | set v =>
      rw [run, step_set_event_nf q hk, realChangesEvent]
      cases hsv : specValidate E t false s.ctx.nval v with
      | mk r nv =>
        cases r with
        | error e => simpa using exactly_once_event_run hk q h (s.withNval nv) Ht hnn u
        | ok w =>
          obtain ⟨-, p2, p3, p4, -, p6, p7⟩ := eventNF_proj (E := E) (t := t) s w nv hn hnn
          have ih := exactly_once_event_run hk q h (eventNF E t s w nv) Ht p4 (by rw [p2, p3]; exact u)
          simp only [] at ih ⊢
          rw [ih, p6, p7]
          simp [callsOf_fired u, hk, wrapperFires_event]
    | setq v =>
      rw [run, step_setq_event_nf q hk, realChangesEvent]
      cases hsv : specValidate E t false s.ctx.nval v with
      | mk r nv =>
        cases r with
        | error e =>
          have := exactly_once_event_run hk q h { (s.withNval nv) with noNotify := false } Ht rfl u
          simpa using this
        | ok w =>
          obtain ⟨-, p2, p3, -, p6, p7⟩ := eventNF_quiet_proj (E := E) (t := t) { s with noNotify := true } w nv rfl
          have ih := exactly_once_event_run hk q h
            { (eventNF E t { s with noNotify := true } w nv) with noNotify := false } Ht rfl (by
              show UniqueIn k kind (snapshot (eventNF E t { s with noNotify := true } w nv).tn
                (eventNF E t { s with noNotify := true } w nv).on)
              rw [p2, p3]; exact u)
          simp only [] at ih ⊢
          rw [ih]
          simp [p6, p7]
    | del =>
      simp only [run, step_del_event hk, realChangesEvent]
      exact exactly_once_event_run hk q h s Ht hnn u
    | get =>
      simp only [run, step_get_event hk, realChangesEvent]
      cases hs : s.slot <;> exact exactly_once_event_run hk q h s Ht hnn u
    | regDyn _ _ => exact absurd Hop (by simp [Op.isValue])
    | unregDyn _ => exact absurd Hop (by simp [Op.isValue])
    | regAny _ _ => exact absurd Hop (by simp [Op.isValue])
    | unregAny _ => exact absurd Hop (by simp [Op.isValue])
    | regObs _ => exact absurd Hop (by simp [Op.isValue])
    | unregObs _ => exact absurd Hop (by simp [Op.isValue])

end event

/-! ### Truthful old / new -/

theorem mem_fired {c : Cmp} {t : TraitCore} {self old new : Id} {ns : List (Notifier × Loc)} {x : Call}
    (h : x ∈ fired c t self old new ns) : x.old = old ∧ x.new = new := by
  unfold fired at h
  simp only [List.mem_map, List.mem_filter] at h
  obtain ⟨p, -, rfl⟩ := h
  exact ⟨rfl, rfl⟩

section truthful
variable {E : Env} {t : TraitCore} {m : CMode} {orig po : Bool} {d : Id}

/-- Nobody listens: an accepted assignment stores the value and calls no handler. -/
theorem setNF_nolisten_proj (s : OSt) (v w : Id) (nv : Nat) (hn : hasNotifiers s.tn s.on = false) :
    let s' := setNF E t m orig po d s v w nv
    s'.slot = some (if orig then v else w) ∧ s'.noNotify = s.noNotify ∧ s'.ctx.log = s.ctx.log := by
  unfold setNF
  simp only [hn, Bool.or_false, Bool.false_eq_true, if_false]
  cases hslot : s.slot <;> (repeat' split) <;> simp

theorem delNF_nolisten_proj (s : OSt) (hn : hasNotifiers s.tn s.on = false) :
    let s' := delNF E t m d s
    s'.noNotify = s.noNotify ∧ s'.ctx.log = s.ctx.log := by
  unfold delNF
  simp only [hn, Bool.false_eq_true, if_false]
  cases hslot : s.slot <;> (repeat' split) <;> simp

theorem delNF_noexist_proj (s : OSt) (hex : (s.tn.isSome || s.on.isSome) = false) :
    let s' := delNF E t m d s
    s'.noNotify = s.noNotify ∧ s'.ctx.log = s.ctx.log := by
  unfold delNF
  simp only [hex, Bool.false_eq_true, if_false]
  cases hslot : s.slot <;> (repeat' split) <;> simp

theorem getNF_frame (s : OSt) :
    (getNF t d s).noNotify = s.noNotify ∧ (getNF t d s).ctx.log = s.ctx.log := by
  have := getNF_proj (t := t) (d := d) s
  exact ⟨this.2.2.2.1, this.2.2.2.2.2.2⟩

/-- One value operation from a state with notifications enabled. -/
theorem step_truthful (st : StdTrait t m orig po d) (q : Quiet E) (pq : PostQuiet E) (s : OSt) (op : Op)
    (hv : op.isValue = true) (hnn : s.noNotify = false) :
    (step E t s op).2.noNotify = false ∧
    ∀ x ∈ (step E t s op).2.ctx.log.drop s.ctx.log.length,
      x.old = readable d s.slot ∧ x.new = readable d (step E t s op).2.slot := by
  cases op with
  | set v =>
    rw [step_set_nf st q pq]
    cases hsv : specValidate E t true s.ctx.nval v with
    | mk r nv =>
      cases r with
      | error e => simp [hnn]
      | ok w =>
        cases hn : hasNotifiers s.tn s.on with
        | true =>
          obtain ⟨p1, -, -, p4, -, -, p7⟩ := setNF_proj (E := E) (t := t) (m := m) (orig := orig) (po := po)
            (d := d) s v w nv hn hnn
          refine ⟨p4, ?_⟩
          simp only []
          rw [p7, p1]
          intro x hx
          simp only [List.drop_left, readable, Option.getD_some] at hx ⊢
          split at hx
          · exact mem_fired hx
          · simp at hx
        | false =>
          obtain ⟨p1, p2, p3⟩ := setNF_nolisten_proj (E := E) (t := t) (m := m) (orig := orig) (po := po)
            (d := d) s v w nv hn
          refine ⟨by simp only []; rw [p2, hnn], ?_⟩
          simp only []
          rw [p3]
          simp
  | setq v =>
    rw [step_setq_nf st q pq]
    cases hsv : specValidate E t true s.ctx.nval v with
    | mk r nv =>
      cases r with
      | error e => simp
      | ok w =>
        obtain ⟨-, -, -, -, -, p7⟩ := setNF_quiet_proj (E := E) (t := t) (m := m) (orig := orig) (po := po)
          (d := d) { s with noNotify := true } v w nv rfl
        refine ⟨rfl, ?_⟩
        simp only []
        have e : ({ s with noNotify := true } : OSt).ctx.log = s.ctx.log := rfl
        rw [p7, e]
        simp
  | del =>
    rw [step_del_nf st q pq]
    cases hs : s.slot with
    | none => simp [delNF, hs, hnn]
    | some old =>
      cases hex : (s.tn.isSome || s.on.isSome) with
      | false =>
        obtain ⟨p1, p2⟩ := delNF_noexist_proj (E := E) (t := t) (m := m) (d := d) s hex
        refine ⟨by simp only []; rw [p1, hnn], ?_⟩
        simp only []
        rw [p2]
        simp
      | true =>
        cases hn : hasNotifiers s.tn s.on with
        | false =>
          obtain ⟨p1, p2⟩ := delNF_nolisten_proj (E := E) (t := t) (m := m) (d := d) s hn
          refine ⟨by simp only []; rw [p1, hnn], ?_⟩
          simp only []
          rw [p2]
          simp
        | true =>
          obtain ⟨p1, -, -, p4, -, -, p7⟩ := delNF_proj (E := E) (t := t) (m := m) (d := d) s old hs hn hex hnn
          refine ⟨p4, ?_⟩
          simp only []
          rw [p7, p1]
          intro x hx
          simp only [List.drop_left, readable, Option.getD_some] at hx ⊢
          split at hx
          · exact mem_fired hx
          · simp at hx
  | get =>
    rw [step_get_nf st q pq]
    obtain ⟨p1, p2⟩ := getNF_frame (t := t) (d := d) s
    refine ⟨by simp only []; rw [p1, hnn], ?_⟩
    simp only []
    rw [p2]
    simp
  | regDyn _ _ => exact absurd hv (by simp [Op.isValue])
  | unregDyn _ => exact absurd hv (by simp [Op.isValue])
  | regAny _ _ => exact absurd hv (by simp [Op.isValue])
  | unregAny _ => exact absurd hv (by simp [Op.isValue])
  | regObs _ => exact absurd hv (by simp [Op.isValue])
  | unregObs _ => exact absurd hv (by simp [Op.isValue])

theorem run_noNotify (st : StdTrait t m orig po d) (q : Quiet E) (pq : PostQuiet E) :
    ∀ (h : List Op) (s : OSt), (∀ op ∈ h, op.isValue = true) → s.noNotify = false →
      (run E t s h).noNotify = false
  | [], _, _, hnn => hnn
  | op :: h, s, H, hnn => by
    rw [run]
    exact run_noNotify st q pq h _ (fun o ho => H o (List.mem_cons_of_mem _ ho))
      (step_truthful st q pq s op (H op List.mem_cons_self) hnn).1

end truthful

/-! ### Handler exceptions -/

section silence
variable {E : Env}

theorem callNotifiers_silence (q : Quiet E) (t : TraitCore) (tn on : Option (List Notifier)) (old new : Id)
    (s : OSt) : callNotifiers E t tn on old new s = callNotifiers E.silence t tn on old new s := by
  rw [callNotifiers_quiet q, callNotifiers_quiet q.silence]
  rfl

theorem getattrTrait_silence (q : Quiet E) (t : TraitCore) (s : OSt) :
    getattrTrait E t s = getattrTrait E.silence t s := by
  unfold getattrTrait
  simp only [callNotifiers_silence q]
  rfl

theorem traitGetattr_silence (q : Quiet E) (t : TraitCore) (s : OSt) :
    traitGetattr E t s = traitGetattr E.silence t s := by
  unfold traitGetattr
  rw [getattrTrait_silence q]

theorem traitSetattr_silence (q : Quiet E) (t : TraitCore) (v : Option Id) (s : OSt) :
    traitSetattr E t v s = traitSetattr E.silence t v s := by
  unfold traitSetattr setattrTrait setattrEvent setattrTraitDel
  simp only [callNotifiers_silence q, traitGetattr_silence q]
  rfl

theorem step_silence (q : Quiet E) (t : TraitCore) (s : OSt) (op : Op) :
    step E t s op = step E.silence t s op := by
  unfold step getattro
  simp only [traitSetattr_silence q, traitGetattr_silence q]

theorem run_silence (q : Quiet E) (t : TraitCore) : ∀ (h : List Op) (s : OSt),
    run E t s h = run E.silence t s h
  | [], _ => rfl
  | op :: h, s => by
    rw [run, run, step_silence q, run_silence q t h]

end silence

end TraitsVerif.Model.Attr
