/-
`…_src` lemmas, part 6: `_has_traits_trait` — the C function behind the Python
method `_trait(name, instance)` — returns what `get_trait` returns for every
`instance ≥ -1` (the delegate chain of `instance = -2` is not interpreted: the
reader emits its loop as `Stmt.opaque`).
-/
import TraitsVerif.Lemmas.ResolveSource
namespace TraitsVerif.Model.ResL
open TraitsVerif TraitsVerif.Model.Resolve TraitsVerif.Generated

/-- The top environment: `user7` plus the Python-visible wrapper. -/
def user8 (E : Env) : User
  | .has_traits_trait, a, st => runFun ⟨E, user7 E⟩ ResolveC.has_traits_trait a st
  | f, a, st => user7 E f a st

/-- A call does not depend on the caller's frame, and gives it back. -/
theorem runFun_env (Γ : Ctx) (fn : Fun) (args : List V) (st : St) (e : List (Var × V)) :
    runFun Γ fn args { st with env := e } =
      ({ (runFun Γ fn args st).1 with env := e }, (runFun Γ fn args st).2) := by
  unfold runFun
  simp only
  rcases execs Γ fn.py fn.body { st with env := bind fn.params args } with ⟨s', f⟩
  cases f <;> rfl

set_option maxHeartbeats 4000000 in
theorem has_traits_trait_src (E : Env) (st : St) (name : Name) (inst : Int) (hinst : -1 ≤ inst) :
    asGetTrait (user8 E .has_traits_trait [.obj, .name name, .int inst] st) =
      asGetTrait (user7 E .get_trait [.obj, .name name, .int inst] st) := by
  obtain ⟨w, oi, o, c, nI, nO, fr, er, env⟩ := st
  have hcall : ∀ e, user7 E .get_trait [.obj, .name name, .int inst] (St.mk w oi o c nI nO fr er e) =
      ({ (user7 E .get_trait [.obj, .name name, .int inst] (St.mk w oi o c nI nO fr er env)).1 with env := e },
       (user7 E .get_trait [.obj, .name name, .int inst] (St.mk w oi o c nI nO fr er env)).2) :=
    fun e => runFun_env ⟨E, user6 E⟩ ResolveC.get_trait _ (St.mk w oi o c nI nO fr er env) e
  have hge : inst ≥ -1 := hinst
  generalize hr : user7 E .get_trait [.obj, .name name, .int inst] (St.mk w oi o c nI nO fr er env) = r at hcall
  obtain ⟨s', v⟩ := r
  obtain ⟨w', oi', o', c', nI', nO', fr', er', env'⟩ := s'
  resl_eval [user8, ResolveC.has_traits_trait, hcall, hge]
  cases v <;> simp [asGetTrait]

end TraitsVerif.Model.ResL
