/-
Invariants of histories of the `deleg` model, each proved against `Effect`:
  * classes and pool size never change;
  * `NoLocalDeleg`  a DelegatesTo attribute never holds a local value;
  * `FwdInv`        forwarders exist only for deferring attributes; a prototyped attribute holding a
                    local value has none;
  * `HookInv`       a forwarder is hooked on the current delegate or on nothing;
  * `Linked`        (histories without hook failure) every linked deferring attribute has a forwarder
                    hooked on the current delegate.
-/
import TraitsVerif.Lemmas.DelegEffect
namespace TraitsVerif.Model.Deleg

/-! ### classes -/

/-- Declared attribute names of a class are distinct (a class body is a dict). -/
def ClsWF (c : Cls) : Prop := (c.traits.map (·.1)).Nodup

def PoolWF (p : Pool) : Prop := ∀ o, ClsWF (p.obj o).cls

theorem deferNames_lookup (c : Cls) (n : Name) (d : DelegInfo) (h : c.trait n = .defer d) :
    c.deferNames.lookup n = some d := by
  unfold Cls.trait at h
  unfold Cls.deferNames
  generalize c.traits = l at h
  induction l with
  | nil => simp [List.lookup] at h
  | cons hd tl ih =>
    obtain ⟨m, td⟩ := hd
    by_cases hnm : n = m
    · subst hnm
      simp only [List.lookup, beq_self_eq_true, Option.getD_some] at h
      subst h
      simp
    · have hb : (n == m) = false := by simpa using hnm
      simp only [List.lookup, hb] at h
      have := ih h
      rw [List.filterMap_cons]
      split
      · exact this
      · rename_i a ha
        have : a.1 = m := by
          cases td <;> simp at ha
          rw [← ha]
        obtain ⟨a1, a2⟩ := a
        simp only at this
        subst this
        simp only [List.lookup, hb]
        assumption

theorem deferNames_sublist (l : List (Name × TraitDef)) :
    ((l.filterMap fun (x : Name × TraitDef) => match x.2 with | .defer d => some (x.1, d) | _ => none).map (·.1)).Sublist
      (l.map (·.1)) := by
  induction l with
  | nil => simp
  | cons hd tl ih =>
    obtain ⟨m, td⟩ := hd
    rw [List.filterMap_cons]
    cases td with
    | defer d => simp only [List.map_cons]; exact ih.cons_cons m
    | plain a b c => simp only [List.map_cons]; exact ih.cons m
    | python => simp only [List.map_cons]; exact ih.cons m

theorem deferNames_nodup (c : Cls) (h : ClsWF c) : (c.deferNames.map (·.1)).Nodup := by
  have hs := deferNames_sublist c.traits
  have : c.deferNames = c.traits.filterMap fun (x : Name × TraitDef) =>
      match x.2 with | .defer d => some (x.1, d) | _ => none := by
    unfold Cls.deferNames
    congr 1
  rw [this]
  exact hs.nodup h

theorem deferNames_mem (c : Cls) (n : Name) (d : DelegInfo) (h : c.trait n = .defer d) : (n, d) ∈ c.deferNames := by
  obtain ⟨l₁, l₂, h, _⟩ := List.lookup_eq_some_iff.mp (deferNames_lookup c n d h)
  rw [h]; simp

/-! ### frame -/

theorem effect_frame {p p' : Pool} {op : Op} {hx : Nat} {br : Bool} (h : Effect p op p' hx br) :
    p'.size = p.size ∧ ∀ j, (p'.obj j).cls = (p.obj j).cls := by
  cases h with
  | same => exact ⟨rfl, fun _ => rfl⟩
  | dictTarget => exact ⟨rfl, fun j => by simp⟩
  | localSet => exact ⟨rfl, fun j => by simp⟩
  | localDel => exact ⟨rfl, fun j => by simp⟩
  | relink o n d p1 h hx _ _ hp1 =>
    rcases hp1 with rfl | rfl
    · exact ⟨rfl, fun j => by simp⟩
    · exact ⟨rfl, fun j => by simp⟩
  | swap o t =>
    refine ⟨by rw [rehook_size]; rfl, fun j => ?_⟩
    rw [(rehook_frame o _ _ j).1]; simp

/-! ### the invariants -/

/-- A DelegatesTo attribute never holds a local value. -/
def NoLocalDeleg (p : Pool) : Prop :=
  ∀ o n d, (p.obj o).cls.trait n = .defer d → d.modify = true → (p.obj o).dict n = none

/-- Forwarders exist only for deferring attributes, and a deferring attribute that holds a local value
(a prototyped attribute whose link is broken) has none. -/
def FwdInv (p : Pool) : Prop :=
  ∀ o n, ((p.obj o).fwd n ≠ none → ∃ d, (p.obj o).cls.trait n = .defer d) ∧
    (∀ d, (p.obj o).cls.trait n = .defer d → (p.obj o).dict n ≠ none → (p.obj o).fwd n = none)

/-- A forwarder is hooked on the current delegate, or on nothing. -/
def HookInv (p : Pool) : Prop := ∀ o n h, (p.obj o).fwd n = some (some h) → (p.obj o).deleg = some h

structure Inv (p : Pool) : Prop where
  wf : PoolWF p
  noLocal : NoLocalDeleg p
  fwd : FwdInv p
  hook : HookInv p

/-- Every linked deferring attribute has a forwarder hooked on the current delegate. -/
def Linked (p : Pool) : Prop :=
  ∀ o n d, (p.obj o).cls.trait n = .defer d → (p.obj o).dict n = none → (p.obj o).fwd n = some (p.obj o).deleg

theorem hook_fst {p : Pool} {o : ObjId} {n : Name} {d : DelegInfo} {x : ObjId} (h : (hook p o n d).1 = some x) :
    (p.obj o).deleg = some x := by
  rw [hook_fst_eq] at h; exact h

theorem hook_ok {p : Pool} {o : ObjId} {n : Name} {d : DelegInfo} (_h : (hook p o n d).2 = false) :
    (hook p o n d).1 = (p.obj o).deleg := hook_fst_eq p o n d

theorem setDict_nondefer_dict {p : Pool} {x : ObjId} {t : Name} {v : Option Val}
    (hnd : NonDefer ((p.obj x).cls.trait t)) {o : ObjId} {n : Name} {d : DelegInfo}
    (htd : (p.obj o).cls.trait n = .defer d) : ((p.setDict x t v).obj o).dict n = (p.obj o).dict n := by
  rw [setDict_dict]
  split
  · rename_i h
    obtain ⟨rfl, rfl⟩ := h
    exact absurd htd (hnd d)
  · rfl

theorem effect_inv {p p' : Pool} {op : Op} {hx : Nat} {br : Bool} (h : Effect p op p' hx br) (I : Inv p) : Inv p' := by
  have hfr := effect_frame h
  have hwf : PoolWF p' := fun o => by rw [hfr.2 o]; exact I.wf o
  cases h with
  | same => exact I
  | dictTarget _ x t v _ _ hnd =>
    refine ⟨hwf, ?_, ?_, ?_⟩
    · intro o n d htd hm
      simp only [setDict_cls] at htd
      rw [setDict_nondefer_dict hnd htd]; exact I.noLocal o n d htd hm
    · intro o n
      simp only [setDict_cls, setDict_fwd]
      refine ⟨(I.fwd o n).1, fun d htd hd => ?_⟩
      rw [setDict_nondefer_dict hnd htd] at hd
      exact (I.fwd o n).2 d htd hd
    · intro o n h; simp only [setDict_fwd, setDict_deleg]; exact I.hook o n h
  | localSet o n v d w _ _ htd hm =>
    refine ⟨hwf, ?_, ?_, ?_⟩
    · intro o' n' d' htd' hm'
      simp only [unlink_cls, setDict_cls] at htd'
      simp only [unlink_dict, setDict_dict]
      split
      · rename_i h
        obtain ⟨rfl, rfl⟩ := h
        rw [htd] at htd'; cases htd'
        rw [hm] at hm'; cases hm'
      · exact I.noLocal o' n' d' htd' hm'
    · intro o' n'
      simp only [unlink_cls, setDict_cls, unlink_dict, unlink_fwd, setDict_fwd, setDict_dict]
      by_cases hc : o' = o ∧ n' = n
      · simp only [hc, and_self, if_true]
        refine ⟨fun h => absurd rfl h, ?_⟩
        intros
        first | rfl | trivial
      · simp only [hc, if_false]
        exact I.fwd o' n'
    · intro o' n' h
      simp only [unlink_fwd, setDict_fwd, unlink_deleg, setDict_deleg]
      split
      · simp
      · exact I.hook o' n' h
  | localDel o n d _ _ htd hm hne hor =>
    refine ⟨hwf, ?_, ?_, ?_⟩
    · intro o' n' d' htd' hm'
      simp only [setDict_cls] at htd'
      simp only [setDict_dict]
      split
      · rfl
      · exact I.noLocal o' n' d' htd' hm'
    · intro o' n'
      simp only [setDict_cls, setDict_fwd, setDict_dict]
      refine ⟨(I.fwd o' n').1, fun d' htd' hd => ?_⟩
      split at hd
      · exact absurd rfl hd
      · exact (I.fwd o' n').2 d' htd' hd
    · intro o' n' h; simp only [setDict_fwd, setDict_deleg]; exact I.hook o' n' h
  | relink o n d p1 h _ htd hm hp1 hdict hfwd hhook =>
    have hcls : ∀ j, (p1.obj j).cls = (p.obj j).cls := by
      rcases hp1 with rfl | rfl <;> intro j <;> simp
    have hdeleg : ∀ j, (p1.obj j).deleg = (p.obj j).deleg := by
      rcases hp1 with rfl | rfl <;> intro j <;> simp
    have hfwd1 : ∀ j, (p1.obj j).fwd = (p.obj j).fwd := by
      rcases hp1 with rfl | rfl <;> intro j <;> simp
    have hdict1 : ∀ j m, (p1.obj j).dict m = (p.obj j).dict m ∨ (p1.obj j).dict m = none := by
      rcases hp1 with rfl | rfl <;> intro j m
      · exact Or.inl rfl
      · rw [setDict_dict]; split
        · exact Or.inr rfl
        · exact Or.inl rfl
    refine ⟨hwf, ?_, ?_, ?_⟩
    · intro o' n' d' htd' hm'
      simp only [setFwd_cls, hcls] at htd'
      simp only [setFwd_dict]
      rcases hdict1 o' n' with h1 | h1
      · rw [h1]; exact I.noLocal o' n' d' htd' hm'
      · exact h1
    · intro o' n'
      simp only [setFwd_cls, hcls, setFwd_dict, setFwd_fwd, hfwd1]
      by_cases hc : o' = o ∧ n' = n
      · obtain ⟨rfl, rfl⟩ := hc
        simp only [and_self, if_true]
        exact ⟨fun _ => ⟨d, htd⟩, fun _ _ hd => absurd hdict hd⟩
      · simp only [hc, if_false]
        refine ⟨(I.fwd o' n').1, fun d' htd' hd => ?_⟩
        rcases hdict1 o' n' with h1 | h1
        · rw [h1] at hd; exact (I.fwd o' n').2 d' htd' hd
        · exact absurd h1 hd
    · intro o' n' h'
      simp only [setFwd_fwd, hfwd1, setFwd_deleg, hdeleg]
      split
      · rename_i hc
        obtain ⟨rfl, rfl⟩ := hc
        intro hs
        simp only [Option.some.injEq] at hs
        have := hook_fst (p := p1) (o := o') (n := n') (d := d) (x := h') (by rw [hhook]; exact hs)
        rw [← hdeleg]; exact this
      · exact I.hook o' n' h'
  | swap o t hne =>
    have hnd := deferNames_nodup _ (I.wf o)
    refine ⟨hwf, ?_, ?_, ?_⟩
    · intro o' n' d' htd' hm'
      obtain ⟨h1, _, h3, _⟩ := rehook_frame o (p.obj o).cls.deferNames (p.setDeleg o t) o'
      rw [h1] at htd'; simp only [setDeleg_cls] at htd'
      rw [h3]; simp only [setDeleg_dict]
      exact I.noLocal o' n' d' htd' hm'
    · intro o' n'
      obtain ⟨h1, _, h3, h4⟩ := rehook_frame o (p.obj o).cls.deferNames (p.setDeleg o t) o'
      rw [h1, h3]; simp only [setDeleg_cls, setDeleg_dict]
      by_cases ho : o' = o
      · subst ho
        rw [rehook_fwd o' _ _ n' hnd]
        simp only [setDeleg_fwd]
        constructor
        · intro hf
          apply (I.fwd o' n').1
          intro h0; apply hf
          rw [h0]; split <;> simp_all
        · intro d' htd' hd
          rw [(I.fwd o' n').2 d' htd' hd]
          split <;> simp_all
      · rw [h4 ho]; simp only [setDeleg_fwd]; exact I.fwd o' n'
    · intro o' n' h'
      obtain ⟨_, h2, _, h4⟩ := rehook_frame o (p.obj o).cls.deferNames (p.setDeleg o t) o'
      rw [h2, setDeleg_deleg]
      by_cases ho : o' = o
      · subst ho
        simp only [if_true]
        rw [rehook_fwd o' _ _ n' hnd]
        simp only [setDeleg_fwd]
        intro hs
        cases hf : (p.obj o').fwd n' with
        | none => rw [hf] at hs; split at hs <;> simp_all
        | some r =>
          obtain ⟨d', htd'⟩ := (I.fwd o' n').1 (by rw [hf]; simp)
          rw [deferNames_lookup _ _ _ htd', hf] at hs
          simp only [Option.some.injEq] at hs
          have := hook_fst hs
          rw [setDeleg_deleg] at this
          simpa using this
      · simp only [ho, if_false]
        rw [h4 ho]; simp only [setDeleg_fwd]; exact I.hook o' n' h'

/-- `Linked` survives every operation in which no listener hook failed. -/
theorem effect_linked {p p' : Pool} {op : Op} {hx : Nat} {br : Bool} (h : Effect p op p' hx br)
    (hx0 : hx = 0) (br0 : br = false) (I : Inv p) (L : Linked p) : Linked p' := by
  cases h with
  | same => exact L
  | dictTarget _ x t v _ _ hnd =>
    intro o n d htd hd
    simp only [setDict_cls] at htd
    rw [setDict_nondefer_dict hnd htd] at hd
    simp only [setDict_fwd, setDict_deleg]
    exact L o n d htd hd
  | localSet o n v d w _ _ htd hm =>
    intro o' n' d' htd' hd'
    simp only [unlink_cls, setDict_cls] at htd'
    simp only [unlink_dict, setDict_dict] at hd'
    simp only [unlink_fwd, setDict_fwd, unlink_deleg, setDict_deleg]
    by_cases hc : o' = o ∧ n' = n
    · simp [hc] at hd'
    · simp only [hc, if_false] at hd' ⊢
      exact L o' n' d' htd' hd'
  | localDel o n d _ _ htd hm hne hor =>
    rcases hor with h | h
    · rw [br0] at h; cases h
    · exact absurd ((I.fwd o n).2 d htd hne) h
  | relink o n d p1 h _ htd hm hp1 hdict hfwd hhook =>
    have hcls : ∀ j, (p1.obj j).cls = (p.obj j).cls := by
      rcases hp1 with rfl | rfl <;> intro j <;> simp
    have hdeleg : ∀ j, (p1.obj j).deleg = (p.obj j).deleg := by
      rcases hp1 with rfl | rfl <;> intro j <;> simp
    have hfwd1 : ∀ j, (p1.obj j).fwd = (p.obj j).fwd := by
      rcases hp1 with rfl | rfl <;> intro j <;> simp
    intro o' n' d' htd' hd'
    simp only [setFwd_cls, hcls] at htd'
    simp only [setFwd_dict] at hd'
    simp only [setFwd_fwd, setFwd_deleg, hfwd1, hdeleg]
    by_cases hc : o' = o ∧ n' = n
    · obtain ⟨rfl, rfl⟩ := hc
      simp only [and_self, if_true]
      have := hook_ok (p := p1) (o := o') (n := n') (d := d) (by rw [hhook])
      rw [hhook] at this; simp only at this
      rw [this, hdeleg]
    · simp only [hc, if_false]
      have hd'' : (p.obj o').dict n' = none := by
        rcases hp1 with rfl | rfl
        · exact hd'
        · rw [setDict_dict] at hd'
          simp only [hc, if_false] at hd'
          exact hd'
      exact L o' n' d' htd' hd''
  | swap o t hne =>
    have hnd := deferNames_nodup _ (I.wf o)
    intro o' n' d' htd' hd'
    obtain ⟨h1, h2, h3, h4⟩ := rehook_frame o (p.obj o).cls.deferNames (p.setDeleg o t) o'
    rw [h1] at htd'; simp only [setDeleg_cls] at htd'
    rw [h3] at hd'; simp only [setDeleg_dict] at hd'
    rw [h2, setDeleg_deleg]
    by_cases ho : o' = o
    · subst ho
      simp only [if_true]
      rw [rehook_fwd o' _ _ n' hnd, deferNames_lookup _ _ _ htd']
      simp only [setDeleg_fwd]
      have hL := L o' n' d' htd' hd'
      rw [hL]
      simp only [Option.some.injEq]
      have hex : (rehook (p.setDeleg o' t) o' (p.obj o').cls.deferNames).2 = 0 := hx0
      have hok := rehook_noexc o' _ _ hex hnd n' d' (deferNames_mem _ _ _ htd')
        (by simp only [setDeleg_fwd]; rw [hL]; simp)
      rw [hook_ok hok, setDeleg_deleg]; simp
    · simp only [ho, if_false]
      rw [h4 ho]; simp only [setDeleg_fwd]
      exact L o' n' d' htd' hd'

end TraitsVerif.Model.Deleg
