/-
Specification vocabulary of property C02, written from the property text and
independent of the notification machinery: which assignments *count as a
change* under a comparison mode (`counts`), and the list of changes a history
of assignments consists of (`realChanges`, `realChangesEvent`).
-/
import TraitsVerif.Lemmas.AttrBasic
namespace TraitsVerif.Model.Attr
open TraitsVerif

/-- "none: every assignment; identity: new object is not the old; equality: not
identical and compares unequal" (an `==` that raises does not establish
equality). -/
def counts (c : Cmp) : CMode → Id → Id → Bool
  | .none, _, _ => true
  | .identity, old, new => old != new
  | .equality, old, new => old != new && c.eqv old new != .yes

/-- `!=` answers False exactly when `==` answers True (Python's data model
convention).  Needed to relate the legacy wrappers (which ask `old != new`) to
the property text and to `observe` (which asks `old == new`). -/
def Consistent (c : Cmp) : Prop := ∀ a b, c.neq a b = .no ↔ c.eqv a b = .yes

/-- Specification state: what is stored for the attribute (`none` = nothing has
been stored yet, a read gives the declared default) and the validator's call
ordinal. -/
structure SpecSt where
  r : Option Id
  nv : Nat
  deriving DecidableEq, Repr

/-- Is the assigned value in the declared domain?  (`Undefined` is stored
unvalidated in a standard trait.)  Returns the accepted value. -/
def specValidate (E : Env) (t : TraitCore) (skipUndef : Bool) (nv : Nat) (v : Id) : Except Exc Id × Nat :=
  match t.validate with
  | none => (.ok v, nv)
  | some k => if skipUndef && v == undef then (.ok v, nv) else (E.validate k nv v, nv + 1)

/-- The changes a history consists of, for a standard trait with declared
default `d` and comparison mode `m`.  `orig`: the trait stores the value as
assigned (`setattr_original_value`) instead of the validated one.
A rejected assignment, a read, `trait_setq` contribute nothing; `del` of a
stored value is an assignment of the default. -/
def realChanges (E : Env) (t : TraitCore) (m : CMode) (orig : Bool) (d : Id) :
    SpecSt → List Op → List (Id × Id)
  | _, [] => []
  | σ, .set v :: h =>
    match specValidate E t true σ.nv v with
    | (.error _, nv) => realChanges E t m orig d ⟨σ.r, nv⟩ h
    | (.ok w, nv) =>
      let old := σ.r.getD d
      let new := if orig then v else w
      (if counts E.cmp m old new then [(old, new)] else []) ++ realChanges E t m orig d ⟨some new, nv⟩ h
  | σ, .setq v :: h =>
    match specValidate E t true σ.nv v with
    | (.error _, nv) => realChanges E t m orig d ⟨σ.r, nv⟩ h
    | (.ok w, nv) => realChanges E t m orig d ⟨some (if orig then v else w), nv⟩ h
  | σ, .del :: h =>
    match σ.r with
    | none => realChanges E t m orig d σ h
    | some old => (if counts E.cmp m old d then [(old, d)] else []) ++ realChanges E t m orig d ⟨some d, σ.nv⟩ h
  | σ, .get :: h => realChanges E t m orig d ⟨some (σ.r.getD d), σ.nv⟩ h
  | σ, _ :: h => realChanges E t m orig d σ h

/-- Event traits: "every assignment with old Undefined". -/
def realChangesEvent (E : Env) (t : TraitCore) : Nat → List Op → List (Id × Id)
  | _, [] => []
  | nv, .set v :: h =>
    match specValidate E t false nv v with
    | (.error _, nv') => realChangesEvent E t nv' h
    | (.ok w, nv') => (undef, w) :: realChangesEvent E t nv' h
  | nv, .setq v :: h =>
    match specValidate E t false nv v with
    | (_, nv') => realChangesEvent E t nv' h
  | nv, _ :: h => realChangesEvent E t nv h

/-- The operations the property's histories consist of. -/
def Op.isValue : Op → Bool
  | .set _ | .del | .get | .setq _ => true
  | _ => false

/-- `(old, new)` pairs handler `k` received, oldest first. -/
def callsOf (k : Nat) (l : List Call) : List (Id × Id) :=
  (l.filter (fun c => c.h == k)).map (fun c => (c.old, c.new))

/-- Handler `k` is registered exactly once, through a notifier of kind `kind`. -/
def UniqueIn (k : Nat) (kind : NKind) (ns : List (Notifier × Loc)) : Prop :=
  (ns.filter (fun p => p.1.h == k)).map (fun p => p.1.kind) = [kind]

instance (k : Nat) (kind : NKind) (ns : List (Notifier × Loc)) : Decidable (UniqueIn k kind ns) := by
  unfold UniqueIn; infer_instance

/-- What can be read from the attribute (without reading it). -/
def readable (d : Id) (slot : Option Id) : Id := slot.getD d

end TraitsVerif.Model.Attr
