/-
Facts about the builtin-set model `Py.PSet` (duplicate-free lists up to
permutation): membership after each operation, preservation of `WF`, and
congruence of every operation for `Equiv` (the result depends on the members
only, not on the order in which they are stored).
-/
import TraitsVerif.Py.Set
set_option linter.unusedSectionVars false
namespace TraitsVerif.Py.PSet
variable {α : Type} [DecidableEq α]

theorem mem_insert {s : PSet α} {x y : α} : x ∈ insert s y ↔ x ∈ s ∨ x = y := by
  unfold insert; split <;> simp_all

theorem wf_insert {s : PSet α} (h : WF s) (y : α) : WF (insert s y) := by
  unfold insert WF at *; split
  · exact h
  · rw [List.nodup_append]; refine ⟨h, by simp, ?_⟩
    intro a ha b hb; simp at hb; subst hb; intro e; subst e; contradiction

theorem mem_erase {s : PSet α} {x y : α} : x ∈ erase s y ↔ x ∈ s ∧ x ≠ y := by
  simp [erase, List.mem_filter]

theorem wf_filter {s : PSet α} (h : WF s) (p : α → Bool) : WF (s.filter p) :=
  List.Nodup.sublist List.filter_sublist h

theorem wf_erase {s : PSet α} (h : WF s) (y : α) : WF (erase s y) := wf_filter h _

theorem mem_union {s : PSet α} {t : List α} {x : α} : x ∈ union s t ↔ x ∈ s ∨ x ∈ t := by
  unfold union
  induction t generalizing s with
  | nil => simp
  | cons y t ih => simp only [List.foldl_cons, ih, mem_insert, List.mem_cons]; grind

theorem wf_union {s : PSet α} (h : WF s) (t : List α) : WF (union s t) := by
  unfold union
  induction t generalizing s with
  | nil => exact h
  | cons y t ih => exact ih (wf_insert h y)

theorem mem_ofList {t : List α} {x : α} : x ∈ ofList t ↔ x ∈ t := by
  simp [ofList, mem_union]

theorem wf_nil : WF ([] : PSet α) := List.nodup_nil

theorem wf_ofList (t : List α) : WF (ofList t) := wf_union wf_nil t

theorem mem_inter {s : PSet α} {t : List α} {x : α} : x ∈ inter s t ↔ x ∈ s ∧ x ∈ t := by
  simp [inter, List.mem_filter]

theorem mem_diff {s : PSet α} {t : List α} {x : α} : x ∈ diff s t ↔ x ∈ s ∧ x ∉ t := by
  simp [diff, List.mem_filter]

theorem wf_inter {s : PSet α} (h : WF s) (t : List α) : WF (inter s t) := wf_filter h _
theorem wf_diff {s : PSet α} (h : WF s) (t : List α) : WF (diff s t) := wf_filter h _

theorem mem_symm {s : PSet α} {t : List α} {x : α} :
    x ∈ symm s t ↔ (x ∈ s ∧ x ∉ t) ∨ (x ∈ t ∧ x ∉ s) := by
  simp [symm, mem_diff, mem_ofList]

theorem wf_symm {s : PSet α} (h : WF s) (t : List α) : WF (symm s t) := by
  unfold symm WF
  rw [List.nodup_append]
  refine ⟨wf_diff h t, wf_diff (wf_ofList t) s, ?_⟩
  intro a ha b hb e
  subst e
  rw [mem_diff] at ha hb
  exact hb.2 ha.1

theorem mem_foldl_diff {args : List (List α)} {s : PSet α} {x : α} :
    x ∈ args.foldl diff s ↔ x ∈ s ∧ ∀ a ∈ args, x ∉ a := by
  induction args generalizing s with
  | nil => simp
  | cons a args ih => simp only [List.foldl_cons, ih, mem_diff, List.mem_cons]; grind

theorem mem_foldl_inter {args : List (List α)} {s : PSet α} {x : α} :
    x ∈ args.foldl inter s ↔ x ∈ s ∧ ∀ a ∈ args, x ∈ a := by
  induction args generalizing s with
  | nil => simp
  | cons a args ih => simp only [List.foldl_cons, ih, mem_inter, List.mem_cons]; grind

theorem wf_foldl_diff {s : PSet α} (h : WF s) (args : List (List α)) : WF (args.foldl diff s) := by
  induction args generalizing s with
  | nil => exact h
  | cons a args ih => exact ih (wf_diff h a)

theorem wf_foldl_inter {s : PSet α} (h : WF s) (args : List (List α)) : WF (args.foldl inter s) := by
  induction args generalizing s with
  | nil => exact h
  | cons a args ih => exact ih (wf_inter h a)

theorem popChoice_mem {s : PSet α} {hint : Option α} {x : α} (h : popChoice s hint = some x) : x ∈ s := by
  unfold popChoice at h
  have hh : ∀ {s : PSet α} {x : α}, s.head? = some x → x ∈ s := by
    intro s x h; cases s with
    | nil => cases h
    | cons y s => simp at h; subst h; simp
  split at h
  · split at h
    · cases h; assumption
    · exact hh h
  · exact hh h

theorem popChoice_none {s : PSet α} {hint : Option α} : popChoice s hint = none ↔ s = [] := by
  unfold popChoice
  cases s with
  | nil => cases hint <;> simp
  | cons y s => cases hint <;> simp; split <;> simp

theorem popChoice_good {s : PSet α} {x : α} (h : x ∈ s) : popChoice s (some x) = some x := by
  simp [popChoice, h]

theorem equiv_nil {s : PSet α} (h : Equiv s []) : s = [] := by
  cases s with
  | nil => rfl
  | cons y s => have := (h y).mp (by simp); cases this

theorem Equiv.refl (s : PSet α) : Equiv s s := fun _ => Iff.rfl
theorem Equiv.symm {a b : PSet α} (h : Equiv a b) : Equiv b a := fun x => (h x).symm
theorem Equiv.trans {a b c : PSet α} (h : Equiv a b) (h' : Equiv b c) : Equiv a c :=
  fun x => (h x).trans (h' x)

/-- Two representations of the same set are permutations of each other. -/
theorem Equiv.perm {a b : PSet α} (h : Equiv a b) (ha : WF a) (hb : WF b) : a.Perm b :=
  (List.perm_ext_iff_of_nodup ha hb).mpr h

/-- Every builtin-set operation depends on the members only. -/
theorem step_congr {a b : PSet α} (h : Equiv a b) (op : Op α)
    (hint : match op with | .pop hint => a = [] ∨ ∃ x, hint = some x ∧ x ∈ a | _ => True) :
    match step a op, step b op with
    | .error e, .error e' => e = e'
    | .ok (a', r), .ok (b', r') => Equiv a' b' ∧ r = r'
    | _, _ => False := by
  cases op with
  | add x => simp only [step]; exact ⟨fun y => by simp [mem_insert, h y], trivial⟩
  | discard x => simp only [step]; exact ⟨fun y => by simp [mem_erase, h y], trivial⟩
  | remove x =>
    simp only [step]
    by_cases hx : x ∈ a
    · simp only [hx, (h x).mp hx, if_true]; exact ⟨fun y => by simp [mem_erase, h y], trivial⟩
    · have : x ∉ b := fun hb => hx ((h x).mpr hb)
      simp [hx, this]
  | pop hint' =>
    simp only [step]
    rcases hint with he | ⟨x, hx, hm⟩
    · subst he
      have : b = [] := equiv_nil h.symm
      subst this
      cases hint' <;> simp [popChoice]
    · subst hx
      rw [popChoice_good hm, popChoice_good ((h x).mp hm)]
      exact ⟨fun y => by simp [mem_erase, h y], rfl⟩
  | clear => simp only [step]; exact ⟨Equiv.refl _, trivial⟩
  | update args => simp only [step]; exact ⟨fun y => by simp [mem_union, h y], trivial⟩
  | differenceUpdate args => simp only [step]; exact ⟨fun y => by simp [mem_foldl_diff, h y], trivial⟩
  | intersectionUpdate args => simp only [step]; exact ⟨fun y => by simp [mem_foldl_inter, h y], trivial⟩
  | symmetricDifferenceUpdate xs => simp only [step]; exact ⟨fun y => by simp [mem_symm, h y], trivial⟩
  | ior isSet xs =>
    simp only [step]; cases isSet <;> simp
    exact fun y => by simp [mem_union, h y]
  | iand isSet xs =>
    simp only [step]; cases isSet <;> simp
    exact fun y => by simp [mem_inter, h y]
  | isub isSet xs =>
    simp only [step]; cases isSet <;> simp
    exact fun y => by simp [mem_diff, h y]
  | ixor isSet xs =>
    simp only [step]; cases isSet <;> simp
    exact fun y => by simp [mem_symm, h y]

end TraitsVerif.Py.PSet
