/-
`Model.Adapt` is the interpretation of the translated source
(`Generated/AdaptProg.lean`), part 2: `_adapt` — the sort of the edges, the
priority queue, the walk along a candidate path (`for … else`), the loop over the
sorted edges, the `while` loop.
-/
import TraitsVerif.Lemmas.AdaptSource
import TraitsVerif.Lemmas.AdaptLoop
set_option linter.unusedSimpArgs false
set_option linter.unusedVariables false
namespace TraitsVerif.Lemmas.AdaptSource
open TraitsVerif TraitsVerif.Model.Adapt TraitsVerif.Model.PyA TraitsVerif.Generated.AdaptProg

variable {α : Type}

/-! ## `list.sort` commutes with an encoding that preserves the comparison -/
section sortmap
variable {β γ : Type} (enc : β → γ) (lt : β → β → Bool) (lt' : γ → γ → Bool)
  (h : ∀ a b, lt' (enc a) (enc b) = lt a b)
include h

theorem bisectGo_map (p : β) (xs : List β) :
    ∀ fuel l r, bisectGo lt' (enc p) (xs.map enc) fuel l r = bisectGo lt p xs fuel l r := by
  intro fuel
  induction fuel with
  | zero => intro l r; simp [bisectGo]
  | succ n ih =>
    intro l r
    simp only [bisectGo, List.getElem?_map]
    cases hx : xs[l + (r - l) / 2]? with
    | none => simp
    | some x => simp [h, ih]

theorem binInsert_map (xs : List β) (p : β) :
    binInsert lt' (xs.map enc) (enc p) = (binInsert lt xs p).map enc := by
  simp [binInsert, bisect, bisectGo_map enc lt lt' h, List.map_take, List.map_drop]

theorem foldl_binInsert_map (ys : List β) :
    ∀ xs : List β, (ys.map enc).foldl (binInsert lt') (xs.map enc) = (ys.foldl (binInsert lt) xs).map enc := by
  induction ys with
  | nil => intro xs; rfl
  | cons y ys ih => intro xs; simp only [List.map_cons, List.foldl_cons, binInsert_map enc lt lt' h, ih]

theorem runAsc_map (xs : List β) :
    ∀ prev, runAsc lt' (enc prev) (xs.map enc) = ((runAsc lt prev xs).1.map enc, (runAsc lt prev xs).2.map enc) := by
  induction xs with
  | nil => intro prev; simp [runAsc]
  | cons x xs ih =>
    intro prev
    simp only [List.map_cons, runAsc, h]
    cases lt x prev <;> simp [ih]

theorem runDesc_map (xs : List β) :
    ∀ prev, runDesc lt' (enc prev) (xs.map enc) = ((runDesc lt prev xs).1.map enc, (runDesc lt prev xs).2.map enc) := by
  induction xs with
  | nil => intro prev; simp [runDesc]
  | cons x xs ih =>
    intro prev
    simp only [List.map_cons, runDesc, h]
    cases lt x prev <;> simp [ih]

theorem pySort_map (l : List β) : pySort lt' (l.map enc) = (pySort lt l).map enc := by
  match l with
  | [] => rfl
  | [a] => rfl
  | a :: b :: rest =>
    simp only [List.map_cons, pySort, h, runAsc_map enc lt lt' h, runDesc_map enc lt lt' h]
    cases lt b a
    · have := foldl_binInsert_map enc lt lt' h (runAsc lt b rest).2 (a :: b :: (runAsc lt b rest).1)
      simpa using this
    · have := foldl_binInsert_map enc lt lt' h (runDesc lt b rest).2 (a :: b :: (runDesc lt b rest).1).reverse
      simpa using this

end sortmap

/-! ## The priority queue -/

theorem cast_beq (a b : Nat) : ((a : Int) == (b : Int)) = (a == b) := by
  rw [Bool.eq_iff_iff]; simp; omega

theorem weightLt_enc (a b : Entry) (h : a.cnt ≠ b.cnt) :
    weightLt (α := α) (encEntry a) (encEntry b) = some (keyLt a b) := by
  have h' : ¬ ((a.cnt : Int) = (b.cnt : Int)) := by omega
  simp [weightLt, encEntry, keyLt, cast_beq, h']

/-- Equal weight triples (in particular equal counters) make the comparison stuck. -/
theorem weightLt_tie (a b : Entry) (h1 : a.nAd = b.nAd) (h2 : a.mroSum = b.mroSum) (h3 : a.cnt = b.cnt) :
    weightLt (α := α) (encEntry a) (encEntry b) = none := by
  simp [weightLt, encEntry, h1, h2, h3]

theorem heapInsert_enc (e : Entry) : ∀ q : List Entry, (∀ x ∈ q, x.cnt ≠ e.cnt) →
    heapInsert (α := α) (encEntry e) (q.map encEntry) = some ((qInsert e q).map encEntry)
  | [], _ => by simp [heapInsert, qInsert]
  | x :: xs, h => by
    have hx : e.cnt ≠ x.cnt := fun hh => h x List.mem_cons_self hh.symm
    simp only [List.map_cons, heapInsert, weightLt_enc e x hx, qInsert]
    cases keyLt e x with
    | true => simp
    | false => simp [heapInsert_enc e xs (fun y hy => h y (List.mem_cons_of_mem _ hy))]

/-! ## "Walk path and create adapters": the `for offer in new_path: … else:` loop -/

theorem walk_loop (C : Ctx α) (fuel : Nat) :
    ∀ (os : List Offer) (st : St α) (a : α), st.vars 13 = some (.obj a) →
      ∀ r, forLoop [11] (fun s => exec C fuel adaptLoop3 s) (os.map .offer) st = r →
        match walk C.f os a st.trace with
        | (.done a', tr) => r.2 = .next ∧ r.1.vars 13 = some (.obj a') ∧ r.1.trace = tr ∧
            r.1.counter = st.counter ∧ (∀ j, j ≠ 11 → j ≠ 13 → r.1.vars j = st.vars j)
        | (.failed, tr) => r.2 = .brk ∧ r.1.trace = tr ∧
            r.1.counter = st.counter ∧ (∀ j, j ≠ 11 → j ≠ 13 → r.1.vars j = st.vars j)
        | (.raised e, tr) => r.2 = .raised e ∧ r.1.trace = tr := by
  intro os
  induction os with
  | nil => intro st a h13 r hr; subst hr; simp [walk, forLoop, h13]
  | cons o os ih =>
    intro st a h13 r hr
    subst hr
    cases hf : C.f st.trace.length o a with
    | none =>
      simp [walk, hf, forLoop, bindTargets, adaptLoop3, exec, truth, eval, getVar, setVar, h13, isSame]
      intro j h1 h2; simp [h1, h2]
    | raise e =>
      simp [walk, hf, forLoop, bindTargets, adaptLoop3, exec, truth, eval, getVar, setVar, h13, isSame]
    | adapter a' =>
      have := ih { st with vars := setVar (setVar st.vars 11 (.offer o)) 13 (.obj a'),
                           trace := st.trace ++ [⟨o.id, .ok⟩] } a' (by simp [setVar]) _ rfl
      simp [walk, hf, forLoop, bindTargets, adaptLoop3, exec, truth, eval, getVar, setVar, h13, isSame] at this ⊢
      generalize forLoop [11] _ _ _ = r at this ⊢
      cases hw : walk C.f os a' (st.trace ++ [⟨o.id, .ok⟩]) with
      | mk res tr =>
        cases res with
        | done a'' =>
          simp only [hw] at this ⊢
          obtain ⟨h1, h2, h3, h4, h5⟩ := this
          refine ⟨h1, h2, h3, h4, fun j hj1 hj2 => ?_⟩
          rw [h5 j hj1 hj2]; simp [hj1, hj2]
        | failed =>
          simp only [hw] at this ⊢
          obtain ⟨h1, h3, h4, h5⟩ := this
          refine ⟨h1, h3, h4, fun j hj1 hj2 => ?_⟩
          rw [h5 j hj1 hj2]; simp [hj1, hj2]
        | raised e => simp only [hw] at this ⊢; exact this

/-! ## The loop over the sorted edges -/

/-- How a result of the model shows as the control flow of `_adapt`'s body. -/
def flowOf : Res α → Flow α
  | .found _ a => .returned (.obj a)
  | .raised e => .raised e
  | .notFound => .next
  | .outOfFuel => .outOfFuel

def encWeight (w : Entry) : Val α := .tuple [.int w.nAd, .int w.mroSum, .int w.cnt]

/-- The interpreter state and the model state agree (slots of `_adapt`: 0 adaptee,
1 to_protocol, 2 counter, 4 offer_queue). -/
structure Rel (adaptee : α) (target : Nat) (st : Model.PyA.St α) (mst : Model.Adapt.St) : Prop where
  h0 : st.vars 0 = some (.obj adaptee)
  h1 : st.vars 1 = some (.ty target)
  h2 : st.vars 2 = some .counterRef
  h4 : st.vars 4 = some (.list (mst.queue.map encEntry))
  hc : st.counter = mst.counter
  ht : st.trace = mst.trace
  /-- the counters in the queue are below the next counter value, hence (with
  `heapInsert_enc`) no two heap entries ever compare equal on their weight triple -/
  hlt : ∀ e ∈ mst.queue, e.cnt < mst.counter

theorem heapInsert_push (q : List Entry) (c : Nat) (hne : ∀ x ∈ q, x.cnt ≠ c) (a b d : Nat) (p : List Offer)
    (o : Offer) (t : Nat) :
    heapInsert (α := α)
        (.tuple [.tuple [.int ((a : Int) + 1), .int ((b : Int) + (d : Int)), .int (c : Int)],
                 .list (p.map .offer ++ [.offer o]), .ty t]) (q.map encEntry) =
      some ((qInsert ⟨a + 1, b + d, c, p ++ [o], t⟩ q).map encEntry) := by
  have := heapInsert_enc (α := α) ⟨a + 1, b + d, c, p ++ [o], t⟩ q hne
  simpa [encEntry, encPath] using this

theorem edges_loop (C : Ctx α) (fuel : Nat)
    (hprov : ∀ a b, C.call "provides_protocol" [.ty a, .ty b] = .ok (.bool (C.cfg.provides a b)))
    (adaptee : α) (target : Nat) (w : Entry) :
    ∀ (es : List Edge) (st : Model.PyA.St α) (mst : Model.Adapt.St), Rel adaptee target st mst →
      st.vars 6 = some (encWeight w) → st.vars 7 = some (encPath w.path) →
      ∀ r, forLoop [10, 11] (fun s => exec C fuel adaptLoop2 s) (es.map encEdge) st = r →
        match processEdges C.cfg C.f adaptee target w es mst with
        | (none, mst') => r.2 = .next ∧ Rel adaptee target r.1 mst' ∧
            r.1.vars 6 = some (encWeight w) ∧ r.1.vars 7 = some (encPath w.path)
        | (some res, mst') => r.2 = flowOf res ∧ r.1.trace = mst'.trace := by
  intro es
  induction es with
  | nil => intro st mst R h6 h7 r hr; subst hr; simp [processEdges, forLoop, R, h6, h7]
  | cons e es ih =>
    obtain ⟨d, o⟩ := e
    intro st mst R h6 h7 r hr
    subst hr
    cases hp : C.cfg.provides o.to target with
    | false =>
      have hne : ∀ x ∈ mst.queue, x.cnt ≠ mst.counter := fun x hx => Nat.ne_of_lt (R.hlt x hx)
      simp [forLoop, bindTargets, bindAll, encEdge, adaptLoop2, exec, truth, eval, getVar, setVar, builtin, hprov, hp,
        R.h0, R.h1, R.h2, R.h4, R.hc, R.ht, h6, h7, encPath, encWeight, processEdges,
        heapInsert_push mst.queue mst.counter hne]
      generalize hr : forLoop [10, 11] _ _ _ = r
      exact ih _ _ ⟨by simp [setVar, R.h0], by simp [setVar, R.h1], by simp [setVar, R.h2], by simp [setVar],
        by simp [R.hc], by simp [R.ht], fun e he => by
          rcases Adapt.mem_qInsert.1 he with rfl | h
          · simp
          · exact Nat.lt_succ_of_lt (R.hlt e h)⟩ (by simp [setVar, h6, encWeight]) (by simp [setVar, h7, encPath]) r hr
    | true =>
      simp [forLoop, bindTargets, bindAll, encEdge, adaptLoop2, exec, truth, eval, getVar, setVar, builtin, hprov, hp,
        R.h0, R.h1, R.h2, R.h4, R.hc, R.ht, h6, h7, encPath, encWeight, processEdges]
      generalize hr1 : forLoop [11] _ _ _ = r1
      have hwl := fun h13 => walk_loop C fuel (w.path ++ [o]) _ adaptee h13 r1 (by simpa using hr1)
      replace hwl := hwl (by simp [setVar])
      simp only [R.ht] at hwl
      cases hw : walk C.f (w.path ++ [o]) adaptee mst.trace with
      | mk res tr =>
        obtain ⟨s1, f1⟩ := r1
        cases res with
        | done a' =>
          simp only [hw] at hwl ⊢
          obtain ⟨h1, h2, h3, h4, h5⟩ := hwl
          subst h1
          simp [getVar, h2, flowOf, h3]
        | raised x =>
          simp only [hw] at hwl ⊢
          obtain ⟨h1, h3⟩ := hwl
          subst h1
          simp [flowOf, h3]
        | failed =>
          simp only [hw] at hwl ⊢
          obtain ⟨h1, h3, h4, h5⟩ := hwl
          subst h1
          simp only []
          generalize hr : forLoop [10, 11] _ _ _ = r
          exact ih s1 { mst with trace := tr }
            ⟨by rw [h5 0 (by decide) (by decide)]; simp [setVar, R.h0],
             by rw [h5 1 (by decide) (by decide)]; simp [setVar, R.h1],
             by rw [h5 2 (by decide) (by decide)]; simp [setVar, R.h2],
             by rw [h5 4 (by decide) (by decide)]; simp [setVar, R.h4],
             by rw [h4], h3, R.hlt⟩
            (by rw [h5 6 (by decide) (by decide)]; simp [setVar, h6])
            (by rw [h5 7 (by decide) (by decide)]; simp [setVar, h7]) r hr

/-! ## The `while len(offer_queue) > 0:` loop -/

/-- What `_adapt` needs of the functions it calls. -/
structure Calls (C : Ctx α) : Prop where
  prov : ∀ a b, C.call "provides_protocol" [.ty a, .ty b] = .ok (.bool (C.cfg.provides a b))
  app : ∀ cur path, C.call "_get_applicable_offers" [.ty cur, .list (path.map .offer)] =
    .ok (.list ((applicable C.cfg cur path).map encEdge))
  cmp : ∀ a b, C.call "_by_weight_then_from_protocol_specificity" [encEdge a, encEdge b] =
    .ok (.int (cmpI C.cfg a b))

theorem sort_ok (C : Ctx α) (H : Calls C) (es : List Edge) :
    (es.map encEdge).all (fun a => (es.map encEdge).all
      (fun b => cmpOk C "_by_weight_then_from_protocol_specificity" a b)) = true := by
  simp [List.all_eq_true, cmpOk, H.cmp]

theorem sort_enc (C : Ctx α) (H : Calls C) (es : List Edge) :
    pySort (cmpLt C "_by_weight_then_from_protocol_specificity") (es.map encEdge) =
      (pySort (edgeLt C.cfg) es).map encEdge :=
  pySort_map encEdge (edgeLt C.cfg) _ (fun a b => by simp [cmpLt, H.cmp, cmpI_lt]) es

theorem while_loop (C : Ctx α) (H : Calls C) (adaptee : α) (target fuel : Nat)
    (cond : Model.PyA.St α → Except Exc Bool) (body : Model.PyA.St α → Model.PyA.St α × Flow α)
    (hcond : ∀ s, cond s = truth C s.vars (.gt (.call "len" (.cons (.var 4) .nil)) (.intLit 0)))
    (hbody : ∀ s, body s = exec C fuel adaptLoop1 s) :
    ∀ (n : Nat) (st : Model.PyA.St α) (mst : Model.Adapt.St), Rel adaptee target st mst →
      ∀ r, whileLoop cond body n st = r →
        r.2 = flowOf (adaptLoop C.cfg C.f adaptee target n mst).1 ∧
        r.1.trace = (adaptLoop C.cfg C.f adaptee target n mst).2 := by
  intro n
  induction n with
  | zero => intro st mst R r hr; subst hr; simp [whileLoop, adaptLoop, flowOf, R.ht]
  | succ n ih =>
    intro st mst R r hr
    subst hr
    obtain ⟨q, cnt, tr⟩ := mst
    cases q with
    | nil =>
      simp [whileLoop, hcond, truth, eval, getVar, builtin, R.h4, adaptLoop, flowOf, R.ht]
    | cons w rest =>
      simp [whileLoop, hcond, hbody, truth, eval, getVar, setVar, builtin, R.h4, adaptLoop, R.ht, R.hc, adaptLoop1, exec, bindAll,
        encEntry, encPath, H.app, sort_enc C H]
      rw [if_pos (sort_ok C H _)]
      simp [getVar, setVar]
      generalize hr1 : forLoop [10, 11] _ _ _ = r1
      have he := fun hR h6 h7 => edges_loop C fuel H.prov adaptee target w
        (pySort (edgeLt C.cfg) (applicable C.cfg w.cur w.path)) _ ⟨rest, cnt, tr⟩ hR h6 h7 r1 hr1
      replace he := he ⟨by simp [setVar, R.h0], by simp [setVar, R.h1], by simp [setVar, R.h2], by simp [setVar],
        by simp [R.hc], by simp [R.ht], fun e he => R.hlt e (List.mem_cons_of_mem _ he)⟩
        (by simp [setVar, encWeight]) (by simp [setVar, encPath])
      obtain ⟨s1, f1⟩ := r1
      cases hpe : processEdges C.cfg C.f adaptee target w (pySort (edgeLt C.cfg) (applicable C.cfg w.cur w.path))
          ⟨rest, cnt, tr⟩ with
      | mk ores mst' =>
        cases ores with
        | some res =>
          simp only [hpe] at he ⊢
          obtain ⟨h1, h2⟩ := he
          subst h1
          rcases Adapt.processEdges_some_kind _ _ _ _ _ _ _ _ _ hpe with ⟨p, a, rfl⟩ | ⟨e, rfl⟩ <;> simp [flowOf, h2]
        | none =>
          simp only [hpe] at he ⊢
          obtain ⟨h1, hR, -, -⟩ := he
          subst h1
          simp only []
          generalize hr : whileLoop _ _ _ _ = r
          exact ih s1 mst' hR r hr

/-! ## `_adapt` -/

theorem lookup_adapt : lookupFn "_adapt" adaptProg = some { nparams := 2, nslots := 19, body := adaptBody } := by
  simp [lookupFn, adaptProg]

theorem calls_ctx (cfg : Cfg) (hne : NonEmptyGroups cfg) (f : Factory α) (s : Nat) :
    Calls (ctxAt adaptProg cfg f s callDepth) where
  prov := fun a b => call_provides cfg f s 2 a b
  app := fun cur path => call_applicable cfg hne f s 0 cur path
  cmp := fun a b => call_cmp cfg f s 2 a b

/-- **`_adapt` interpreted from its source is the model's `adaptLoop`** from the
initial state, for every amount of fuel. -/
theorem runAdapt_eq (cfg : Cfg) (hne : NonEmptyGroups cfg) (f : Factory α) (srcType : Nat) (adaptee : α)
    (target fuel : Nat) :
    runAdapt adaptProg cfg f srcType adaptee target fuel =
      (viewRes (adaptLoop cfg f adaptee target fuel (initSt srcType)).1,
       (adaptLoop cfg f adaptee target fuel (initSt srcType)).2) := by
  simp only [runAdapt, lookup_adapt, runFn, List.length_cons, List.length_nil]
  simp [adaptBody, exec, eval, getVar, setVar, initFrame, builtin]
  generalize hr : whileLoop _ _ _ _ = r
  have hw := fun hR => while_loop (ctxAt adaptProg cfg f srcType callDepth) (calls_ctx cfg hne f srcType) adaptee target
    fuel _ _ (fun _ => rfl) (fun _ => rfl) fuel _ (initSt srcType) hR r hr
  replace hw := hw ⟨by simp [setVar, initFrame], by simp [setVar, initFrame], by simp [setVar], by
    simp [setVar, initSt, encEntry, encPath, ctxAt], by simp [initSt], by simp [initSt], by simp [initSt]⟩
  obtain ⟨s1, f1⟩ := r
  obtain ⟨h1, h2⟩ := hw
  simp only [ctxAt] at h1 h2
  subst h1
  cases hres : (adaptLoop cfg f adaptee target fuel (initSt srcType)).1 <;> simp [flowOf, viewRes, h2, hres]

end TraitsVerif.Lemmas.AdaptSource
