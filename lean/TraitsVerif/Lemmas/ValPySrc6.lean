/-
Source tie of the Python-level validate methods, part 6: BaseTuple.validate (the
for / enumerate / append loop under a bare except; tuples and lists), and the assembly.
-/
import TraitsVerif.Lemmas.ValPySrc5
namespace TraitsVerif.Model.PyVSrc
open TraitsVerif TraitsVerif.Py.Value TraitsVerif.Model.Val TraitsVerif.Generated.PyValidators
set_option maxHeartbeats 3200000
variable (E : Env)

/-- The enumerate / append loop of `BaseTuple.validate`, stated on the semantics of its body:
it validates `vs[n], vs[n+1], …` with `gs` and appends the results. -/
theorem forEachI_elems {R : Type} (step : Nat → (Val → Res) → List PV → (List PV → R) → R)
    (kn : List PV → R) (ke : PExc → R) (a b c d t : PV) (vs : List Val) (K : List PV → R)
    (hb : ∀ n g acc x y kn', step n g [a, b, c, d, t, .lst acc, x, y] kn' =
      match g (vs.getD n Val.none) with
      | .ok w => kn' [a, b, c, d, t, .lst (acc ++ [.val w]), .int n, .fnv g]
      | .traitError => ke .te
      | .raised e => ke (.ex e))
    (hkn : ∀ acc x y, kn [a, b, c, d, t, .lst acc, x, y] = K acc) :
    ∀ (gs : List (Val → Res)) (n : Nat) (acc : List PV) (x y : PV), n + gs.length ≤ vs.length →
      forEachI step n gs [a, b, c, d, t, .lst acc, x, y] kn =
        match elemsL gs (vs.drop n) with
        | .ok ws => K (acc ++ ws.map PV.val)
        | .error none => ke .te
        | .error (some e) => ke (.ex e) := by
  intro gs
  induction gs with
  | nil => intro n acc x y _; simp [forEachI, elemsL, hkn]
  | cons g gs ih =>
    intro n acc x y hlen
    simp only [List.length_cons] at hlen
    have hn : n < vs.length := by omega
    have hdrop : vs.drop n = vs[n] :: vs.drop (n + 1) := by
      rw [List.drop_eq_getElem_cons hn]
    have hget : vs.getD n Val.none = vs[n] := by simp [List.getD_eq_getElem?_getD, hn]
    simp only [forEachI, hb, hget, hdrop, elemsL]
    cases hg : g vs[n] with
    | traitError => simp
    | raised e => simp
    | ok w =>
      simp only []
      rw [ih (n + 1) (acc ++ [PV.val w]) (PV.int n) (PV.fnv g) (by omega)]
      cases elemsL gs (vs.drop (n + 1)) with
      | ok ws => simp
      | error o => cases o <;> simp

theorem pyValidate_baseTuple_seq (items : List TraitType) (vs : List Val) (v : Val)
    (hv : (∃ sub, v = .tuple sub vs) ∨ v = .list vs) :
    pyValidate E (.baseTuple items) v =
      if vs.length = items.length then
        (match ctraitValidateL E items vs with | .ok ws => .ok (.tuple false ws) | .error _ => .traitError)
      else .traitError := by
  rcases hv with ⟨sub, rfl⟩ | rfl <;> by_cases hl : vs.length = items.length <;> simp [pyValidate, hl] <;>
    (cases ctraitValidateL E items vs <;> rfl)

theorem baseTuple_core (items : List TraitType) (vs : List Val) (sub : Bool) (hl : vs.length = items.length) :
    forEachI
        (fun n g σ' kn' =>
          exec (C := ⟨E, selfCfgE E (.baseTuple items), runL E (selfCfgE E (.baseTuple items)) 2⟩)
            (.append 5 (.attrCall (.loc 7) "validate" [(.loc 1), (.loc 2), (.subscript (.loc 3) (.loc 6))]))
            ((σ'.set 6 (.int n)).set 7 (.fnv g)) kn' (fun v => MRes.ret v) (fun _ => MRes.exc .te))
        0 (items.map (fun t => ctraitValidate E t))
        [.self_, .hobj, .name, .val (.tuple sub vs), .fns (items.map (fun t => ctraitValidate E t)), .lst [], .undef, .undef]
        (fun σ => match σ.getD 5 .undef with
          | .lst xs => MRes.ret (.val (.tuple false (xs.map (fun x => match x with | .val v => v | _ => Val.none))))
          | _ => MRes.ret .undef) =
      match ctraitValidateL E items vs with
      | .ok ws => MRes.ret (.val (.tuple false ws))
      | .error _ => MRes.exc .te := by
  rw [forEachI_elems _ _ (fun _ => MRes.exc PExc.te) PV.self_ PV.hobj PV.name (PV.val (Val.tuple sub vs))
    (PV.fns (List.map (fun t => ctraitValidate E t) items)) vs
    (fun acc => MRes.ret (.val (.tuple false (acc.map (fun x => match x with | .val v => v | _ => Val.none)))))
    ?hb ?hkn _ 0 [] PV.undef PV.undef (by simp [hl])]
  case hkn => intro acc x y; simp
  case hb =>
    intro n g acc x y kn'
    simp [exec, evalE, evalArgs, callFn]
    cases g (vs[n]?.getD Val.none) <;> simp
  rw [ctraitValidateL_eq]
  simp only [List.drop_zero, List.nil_append]
  cases elemsL (List.map (fun t => ctraitValidate E t) items) vs with
  | ok ws =>
    simp
    have := map_pvToVal ws
    simpa [List.map_map, pvToVal, Function.comp_def] using this
  | error o => cases o <;> simp


theorem py_baseTuple_seq (items : List TraitType) (vs : List Val) (v : Val)
    (hv : (∃ sub, v = .tuple sub vs) ∨ v = .list vs) :
    srcPy E (.baseTuple items) v = some (pyValidate E (.baseTuple items) v) := by
  rw [pyValidate_baseTuple_seq E items vs v hv]
  py_start m_BaseTuple_validate "BaseTuple.validate"
  generalize hB : Stmt.append 5 _ = B
  rcases hv with ⟨sub, rfl⟩ | rfl <;> pyv_evalL <;> simp [Val.isInst]
  all_goals
    have hlen : ((vs.length : Int) = items.length) ↔ (vs.length = items.length) := by omega
    simp only [hlen]
    by_cases hl : vs.length = items.length
    · simp only [hl, if_true]
      rw [forEachI_elems _ _ (fun _ => MRes.exc PExc.te) PV.self_ PV.hobj PV.name _
        (PV.fns (List.map (fun t => ctraitValidate E t) items)) vs ?K ?hb ?hkn _ 0 [] PV.undef PV.undef
        (by simp [hl])]
      case hkn => intro acc x y; simp <;> rfl
      case hb =>
        intro n g acc x y kn'
        subst hB
        simp [exec, evalE, evalArgs, callFn]
        cases g (vs[n]?.getD Val.none) <;> simp
      rw [ctraitValidateL_eq]
      simp only [List.drop_zero, List.nil_append]
      cases elemsL (List.map (fun t => ctraitValidate E t) items) vs with
      | ok ws =>
        simp
        have := map_pvToVal ws
        simpa [List.map_map, pvToVal, Function.comp_def] using this
      | error o => cases o <;> simp
    · simp [hl]


theorem py_baseTuple (items : List TraitType) (v : Val) :
    srcPy E (.baseTuple items) v = some (pyValidate E (.baseTuple items) v) := by
  rcases v with a | ⟨sub, vs⟩ | ws
  · py_start m_BaseTuple_validate "BaseTuple.validate"
    pyv_evalL
    simp [Val.isInst, pyValidate]
  · exact py_baseTuple_seq E items vs _ (Or.inl ⟨sub, rfl⟩)
  · exact py_baseTuple_seq E items ws _ (Or.inr rfl)

/-! ## Assembly, sixth part -/

def pyCovered6 : TraitType → Bool
  | .noFast t => pyCovered6 t
  | .baseTuple _ => true
  | t => pyCovered5 t

theorem srcPy_eq6 (hE : CastIdem E) (hA : ∀ v cls r, E.adapt v cls = .ok (some r) → r ≠ Val.none) :
    ∀ (t : TraitType) (v : Val), pyCovered6 t = true → noTE E t v → srcPy E t v = some (pyValidate E t v)
  | .noFast t, v, h, hn => by
    rw [srcPy_noFast, srcPy_eq6 hE hA t v (by simpa [pyCovered6] using h) (by simpa [noTE] using hn)]
    simp [pyValidate]
  | .baseTuple items, v, _, _ => py_baseTuple E items v
  | .int, v, h, hn | .float, v, h, hn | .complex, v, h, hn | .str, v, h, hn | .bytes, v, h, hn | .bool, v, h, hn
  | .cint, v, h, hn | .cfloat, v, h, hn | .ccomplex, v, h, hn | .cstr, v, h, hn | .cbytes, v, h, hn | .cbool, v, h, hn
  | .enum _, v, h, hn | .map .., v, h, hn | .noneTrait, v, h, hn | .this _, v, h, hn
  | .rangeF .., v, h, hn | .rangeI .., v, h, hn | .type_ .., v, h, hn | .instance .., v, h, hn
  | .tuple _, v, h, hn | .union _, v, h, hn | .compoundH _, v, h, hn | .callable _, v, h, hn
  | .coerceH _, v, h, hn | .castH _, v, h, hn | .instanceH .., v, h, hn | .functionH _, v, h, hn
  | .enumH _, v, h, hn | .mapH .., v, h, hn
  | .any, v, h, hn | .validatedTuple .., v, h, hn | .tupleAny, v, h, hn
  | .module, v, h, hn | .either .., v, h, hn | .string .., v, h, hn | .prefixList _, v, h, hn
  | .prefixMap .., v, h, hn | .array .., v, h, hn =>
    srcPy_eq5 E hE hA _ v (by simpa [pyCovered6] using h) hn

end TraitsVerif.Model.PyVSrc
