/-
Generic facts about `Model.Sync.cascade` (the nested propagation of
`sync_trait`): it never touches the link tables, it returns with the lock table
it found (`cascade_frame`), its result does not depend on the depth budget once
that exceeds the number of unlocked table entries (`cascade_fuel`), and it only
touches the traits `visit` enumerates (`cascade_footprint`).
-/
import TraitsVerif.Model.Sync
namespace TraitsVerif.Model.Sync
open TraitsVerif TraitsVerif.Py TraitsVerif.Model
variable {α π : Type}

/-- What `apply` may and may not do: it works on the trait `p` alone. -/
structure Local (apply : World α → Pair → π → Except Exc (World α × Option α × Option π)) : Prop where
  edges : ∀ {w p x w1 r y}, apply w p x = .ok (w1, r, y) → w1.edges = w.edges
  locked : ∀ {w p x w1 r y}, apply w p x = .ok (w1, r, y) → w1.locked = w.locked
  hooked : ∀ {w p x w1 r y}, apply w p x = .ok (w1, r, y) → w1.hooked = w.hooked
  val : ∀ {w p x w1 r y}, apply w p x = .ok (w1, r, y) → ∀ q, q ≠ p → w1.val q = w.val q
  nChg : ∀ {w p x w1 r y}, apply w p x = .ok (w1, r, y) → ∀ q, q ≠ p → w1.nChg q = w.nChg q
  nItems : ∀ {w p x w1 r y}, apply w p x = .ok (w1, r, y) → ∀ q, q ≠ p → w1.nItems q = w.nItems q

/-- Same tables (links, locks, registered handlers). -/
def SameTabs (w w' : World α) : Prop :=
  w'.edges = w.edges ∧ w'.locked = w.locked ∧ w'.hooked = w.hooked

theorem SameTabs.refl (w : World α) : SameTabs w w := ⟨rfl, rfl, rfl⟩

theorem SameTabs.trans {a b c : World α} (h1 : SameTabs a b) (h2 : SameTabs b c) : SameTabs a c :=
  ⟨h2.1.trans h1.1, h2.2.1.trans h1.2.1, h2.2.2.trans h1.2.2⟩

theorem partners_congr {w w' : World α} (h : w'.edges = w.edges) (p : Pair) :
    w'.partners p = w.partners p := by
  simp [World.partners, h]

/-- Unfolding of one level. -/
theorem cascade_succ (apply : World α → Pair → π → Except Exc (World α × Option α × Option π))
    (d : Nat) (w : World α) (p : Pair) (x : π) :
    cascade apply (d + 1) w p x =
      match apply w p x with
      | .error e => .error e
      | .ok (w1, r, none) => .ok (w1, r)
      | .ok (w1, r, some y) =>
        if (w1.partners p).isEmpty then .ok (w1, r)
        else .ok (((w1.partners p).foldl (visitPartner (cascade apply d) y) (w1.lock p)).unlock p, r) := by
  rfl

theorem filter_ne_self_of_not_mem {L : List Pair} {p : Pair} (h : p ∉ L) :
    L.filter (· ≠ p) = L := by
  apply List.filter_eq_self.mpr
  intro a ha
  simp only [ne_eq, decide_eq_true_eq]
  rintro rfl
  exact h ha

/-- A loop over partners whose single steps keep the tables keeps the tables. -/
theorem foldl_sameTabs {rec : World α → Pair → π → Except Exc (World α × Option α)} {y : π}
    (hrec : ∀ acc q acc' r, q ∉ acc.locked → rec acc q y = .ok (acc', r) → SameTabs acc acc')
    (ps : List Pair) (acc : World α) :
    SameTabs acc (ps.foldl (visitPartner rec y) acc) := by
  induction ps generalizing acc with
  | nil => exact SameTabs.refl _
  | cons q qs ih =>
    simp only [List.foldl_cons]
    refine SameTabs.trans ?_ (ih _)
    unfold visitPartner
    split
    · exact SameTabs.refl _
    · rename_i hq
      split
      · rename_i acc' r h
        exact hrec acc q acc' r hq h
      · exact SameTabs.refl _

/-- **Frame.** A propagation started on an unlocked trait returns with the same
link tables, the same handlers and the same lock table. -/
theorem cascade_frame {apply : World α → Pair → π → Except Exc (World α × Option α × Option π)}
    (hl : Local apply) (d : Nat) :
    ∀ (w : World α) (p : Pair) (x : π) (w' : World α) (r : Option α),
      p ∉ w.locked → cascade apply d w p x = .ok (w', r) → SameTabs w w' := by
  induction d with
  | zero => intro w p x w' r _ h; simp [cascade] at h
  | succ d ih =>
    intro w p x w' r hp h
    rw [cascade_succ] at h
    split at h
    · cases h
    · rename_i w1 r1 happ
      cases h
      exact ⟨hl.edges happ, hl.locked happ, hl.hooked happ⟩
    · rename_i w1 r1 y happ
      have h1 : SameTabs w w1 := ⟨hl.edges happ, hl.locked happ, hl.hooked happ⟩
      split at h
      · cases h; exact h1
      · cases h
        have hf := foldl_sameTabs (rec := cascade apply d) (y := y)
          (fun acc q acc' r hq hc => ih acc q y acc' r hq hc) (w1.partners p) (w1.lock p)
        obtain ⟨e1, e2, e3⟩ := hf
        refine ⟨?_, ?_, ?_⟩
        · simp only [World.unlock]; rw [e1]; exact h1.1
        · simp only [World.unlock]; rw [e2]
          simp only [World.lock]
          rw [List.filter_cons_of_neg (by simp)]
          rw [filter_ne_self_of_not_mem (by rw [h1.2.1]; exact hp)]
          exact h1.2.1
        · simp only [World.unlock]; rw [e3]; exact h1.2.2

/-! ### The depth budget is never exhausted -/

/-- Number of table entries whose owner trait is not locked: every nested
handler locks one more owner, so this bounds the nesting depth. -/
def World.free (w : World α) : Nat := (w.edges.filter (fun e => decide (e.src ∉ w.locked))).length

theorem free_le_edges (w : World α) : w.free ≤ w.edges.length := List.length_filter_le _ _

theorem free_congr {w w' : World α} (h : SameTabs w w') : w'.free = w.free := by
  simp [World.free, h.1, h.2.1]

theorem filter_length_lt {β : Type} (P Q : β → Bool) (l : List β) (himp : ∀ a, Q a = true → P a = true)
    (a : β) (ha : a ∈ l) (hP : P a = true) (hQ : Q a = false) :
    (l.filter Q).length < (l.filter P).length := by
  induction l with
  | nil => cases ha
  | cons b bs ih =>
    have hle : (bs.filter Q).length ≤ (bs.filter P).length := by
      clear ih ha
      induction bs with
      | nil => simp
      | cons c cs ihc =>
        by_cases hq : Q c = true
        · simp [hq, himp c hq]; exact ihc
        · by_cases hp : P c = true
          · simp [hq, hp]; omega
          · simp [hq, hp]; exact ihc
    rcases List.mem_cons.mp ha with rfl | hmem
    · simp [hP, hQ]; omega
    · have := ih hmem
      by_cases hq : Q b = true
      · simp [hq, himp b hq]; exact this
      · by_cases hp : P b = true
        · simp [hq, hp]; omega
        · simp [hq, hp]; exact this

/-- Locking the owner of a non-empty table strictly decreases `free`. -/
theorem free_lock_lt (w : World α) (p : Pair) (hp : p ∉ w.locked) (hne : (w.partners p).isEmpty = false) :
    (w.lock p).free < w.free := by
  have : ∃ e ∈ w.edges, e.src = p := by
    unfold World.partners at hne
    cases hfl : w.edges.filter (fun e => e.src = p) with
    | nil => simp [hfl] at hne
    | cons e es =>
      have : e ∈ w.edges.filter (fun e => e.src = p) := by rw [hfl]; simp
      have := List.mem_filter.mp this
      exact ⟨e, this.1, by simpa using this.2⟩
  obtain ⟨e, he, hsrc⟩ := this
  unfold World.free World.lock
  apply filter_length_lt _ _ _ _ e he
  · simp [hsrc, hp]
  · simp [hsrc]
  · intro a; simp

/-- A loop whose nested calls do not depend on the budget does not depend on it. -/
theorem foldl_fuel {rec rec' : World α → Pair → π → Except Exc (World α × Option α)} {y : π} (n : Nat)
    (hrec : ∀ acc q, q ∉ acc.locked → acc.free ≤ n → rec acc q y = rec' acc q y)
    (hframe : ∀ acc q acc' r, q ∉ acc.locked → rec acc q y = .ok (acc', r) → SameTabs acc acc')
    (ps : List Pair) (acc : World α) (hacc : acc.free ≤ n) :
    ps.foldl (visitPartner rec y) acc = ps.foldl (visitPartner rec' y) acc := by
  induction ps generalizing acc with
  | nil => rfl
  | cons q qs ih =>
    simp only [List.foldl_cons]
    have hstep : visitPartner rec y acc q = visitPartner rec' y acc q := by
      unfold visitPartner
      split
      · rfl
      · rename_i hq; rw [hrec acc q hq hacc]
    rw [← hstep]
    apply ih
    unfold visitPartner
    split
    · exact hacc
    · rename_i hq
      split
      · rename_i acc' r h
        rw [free_congr (hframe acc q acc' r hq h)]; exact hacc
      · exact hacc

/-- **Termination.** With more budget than unlocked table entries the result
is the same for every budget: the recursion limit is never reached. -/
theorem cascade_fuel {apply : World α → Pair → π → Except Exc (World α × Option α × Option π)}
    (hl : Local apply) (d : Nat) :
    ∀ (d' : Nat) (w : World α) (p : Pair) (x : π), p ∉ w.locked → w.free < d → w.free < d' →
      cascade apply d w p x = cascade apply d' w p x := by
  induction d with
  | zero => intro d' w p x _ h; omega
  | succ d ih =>
    intro d' w p x hp hd hd'
    cases d' with
    | zero => omega
    | succ d' =>
      rw [cascade_succ, cascade_succ]
      split
      · rfl
      · rfl
      · rename_i w1 r1 y happ
        have h1 : SameTabs w w1 := ⟨hl.edges happ, hl.locked happ, hl.hooked happ⟩
        split
        · rfl
        · rename_i hne
          have hne' : (w1.partners p).isEmpty = false := by simpa using hne
          have hlt := free_lock_lt w1 p (by rw [h1.2.1]; exact hp) hne'
          rw [free_congr h1] at hlt
          have := foldl_fuel (rec := cascade apply d) (rec' := cascade apply d') (y := y) ((w1.lock p).free)
            (fun acc q hq hacc => ih d' acc q y hq (by omega) (by omega))
            (fun acc q acc' r hq hc => cascade_frame hl d acc q y acc' r hq hc)
            (w1.partners p) (w1.lock p) (Nat.le_refl _)
          rw [this]

/-! ### Footprint -/

/-- Equality of everything observable about one trait. -/
def SameAt (r : Pair) (w w' : World α) : Prop :=
  w'.val r = w.val r ∧ w'.nChg r = w.nChg r ∧ w'.nItems r = w.nItems r

theorem SameAt.refl (r : Pair) (w : World α) : SameAt r w w := ⟨rfl, rfl, rfl⟩

theorem SameAt.trans {r : Pair} {a b c : World α} (h1 : SameAt r a b) (h2 : SameAt r b c) : SameAt r a c :=
  ⟨h2.1.trans h1.1, h2.2.1.trans h1.2.1, h2.2.2.trans h1.2.2⟩

theorem visit_succ (es : List Edge) (d : Nat) (L : List Pair) (p : Pair) :
    visit es (d + 1) L p =
      p :: ((es.filter (fun e => e.src = p)).map (·.dst)).flatMap
        (fun q => if q ∈ p :: L then [] else visit es d (p :: L) q) := rfl

/-- A loop over partners leaves alone what none of the nested propagations reaches. -/
theorem foldl_footprint {rec : World α → Pair → π → Except Exc (World α × Option α)} {y : π}
    {es : List Edge} {L : List Pair} {r : Pair} (V : Pair → List Pair)
    (hframe : ∀ acc q acc' r', q ∉ acc.locked → rec acc q y = .ok (acc', r') → SameTabs acc acc')
    (hrec : ∀ acc q acc' r', acc.edges = es → acc.locked = L → q ∉ L → r ∉ V q →
      rec acc q y = .ok (acc', r') → SameAt r acc acc')
    (ps : List Pair) (acc : World α) (he : acc.edges = es) (hL : acc.locked = L)
    (hr : ∀ q ∈ ps, q ∉ L → r ∉ V q) :
    SameAt r acc (ps.foldl (visitPartner rec y) acc) := by
  induction ps generalizing acc with
  | nil => exact SameAt.refl _ _
  | cons q qs ih =>
    simp only [List.foldl_cons]
    have hstep : SameAt r acc (visitPartner rec y acc q) ∧ SameTabs acc (visitPartner rec y acc q) := by
      unfold visitPartner
      split
      · exact ⟨SameAt.refl _ _, SameTabs.refl _⟩
      · rename_i hq
        split
        · rename_i acc' r' h
          have hq' : q ∉ L := by rw [← hL]; exact hq
          exact ⟨hrec acc q acc' r' he hL hq' (hr q (by simp) hq') h, hframe acc q acc' r' hq h⟩
        · exact ⟨SameAt.refl _ _, SameTabs.refl _⟩
    refine SameAt.trans hstep.1 (ih _ (by rw [hstep.2.1]; exact he) (by rw [hstep.2.2.1]; exact hL) ?_)
    intro q' hq'; exact hr q' (by simp [hq'])

/-- **Footprint.** A propagation started on `p` changes nothing about a trait
that `visit` (a function of the link tables alone) does not list. -/
theorem cascade_footprint {apply : World α → Pair → π → Except Exc (World α × Option α × Option π)}
    (hl : Local apply) (r : Pair) (d : Nat) :
    ∀ (w : World α) (p : Pair) (x : π) (w' : World α) (ret : Option α),
      p ∉ w.locked → r ∉ visit w.edges d w.locked p →
      cascade apply d w p x = .ok (w', ret) → SameAt r w w' := by
  induction d with
  | zero => intro w p x w' ret _ _ h; simp [cascade] at h
  | succ d ih =>
    intro w p x w' ret hp hr h
    rw [visit_succ] at hr
    have hrp : r ≠ p := by intro e; apply hr; simp [e]
    rw [cascade_succ] at h
    have happSame : ∀ {w1 r1 y}, apply w p x = .ok (w1, r1, y) → SameAt r w w1 :=
      fun happ => ⟨hl.val happ r hrp, hl.nChg happ r hrp, hl.nItems happ r hrp⟩
    split at h
    · cases h
    · rename_i w1 r1 happ; cases h; exact happSame happ
    · rename_i w1 r1 y happ
      have h1 : SameTabs w w1 := ⟨hl.edges happ, hl.locked happ, hl.hooked happ⟩
      split at h
      · cases h; exact happSame happ
      · cases h
        have hf := foldl_footprint (rec := cascade apply d) (y := y) (es := w.edges) (L := p :: w.locked) (r := r)
          (fun q => visit w.edges d (p :: w.locked) q)
          (fun acc q acc' r' hq hc => cascade_frame hl d acc q y acc' r' hq hc)
          (fun acc q acc' r' he hL hq hrq hc => ih acc q y acc' r' (by rw [hL]; exact hq)
            (by rw [he, hL]; exact hrq) hc)
          (w1.partners p) (w1.lock p) (by simp [World.lock, h1.1]) (by simp [World.lock, h1.2.1]) ?_
        · refine SameAt.trans (happSame happ) ?_
          obtain ⟨a, b, c⟩ := hf
          exact ⟨by simpa [World.unlock, World.lock] using a, by simpa [World.unlock, World.lock] using b,
            by simpa [World.unlock, World.lock] using c⟩
        · intro q hq hqL hmem
          apply hr
          refine List.mem_cons_of_mem _ (List.mem_flatMap.mpr ⟨q, ?_, ?_⟩)
          · rw [partners_congr h1.1] at hq; exact hq
          · rw [if_neg hqL]; exact hmem

/-! ### Shape of a successful propagation -/

/-- The three ways one level of `cascade` succeeds. -/
theorem cascade_succ_ok {apply : World α → Pair → π → Except Exc (World α × Option α × Option π)}
    {d : Nat} {w w' : World α} {p : Pair} {x : π} {ret : Option α}
    (h : cascade apply (d + 1) w p x = .ok (w', ret)) :
    ∃ w1 y, apply w p x = .ok (w1, ret, y) ∧
      ((y = none ∧ w' = w1) ∨
       (∃ y', y = some y' ∧ (w1.partners p).isEmpty = true ∧ w' = w1) ∨
       (∃ y', y = some y' ∧ (w1.partners p).isEmpty = false ∧
          w' = ((w1.partners p).foldl (visitPartner (cascade apply d) y') (w1.lock p)).unlock p)) := by
  rw [cascade_succ] at h
  split at h
  · cases h
  · rename_i w1 r1 happ
    cases h
    exact ⟨_, none, happ, Or.inl ⟨rfl, rfl⟩⟩
  · rename_i w1 r1 y happ
    split at h
    · rename_i hemp
      cases h
      exact ⟨_, some y, happ, Or.inr (Or.inl ⟨y, rfl, hemp, rfl⟩)⟩
    · rename_i hemp
      cases h
      exact ⟨_, some y, happ, Or.inr (Or.inr ⟨y, rfl, by simpa using hemp, rfl⟩)⟩

/-- One level of `cascade` succeeds as soon as `apply` does. -/
theorem cascade_succ_of_apply {apply : World α → Pair → π → Except Exc (World α × Option α × Option π)}
    {d : Nat} {w w1 : World α} {p : Pair} {x : π} {ret : Option α} {y : Option π}
    (happ : apply w p x = .ok (w1, ret, y)) :
    ∃ w', cascade apply (d + 1) w p x = .ok (w', ret) := by
  rw [cascade_succ, happ]
  cases y with
  | none => exact ⟨_, rfl⟩
  | some y =>
    simp only
    split
    · exact ⟨_, rfl⟩
    · exact ⟨_, rfl⟩

/-- `apply` fails ⇒ the propagation fails the same way, and conversely a
failure of a propagation with budget is a failure of `apply` on the trait itself. -/
theorem cascade_succ_error {apply : World α → Pair → π → Except Exc (World α × Option α × Option π)}
    {d : Nat} {w : World α} {p : Pair} {x : π} {e : Exc} :
    cascade apply (d + 1) w p x = .error e ↔ apply w p x = .error e := by
  rw [cascade_succ]
  constructor
  · intro h
    split at h
    · rename_i e' he; cases h; exact he
    · cases h
    · split at h <;> cases h
  · intro h; rw [h]

/-- A loop over partners is related to its start by any reflexive, transitive
relation that every successful nested call respects. -/
theorem foldl_rel {rec : World α → Pair → π → Except Exc (World α × Option α)} {y : π}
    (Rel : World α → World α → Prop) (hrefl : ∀ a, Rel a a) (htrans : ∀ a b c, Rel a b → Rel b c → Rel a c)
    (hrec : ∀ acc q acc' r, q ∉ acc.locked → rec acc q y = .ok (acc', r) → Rel acc acc')
    (ps : List Pair) (acc : World α) :
    Rel acc (ps.foldl (visitPartner rec y) acc) := by
  induction ps generalizing acc with
  | nil => exact hrefl _
  | cons q qs ih =>
    simp only [List.foldl_cons]
    refine htrans _ _ _ ?_ (ih _)
    unfold visitPartner
    split
    · exact hrefl _
    · rename_i hq
      split
      · rename_i acc' r h
        exact hrec acc q acc' r hq h
      · exact hrefl _

/-- The same with an invariant of the loop state, for the partners actually in the loop. -/
theorem foldl_rel_inv {rec : World α → Pair → π → Except Exc (World α × Option α)} {y : π}
    (Inv : World α → Prop) (Rel : World α → World α → Prop)
    (hrefl : ∀ a, Rel a a) (htrans : ∀ a b c, Rel a b → Rel b c → Rel a c)
    (ps : List Pair)
    (hrec : ∀ acc q acc' r, Inv acc → q ∈ ps → q ∉ acc.locked → rec acc q y = .ok (acc', r) →
      Rel acc acc' ∧ Inv acc')
    (acc : World α) (hacc : Inv acc) :
    Rel acc (ps.foldl (visitPartner rec y) acc) ∧ Inv (ps.foldl (visitPartner rec y) acc) := by
  induction ps generalizing acc with
  | nil => exact ⟨hrefl _, hacc⟩
  | cons q qs ih =>
    simp only [List.foldl_cons]
    have hstep : Rel acc (visitPartner rec y acc q) ∧ Inv (visitPartner rec y acc q) := by
      unfold visitPartner
      split
      · exact ⟨hrefl _, hacc⟩
      · rename_i hq
        split
        · rename_i acc' r h
          exact hrec acc q acc' r hacc (by simp) hq h
        · exact ⟨hrefl _, hacc⟩
    have := ih (fun acc q' acc' r hi hm hq h => hrec acc q' acc' r hi (by simp [hm]) hq h) _ hstep.2
    exact ⟨htrans _ _ _ hstep.1 this.1, this.2⟩

end TraitsVerif.Model.Sync
