/-
The hand-written constructor models of `Model/PyLCtor.lean` are the
interpretation of the translated `__init__` bodies (`Generated/CtorProg.lean`).
-/
import TraitsVerif.Generated.CtorProg
set_option linter.unusedSimpArgs false
set_option linter.unusedVariables false
namespace TraitsVerif.Lemmas.PyLCtor
open TraitsVerif TraitsVerif.Model.PyLC
variable {α : Type}

macro "pylc_exec" "[" ts:Lean.Parser.Tactic.simpLemma,* "]" : tactic =>
  `(tactic| simp [runListInit, runListObjectInit, Generated.Ctor.traitListInit, Generated.Ctor.traitListObjectInit,
      Generated.Ctor.traitSetInit, Generated.Ctor.traitSetObjectInit, setInit, setObjectInit,
      exec, eval, getVar, truthy, setAttrObj, finish, optVal, listInit, listObjectInit, Ctx.vOf, $ts,*])

theorem list_init_is_source (C : Ctx α) (xs : List α) (iv : Option VSrc) (ns : Option NSrc) :
    runListInit Generated.Ctor.traitListInit C xs iv ns = listInit C xs iv ns := by
  have key : ∀ v : VSrc, (match iv with | some w => w | none => VSrc.everything) = v →
      runListInit Generated.Ctor.traitListInit C xs iv ns = listInit C xs iv ns := by
    intro v hvv
    cases hv : valAll (C.vOf v) 0 xs with
    | error e =>
      rcases iv with _ | w
      · subst hvv; simp [Ctx.vOf] at hv; cases ns <;> pylc_exec [hv]
      · simp at hvv; subst hvv; cases ns <;> cases w <;> simp [Ctx.vOf] at hv <;> pylc_exec [hv]
    | ok ys =>
      rcases iv with _ | w
      · subst hvv; simp [Ctx.vOf] at hv
        rcases ns with _ | n
        · pylc_exec [hv]
        · cases n <;> pylc_exec [hv]
      · simp at hvv; subst hvv
        rcases ns with _ | n
        · cases w <;> simp [Ctx.vOf] at hv <;> pylc_exec [hv]
        · cases n <;> cases w <;> simp [Ctx.vOf] at hv <;> pylc_exec [hv]
  exact key _ rfl

theorem list_object_init_is_source (C : Ctx α) (t : Option Bool) (owner : Bool) (xs : List α) :
    runListObjectInit Generated.Ctor.traitListObjectInit Generated.Ctor.traitListInit C t owner xs
      = listObjectInit C t owner xs := by
  by_cases hl : C.lenOk xs.length
  · cases hv : valAll C.own 0 xs with
    | error e => rcases t with _ | _ | _ <;> cases owner <;> pylc_exec [hl, hv]
    | ok ys => rcases t with _ | _ | _ <;> cases owner <;> pylc_exec [hl, hv]
  · rcases t with _ | _ | _ <;> cases owner <;> pylc_exec [hl]

theorem set_init_is_source (C : Ctx α) (xs : List α) (iv : Option VSrc) (ns : Option NSrc) :
    runListInit Generated.Ctor.traitSetInit C xs iv ns = setInit C xs iv ns := by
  have key : ∀ v : VSrc, (match iv with | some w => w | none => VSrc.everything) = v →
      runListInit Generated.Ctor.traitSetInit C xs iv ns = setInit C xs iv ns := by
    intro v hvv
    cases hv : valAll (C.vOf v) 0 xs with
    | error e =>
      rcases iv with _ | w
      · subst hvv; simp [Ctx.vOf] at hv; cases ns <;> pylc_exec [hv]
      · simp at hvv; subst hvv; cases ns <;> cases w <;> simp [Ctx.vOf] at hv <;> pylc_exec [hv]
    | ok ys =>
      rcases iv with _ | w
      · subst hvv; simp [Ctx.vOf] at hv
        rcases ns with _ | n
        · pylc_exec [hv]
        · cases n <;> pylc_exec [hv]
      · simp at hvv; subst hvv
        rcases ns with _ | n
        · cases w <;> simp [Ctx.vOf] at hv <;> pylc_exec [hv]
        · cases n <;> cases w <;> simp [Ctx.vOf] at hv <;> pylc_exec [hv]
  exact key _ rfl

theorem set_object_init_is_source (C : Ctx α) (t : Option Bool) (owner : Bool) (xs : List α) :
    runListObjectInit Generated.Ctor.traitSetObjectInit Generated.Ctor.traitSetInit C t owner xs
      = setObjectInit C t owner xs := by
  cases hv : valAll C.own 0 xs with
  | error e => rcases t with _ | _ | _ <;> cases owner <;> pylc_exec [hv]
  | ok ys => rcases t with _ | _ | _ <;> cases owner <;> pylc_exec [hv]

end TraitsVerif.Lemmas.PyLCtor
