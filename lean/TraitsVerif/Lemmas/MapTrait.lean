/-
Facts about the `TraitDict` model: what the `update` loop accumulates, the
reconstruction law for each shape of notification, `dict_event_factory`.
-/
import TraitsVerif.Model.TraitDict
import TraitsVerif.Lemmas.MapDict
set_option linter.unusedSectionVars false
namespace TraitsVerif.Model.Map
open TraitsVerif TraitsVerif.Py
open TraitsVerif.Py.Dict
variable {K V : Type} [DecidableEq K]

/-! #### the update loop -/

theorem updLoop_validated (d : Dict K V) (ps : List (K × V)) (acc : UpdAcc K V) :
    (updLoop d ps acc).validated = update acc.validated ps := by
  induction ps generalizing acc with
  | nil => rfl
  | cons p ps ih =>
    obtain ⟨k, v⟩ := p
    simp only [updLoop]
    split <;> simp [ih, update]

theorem updLoop_added (d : Dict K V) (ps : List (K × V)) (acc : UpdAcc K V) (k : K) :
    get? (updLoop d ps acc).added k =
      match get? d k, lastVal ps k with
      | none, some x => some x
      | _, _ => get? acc.added k := by
  induction ps generalizing acc with
  | nil => simp [updLoop, lastVal]
  | cons p ps ih =>
    obtain ⟨k1, v1⟩ := p
    simp only [updLoop, lastVal]
    split <;> rw [ih] <;> grind [get?_set]

theorem updLoop_changed (d : Dict K V) (ps : List (K × V)) (acc : UpdAcc K V) (k : K) :
    get? (updLoop d ps acc).changed k =
      match get? d k, lastVal ps k with
      | some old, some _ => some old
      | _, _ => get? acc.changed k := by
  induction ps generalizing acc with
  | nil => simp [updLoop, lastVal]
  | cons p ps ih =>
    obtain ⟨k1, v1⟩ := p
    simp only [updLoop, lastVal]
    split <;> rw [ih] <;> grind [get?_set]

/-! #### the reconstruction law, shape by shape -/

theorem reconstructs_added {d : Dict K V} {k : K} (v : V) (h : get? d k = none) :
    Reconstructs d (set d k v) ⟨[], [(k, v)], []⟩ := by
  constructor <;> intros <;> simp_all [rebuildGet, get?_set, get?_cons, contains_eq] <;> grind

theorem reconstructs_changed {d : Dict K V} {k : K} (v : V) {old : V} (h : get? d k = some old) :
    Reconstructs d (set d k v) ⟨[], [], [(k, old)]⟩ := by
  constructor <;> intros <;> simp_all [rebuildGet, get?_set, get?_cons, contains_eq] <;> grind

theorem reconstructs_removed {d : Dict K V} {k : K} {x : V} (h : get? d k = some x) :
    Reconstructs d (erase d k) ⟨[(k, x)], [], []⟩ := by
  constructor <;> intros <;> simp_all [rebuildGet, get?_erase, get?_cons, contains_eq] <;> grind

theorem reconstructs_clear (d : Dict K V) : Reconstructs d [] ⟨d, [], []⟩ := by
  constructor <;> intros <;> simp_all [rebuildGet, contains_eq]
  split <;> simp_all

theorem reconstructs_popitem {d : Dict K V} (hwf : WF d) {k : K} {x : V} (h : d.getLast? = some (k, x)) :
    Reconstructs d d.dropLast ⟨[(k, x)], [], []⟩ := by
  obtain ⟨h1, h2, h3⟩ := popitem_facts hwf h
  constructor <;> intros <;> simp_all [rebuildGet, get?_cons, contains_eq] <;> grind

theorem updLoop_validated_nil (d : Dict K V) (ps : List (K × V)) :
    (updLoop d ps {}).validated = ofPairs ps := by
  rw [updLoop_validated]; rfl

theorem reconstructs_update (d : Dict K V) (ps : List (K × V)) :
    Reconstructs d (update d (updLoop d ps {}).validated)
      ⟨[], (updLoop d ps {}).added, (updLoop d ps {}).changed⟩ := by
  rw [updLoop_validated_nil, update_ofPairs]
  constructor
  · intro k v h
    simp only [updLoop_added] at h
    simp only [get?_update]
    grind [get?_nil]
  · intro k v h
    simp only [updLoop_changed] at h
    simp only [contains_eq, get?_update]
    grind [get?_nil]
  · intro k v h; simp at h
  · intro k
    simp only [rebuildGet, get?_nil, contains_eq, updLoop_changed, updLoop_added, get?_update]
    cases hd : get? d k <;> cases hl : lastVal ps k <;> simp

/-- The update loop reports something exactly when at least one pair was given. -/
theorem updLoop_silent_iff (d : Dict K V) (ps : List (K × V)) :
    ((updLoop d ps {}).added.isEmpty && (updLoop d ps {}).changed.isEmpty) = true ↔ ps = [] := by
  constructor
  · intro h
    cases ps with
    | nil => rfl
    | cons p ps =>
      exfalso
      obtain ⟨k, v⟩ := p
      have hl : lastVal ((k, v) :: ps) k ≠ none := by
        rw [Ne, lastVal_eq_none_iff]; simp
      simp only [Bool.and_eq_true, List.isEmpty_iff] at h
      have ha := updLoop_added d ((k, v) :: ps) {} k
      have hc := updLoop_changed d ((k, v) :: ps) {} k
      rw [h.1] at ha; rw [h.2] at hc
      cases hlv : lastVal ((k, v) :: ps) k with
      | none => exact hl hlv
      | some x =>
        cases hd : get? d k with
        | none => rw [hd, hlv] at ha; simp at ha
        | some old => rw [hd, hlv] at hc; simp at hc
  · intro h; subst h; rfl

/-! #### dict_event_factory -/

theorem mergeAdded_spec (post : Dict K V) (cs : List (K × V)) (a : Dict K V)
    (hc : ∀ k, k ∈ cs.map Prod.fst → contains post k = true) :
    ∃ a', mergeAdded post cs a = some a' ∧
      ∀ k, get? a' k = if k ∈ cs.map Prod.fst then get? post k else get? a k := by
  induction cs generalizing a with
  | nil => exact ⟨a, rfl, by simp⟩
  | cons p cs ih =>
    obtain ⟨k1, v1⟩ := p
    have h1 : contains post k1 = true := hc k1 (by simp)
    simp only [mergeAdded]
    cases hg : get? post k1 with
    | none => simp [contains_eq, hg] at h1
    | some w =>
      obtain ⟨a', ha, hs⟩ := ih (set a k1 w) (fun k hk => hc k (by simp [hk]))
      refine ⟨a', ha, ?_⟩
      intro k; rw [hs]
      simp only [List.map_cons, List.mem_cons, get?_set]
      grind

theorem lastVal_eq_get? {ps : Dict K V} (hwf : WF ps) (k : K) : lastVal ps k = get? ps k := by
  induction ps with
  | nil => rfl
  | cons p ps ih =>
    obtain ⟨k', v⟩ := p
    have hwf' : k' ∉ keys ps ∧ WF ps := by simpa [WF, keys] using hwf
    simp only [lastVal, get?_cons, ih hwf'.2]
    by_cases h : k' = k
    · subst h; simp [get?_eq_none_iff.mpr hwf'.1]
    · simp only [h, if_false]; cases get? ps k <;> rfl

theorem updLoop_wf (d : Dict K V) (ps : List (K × V)) (acc : UpdAcc K V)
    (h : WF acc.added ∧ WF acc.changed) :
    WF (updLoop d ps acc).added ∧ WF (updLoop d ps acc).changed := by
  induction ps generalizing acc with
  | nil => exact h
  | cons p ps ih =>
    obtain ⟨k, v⟩ := p
    simp only [updLoop]
    split
    · exact ih _ ⟨h.1, wf_set h.2 _ _⟩
    · exact ih _ ⟨wf_set h.1 _ _, h.2⟩

/-! #### the reconstruction as a dict -/

theorem get?_filter_map (post a c : Dict K V) (k : K) :
    get? ((post.filter (fun p => !contains a p.1)).map (fun p => (p.1, (get? c p.1).getD p.2))) k =
      if contains a k then none else (get? post k).map (fun v => (get? c k).getD v) := by
  induction post with
  | nil => simp
  | cons p post ih =>
    obtain ⟨k', v⟩ := p
    simp only [List.filter_cons]
    by_cases hk : k' = k
    · subst hk
      cases hc : contains a k' <;> simp [hc, get?_cons, ih]
    · cases hc : contains a k' <;> simp [get?_cons, ih, hk]

theorem get?_reconstruct (post : Dict K V) (t : Triple K V) (k : K) :
    get? (reconstruct post t) k =
      match get? t.removed k with
      | some v => some v
      | none => if contains t.added k then none else (get? post k).map (fun v => (get? t.changed k).getD v) := by
  unfold reconstruct
  rw [get?_append, get?_filter_map]
  cases get? t.removed k <;> rfl

theorem reconstruct_equiv {pre post : Dict K V} {t : Triple K V} (h : Reconstructs pre post t) :
    Dict.Equiv (reconstruct post t) pre := by
  intro k
  rw [get?_reconstruct, h.pre_eq k]
  simp only [rebuildGet]
  cases hr : get? t.removed k with
  | some v => rfl
  | none =>
    simp only []
    cases hc : get? t.changed k with
    | none => cases get? post k <;> simp
    | some old =>
      have h1 := h.changed_old k old hc
      cases ha : get? t.added k with
      | some w => have := h.added_new k w ha; rw [this.1] at h1; cases h1.1
      | none =>
        simp only [contains_eq, ha, Option.isSome_none, Bool.false_eq_true, if_false]
        have := h1.2
        rw [contains_eq] at this
        cases hp : get? post k with
        | none => rw [hp] at this; cases this
        | some w => simp

/-! #### the observers' merged view -/

theorem observer_view {pre post : Dict K V} {t : Triple K V} (h : Reconstructs pre post t)
    (hwf : WF t.changed) :
    ∃ ev, dictEventFactory post t = .ok (ev, t) ∧ ObserverView pre post ev := by
  have hc : ∀ k, k ∈ t.changed.map Prod.fst → contains post k = true := by
    intro k hk
    have : contains t.changed k = true := contains_iff.mpr hk
    rw [contains_eq] at this
    cases hg : get? t.changed k with
    | none => rw [hg] at this; cases this
    | some v => exact (h.changed_old k v hg).2
  obtain ⟨a', ha, hs⟩ := mergeAdded_spec post t.changed t.added hc
  refine ⟨⟨update t.removed t.changed, a'⟩, by simp [dictEventFactory, ha], ?_⟩
  have hmem : ∀ k, (k ∈ t.changed.map Prod.fst) ↔ (get? t.changed k).isSome = true := by
    intro k; rw [← contains_eq, contains_iff]; rfl
  have hrem : ∀ k, get? (update t.removed t.changed) k =
      match get? t.changed k with | some x => some x | none => get? t.removed k := by
    intro k; rw [get?_update, lastVal_eq_get? hwf]
    cases get? t.changed k <;> rfl
  have hpre := h.pre_eq
  simp only [rebuildGet] at hpre
  constructor
  · intro k v hk
    simp only [hs, hmem] at hk
    cases hg : get? t.changed k with
    | none => simp [hg] at hk; exact (h.added_new k v hk).2
    | some x => simpa [hg] using hk
  · intro k v hk
    simp only [hrem] at hk
    cases hg : get? t.changed k with
    | none => simp [hg] at hk; exact (h.removed_gone k v hk).1
    | some x => simp [hg] at hk; subst hk; exact (h.changed_old k x hg).1
  · intro k h1 h2
    simp only [contains_eq, hrem, hs, hmem] at h1 h2
    cases hg : get? t.changed k with
    | none =>
      simp [hg] at h1
      cases hr : get? t.removed k with
      | none => rw [hr] at h1; cases h1
      | some v => exact (h.removed_gone k v hr).2
    | some x =>
      have := (h.changed_old k x hg).2
      simp [hg] at h2
      simp [contains_eq, h2] at this
  · intro k h1 h2
    simp only [contains_eq, hrem, hs, hmem] at h1 h2
    cases hg : get? t.changed k with
    | some x => simp [hg] at h2
    | none =>
      simp [hg] at h1
      cases ha : get? t.added k with
      | none => rw [ha] at h1; cases h1
      | some v => exact (h.added_new k v ha).1
  · intro k
    rw [hpre k, hrem k]
    simp only [contains_eq, hs, hmem]
    cases hr : get? t.removed k with
    | some v =>
      cases hg : get? t.changed k with
      | none => rfl
      | some x =>
        have h1 := (h.removed_gone k v hr).1
        have h2 := (h.changed_old k x hg).1
        rw [h1] at h2; exact h2
    | none =>
      cases hg : get? t.changed k with
      | none =>
        simp only [Option.isSome_none, Bool.false_eq_true, if_false]
        by_cases hh : (get? t.added k).isSome = true <;> simp [hh]
      | some x => rfl

theorem notifyAll_faithful {pre post : Dict K V} {t : Triple K V} (h : Reconstructs pre post t)
    (hwf : WF t.changed) (ns : List NotifierKind) :
    (notifyAll post ns t).length = ns.length ∧ ∀ s ∈ notifyAll post ns t, s.Faithful pre post := by
  induction ns with
  | nil => simp [notifyAll]
  | cons n ns ih =>
    cases n with
    | raw =>
      simp only [notifyAll, List.length_cons, List.mem_cons]
      refine ⟨by rw [ih.1], ?_⟩
      intro s hs
      rcases hs with hs | hs
      · subst hs; exact h
      · exact ih.2 s hs
    | observer =>
      obtain ⟨ev, he, hv⟩ := observer_view h hwf
      simp only [notifyAll, he, List.length_cons, List.mem_cons]
      refine ⟨by rw [ih.1], ?_⟩
      intro s hs
      rcases hs with hs | hs
      · subst hs; exact hv
      · exact ih.2 s hs

/-! #### the factory as a program -/

theorem dictEventFactoryProg_body (post : Dict K V) (t : Triple K V) :
    dictEventFactoryProg factoryBody post t = dictEventFactory post t := by
  simp only [dictEventFactoryProg, factoryBody, execF, dictEventFactory, FState.removedVal, FState.addedVal,
    FState.setRemoved, FState.setAdded, Option.getD_some, Option.getD_none]
  cases mergeAdded post t.changed t.added <;> rfl

theorem notifyAllProg_body (post : Dict K V) (ns : List NotifierKind) (t : Triple K V) :
    notifyAllProg factoryBody post ns t = notifyAll post ns t := by
  induction ns generalizing t with
  | nil => rfl
  | cons n ns ih =>
    cases n with
    | raw => simp only [notifyAllProg, notifyAll, ih]
    | observer =>
      simp only [notifyAllProg, notifyAll, dictEventFactoryProg_body]
      cases dictEventFactory post t with
      | error e => rfl
      | ok r => simp only [ih]

end TraitsVerif.Model.Map
