/-
Helper lemmas for C02, part 2: what `getattr_trait`, `setattr_trait` and
`setattr_event` compute once the callbacks are resolved (normal forms), for a
trait with a constant default, under `Quiet` / `PostQuiet`.
-/
import TraitsVerif.Lemmas.AttrSpec
namespace TraitsVerif.Model.Attr
open TraitsVerif

/-- A standard trait (`TraitKind.trait`) with comparison mode `m`, the two
"original value" bits and constant default `d`. -/
structure StdTrait (t : TraitCore) (m : CMode) (orig po : Bool) (d : Id) : Prop where
  kind : t.kind = .trait
  flags : t.flags = mkFlags m orig po
  dvt : t.dvt = Generated.CONSTANT_DEFAULT_VALUE
  dv : t.dv = some d

/-- State after a `post_setattr` call that returns normally. -/
def OSt.posted (s : OSt) (t : TraitCore) (v : Id) : OSt :=
  match t.post with
  | none => s
  | some _ => { s with ctx := { s.ctx with postLog := s.ctx.postLog ++ [(s.self, v)] } }

def OSt.withNval (s : OSt) (n : Nat) : OSt := { s with ctx := { s.ctx with nval := n } }

theorem postSetattr_quiet {E : Env} (pq : PostQuiet E) (t : TraitCore) (v : Id) (s : OSt) :
    postSetattr E t v s = (none, s.posted t v) := by
  unfold postSetattr OSt.posted
  cases h : t.post with
  | none => rfl
  | some p => simp [pq p]

@[simp] theorem posted_slot (s : OSt) (t : TraitCore) (v : Id) : (s.posted t v).slot = s.slot := by
  unfold OSt.posted; cases t.post <;> rfl
@[simp] theorem posted_tn (s : OSt) (t : TraitCore) (v : Id) : (s.posted t v).tn = s.tn := by
  unfold OSt.posted; cases t.post <;> rfl
@[simp] theorem posted_on (s : OSt) (t : TraitCore) (v : Id) : (s.posted t v).on = s.on := by
  unfold OSt.posted; cases t.post <;> rfl
@[simp] theorem posted_it (s : OSt) (t : TraitCore) (v : Id) : (s.posted t v).it = s.it := by
  unfold OSt.posted; cases t.post <;> rfl
@[simp] theorem posted_cn (s : OSt) (t : TraitCore) (v : Id) : (s.posted t v).cn = s.cn := by
  unfold OSt.posted; cases t.post <;> rfl
@[simp] theorem posted_self (s : OSt) (t : TraitCore) (v : Id) : (s.posted t v).self = s.self := by
  unfold OSt.posted; cases t.post <;> rfl
@[simp] theorem posted_noNotify (s : OSt) (t : TraitCore) (v : Id) : (s.posted t v).noNotify = s.noNotify := by
  unfold OSt.posted; cases t.post <;> rfl
@[simp] theorem posted_log (s : OSt) (t : TraitCore) (v : Id) : (s.posted t v).ctx.log = s.ctx.log := by
  unfold OSt.posted; cases t.post <;> rfl
@[simp] theorem posted_nval (s : OSt) (t : TraitCore) (v : Id) : (s.posted t v).ctx.nval = s.ctx.nval := by
  unfold OSt.posted; cases t.post <;> rfl

@[simp] theorem withNval_slot (s : OSt) (n : Nat) : (s.withNval n).slot = s.slot := rfl
@[simp] theorem withNval_tn (s : OSt) (n : Nat) : (s.withNval n).tn = s.tn := rfl
@[simp] theorem withNval_on (s : OSt) (n : Nat) : (s.withNval n).on = s.on := rfl
@[simp] theorem withNval_it (s : OSt) (n : Nat) : (s.withNval n).it = s.it := rfl
@[simp] theorem withNval_cn (s : OSt) (n : Nat) : (s.withNval n).cn = s.cn := rfl
@[simp] theorem withNval_self (s : OSt) (n : Nat) : (s.withNval n).self = s.self := rfl
@[simp] theorem withNval_noNotify (s : OSt) (n : Nat) : (s.withNval n).noNotify = s.noNotify := rfl
@[simp] theorem withNval_log (s : OSt) (n : Nat) : (s.withNval n).ctx.log = s.ctx.log := rfl
@[simp] theorem withNval_nval (s : OSt) (n : Nat) : (s.withNval n).ctx.nval = n := rfl

theorem defaultValueFor_const {E : Env} {t : TraitCore} {m : CMode} {orig po : Bool} {d : Id}
    (st : StdTrait t m orig po d) (s : OSt) : s.defaultValueFor E t = (.ok d, s) := by
  unfold OSt.defaultValueFor Attr.defaultValueFor
  simp [st.dvt, st.dv]

/-- `getattr_trait`: the default is stored, `post_setattr` runs, and the
`(Uninitialized, default)` notification reaches no handler. -/
theorem getattrTrait_nf {E : Env} {t : TraitCore} {m : CMode} {orig po : Bool} {d : Id}
    (st : StdTrait t m orig po d) (q : Quiet E) (pq : PostQuiet E) (s : OSt) :
    getattrTrait E t s = (.ok d, ({ s with slot := some d }).posted t d) := by
  unfold getattrTrait
  rw [defaultValueFor_const st]
  simp only [postSetattr_quiet pq, callNotifiers_uninit q]
  split <;> rfl

/-- Validation as `setattr_trait` performs it, in terms of the specification's `specValidate`. -/
theorem validateAssigned_spec (E : Env) (t : TraitCore) (v : Id) (s : OSt) :
    s.validateAssigned E t v
    = ((specValidate E t true s.ctx.nval v).1, s.withNval (specValidate E t true s.ctx.nval v).2) := by
  unfold OSt.validateAssigned specValidate runValidate OSt.withNval
  cases hv : t.validate with
  | none => simp
  | some k =>
    by_cases hu : v = undef
    · simp [hu]
    · simp [hu]

/-- The old value `setattr_trait` looks at, and the state after looking. -/
theorem fetchOld_nf {E : Env} {t : TraitCore} {m : CMode} {orig po : Bool} {d : Id}
    (st : StdTrait t m orig po d) (pq : PostQuiet E) (c0 dn : Bool) (w : Id) (s : OSt) :
    s.fetchOld E t c0 dn w =
      if t.post.isSome || dn then
        (.ok (some (s.slot.getD d), c0 || (s.slot.getD d != w)),
          match s.slot with
          | some _ => s
          | none => ({ s with slot := some d }).posted t d)
      else (.ok (none, c0), s) := by
  unfold OSt.fetchOld
  cases hslot : s.slot with
  | some old => simp
  | none => simp [defaultValueFor_const st, postSetattr_quiet pq]

/-- State after `obj.x = v` for an accepted value `w` (validator ordinal now `nv`). -/
def setNF (E : Env) (t : TraitCore) (m : CMode) (orig po : Bool) (d : Id) (s : OSt) (v w : Id) (nv : Nat) : OSt :=
  let s1 := s.withNval nv
  let new := if orig then v else w
  let snap := snapshot s.tn s.on
  if t.post.isSome || hasNotifiers s.tn s.on then
    let old := s.slot.getD d
    let s2 := match s.slot with
      | some _ => s1
      | none => ({ s1 with slot := some d }).posted t d
    let s3 := { s2 with slot := some new }
    if m == .none || old != w then
      let s4 := s3.posted t (if po then v else w)
      if hasNotifiers s.tn s.on then
        if s.noNotify then s4 else s4.notified (touches old snap) (fired E.cmp t s.self old new snap)
      else s4
    else s3
  else
    { s1 with slot := some new }

theorem setattrTrait_some_nf {E : Env} {t : TraitCore} {m : CMode} {orig po : Bool} {d : Id}
    (st : StdTrait t m orig po d) (q : Quiet E) (pq : PostQuiet E) (s : OSt) (v : Id) :
    setattrTrait E t (some v) s =
      match specValidate E t true s.ctx.nval v with
      | (.error e, nv) => (some e, s.withNval nv)
      | (.ok w, nv) => (none, setNF E t m orig po d s v w nv) := by
  unfold setattrTrait
  simp only [validateAssigned_spec]
  cases hsv : specValidate E t true s.ctx.nval v with
  | mk r nv =>
    cases r with
    | error e => simp
    | ok w =>
      simp only [st.flags, testFlag_none, testFlag_orig, testFlag_postOrig, withNval_tn, withNval_on,
        fetchOld_nf st pq, postSetattr_quiet pq, callNotifiers_quiet q]
      unfold setNF
      by_cases hp : (t.post.isSome || hasNotifiers s.tn s.on) = true
      · simp only [hp, if_true]
        by_cases hc : (m == CMode.none || (s.withNval nv).slot.getD d != w) = true
        · simp only [hc, if_true]
          have hc' : (m == CMode.none || s.slot.getD d != w) = true := hc
          simp only [hc', if_true]
          cases hn : hasNotifiers s.tn s.on
          · cases hslot : s.slot <;> simp [hslot]
          · cases hslot : s.slot <;> simp [hslot]
        · have hc' : ¬ (m == CMode.none || s.slot.getD d != w) = true := hc
          simp only [hc, hc']
          cases hslot : s.slot <;> simp [hslot]
      · have hp1 : t.post.isSome = false := by
          cases h : t.post.isSome <;> simp_all
        have hp2 : hasNotifiers s.tn s.on = false := by
          cases h : hasNotifiers s.tn s.on <;> simp_all
        have hpn : t.post = none := by
          cases h : t.post <;> simp_all
        simp only [hp1, hp2, Bool.or_self, Bool.false_eq_true, if_false]
        cases hm : (m == CMode.none) <;> simp [OSt.posted, hpn]

/-- State after `del obj.x`. -/
def delNF (E : Env) (t : TraitCore) (m : CMode) (d : Id) (s : OSt) : OSt :=
  match s.slot with
  | none => s
  | some old =>
    let s1 := { s with slot := none }
    if s.noNotify then s1
    else if s.tn.isSome || s.on.isSome then
      let s2 := ({ s1 with slot := some d }).posted t d
      if m == .none || old != d then
        let s3 := s2.posted t d
        if hasNotifiers s.tn s.on then
          s3.notified (touches old (snapshot s.tn s.on)) (fired E.cmp t s.self old d (snapshot s.tn s.on))
        else s3
      else s2
    else s1

theorem setattrTrait_del_nf {E : Env} {t : TraitCore} {m : CMode} {orig po : Bool} {d : Id}
    (st : StdTrait t m orig po d) (q : Quiet E) (pq : PostQuiet E) (s : OSt) :
    setattrTrait E t none s = (none, delNF E t m d s) := by
  unfold setattrTrait setattrTraitDel delNF traitGetattr
  simp only [st.kind, st.flags, testFlag_none, getattrTrait_nf st q pq, postSetattr_quiet pq,
    callNotifiers_quiet q]
  cases hslot : s.slot with
  | none => rfl
  | some old =>
    have e1 : ∀ (a : Option Id) (b : Bool), ({ s with slot := a, noNotify := b } : OSt).tn = s.tn := fun _ _ => rfl
    cases hnn : s.noNotify
    · simp only [e1, Bool.false_eq_true, if_false]
      cases hex : (s.tn.isSome || s.on.isSome)
      · simp
      · simp only [if_true]
        by_cases hc : (m == CMode.none || old != d) = true
        · simp only [hc, if_true]
          cases hn : hasNotifiers s.tn s.on <;> simp
        · simp [hc]
    · simp

/-- State after reading `obj.x`. -/
def getNF (t : TraitCore) (d : Id) (s : OSt) : OSt :=
  match s.slot with
  | some _ => s
  | none => ({ s with slot := some d }).posted t d

theorem getattro_nf {E : Env} {t : TraitCore} {m : CMode} {orig po : Bool} {d : Id}
    (st : StdTrait t m orig po d) (q : Quiet E) (pq : PostQuiet E) (s : OSt) :
    getattro E t s = (.ok (s.slot.getD d), getNF t d s) := by
  unfold getattro getNF traitGetattr
  cases hslot : s.slot with
  | some v => rfl
  | none => simp [st.kind, getattrTrait_nf st q pq]

/-- `step` on the four value operations, callbacks resolved. -/
theorem step_set_nf {E : Env} {t : TraitCore} {m : CMode} {orig po : Bool} {d : Id}
    (st : StdTrait t m orig po d) (q : Quiet E) (pq : PostQuiet E) (s : OSt) (v : Id) :
    step E t s (.set v) =
      match specValidate E t true s.ctx.nval v with
      | (.error e, nv) => ({ exc := some e }, s.withNval nv)
      | (.ok w, nv) => ({}, setNF E t m orig po d s v w nv) := by
  unfold step traitSetattr
  simp only [st.kind, setattrTrait_some_nf st q pq]
  cases specValidate E t true s.ctx.nval v with
  | mk r nv => cases r <;> rfl

theorem step_del_nf {E : Env} {t : TraitCore} {m : CMode} {orig po : Bool} {d : Id}
    (st : StdTrait t m orig po d) (q : Quiet E) (pq : PostQuiet E) (s : OSt) :
    step E t s .del = ({}, delNF E t m d s) := by
  unfold step traitSetattr
  simp only [st.kind, setattrTrait_del_nf st q pq]

theorem step_get_nf {E : Env} {t : TraitCore} {m : CMode} {orig po : Bool} {d : Id}
    (st : StdTrait t m orig po d) (q : Quiet E) (pq : PostQuiet E) (s : OSt) :
    step E t s .get = ({ val := some (s.slot.getD d) }, getNF t d s) := by
  unfold step
  simp only [getattro_nf st q pq]

theorem step_setq_nf {E : Env} {t : TraitCore} {m : CMode} {orig po : Bool} {d : Id}
    (st : StdTrait t m orig po d) (q : Quiet E) (pq : PostQuiet E) (s : OSt) (v : Id) :
    step E t s (.setq v) =
      match specValidate E t true s.ctx.nval v with
      | (.error e, nv) => ({ exc := some e }, { (s.withNval nv) with noNotify := false })
      | (.ok w, nv) =>
        ({}, { (setNF E t m orig po d { s with noNotify := true } v w nv) with noNotify := false }) := by
  unfold step traitSetattr
  simp only [st.kind, setattrTrait_some_nf st q pq]
  cases specValidate E t true s.ctx.nval v with
  | mk r nv => cases r <;> rfl

/-! ### Event traits -/

/-- State after firing an Event with accepted value `w`. -/
def eventNF (E : Env) (t : TraitCore) (s : OSt) (w : Id) (nv : Nat) : OSt :=
  let s1 := s.withNval nv
  if hasNotifiers s.tn s.on then
    if s.noNotify then s1
    else s1.notified (touches undef (snapshot s.tn s.on)) (fired E.cmp t s.self undef w (snapshot s.tn s.on))
  else s1

theorem setattrEvent_some_nf {E : Env} (q : Quiet E) (t : TraitCore) (s : OSt) (v : Id) :
    setattrEvent E t (some v) s =
      match specValidate E t false s.ctx.nval v with
      | (.error e, nv) => (some e, s.withNval nv)
      | (.ok w, nv) => (none, eventNF E t s w nv) := by
  unfold setattrEvent specValidate runValidate eventNF
  cases hv : t.validate with
  | none =>
    simp only [callNotifiers_quiet q]
    have : s.withNval s.ctx.nval = s := rfl
    cases hn : hasNotifiers s.tn s.on <;> simp [this]
  | some k =>
    simp only [Bool.false_and, Bool.false_eq_true, if_false]
    cases hr : E.validate k s.ctx.nval v with
    | error e => rfl
    | ok w =>
      simp only [callNotifiers_quiet q]
      have e1 : ({ s with ctx := { s.ctx with nval := s.ctx.nval + 1 } } : OSt) = s.withNval (s.ctx.nval + 1) := rfl
      simp only [e1, withNval_tn]
      cases hn : hasNotifiers s.tn s.on <;> simp

theorem step_set_event_nf {E : Env} (q : Quiet E) {t : TraitCore} (hk : t.kind = .event) (s : OSt) (v : Id) :
    step E t s (.set v) =
      match specValidate E t false s.ctx.nval v with
      | (.error e, nv) => ({ exc := some e }, s.withNval nv)
      | (.ok w, nv) => ({}, eventNF E t s w nv) := by
  unfold step traitSetattr
  simp only [hk, setattrEvent_some_nf q]
  cases specValidate E t false s.ctx.nval v with
  | mk r nv => cases r <;> rfl

theorem step_setq_event_nf {E : Env} (q : Quiet E) {t : TraitCore} (hk : t.kind = .event) (s : OSt) (v : Id) :
    step E t s (.setq v) =
      match specValidate E t false s.ctx.nval v with
      | (.error e, nv) => ({ exc := some e }, { (s.withNval nv) with noNotify := false })
      | (.ok w, nv) => ({}, { (eventNF E t { s with noNotify := true } w nv) with noNotify := false }) := by
  unfold step traitSetattr
  simp only [hk, setattrEvent_some_nf q]
  cases specValidate E t false s.ctx.nval v with
  | mk r nv => cases r <;> rfl

theorem step_del_event {E : Env} {t : TraitCore} (hk : t.kind = .event) (s : OSt) :
    step E t s .del = ({}, s) := by
  simp [step, traitSetattr, hk, setattrEvent]

theorem step_get_event {E : Env} {t : TraitCore} (hk : t.kind = .event) (s : OSt) :
    step E t s .get = (match s.slot with
      | some v => ({ val := some v }, s)
      | none => ({ exc := some .attributeError }, s)) := by
  unfold step getattro traitGetattr
  cases s.slot <;> simp [hk]

end TraitsVerif.Model.Attr
