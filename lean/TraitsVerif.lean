-- Root of the `TraitsVerif` library: models, drivers, lemmas, property theorems.
import TraitsVerif.Py.Basic
import TraitsVerif.Py.Slice
import TraitsVerif.Py.List
import TraitsVerif.Model.TraitList
import TraitsVerif.Driver.Proto
import TraitsVerif.Driver.Seq
