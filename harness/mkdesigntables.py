#!/usr/bin/env python3
"""Regenerates the two generated tables of DESIGN.md (between the BEGIN/END markers):
   §10.3 seeded changes vs checks (from seeded/*/meta.json) and §10.4 findings (from known_findings.json)."""
import glob
import json
import os
import re

VERIF = os.path.dirname(os.path.dirname(os.path.abspath(__file__)))


def seeded_table():
    rows = ["| id | property | change | needs | detection |", "|---|---|---|---|---|"]
    for d in sorted(glob.glob(os.path.join(VERIF, "seeded", "*"))):
        mp = os.path.join(d, "meta.json")
        if not os.path.exists(mp):
            continue
        m = json.load(open(mp))
        esc = lambda s: str(s).replace("|", "\\|").replace("\n", " ")  # noqa: E731
        rows.append("| %s | %s | %s | %s | %s |" % (
            os.path.basename(d), m.get("property"), esc(m.get("summary", ""))[:300], esc(m.get("needs", ""))[:300],
            esc((m.get("detection") or {}).get("by", ""))[:400]))
    return "\n".join(rows)


def findings_table():
    d = json.load(open(os.path.join(VERIF, "known_findings.json")))
    rows = ["| id | status | properties | signature | what |", "|---|---|---|---|---|"]
    for f in d["findings"]:
        esc = lambda s: str(s).replace("|", "\\|").replace("\n", " ")  # noqa: E731
        rows.append("| %s | %s%s | %s | `%s` | %s |" % (
            f["id"], f["status"], (" " + f["commit"]) if f.get("commit") else "", ", ".join(f.get("properties", [])),
            esc(f["signature"]), esc(f["what"])[:700]))
    return "\n".join(rows)


def theorem_count(prop):
    """number of `theorem`s in lean/TraitsVerif/Props/<prop>.lean (comments stripped) = audited obligations"""
    path = os.path.join(VERIF, "lean", "TraitsVerif", "Props", prop + ".lean")
    if not os.path.exists(path):
        return None
    src = re.sub(r"/-.*?-/", "", open(path).read(), flags=re.S)
    src = re.sub(r"--.*", "", src)
    return len(re.findall(r"^\s*theorem\s+", src, flags=re.M))


def patch_counts(s):
    """keep the `N obligations` figure in each as-built paragraph `**Cxx** (…` of §10.2 current"""
    for n in range(1, 21):
        prop = "C%02d" % n
        cnt = theorem_count(prop)
        m = re.search(r"^\*\*%s\*\* \(" % prop, s, flags=re.M)
        if cnt is None or not m:
            continue
        seg = s[m.start():m.start() + 900]
        seg2 = re.sub(r"(\d+)(\s+)obligations", lambda mm: "%d%sobligations" % (cnt, mm.group(2)), seg, count=1)
        s = s[:m.start()] + seg2 + s[m.start() + 900:]
    return s


def summary_table():
    """§0: hand-written columns from harness/summary_rows.json + generated status (counts, findings)."""
    rows_in = json.load(open(os.path.join(VERIF, "harness", "summary_rows.json")))
    fd = json.load(open(os.path.join(VERIF, "known_findings.json")))["findings"]
    seeds = {}
    for d in glob.glob(os.path.join(VERIF, "seeded", "*")):
        pid = os.path.basename(d).split("-")[0]
        seeds[pid] = seeds.get(pid, 0) + 1
    rows = ["| id | cluster | shape of the theorem(s) | tie to source | status as built |", "|----|---------|-------------------------|---------------|-----------------|"]
    for n in range(1, 21):
        pid = "C%02d" % n
        cl, shape, tie, qual = rows_in[pid]
        known = [f["id"] for f in fd if pid in f.get("properties", []) and f["status"] == "known"]
        fixed = [f["id"] for f in fd if pid in f.get("properties", []) and f["status"] == "fixed"]
        st = "%s obligations; %s" % (theorem_count(pid), qual)
        if known:
            st += "; known findings: " + ", ".join(known)
        if fixed:
            st += "; repaired: " + ", ".join(fixed)
        st += "; %d seeded changes, all caught" % seeds.get(pid, 0)
        rows.append("| %s | %s | %s | %s | %s |" % (pid, cl, shape, tie, st))
    return "\n".join(rows)


def main():
    p = os.path.join(VERIF, "DESIGN.md")
    s = patch_counts(open(p).read())
    for name, text in (("SUMMARY", summary_table()), ("SEEDED", seeded_table()), ("FINDINGS", findings_table())):
        b, e = "<!-- BEGIN %s -->" % name, "<!-- END %s -->" % name
        if b in s:
            s = re.sub(re.escape(b) + ".*?" + re.escape(e), lambda _: b + "\n" + text + "\n" + e, s, flags=re.S)
    open(p, "w").write(s)


if __name__ == "__main__":
    main()
