#!/usr/bin/env python3
"""Confirm a seeded change and run checks against it.

  trial.py <dir with patch.diff/demo.py/meta.json> [--tests] [--tier quick] [--props C05,C04]

Uses a scratch worktree of /repo (never /repo itself): applies the patch, rebuilds
the extension, runs the demo on the pristine tree (must pass) and on the patched
tree (must fail), optionally the full test suite (must pass), then the listed
checks with VERIF_REPO pointing at the patched tree.  Prints a JSON summary.
"""
import json
import os
import subprocess
import sys
import tempfile

VERIF = os.path.dirname(os.path.dirname(os.path.dirname(os.path.abspath(__file__))))
PY = "/venv/bin/python"


def sh(cmd, **kw):
    return subprocess.run(cmd, shell=True, capture_output=True, text=True, **kw)


def main():
    d = os.path.abspath(sys.argv[1])
    args = sys.argv[2:]
    meta = json.load(open(os.path.join(d, "meta.json")))
    props = [meta["property"]]
    tier = "quick"
    if "--props" in args:
        props = args[args.index("--props") + 1].split(",")
    if "--tier" in args:
        tier = args[args.index("--tier") + 1]
    wt = tempfile.mkdtemp(prefix="trial-", dir="/tmp")
    os.rmdir(wt)
    out = {"dir": d, "property": meta["property"]}
    try:
        r = sh("git -C /repo worktree add -q %s HEAD" % wt)
        assert r.returncode == 0, r.stderr
        r = sh("git -C %s apply %s" % (wt, os.path.join(d, "patch.diff")))
        out["applies"] = r.returncode == 0
        if r.returncode != 0:
            out["apply_error"] = r.stderr[-500:]
            print(json.dumps(out, indent=1))
            return
        sh("cp /repo/traits/version.py %s/traits/version.py" % wt)   # git-ignored; setup.py needs it in a worktree
        r = sh("cd %s && %s setup.py build_ext --inplace" % (wt, PY))
        out["builds"] = r.returncode == 0
        r = sh("PYTHONPATH=/repo %s %s" % (PY, os.path.join(d, "demo.py")), cwd="/tmp")
        out["demo_clean_rc"] = r.returncode
        r = sh("PYTHONPATH=%s %s %s" % (wt, PY, os.path.join(d, "demo.py")), cwd="/tmp")
        out["demo_patched_rc"] = r.returncode
        out["demo_patched_tail"] = (r.stdout + r.stderr)[-300:]
        if "--tests" in args:
            r = sh("cd %s && PYTHONPATH=%s %s -m pytest -q -p no:cacheprovider --timeout=900 traits 2>&1 | tail -3" % (wt, wt, PY))
            out["tests_tail"] = r.stdout[-300:]
            out["tests_pass"] = " passed" in r.stdout and " failed" not in r.stdout and " error" not in r.stdout
        out["checks"] = {}
        for p in props:
            r = sh("VERIF_REPO=%s %s harness/vcheck.py %s --tier %s" % (wt, PY, p, tier), cwd=VERIF)
            lines = [l[:160] for l in r.stdout.splitlines() if l.startswith("VIOLATION")]
            out["checks"][p] = {"rc": r.returncode, "lines": lines[:6],
                                "tail": r.stdout.splitlines()[-3:] if r.returncode not in (0, 1) else []}
    finally:
        sh("git -C /repo worktree remove --force %s" % wt)
        sh("rm -rf %s" % wt)
    print(json.dumps(out, indent=1))


if __name__ == "__main__":
    main()
