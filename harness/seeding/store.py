#!/usr/bin/env python3
"""store.py <id> <trial-log> "<detection text>"
Copies a confirmed seeded change from /tmp/seed-out/<id>/ to /verif/seeded/<id>/ and fills
meta.json's `confirmed` / `detection` from the JSON summary trial.py printed into <trial-log>."""
import json
import os
import shutil
import subprocess
import sys

VERIF = os.path.dirname(os.path.dirname(os.path.dirname(os.path.abspath(__file__))))


def main():
    sid, log, text = sys.argv[1], sys.argv[2], sys.argv[3]
    t = open(log).read()
    i = t.rfind("\n{\n")
    j = json.loads(t[i + 1:] if i >= 0 else t[t.index("{"):])
    assert j["applies"] and j["builds"], j
    assert j["demo_clean_rc"] == 0 and j["demo_patched_rc"] != 0, ("demo does not discriminate", j)
    if "tests_pass" in j:
        assert j["tests_pass"], "suite fails with the patch"
    src = os.path.join("/tmp/seed-out", sid)
    dst = os.path.join(VERIF, "seeded", sid)
    os.makedirs(dst, exist_ok=True)
    for f in os.listdir(src):
        if os.path.isfile(os.path.join(src, f)):
            shutil.copy(os.path.join(src, f), dst)
    mp = os.path.join(dst, "meta.json")
    m = json.load(open(mp)) if os.path.exists(mp) else {}
    m.setdefault("property", sid.split("-")[0])
    head = subprocess.run(["git", "-C", "/repo", "rev-parse", "--short", "HEAD"], capture_output=True, text=True).stdout.strip()
    m["confirmed"] = {"patch_applies_to": "/repo HEAD " + head, "demo_on_clean_rc": j["demo_clean_rc"],
                      "demo_on_patched_rc": j["demo_patched_rc"],
                      "full_test_suite_with_patch": (j.get("tests_tail") or "").strip().splitlines()[-1:] or "not re-run",
                      "ran": "python3 harness/seeding/trial.py /tmp/seed-out/%s --tests --props …" % sid}
    caught = {p: c["rc"] for p, c in (j.get("checks") or {}).items()}
    m["detection"] = {"by": text, "check_exit_codes": caught}
    json.dump(m, open(mp, "w"), indent=1)
    print(sid, "stored;", caught)


if __name__ == "__main__":
    main()
