#!/bin/bash
# batch_trial.sh <id> [<id> ...]  — confirm + run the property's own quick check for each /tmp/seed-out/<id>; logs in /root/trials/
mkdir -p /root/trials
for id in "$@"; do
  if [ -f /tmp/seed-out/$id/patch.diff ]; then
    /venv/bin/python ${TRIAL_VERIF:-/verif}/harness/seeding/trial.py /tmp/seed-out/$id --tests > /root/trials/$id.log 2>&1
    /venv/bin/python - "$id" <<'PY'
import json,sys
sid=sys.argv[1]; t=open('/root/trials/%s.log'%sid).read()
try:
    i=t.rfind("\n{\n"); j=json.loads(t[i+1:] if i>=0 else t[t.index("{"):])
    ok = j.get("applies") and j.get("builds") and j.get("demo_clean_rc")==0 and j.get("demo_patched_rc")!=0 and j.get("tests_pass")
    print(sid, "confirmed" if ok else "NOT-CONFIRMED", {k:(v["rc"],v["lines"][:1]) for k,v in j.get("checks",{}).items()},
          "" if ok else {k:j.get(k) for k in ("applies","builds","demo_clean_rc","demo_patched_rc","tests_pass")})
except Exception as e:
    print(sid, "trial output unreadable", e)
PY
  else echo "$id: no patch.diff"; fi
done
