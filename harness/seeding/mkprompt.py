#!/usr/bin/env python3
"""Print the seeding-agent prompt for a property: mkprompt.py C05 [N]"""
import json, os, sys
here = os.path.dirname(os.path.abspath(__file__))
pid = sys.argv[1]; n = sys.argv[2] if len(sys.argv) > 2 else "3"
for l in open(os.path.join(here, "..", "..", "properties.jsonl")):
    p = json.loads(l)
    if p["id"] == pid:
        t = open(os.path.join(here, "PROMPT_TEMPLATE.md")).read()
        print(t.format(WT="/tmp/seed-" + pid, ID=pid, TITLE=p["title"], STATEMENT=p["statement"],
                       QUANT=p["quantifier"]["text"], FILES=", ".join(p["anchors"]["files"]), N=n,
                       OUT="/tmp/seed-out"))
