#!/usr/bin/env python3
"""Round-2 seeding prompt: like mkprompt.py, plus the list of changes already tried (not to be repeated)
and output ids m4, m5.   mkprompt2.py C05 [N]"""
import glob, json, os, sys
here = os.path.dirname(os.path.abspath(__file__))
pid = sys.argv[1]; n = int(sys.argv[2]) if len(sys.argv) > 2 else 2
tried = []
for d in sorted(glob.glob(os.path.join(here, "..", "..", "seeded", pid + "-m*"))):
    m = json.load(open(os.path.join(d, "meta.json")))
    tried.append("- %s (%s)" % (m.get("summary", "").strip(), ", ".join(m.get("files", []))))
for l in open(os.path.join(here, "..", "..", "properties.jsonl")):
    p = json.loads(l)
    if p["id"] == pid:
        t = open(os.path.join(here, "PROMPT_TEMPLATE.md")).read()
        txt = t.format(WT="/tmp/seed2-" + pid, ID=pid, TITLE=p["title"], STATEMENT=p["statement"],
                       QUANT=p["quantifier"]["text"], FILES=", ".join(p["anchors"]["files"]), N=n, OUT="/tmp/seed-out")
        first = len(tried) + 1
        txt = txt.replace("For each change i = 1..%d create a directory /tmp/seed-out/%s-m<i>/" % (n, pid),
                          "Number your changes i = %d..%d. For each change create a directory /tmp/seed-out/%s-m<i>/" % (first, first + n - 1, pid))
        txt += ("\n\nChanges that were ALREADY produced by earlier sessions — do not repeat them or close variants; look for different "
                "mechanisms, different functions, different clauses of the property:\n" + "\n".join(tried) +
                "\n\nAim for changes that are HARDER to notice than those: needing longer operation sequences, rarer but legitimate "
                "inputs, interaction of two features, or only one clause of the property (e.g. only the event contents, only the "
                "exception class, only behaviour after a copy, only the n-th repetition).\n")
        print(txt)
