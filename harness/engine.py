"""Generic check engine (DESIGN §2.2-§2.6).

A property module (harness/props/cNN.py) supplies:

  PROPERTY      "C05"
  DRIVER        "TraitsVerif/Driver/Seq.lean"  (Lean line-protocol driver) or None
  DRIVERS       optional {case-line prefix: driver} when one property uses several drivers
  PROPS_MODULES ["TraitsVerif.Props.C05"]      (Lean modules holding the theorems)
  TRANSLATORS   ["mutators", ...]              (names in harness/translate/)
  RULE          str: how cases are generated, what makes one non-trivial
  TRUSTED       [str]: extra trusted-base lines
  ASSUMPTIONS   [str]
  corpus()            -> [case_line]             minimised past failures, run first
  generate(rng, tier) -> iterable of case_line   ('quick' | 'thorough' | 'intense')
  run_impl(case_line) -> (output_line, hits, tags)
        executes the case on the REAL code (scratch build active in this
        process); output_line is what the Lean driver must print for the same
        case; hits = list of dicts {signature, what, ...} where the statement-
        level ORACLE says the property fails on the real code; tags = iterable
        of strings (branch / op-kind / error-kind labels) for the distribution.
  nontrivial(case_line, output_line) -> bool    (optional)
  shrink(case_line, fails) -> case_line         (optional; default ddmin on ops)
  extra_checks(ctx) -> list of hits             (optional; e.g. subprocess runs)

Exit protocol: 0 held; 1 + "VIOLATION property=<id> replay=<path>[ no-failing-input-found]";
2 on timeout / infrastructure failure of the harness itself.
"""
import fcntl
import hashlib
import importlib
import json
import multiprocessing
import os
import random
import re
import shutil
import subprocess
import sys
import tempfile
import time

HERE = os.path.dirname(os.path.abspath(__file__))
VERIF = os.path.dirname(HERE)
LEAN = os.path.join(VERIF, "lean")
sys.path.insert(0, HERE)
import build  # noqa: E402

ALLOWED_AXIOMS = {"propext", "Classical.choice", "Quot.sound"}
FORBIDDEN = re.compile(
    r"\bsorry\b|\badmit\b|^\s*axiom\s|native_decide|bv_decide|implemented_by|\bunsafe\s|maxHeartbeats\s+0\b")


def log(*a):
    print(*a, flush=True)


# --------------------------------------------------------------------------
# Lean side
# --------------------------------------------------------------------------

def _lake_lock():
    f = open(os.path.join(LEAN, ".lake.lock"), "w")
    fcntl.flock(f, fcntl.LOCK_EX)
    return f


def _failed_lemmas(lean_dir, log):
    """When the build breaks inside a Lemmas/Model file (the source-tie proofs live there), name the theorem /
    lemma around each `error:` location, so that the replay says which statement no longer checks."""
    out = []
    try:
        for m in re.finditer(r"error: (?:\./)?(TraitsVerif/[\w/]+\.lean):(\d+):\d+", log):
            path, line = m.group(1), int(m.group(2))
            name = None
            try:
                src = open(os.path.join(lean_dir, path)).read().split("\n")
                for i in range(min(line, len(src)) - 1, -1, -1):
                    mm = re.match(r"\s*(?:private\s+|protected\s+)?(?:theorem|lemma|def|example|instance)\s+([\w.'«»]+)?", src[i])
                    if mm:
                        name = mm.group(1) or "example"
                        break
            except OSError:
                pass
            item = "<build>: %s%s (%s:%d)" % (path[len("TraitsVerif/"):-5].replace("/", "."), ("." + name) if name else "", path, line)
            if item not in out:
                out.append(item)
            if len(out) >= 12:
                break
    except Exception:
        return []
    return out



def run_translators(names, scratch):
    """Regenerate Generated/*.lean from the scratch copy.  Returns
    (dict name -> new text, list of names whose text differs from the committed)."""
    new, changed = {}, []
    for n in names:
        mod = importlib.import_module("translate." + n)
        try:
            text = mod.emit(os.path.join(scratch, "traits"))
        except Exception as e:      # fail closed: an unreadable source breaks the proof obligations
            text = ("/- translator %s FAILED on the working tree: %s: %s -/\n"
                    "theorem translator_failed : False := by decide\n" % (n, type(e).__name__, str(e).replace("-/", "- /")[:500]))
        new[mod.TARGET] = text
        path = os.path.join(LEAN, "TraitsVerif", "Generated", mod.TARGET)
        old = open(path).read() if os.path.exists(path) else None
        if old != text:
            changed.append(mod.TARGET)
    return new, changed


def strip_comments(src):
    src = re.sub(r"/-.*?-/", "", src, flags=re.S)
    return re.sub(r"--.*", "", src)


def theorems_of(lean_dir, module):
    path = os.path.join(lean_dir, module.replace(".", "/") + ".lean")
    src = strip_comments(open(path).read())
    names = []
    ns = []
    for m in re.finditer(r"^\s*(namespace|end|theorem)\s+([A-Za-z_][\w.']*)", src, flags=re.M):
        kw, name = m.group(1), m.group(2)
        if kw == "namespace":
            ns.append(name)
        elif kw == "end":
            if ns and ns[-1] == name:
                ns.pop()
        else:
            names.append(".".join(ns + [name]))
    return names


def import_closure(lean_dir, modules):
    """Project files reachable from `modules` through `import TraitsVerif.…` lines."""
    seen, todo = [], list(modules)
    while todo:
        m = todo.pop()
        if m in seen or not m.startswith("TraitsVerif"):
            continue
        path = os.path.join(lean_dir, m.replace(".", "/") + ".lean")
        if not os.path.exists(path):
            continue
        seen.append(m)
        for mm in re.finditer(r"^\s*(?:public\s+)?import\s+(TraitsVerif[\w.]*)", open(path).read(), flags=re.M):
            todo.append(mm.group(1))
    return seen


def forbidden_tokens(lean_dir, modules):
    bad = []
    for m in import_closure(lean_dir, modules):
        p = os.path.join(lean_dir, m.replace(".", "/") + ".lean")
        for i, line in enumerate(strip_comments(open(p).read()).splitlines(), 1):
            if FORBIDDEN.search(line) or re.search(r"^\s*partial\s+def", line) and "/Driver/" not in p:
                bad.append("%s: %s" % (os.path.relpath(p, lean_dir), line.strip()[:120]))
    return bad


def prove(pm, generated, changed, tier, scratch):
    """lake build the property modules (+driver), audit axioms.  Returns dict."""
    res = {"ok": False, "obligations": 0, "discharged": 0, "axioms": {}, "failed": [],
           "lean_dir": LEAN, "build_log": "", "regenerated": changed}
    lean_dir = LEAN
    lock = _lake_lock()
    try:
        if changed:
            # never mutate /verif/lean: build a scratch copy with the new tables
            lean_dir = os.path.join(scratch, "lean")
            shutil.copytree(LEAN, lean_dir, symlinks=True)
            for target, text in generated.items():
                with open(os.path.join(lean_dir, "TraitsVerif", "Generated", target), "w") as f:
                    f.write(text)
            res["lean_dir"] = lean_dir
        targets = list(pm.PROPS_MODULES)
        for drv in [getattr(pm, "DRIVER", None)] + list((getattr(pm, "DRIVERS", {}) or {}).values()):
            if drv and drv[:-5].replace("/", ".") not in targets:
                targets.append(drv[:-5].replace("/", "."))
        p = subprocess.run(["lake", "build"] + targets, cwd=lean_dir, capture_output=True, text=True)
        res["build_log"] = (p.stdout + p.stderr)[-6000:]
        build_ok = p.returncode == 0
    finally:
        lock.close()
    thms = []
    for m in pm.PROPS_MODULES:
        thms += theorems_of(lean_dir, m)
    res["obligations"] = len(thms)
    res["theorems"] = thms
    if not build_ok:
        # find which theorems are named in the errors
        res["failed"] = [t for t in thms if t.split(".")[-1] in res["build_log"]] or _failed_lemmas(lean_dir, p.stdout + p.stderr) or ["<build>"]
        return res
    audit = "\n".join("import " + m for m in pm.PROPS_MODULES) + "\n" + \
        "\n".join("#print axioms %s" % t for t in thms) + "\n"
    af = os.path.join(scratch, "Audit_%s.lean" % pm.PROPERTY)
    with open(af, "w") as f:
        f.write(audit)
    p = subprocess.run(["lake", "env", "lean", af], cwd=lean_dir, capture_output=True, text=True)
    out = p.stdout + p.stderr
    for m in re.finditer(r"'([^']+)' depends on axioms: \[([^\]]*)\]", out, flags=re.S):
        res["axioms"][m.group(1)] = sorted(a.strip() for a in m.group(2).replace("\n", " ").split(",") if a.strip())
    for m in re.finditer(r"'([^']+)' does not depend on any axioms", out):
        res["axioms"][m.group(1)] = []
    for t in thms:
        ax = res["axioms"].get(t)
        if ax is None or not set(ax) <= ALLOWED_AXIOMS:
            res["failed"].append(t)
    bad = forbidden_tokens(lean_dir, pm.PROPS_MODULES)
    res["forbidden"] = bad
    if bad:
        res["failed"].append("<forbidden-token>")
    res["discharged"] = len(thms) - len([t for t in res["failed"] if t in thms])
    res["ok"] = not res["failed"] and p.returncode == 0
    if tier == "thorough" and res["ok"]:
        mods = list(pm.PROPS_MODULES)
        t0 = time.time()
        p = subprocess.run(["lake", "env", "leanchecker"] + mods, cwd=lean_dir, capture_output=True, text=True)
        res["leanchecker"] = {"rc": p.returncode, "wall_s": round(time.time() - t0, 1),
                              "tail": (p.stdout + p.stderr)[-500:]}
        if p.returncode != 0:
            res["ok"] = False
            res["failed"].append("<leanchecker>")
    return res


class HarnessTimeout(Exception):
    """Infrastructure time-out: exit 2 (neither pass nor violation)."""


def run_lean_driver(driver, lines, lean_dir=LEAN, shards=8):
    """Pipe case lines through the Lean driver (sharded); returns output lines."""
    if not lines:
        return []
    shards = max(1, min(shards, (len(lines) + 199) // 200))
    chunks = [lines[i::shards] for i in range(shards)]
    procs = []
    for ch in chunks:
        p = subprocess.Popen(["lake", "env", "lean", "--run", driver], cwd=lean_dir,
                             stdin=subprocess.PIPE, stdout=subprocess.PIPE, stderr=subprocess.PIPE, text=True)
        procs.append(p)
    outs = []
    import threading
    results = [None] * shards

    budget = float(os.environ.get("VERIF_MODEL_TIMEOUT", "1500"))

    def feed(i, p, ch):
        try:
            o, e = p.communicate("\n".join(ch) + "\n", timeout=budget)
        except subprocess.TimeoutExpired:
            p.kill()
            results[i] = ([], "timeout", -9)
            return
        results[i] = (o.splitlines(), e, p.returncode)
    ths = [threading.Thread(target=feed, args=(i, p, ch)) for i, (p, ch) in enumerate(zip(procs, chunks))]
    for t in ths:
        t.start()
    for t in ths:
        t.join()
    outs = [None] * len(lines)
    for i, ch in enumerate(chunks):
        o, e, rc = results[i]
        if rc == -9 and e == "timeout":
            raise HarnessTimeout("Lean driver %s did not finish within %.0f s" % (driver, budget))
        if rc != 0 or len(o) != len(ch):
            # one retry of the shard on its own: a transient failure (a concurrent `lake build` replacing an .olean
            # under the running driver, memory pressure) must not be reported as a broken correspondence
            first = "rc=%s, %d/%d lines, stdout head %r, stderr tail %r" % (rc, len(o), len(ch), "\n".join(o[:3])[:300], e[-300:])
            try:
                r = subprocess.run(["lake", "env", "lean", "--run", driver], cwd=lean_dir, input="\n".join(ch) + "\n",
                                   capture_output=True, text=True, timeout=budget)
            except subprocess.TimeoutExpired:
                raise HarnessTimeout("Lean driver %s did not finish within %.0f s (retry of a failed shard)" % (driver, budget))
            o, e, rc = r.stdout.splitlines(), r.stderr, r.returncode
            if rc != 0 or len(o) != len(ch):
                raise RuntimeError("Lean driver failed twice (first: %s; retry: rc=%s, %d/%d lines): %s | %s"
                                   % (first, rc, len(o), len(ch), "\n".join(o[:3])[:300], e[-2000:]))
            log("[engine] Lean driver shard failed once (%s) and succeeded on retry" % first)
        for j, line in enumerate(o):
            outs[i + j * shards] = line
    return outs


# --------------------------------------------------------------------------
# Implementation side (workers fork after the scratch build is activated)
# --------------------------------------------------------------------------

_PM = None


class _CaseTimeout(BaseException):
    pass


def _on_vtalrm(signum, frame):
    raise _CaseTimeout()


def _worker(chunk):
    """Run cases on the real code.  Each case gets a CPU-time budget (ITIMER_VIRTUAL, so it
    does not interfere with wall-clock alarms a property module may use itself): an input
    or a changed tree that makes the implementation loop forever becomes an oracle hit
    `hang:…` instead of stalling the check."""
    import signal
    budget = float(os.environ.get("VERIF_CASE_CPU_TIMEOUT", "60"))
    try:
        signal.signal(signal.SIGVTALRM, _on_vtalrm)
        armed = True
    except Exception:
        armed = False
    out = []
    for case in chunk:
        try:
            if armed:
                signal.setitimer(signal.ITIMER_VIRTUAL, budget)
            try:
                o, hits, tags = _PM.run_impl(case)
            finally:
                if armed:
                    signal.setitimer(signal.ITIMER_VIRTUAL, 0)
        except _CaseTimeout:
            sig = "hang:" + (case.lstrip("#").split("|")[0].split(" ")[0][:40] or "case")
            o, hits, tags = "hang", [{"signature": sig, "what": "the implementation did not finish this case within %.0f s of CPU "
                                      "time (non-terminating loop?)" % budget, "no_shrink": True}], ["hang"]
        except Exception as e:  # harness bug or unexpected implementation behaviour
            o, hits, tags = "harness-exception %s: %s" % (type(e).__name__, str(e)[:200]), [], ["harness-exception"]
        out.append((o, hits, list(tags)))
    return out


def _run_chunk_isolated(chunk, timeout):
    """Run a chunk in a fresh single-worker pool; returns results or None when the
    worker died (segfault / abort) or did not finish in time."""
    from concurrent.futures import ProcessPoolExecutor
    from concurrent.futures.process import BrokenProcessPool
    ctx = multiprocessing.get_context("fork")
    ex = ProcessPoolExecutor(max_workers=1, mp_context=ctx)
    try:
        fut = ex.submit(_worker, chunk)
        try:
            return fut.result(timeout=timeout)
        except (BrokenProcessPool, Exception):
            return None
    finally:
        for p in list(getattr(ex, "_processes", {}).values()):
            try:
                p.kill()
            except Exception:
                pass
        ex.shutdown(wait=False, cancel_futures=True)


def _crash_result(case):
    sig = "crash:" + (case.lstrip("#").split("|")[0].split(" ")[0][:40] or "case")
    return ("crash", [{"signature": sig, "what": "the interpreter crashed (fatal signal) or hung while executing this case "
                       "on the real code", "no_shrink": True}], ["crash"])


def run_impl_all(pm, cases, procs):
    """Run every case on the real code.  Workers are forked processes; a worker
    that dies (segfault in the extension) or hangs does not take the check down:
    its chunk is re-run case by case in isolation and the fatal case is reported
    as an oracle hit with signature `crash:…`."""
    global _PM
    _PM = pm
    if len(cases) < 50 or procs <= 1:
        r = _run_chunk_isolated(cases, 600) if cases else []
        if r is not None:
            return r
        chunks, results = [cases], {0: None}
    else:
        from concurrent.futures import ProcessPoolExecutor, wait
        n = min(procs, max(1, len(cases) // 25))
        size = max(1, min(200, len(cases) // (n * 2) + 1))
        chunks = [cases[i:i + size] for i in range(0, len(cases), size)]
        ctx = multiprocessing.get_context("fork")
        results = {}
        ex = ProcessPoolExecutor(max_workers=n, mp_context=ctx)
        try:
            futs = {ex.submit(_worker, ch): i for i, ch in enumerate(chunks)}
            budget = float(os.environ.get("VERIF_IMPL_TIMEOUT", "1500"))
            done, pending = wait(list(futs), timeout=budget)
            for f in done:
                try:
                    results[futs[f]] = f.result()
                except Exception:
                    results[futs[f]] = None
            for f in pending:
                results[futs[f]] = None
        finally:
            for p in list(getattr(ex, "_processes", {}).values()):
                try:
                    p.kill()
                except Exception:
                    pass
            ex.shutdown(wait=False, cancel_futures=True)
    out = []
    for i, ch in enumerate(chunks):
        r = results.get(i)
        if r is None:
            # the pool broke: re-run the chunk in isolation, and only if it dies again
            # find the fatal case(s) by running it case by case
            r = _run_chunk_isolated(ch, 600)
            if r is None:
                r = []
                for c in ch:
                    one = _run_chunk_isolated([c], 120)
                    r.append(one[0] if one else _crash_result(c))
        out.extend(r)
    return out


# --------------------------------------------------------------------------
# Shrinking, findings, evidence
# --------------------------------------------------------------------------

def default_shrink(case, fails):
    """ddmin over the ';'-separated op list in the last '|' field."""
    if "|" not in case:
        return case
    head, _, ops = case.rpartition("|")
    ops = [o for o in ops.split(";") if o.strip()]
    changed = True
    while changed and len(ops) > 1:
        changed = False
        for i in range(len(ops) - 1, -1, -1):
            cand = ops[:i] + ops[i + 1:]
            if cand and fails(head + "|" + ";".join(cand)):
                ops = cand
                changed = True
    return head + "|" + ";".join(ops)


def load_known():
    p = os.path.join(VERIF, "known_findings.json")
    if not os.path.exists(p):
        return []
    return json.load(open(p)).get("findings", [])


def match_known(prop, hit, known):
    for k in known:
        if k.get("status") != "known":
            continue
        if prop in k.get("properties", [k.get("property")]) and k.get("signature") == hit.get("signature"):
            return k
    return None


def write_replay(prop, payload):
    os.makedirs(os.path.join(VERIF, "replays"), exist_ok=True)
    h = hashlib.sha1(json.dumps(payload, sort_keys=True, default=str).encode()).hexdigest()[:10]
    path = os.path.join(VERIF, "replays", "%s-%s.json" % (prop, h))
    with open(path, "w") as f:
        json.dump(payload, f, indent=1, default=str)
    return path


def main(pm, argv):
    import argparse
    ap = argparse.ArgumentParser()
    ap.add_argument("--tier", default=os.environ.get("VERIF_TIER", "quick"))
    ap.add_argument("--replay")
    ap.add_argument("--procs", type=int, default=int(os.environ.get("VERIF_PROCS", "16")))
    ap.add_argument("--no-prove", action="store_true", help="(development only) skip the Lean build")
    args = ap.parse_args(argv)
    tier = args.tier if args.tier in ("quick", "thorough") else "quick"
    seed = int(os.environ.get("VERIF_SEED", "0"))
    prop = pm.PROPERTY
    t0 = time.time()
    try:
        scratch, _ = build.build()
    except RuntimeError as e:
        log("cannot build /repo working tree: %s" % e)
        rp = write_replay(prop, {"property": prop, "kind": "build-failure", "detail": str(e)})
        log("VIOLATION property=%s replay=%s no-failing-input-found" % (prop, rp))
        return 1
    try:
        build.activate(scratch)
        return _main(pm, args, tier, seed, prop, t0, scratch)
    except HarnessTimeout as e:
        log("[%s] TIMEOUT (exit 2): %s" % (prop, e))
        return 2
    finally:
        build.cleanup(scratch)


def _main(pm, args, tier, seed, prop, t0, scratch):
    known = load_known()
    if hasattr(pm, "setup"):
        pm.setup()

    def still_fails_factory(sig):
        def fails(case):
            try:
                _, hits, _ = pm.run_impl(case)
            except Exception:
                return False
            return any(h.get("signature") == sig for h in hits)
        return fails

    if args.replay:
        payload = json.load(open(args.replay))
        case = payload.get("case")
        if case is None:
            log("replay file carries no case (broken proof/correspondence without failing input): %s"
                % payload.get("kind"))
            return 1
        o, hits, _ = pm.run_impl(case)
        log("case: %s\nimpl: %s" % (case, o))
        new = []
        for h in hits:
            log("ORACLE: %s" % json.dumps(h, default=str))
            k = match_known(prop, h, known)
            if k is not None:
                log("KNOWN-FINDING: property=%s %s [%s]" % (prop, k.get("what"), k.get("id")))
            else:
                new.append(h)
        if new:
            log("VIOLATION property=%s replay=%s" % (prop, args.replay))
            return 1
        return 0

    # ---- translate + prove -------------------------------------------------
    generated, changed = run_translators(getattr(pm, "TRANSLATORS", []), scratch)
    if args.no_prove:
        pr = {"ok": True, "obligations": 0, "discharged": 0, "axioms": {}, "failed": [], "lean_dir": LEAN,
              "regenerated": changed, "theorems": []}
    else:
        pr = prove(pm, generated, changed, tier, scratch)
    log("[%s] proofs: %d/%d obligations discharged%s (%.1fs)" % (
        prop, pr["discharged"], pr["obligations"],
        "" if pr["ok"] else "  BROKEN: %s" % pr["failed"], time.time() - t0))

    # ---- cases ------------------------------------------------------------
    rng = random.Random(seed * 1000003 + 17)
    corpus = list(pm.corpus()) if hasattr(pm, "corpus") else []
    cases = corpus + list(pm.generate(rng, tier))
    seen = set()
    uniq = []
    for c in cases:
        if c not in seen:
            seen.add(c)
            uniq.append(c)
    cases = uniq
    t1 = time.time()
    impl = run_impl_all(pm, cases, args.procs)
    t_impl = time.time() - t1

    # ---- correspondence ---------------------------------------------------
    disagreements = []
    corr_error = None
    model_out = None
    # one driver (pm.DRIVER) or several selected by case prefix (pm.DRIVERS = {prefix: driver})
    drivers = dict(getattr(pm, "DRIVERS", {}) or {})
    if getattr(pm, "DRIVER", None):
        drivers.setdefault("", pm.DRIVER)
    t_model = 0.0
    n_model = 0
    if drivers:
        groups = {}
        for i, c in enumerate(cases):
            if c.startswith("#"):
                continue
            best = None
            for pre in drivers:
                if c.startswith(pre) and (best is None or len(pre) > len(best)):
                    best = pre
            if best is not None:
                groups.setdefault(drivers[best], []).append((i, c))
        lean_dir = pr["lean_dir"] if pr.get("ok") or os.path.isdir(os.path.join(pr["lean_dir"], ".lake")) else LEAN
        for drv, sel in groups.items():
            try:
                t2 = time.time()
                outs = run_lean_driver(drv, [c for _, c in sel], lean_dir=lean_dir, shards=min(8, args.procs))
                t_model += time.time() - t2
                n_model += len(sel)
                for (i, c), o in zip(sel, outs):
                    if o.strip() != impl[i][0].strip():
                        disagreements.append({"case": c, "impl": impl[i][0], "model": o})
            except HarnessTimeout:
                raise
            except Exception as e:
                corr_error = str(e)
    corr_ok = not disagreements and corr_error is None

    # ---- oracle hits ----------------------------------------------------------
    hits = []
    for c, (o, hs, tags) in zip(cases, impl):
        for h in hs:
            h = dict(h)
            h.setdefault("case", c)
            h.setdefault("impl", o)
            hits.append(h)
    if hasattr(pm, "extra_checks"):
        hits += list(pm.extra_checks({"tier": tier, "seed": seed, "scratch": scratch, "rng": rng}))
    harness_exc = [o for (o, _, _) in impl if o.startswith("harness-exception")]

    # ---- intensified search when the property is no longer shown to hold ------
    intensified = 0
    if not hits and (not pr["ok"] or not corr_ok):
        log("[%s] proof or correspondence broken; intensified search for a failing input" % prop)
        extra = list(dict.fromkeys(pm.generate(random.Random(seed * 7919 + 1), "intense")))
        extra = [d["case"] for d in disagreements[:200]] + extra
        intensified = len(extra)
        for c, (o, hs, tags) in zip(extra, run_impl_all(pm, extra, args.procs)):
            for h in hs:
                h = dict(h)
                h.setdefault("case", c)
                h.setdefault("impl", o)
                hits.append(h)

    # ---- classify hits --------------------------------------------------------
    new_hits, known_lines = [], {}
    by_sig = {}
    for h in hits:
        by_sig.setdefault(h.get("signature"), []).append(h)
    for sig, hs in by_sig.items():
        k = match_known(prop, hs[0], known)
        if k is not None:
            known_lines[sig] = (k, len(hs))
            continue
        h = min(hs, key=lambda x: len(str(x.get("case"))))
        if h.get("case") and not h.get("no_shrink"):
            shr = getattr(pm, "shrink", default_shrink)
            try:
                small = shr(h["case"], still_fails_factory(sig))
                if small != h["case"]:
                    o, hs2, _ = pm.run_impl(small)
                    h2 = [x for x in hs2 if x.get("signature") == sig]
                    if h2:
                        h = dict(h2[0])
                        h["case"], h["impl"] = small, o
            except Exception:
                pass
        h["count"] = len(hs)
        new_hits.append(h)

    # ---- evidence -------------------------------------------------------------
    tag_hist = {}
    nontriv = set()
    nt = getattr(pm, "nontrivial", None)
    for c, (o, hs, tags) in zip(cases, impl):
        for t in tags:
            tag_hist[t] = tag_hist.get(t, 0) + 1
        if (nt(c, o) if nt else (("ok" in o or "err" in o) and o not in ("", "bad-case"))):
            nontriv.add(o if getattr(pm, "DISTINCT_BY_OUTPUT", True) else c)
    violations = len(new_hits) + (0 if (pr["ok"] and corr_ok) or new_hits else 1)
    ev = {
        "property_id": prop, "tier": tier, "seed": seed, "level": "proof",
        "coverage": {
            "obligations": pr["obligations"], "discharged": pr["discharged"],
            "checker_cmd": "cd lean && lake build %s && lake env lean <#print axioms of every theorem>%s" % (
                " ".join(pm.PROPS_MODULES), " && lake env leanchecker …" if tier == "thorough" else ""),
            "trusted_base": [
                "Lean 4.33.0 kernel" + ("; .olean re-checked by leanchecker" if pr.get("leanchecker") else ""),
                "axioms reported by #print axioms over all %d theorems: %s" % (
                    pr["obligations"], sorted({a for v in pr["axioms"].values() for a in v}) or "none"),
                "no sorry/admit/axiom/native_decide/bv_decide/implemented_by/unsafe (grep on every run)",
                "translators: %s" % (getattr(pm, "TRANSLATORS", []) or "none"),
                "correspondence harness (generators, canonicalisation, diff) and Python oracle",
            ] + list(getattr(pm, "TRUSTED", [])),
            "theorems": pr.get("theorems", []),
            "proofs_ok": pr["ok"], "proof_failures": pr["failed"],
            "generated_tables_changed": pr["regenerated"],
            "evaluations": len(cases), "distinct_nontrivial": len(nontriv),
            "rule": getattr(pm, "RULE", ""),
            "samples": [{"case": c, "impl": impl[i][0]} for i, c in list(enumerate(cases))[:: max(1, len(cases) // 6)][:6]],
            "traces_validated_against_impl": n_model if corr_error is None else 0,
            "correspondence_disagreements": len(disagreements),
            "correspondence_error": corr_error,
            "oracle_hits": len(hits), "known_findings_hit": {str(k): n for k, (_, n) in known_lines.items()},
            "intensified_cases": intensified,
            "distribution": dict(sorted(tag_hist.items())),
            "harness_exceptions": len(harness_exc),
            "timing_s": {"impl": round(t_impl, 1), "model": round(t_model, 1)},
            "exhaustive": bool(getattr(pm, "EXHAUSTIVE", {}).get(tier, False)),
        },
        "assumptions": list(getattr(pm, "ASSUMPTIONS", [])),
        "wall_s": round(time.time() - t0, 2),
        "violations": violations,
    }
    if hasattr(pm, "evidence_extra"):
        ev["coverage"].update(pm.evidence_extra())
    # evidence describes /repo itself; a run against another tree (VERIF_REPO=…,
    # used to try seeded changes) must not overwrite it
    evdir = os.path.join(VERIF, "evidence") if os.path.realpath(build.REPO) == "/repo" else \
        os.path.join(build.scratch_root(), "verif-trial-evidence")
    os.makedirs(evdir, exist_ok=True)
    with open(os.path.join(evdir, "%s.json" % prop), "w") as f:
        json.dump(ev, f, indent=1, default=str)

    # ---- report ---------------------------------------------------------------
    log("[%s] %d cases (%d distinct non-trivial), impl %.1fs, model %.1fs, disagreements=%d, oracle hits=%d" % (
        prop, len(cases), len(nontriv), t_impl, t_model, len(disagreements), len(hits)))
    for sig, (k, n) in known_lines.items():
        log("KNOWN-FINDING: property=%s %s [%s; %d case(s) this run]" % (prop, k.get("what"), k.get("id"), n))
    if harness_exc:
        log("[%s] harness exceptions: %d, e.g. %s" % (prop, len(harness_exc), harness_exc[0]))
    rc = 0
    for h in new_hits:
        rp = write_replay(prop, {"property": prop, "seed": seed, "kind": "oracle-hit", **h,
                                 "replay_cmd": "/venv/bin/python harness/vcheck.py %s --replay <this file>" % prop})
        log("VIOLATION property=%s replay=%s" % (prop, rp))
        rc = 1
    if not new_hits and (not pr["ok"] or not corr_ok or harness_exc):
        payload = {"property": prop, "seed": seed, "kind": "no-failing-input-found",
                   "theorems_that_no_longer_check": pr["failed"],
                   "generated_tables_changed": pr["regenerated"],
                   "build_log_tail": pr.get("build_log", "")[-3000:],
                   "correspondence_error": corr_error,
                   "first_disagreements": disagreements[:5],
                   "harness_exceptions": harness_exc[:3],
                   "intensified_cases_searched": intensified}
        rp = write_replay(prop, payload)
        log("VIOLATION property=%s replay=%s no-failing-input-found" % (prop, rp))
        rc = 1
    return rc
