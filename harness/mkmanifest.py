#!/usr/bin/env python3
"""Regenerates /verif/MANIFEST.json from the table below (keeps it valid at all times)."""
import json
import os

VERIF = os.path.dirname(os.path.dirname(os.path.abspath(__file__)))
ALL = ["C%02d" % i for i in range(1, 21)]

# property -> (level text, level note, technique, design ref)
CLAIMED = {
    "C05": (
        "Lean 4 theorems over a line-by-line model of TraitList (every mutator, _normalize_slice_or_index): refinement to the "
        "builtin-list model, failure atomicity, the replay law, removed-exactness and the index normal form, for lists of every "
        "length and every integer index / slice (unbounded, by induction and linear-arithmetic lemmas), lifted to all histories. "
        "The model is tied to the source twice: (1) by TRANSLATION — the source text of every TraitList mutator and of "
        "_normalize_slice_or_index / _removed_items is translated on every run into a deep-embedded Python subset "
        "(Model/PyL.lean, Generated/ListProg.lean) and the hand-written model is proved equal to its interpretation for every "
        "list, argument and validator (C05_step_is_source; C05_source_property states the property of the interpreted source), "
        "plus a translated mutator table; (2) by a correspondence check (exhaustive small scope + random histories, model and "
        "real code run on the same lines). A Python oracle evaluates the property statement on the real code to produce "
        "concrete replays.",
        "Trusted: Lean kernel (+leanchecker in thorough), axioms propext/Classical.choice/Quot.sound only; the hand model of "
        "CPython list/slice (validated against the builtin on every run); the harness. list.sort is a model parameter.",
        "Lean 4 proof (refinement + replay law by induction) over a model proved equal to the interpretation of the "
        "translated source, with model-code correspondence check",
        "DESIGN.md §5 C05, §10.2"),
}

CLAIMED["C04"] = (
    "Lean 4 theorems over a line-by-line model of TraitListObject (the length guard of every override + TraitList) and of "
    "List.validate: the guards compute the exact resulting length for every index/slice (C04_len_exact), the invariant "
    "'all elements are validator outputs and minlen <= len <= maxlen' is preserved by every mutator and established by "
    "whole-value assignment, for every validator, bound and history (induction); a rejected operation is TraitError and "
    "leaves the state; every length-changing mutator is guarded (decide over the translated method tables). Tied to the "
    "source by TRANSLATION (every TraitListObject override, with super() bound to the translated TraitList methods, is "
    "translated on every run and the model is proved equal to its interpretation: C04_step_is_source, C04_guard_is_source, "
    "C04_bound_is_source; C04_source_history is the every-reachable-state invariant of the interpreted source) and by "
    "correspondence on real HasTraits objects; nested List(List), Dict(K, List), Set, Dict traits are covered "
    "by the statement-level oracle stream and by the Dict/Set invariants of C06/C07.",
    "Trusted: Lean kernel, standard axioms only; Py.List model; harness; inner traits are abstract validators in the "
    "theorems (their own correctness is C01/C03). Nested containers: invariant proved per level, composition by the "
    "validator hypothesis; the nested stream is oracle-checked, not model-checked.",
    "Lean 4 proof (invariant by induction over operations) over a model proved equal to the interpretation of the "
    "translated source, with model-code correspondence check",
    "DESIGN.md §5 C04, §10.2")

CLAIMED["C06"] = (
    "Lean 4 theorems over a line-by-line model of TraitDict (every mutator, dict_event_factory, the notifier list called in "
    "order with shared dict objects): refinement to the builtin-dict model incl. insertion order, return values and exception "
    "classes (setdefault under the stated containment hypothesis, with a proved negation witness for finding F13), atomicity, "
    "the reconstruction law for the (removed, added, changed) triple, one/never-empty event, silence, the observer's merged "
    "view, and 'every notifier receives a faithful triple' for any notifier list; lifted to all histories by induction. "
    "The statement sequence of dict_event_factory is regenerated from the source by a translator on every run and proved equal "
    "to the modelled one (so removing the added.copy() line breaks a proof obligation); the source text of all 8 mutators is "
    "translated on every run (pylmap, Model/PyLMap.lean) and the model step is proved equal to its interpretation "
    "(C06_step_is_source, loops by induction). Correspondence: model and real TraitDict on the same histories.",
    "Trusted: Lean kernel, standard axioms; Py.Dict model of CPython dict (insertion-ordered association list); hashing/== of "
    "keys is structural in the model (1 == True == 1.0 collisions run on implementation + oracle only); translator dictevent; harness.",
    "Lean 4 proof (refinement + reconstruction law by induction) with translated factory body and model-code correspondence",
    "DESIGN.md §5 C06, §10.2")
CLAIMED["C07"] = (
    "Lean 4 theorems over a line-by-line model of TraitSet (all 13 mutators incl. the asymmetric validation of |=, ^= and "
    "symmetric_difference_update; copy / deepcopy / pickle): refinement to the builtin-set model up to permutation, atomicity, "
    "the delta law (removed ⊆ pre, added ∩ pre = ∅, (pre − removed) ∪ added = post, not both empty), silence, one event, copies "
    "(equal members, same validator, no notifiers, still validating); lifted to histories by induction. Hypotheses forced by the "
    "code are explicit and each has a proved negation witness and a known-finding entry (F24 ^= with an item present only after "
    "validation, pinned by an existing test; F25 deepcopy re-validates). The source text of all 13 mutators is translated on every "
    "run (pylmap) and the model step is proved equal to its interpretation (C07_step_is_source). Correspondence: model and real "
    "TraitSet on the same histories.",
    "Trusted: Lean kernel, standard axioms; Py.Set model (duplicate-free list up to Equiv); set.pop is given the popped member as a "
    "hint from the implementation run; iteration order of operands is not modelled (validators used have order-independent outcomes); harness.",
    "Lean 4 proof (refinement + delta law by induction) with model-code correspondence check",
    "DESIGN.md §5 C07, §10.2")
CLAIMED["C16"] = (
    "Lean 4 theorems over a model of the legacy ListenerItem chain (register/unregister, the active tables, handlers for link "
    "reassignment and list/dict item events, removal) on tree-shaped heaps: tree-shapedness is preserved by every allowed "
    "mutation, active(item k) = the objects at depth k along the name after any history (refinement invariant by induction), hence "
    "the legacy handler is called iff the changed object is currently reachable — the observe specification —, '.' links report "
    "intermediate changes and ':' links do not, removal empties every table. The one place where the code departs (in-place "
    "mutation of the FIRST link's container with a 3/4-argument handler is not reported, F60) is a stated exception with a proved "
    "negation witness. Correspondence: both real APIs (on_trait_change and observe) registered on the same generated trees and "
    "compared with the model and with Python reachability.",
    "Trusted: Lean kernel, standard axioms; the observe side enters as the reachability specification (tied by the differential "
    "of the two real APIs); ListenerParser is not modelled (names generated in both syntaxes from one AST); harness.",
    "Lean 4 proof (refinement invariant over histories) with differential correspondence of the two real APIs",
    "DESIGN.md §5 C16, §10.2")

CLAIMED["C12"] = (
    "Lean 4 theorems over a model of Property(observe=…) / cached_property (cache slot, observe handler popping the cache and "
    "calling trait_property_changed, lazy new value, restore with observers installed before values): the invariant "
    "'cache = none or cache = g(current heap)' is preserved by every history of mutations, reads, attach/detach, construction and "
    "copies (induction); every read returns g(heap); a cached getter runs at most once between two relevant changes (potential "
    "function); a change that alters g delivers exactly one notification with truthful old/new; a raising getter writes no cache "
    "entry. The observe machinery enters through the explicit interface assumptions ObserveSound / ObserveTight (what C08 "
    "establishes), each shown necessary by a proved negation witness, as is the observers-before-values order. The source of the "
    "eight functions/blocks and four call orders the model transcribes is regenerated by a translator on every run and must "
    "equal the text the model was written against (proof obligation). Correspondence: model and real classes on the same histories "
    "(original, unpickled, cloned, deep-copied objects).",
    "Trusted: Lean kernel, axioms propext/Quot.sound only; translator propstate; the firing relation of observe is a parameter "
    "(instantiated with the from-scratch specification; getter-call counts and notifications are compared with the real code on "
    "every run); DependsOnly is the user contract; harness. Findings F30 (sibling handler reads before invalidation), F10c-e, F31 are known findings.",
    "Lean 4 proof (cache invariant by induction over histories) with translated source tie and model-code correspondence",
    "DESIGN.md §5 C12, §10.2")

CLAIMED["C13"] = (
    "Lean 4 theorems over a model of name resolution (has_traits_getattro/setattro, get_trait, get_prefix_trait with its class-"
    "dictionary cache, __prefix_trait__, the hierarchy merge and longest-first sort of update_traits_class_dict, the access-policy "
    "handlers per trait kind, add_trait/remove_trait): governing trait = instance > class (own or inherited) > longest matching "
    "wildcard > class default for every name and hierarchy; the first match of the sorted list is a longest matching prefix for "
    "all names and all wildcard lists; cache coherence along histories; strict / private class rules; ReadOnly once, Constant, "
    "Event write-only, remove_trait restores — each along every history (induction). The sort key/reverse flag, match expression "
    "and dunder tests are regenerated from the source by a translator on every run and proved equal to the model's. Where the "
    "code departs from the universally quantified statement (dunder names, late subclass of an already-used class, stale "
    "__dict__ value after add_trait, multiple inheritance merge order, delegate shadow cache: F50-F56) the theorem carries the "
    "exact hypothesis, the full statement stays as a def, and a negation witness is proved.",
    "Trusted: Lean kernel, standard axioms; translator prefix; validators and type attributes are parameters; delegate access is "
    "opaque; Python's C3 MRO is computed by the oracle only; harness.",
    "Lean 4 proof (lookup order, longest-prefix, policy automata by induction over histories) with translated constants and correspondence",
    "DESIGN.md §5 C13, §10.2")

CLAIMED["C17"] = (
    "Lean 4 theorems over a transcription of AdaptationManager._adapt (offer buckets as register_offer builds them, applicable "
    "offers, the cmp_to_key ordering with CPython's list.sort for < 64 items, the priority queue keyed (adapters, MRO distance, "
    "counter) as a sorted list with a proved heap-equivalence, offer-not-in-path, arrival test, failing factories) and of the C "
    "validate_trait_adapt modes: identity, soundness of every returned chain (for arbitrary, even ordinal-dependent or raising "
    "factories), completeness (notFound iff no valid chain whose factories all succeed; determinism of factories is a stated "
    "hypothesis shown necessary by a witness), minimal adapter count, one-step specificity by MRO distance, default/"
    "AdaptationError, Supports/AdaptsTo modes, and termination (fuel sufficiency with an explicit measure). Departures of the "
    "code are explicit hypotheses with proved negation witnesses and known findings (F14 intransitive specificity comparison, "
    "F15 None adaptee, F16 bucket key collision). Correspondence: real AdaptationManager instances on generated hierarchies "
    "(single/multiple inheritance, ABC registration, Interfaces) vs the model, with a brute-force chain enumeration as oracle.",
    "Trusted: Lean kernel, standard axioms; issubclass/MRO tables come from CPython (sent as data, re-checked against the real "
    "classes); the list.sort and heapq models are validated by dedicated streams; lazy import_symbol of protocol names not modelled; harness.",
    "Lean 4 proof (queue invariant: soundness, completeness, minimality, termination) with model-code correspondence and brute-force oracle",
    "DESIGN.md §5 C17, §10.2")

CLAIMED["C19"] = (
    "No new behavioural model: Props/C19.lean collects, per callback site of the property's list, the atomicity theorem of the "
    "cluster that owns it, with the callback as an arbitrary partial function failing at an arbitrary call ordinal k — List traits "
    "(the k-th item validator raising e makes extend / += / slice assignment / whole-value assignment raise exactly e or the guard's "
    "TraitError; no effect; twin theorem: the outputs of everything executed after the failure are those of the same history without "
    "it), Dict and Set traits (no effect, no notifier called, failure causes; twin), custom scalar validator (C02_rejected_silent), "
    "default factory / _name_default (C10_default_raises: nothing stored, nobody called, next read retries), cached-property getter "
    "(C12_getter_raises), adapter factory (the exception is the factory's own; registry immutable), change handler "
    "(C02_handler_exception: the whole final state is that reached with handlers that never raise). In addition, because a failing "
    "step of a functional model carries no state by construction, the ORDER of effects on every control-flow path of every "
    "mutator of TraitList / TraitListObject / TraitDict / TraitSet is regenerated from the source by a translator on every run "
    "(validator calls V, guards G, the builtin mutation M, notification N; loops unrolled twice, lazy generators placed after M) and "
    "two theorems close the gap: every path is V*/G* M* N? (decide over the table — interleaving validation with mutation or "
    "notifying before mutating breaks this obligation), and for EVERY effect sequence in that order a failure at a validator or "
    "guard leaves the container unmutated and nobody notified, a failure of the builtin operation leaves nobody notified, and at "
    "most one notification is sent. For list, dict and set mutators the abstraction is backed by the full translation of the "
    "source (C19_list_source_no_effect, C19_list_source_kth_item_fails; C06/C07_source_atomic): whenever the interpreted source "
    "raises, the contents are as before and nothing was notified. Correspondence/oracle: systematic fault injection on the real code — the k-th user callback "
    "invocation of an operation raises TraitError/ValueError/AttributeError/RuntimeError — over List traits (also through the Lean "
    "model), nested List/Dict/Set traits, custom validators incl. Either/Tuple members, defaults, property getter/setter (also "
    "inside the dependency notification), adapter factories (also reached through Supports/AdaptsTo/Either traits), static / "
    "dynamic / observe change handlers; deep snapshot before/after, exception class, and a fault-free twin for the rest of the history.",
    "Trusted: Lean kernel, standard axioms; translator effects (AST reader, fails closed); that a builtin list/dict/set operation "
    "which raises leaves the container alone is CPython's contract; the twin comparison observes values, contents, events and "
    "exception classes only; registration rollback of observe is C09's subject (fix 4ea62e3); harness.",
    "Lean 4 proof (atomicity + twin theorems per cluster; translated effect order => atomicity) with fault-injection correspondence and twin oracle",
    "DESIGN.md §5 C19, §10.2")

CLAIMED["C08"] = (
    "Lean 4 theorems over a transcription of the observe machinery (heap of HasTraits instances and list/dict/set cells with their own "
    "identity, ObserverGraph with the orderless __eq__, _AddOrRemoveNotifier incl. the shared undo log of fix 4ea62e3, "
    "TraitEventNotifier reference counts, ObserverChangeNotifier maintainers, setattr_trait incl. the silent evaluation of a default as "
    "the old value, call_notifiers over a copied list, container notify over the live list) against a from-scratch specification "
    "(hookList / reach / specCnt): a registration that does not raise adds exactly the from-scratch hooks (reference count grows by "
    "reach), it raises iff the walk meets a failing iter_observables/iter_objects, after observe hooks equal the specification; the "
    "refinement invariant 'hooks = from-scratch hooks of the current heap' is preserved by trait assignment, default "
    "materialisation and list mutations incl. duplicates and sharing (C08_hooks_eq_reach_partial, _partial_list, "
    "_default_materialise_partial) under the no-self-reach hypothesis, hence the handler fires exactly once iff reachable "
    "(C08_fires_iff_reachable_partial), detached objects are silent, quiet links never deliver (full, no heap hypothesis), every event "
    "names the mutated observable. The full-strength statements are kept as defs and proved FALSE from the F10 history (a link "
    "re-pointed while its owner is reachable through it) by decide; F80 (a default evaluated silently on first assignment is never "
    "hooked) is a second known finding. Dict/set mutations, add_trait, container defaults and filtered nodes are covered by the "
    "correspondence only. Correspondence: pools of real objects, expressions over value/child/kids/byname/group/metadata, histories "
    "of mutations; after every step every object is probed and the notifier population per observable is compared white-box.",
    "Trusted: Lean kernel, standard axioms; no translator for this cluster (tie = correspondence incl. white-box counts + oracle); "
    "ObserverGraph.__eq__ is assumed structural among the subgraphs involved (eqStruct); dispatchers other than 'same' not modelled; harness.",
    "Lean 4 proof (refinement invariant hooks = reach on the assignment/list fragments; full statements refuted by witness) with white-box correspondence",
    "DESIGN.md §5 C08, §10.2")
CLAIMED["C09"] = (
    "Lean 4 theorems over the same model: removal right after a successful registration restores every count; n registrations add n "
    "times the items, m <= n removals never raise and leave n - m, n and n restore everything (counted, reversible); counts of "
    "different registrations add up independently; registering or removing at any position of the ledger moves the invariant, so "
    "interleavings with mutations are covered together with C08's fragments; one removal too many raises NotifierNotFound and leaves the "
    "hooks literally unchanged; FAILURE ATOMICITY AT FULL STRENGTH after fix 4ea62e3 (C09_failure_atomic, _observe for a whole "
    "observe() call incl. several graphs and compile errors, _any_call for the maintainers' calls): a raising registration or removal "
    "restores every count; nothing is delivered to a dead key and with all weak references dead a mutation delivers nothing, raises "
    "nothing and touches no hook. The GC clause ('registrations never keep the observed object or a bound-method handler's owner "
    "alive; after collection nothing raises or calls') is runtime behaviour: it is TESTED on the real code (weakref + gc.collect() "
    "at every point of generated histories, then probe), labelled as a test; the Lean side proves only C09_dead_is_mute. "
    "Correspondence: interleavings of observe / observe(remove=True) for several handlers and expressions with mutations; failure "
    "injection at every position of the walk (missing trait, non-container where a container is required).",
    "Trusted: Lean kernel, standard axioms; CPython reference counting / GC (the liveness clause is tested, not proved); harness.",
    "Lean 4 proof (add/remove inverse, counting, failure atomicity via one undo log) with failure-injection correspondence; GC clause tested",
    "DESIGN.md §5 C09, §10.2")

NOT_YET = "check not built yet in this round (planned in DESIGN.md §9); not claimed until it exists"


def main():
    checks = []
    for p in ALL:
        if p not in CLAIMED:
            continue
        text, note, tech, ref = CLAIMED[p]
        checks.append({
            "property_id": p,
            "quick_cmd": "/venv/bin/python harness/vcheck.py %s --tier quick" % p,
            "thorough_cmd": "/venv/bin/python harness/vcheck.py %s --tier thorough" % p,
            "evidence_file": "evidence/%s.json" % p,
            "replay_cmd_template": "/venv/bin/python harness/vcheck.py %s --replay {path}" % p,
            "engine": "lean4-proof+correspondence",
            "level_claimed": {"category": "proof", "text": text, "design_ref": ref},
            "level_note": note,
            "technique": tech,
        })
    m = {
        "version": 1,
        "setup_cmd": "cd lean && lake build",
        "hooks": {
            "guard": "ENTHOUGHT_TRAITS_VERIF",
            "enable": "no source hooks: checks copy /repo/traits to a scratch directory, compile ctraits.c there and "
                      "import only that copy (harness/build.py); ENTHOUGHT_TRAITS_VERIF=1 is set in the check process "
                      "but nothing in /repo reads it",
            "baseline_off_cmd": "cd /repo && /venv/bin/python -m pytest -ra -q -p no:cacheprovider --timeout=900 --continue-on-collection-errors",
            "source_commits": [],   # no guarded hooks; the unguarded `fix:` commits in /repo are listed in known_findings.json
            "add_only": True,
        },
        "engines": [{
            "name": "lean4-proof+correspondence",
            "path": "harness/vcheck.py",
            "serves_properties": sorted(CLAIMED),
            "kind_free_text": "Lean 4 library lean/TraitsVerif (models, property theorems, #print axioms audit) + Python "
                              "harness: scratch build of the working tree, translators regenerating Generated/*.lean, "
                              "line-protocol correspondence between model and implementation, statement-level oracle",
        }],
        "checks": checks,
        "not_applicable": [{"property_id": p, "reason": NOT_YET} for p in ALL if p not in CLAIMED],
        "notes": "See DESIGN.md. Exit 2 = harness timeout/infrastructure failure.",
    }
    with open(os.path.join(VERIF, "MANIFEST.json"), "w") as f:
        json.dump(m, f, indent=1)
        f.write("\n")
    # The library root imports the property modules of the claimed checks; the
    # line-protocol drivers (each defines its own `main`, so they cannot be
    # imported together) are separate build targets of `setup_cmd`.
    import importlib
    import sys
    sys.path.insert(0, os.path.join(VERIF, "harness"))
    mods, drivers = [], []
    for p in sorted(CLAIMED):
        pm = importlib.import_module("props." + p.lower())
        for mname in pm.PROPS_MODULES:
            if mname not in mods:
                mods.append(mname)
        for d in [getattr(pm, "DRIVER", None)] + list((getattr(pm, "DRIVERS", {}) or {}).values()):
            if d and d[:-5].replace("/", ".") not in drivers:
                drivers.append(d[:-5].replace("/", "."))
    with open(os.path.join(VERIF, "lean", "TraitsVerif.lean"), "w") as f:
        f.write("-- GENERATED by harness/mkmanifest.py: root of the `TraitsVerif` library.\n")
        for mname in mods:
            f.write("import %s\n" % mname)
    m["setup_cmd"] = "cd lean && lake build TraitsVerif " + " ".join(drivers)
    with open(os.path.join(VERIF, "MANIFEST.json"), "w") as f:
        json.dump(m, f, indent=1)
        f.write("\n")


if __name__ == "__main__":
    main()
