#!/usr/bin/env python3
"""Regenerates /verif/MANIFEST.json from the table below (keeps it valid at all times)."""
import json
import os

VERIF = os.path.dirname(os.path.dirname(os.path.abspath(__file__)))
ALL = ["C%02d" % i for i in range(1, 21)]

# property -> (level text, level note, technique, design ref)
CLAIMED = {
    "C05": (
        "Lean 4 theorems over a line-by-line model of TraitList (every mutator, _normalize_slice_or_index): refinement to the "
        "builtin-list model, failure atomicity, the replay law, removed-exactness and the index normal form, for lists of every "
        "length and every integer index / slice (unbounded, by induction and linear-arithmetic lemmas), lifted to all histories. "
        "The model is tied to the source twice: (1) by TRANSLATION — the source text of every TraitList mutator and of "
        "_normalize_slice_or_index / _removed_items is translated on every run into a deep-embedded Python subset "
        "(Model/PyL.lean, Generated/ListProg.lean) and the hand-written model is proved equal to its interpretation for every "
        "list, argument and validator (C05_step_is_source; C05_source_property states the property of the interpreted source), "
        "plus a translated mutator table; (2) by a correspondence check (exhaustive small scope + random histories, model and "
        "real code run on the same lines). A Python oracle evaluates the property statement on the real code to produce "
        "concrete replays.",
        "Trusted: Lean kernel (+leanchecker in thorough), axioms propext/Classical.choice/Quot.sound only; the hand model of "
        "CPython list/slice (validated against the builtin on every run); the harness. list.sort is a model parameter.",
        "Lean 4 proof (refinement + replay law by induction) over a model proved equal to the interpretation of the "
        "translated source, with model-code correspondence check",
        "DESIGN.md §5 C05, §10.2"),
}

CLAIMED["C04"] = (
    "Lean 4 theorems over a line-by-line model of TraitListObject (the length guard of every override + TraitList) and of "
    "List.validate: the guards compute the exact resulting length for every index/slice (C04_len_exact), the invariant "
    "'all elements are validator outputs and minlen <= len <= maxlen' is preserved by every mutator and established by "
    "whole-value assignment, for every validator, bound and history (induction); a rejected operation is TraitError and "
    "leaves the state; every length-changing mutator is guarded (decide over the translated method tables). Tied to the "
    "source by TRANSLATION (every TraitListObject override, with super() bound to the translated TraitList methods, is "
    "translated on every run and the model is proved equal to its interpretation: C04_step_is_source, C04_guard_is_source, "
    "C04_bound_is_source; C04_source_history is the every-reachable-state invariant of the interpreted source) and by "
    "correspondence on real HasTraits objects; nested List(List), Dict(K, List), Set, Dict traits are covered "
    "by the statement-level oracle stream and by the Dict/Set invariants of C06/C07.",
    "Trusted: Lean kernel, standard axioms only; Py.List model; harness; inner traits are abstract validators in the "
    "theorems (their own correctness is C01/C03). Nested containers: invariant proved per level, composition by the "
    "validator hypothesis; the nested stream is oracle-checked, not model-checked.",
    "Lean 4 proof (invariant by induction over operations) over a model proved equal to the interpretation of the "
    "translated source, with model-code correspondence check",
    "DESIGN.md §5 C04, §10.2")

CLAIMED["C06"] = (
    "Lean 4 theorems over a line-by-line model of TraitDict (every mutator, dict_event_factory, the notifier list called in "
    "order with shared dict objects): refinement to the builtin-dict model incl. insertion order, return values and exception "
    "classes (setdefault under the stated containment hypothesis, with a proved negation witness for finding F13), atomicity, "
    "the reconstruction law for the (removed, added, changed) triple, one/never-empty event, silence, the observer's merged "
    "view, and 'every notifier receives a faithful triple' for any notifier list; lifted to all histories by induction. "
    "The statement sequence of dict_event_factory is regenerated from the source by a translator on every run and proved equal "
    "to the modelled one (so removing the added.copy() line breaks a proof obligation); the source text of all 8 mutators is "
    "translated on every run (pylmap, Model/PyLMap.lean) and the model step is proved equal to its interpretation "
    "(C06_step_is_source, loops by induction). Correspondence: model and real TraitDict on the same histories.",
    "Trusted: Lean kernel, standard axioms; Py.Dict model of CPython dict (insertion-ordered association list); hashing/== of "
    "keys is structural in the model (1 == True == 1.0 collisions run on implementation + oracle only); translator dictevent; harness.",
    "Lean 4 proof (refinement + reconstruction law by induction) with translated factory body and model-code correspondence",
    "DESIGN.md §5 C06, §10.2")
CLAIMED["C07"] = (
    "Lean 4 theorems over a line-by-line model of TraitSet (all 13 mutators incl. the asymmetric validation of |=, ^= and "
    "symmetric_difference_update; copy / deepcopy / pickle): refinement to the builtin-set model up to permutation, atomicity, "
    "the delta law (removed ⊆ pre, added ∩ pre = ∅, (pre − removed) ∪ added = post, not both empty), silence, one event, copies "
    "(equal members, same validator, no notifiers, still validating); lifted to histories by induction. Hypotheses forced by the "
    "code are explicit and each has a proved negation witness and a known-finding entry (F24 ^= with an item present only after "
    "validation, pinned by an existing test; F25 deepcopy re-validates). The source text of all 13 mutators is translated on every "
    "run (pylmap) and the model step is proved equal to its interpretation (C07_step_is_source). Correspondence: model and real "
    "TraitSet on the same histories.",
    "Trusted: Lean kernel, standard axioms; Py.Set model (duplicate-free list up to Equiv); set.pop is given the popped member as a "
    "hint from the implementation run; iteration order of operands is not modelled (validators used have order-independent outcomes); harness.",
    "Lean 4 proof (refinement + delta law by induction) with model-code correspondence check",
    "DESIGN.md §5 C07, §10.2")
CLAIMED["C16"] = (
    "Lean 4 theorems over a model of the legacy ListenerItem chain (register/unregister, the active tables, handlers for link "
    "reassignment and list/dict item events, removal) on tree-shaped heaps: tree-shapedness is preserved by every allowed "
    "mutation, active(item k) = the objects at depth k along the name after any history (refinement invariant by induction), hence "
    "the legacy handler is called iff the changed object is currently reachable — the observe specification —, '.' links report "
    "intermediate changes and ':' links do not, removal empties every table. The one place where the code departs (in-place "
    "mutation of the FIRST link's container with a 3/4-argument handler is not reported, F60) is a stated exception with a proved "
    "negation witness. Correspondence: both real APIs (on_trait_change and observe) registered on the same generated trees and "
    "compared with the model and with Python reachability.",
    "Trusted: Lean kernel, standard axioms; the observe side enters as the reachability specification (tied by the differential "
    "of the two real APIs); ListenerParser is not modelled (names generated in both syntaxes from one AST); harness.",
    "Lean 4 proof (refinement invariant over histories) with differential correspondence of the two real APIs",
    "DESIGN.md §5 C16, §10.2")

CLAIMED["C12"] = (
    "Lean 4 theorems over a model of Property(observe=…) / cached_property (cache slot, observe handler popping the cache and "
    "calling trait_property_changed, lazy new value, restore with observers installed before values): the invariant "
    "'cache = none or cache = g(current heap)' is preserved by every history of mutations, reads, attach/detach, construction and "
    "copies (induction); every read returns g(heap); a cached getter runs at most once between two relevant changes (potential "
    "function); a change that alters g delivers exactly one notification with truthful old/new; a raising getter writes no cache "
    "entry. The observe machinery enters through the explicit interface assumptions ObserveSound / ObserveTight (what C08 "
    "establishes), each shown necessary by a proved negation witness, as is the observers-before-values order. The source of the "
    "eight functions/blocks and four call orders the model transcribes is regenerated by a translator on every run and must "
    "equal the text the model was written against (proof obligation). Correspondence: model and real classes on the same histories "
    "(original, unpickled, cloned, deep-copied objects).",
    "Trusted: Lean kernel, axioms propext/Quot.sound only; translator propstate; the firing relation of observe is a parameter "
    "(instantiated with the from-scratch specification; getter-call counts and notifications are compared with the real code on "
    "every run); DependsOnly is the user contract; harness. Findings F30 (sibling handler reads before invalidation), F10c-e, F31 are known findings.",
    "Lean 4 proof (cache invariant by induction over histories) with translated source tie and model-code correspondence",
    "DESIGN.md §5 C12, §10.2")

CLAIMED["C13"] = (
    "Lean 4 theorems over a model of name resolution (has_traits_getattro/setattro, get_trait, get_prefix_trait with its class-"
    "dictionary cache, __prefix_trait__, the hierarchy merge and longest-first sort of update_traits_class_dict, the access-policy "
    "handlers per trait kind, add_trait/remove_trait): governing trait = instance > class (own or inherited) > longest matching "
    "wildcard > class default for every name and hierarchy; the first match of the sorted list is a longest matching prefix for "
    "all names and all wildcard lists; cache coherence along histories; strict / private class rules; ReadOnly once, Constant, "
    "Event write-only, remove_trait restores — each along every history (induction). The sort key/reverse flag, match expression "
    "and dunder tests are regenerated from the source by a translator on every run and proved equal to the model's. Where the "
    "code departs from the universally quantified statement (dunder names, late subclass of an already-used class, stale "
    "__dict__ value after add_trait, multiple inheritance merge order, delegate shadow cache: F50-F56) the theorem carries the "
    "exact hypothesis, the full statement stays as a def, and a negation witness is proved.",
    "Trusted: Lean kernel, standard axioms; translator prefix; validators and type attributes are parameters; delegate access is "
    "opaque; Python's C3 MRO is computed by the oracle only; harness.",
    "Lean 4 proof (lookup order, longest-prefix, policy automata by induction over histories) with translated constants and correspondence",
    "DESIGN.md §5 C13, §10.2")

CLAIMED["C17"] = (
    "Lean 4 theorems over a transcription of AdaptationManager._adapt (offer buckets as register_offer builds them, applicable "
    "offers, the cmp_to_key ordering with CPython's list.sort for < 64 items, the priority queue keyed (adapters, MRO distance, "
    "counter) as a sorted list with a proved heap-equivalence, offer-not-in-path, arrival test, failing factories) and of the C "
    "validate_trait_adapt modes: identity, soundness of every returned chain (for arbitrary, even ordinal-dependent or raising "
    "factories), completeness (notFound iff no valid chain whose factories all succeed; determinism of factories is a stated "
    "hypothesis shown necessary by a witness), minimal adapter count, one-step specificity by MRO distance, default/"
    "AdaptationError, Supports/AdaptsTo modes, and termination (fuel sufficiency with an explicit measure). Departures of the "
    "code are explicit hypotheses with proved negation witnesses and known findings (F14 intransitive specificity comparison, "
    "F15 None adaptee, F16 bucket key collision). Correspondence: real AdaptationManager instances on generated hierarchies "
    "(single/multiple inheritance, ABC registration, Interfaces) vs the model, with a brute-force chain enumeration as oracle.",
    "Trusted: Lean kernel, standard axioms; issubclass/MRO tables come from CPython (sent as data, re-checked against the real "
    "classes); the list.sort and heapq models are validated by dedicated streams; lazy import_symbol of protocol names not modelled; harness.",
    "Lean 4 proof (queue invariant: soundness, completeness, minimality, termination) with model-code correspondence and brute-force oracle",
    "DESIGN.md §5 C17, §10.2")

CLAIMED["C19"] = (
    "No new behavioural model: Props/C19.lean collects, per callback site of the property's list, the atomicity theorem of the "
    "cluster that owns it, with the callback as an arbitrary partial function failing at an arbitrary call ordinal k — List traits "
    "(the k-th item validator raising e makes extend / += / slice assignment / whole-value assignment raise exactly e or the guard's "
    "TraitError; no effect; twin theorem: the outputs of everything executed after the failure are those of the same history without "
    "it), Dict and Set traits (no effect, no notifier called, failure causes; twin), custom scalar validator (C02_rejected_silent), "
    "default factory / _name_default (C10_default_raises: nothing stored, nobody called, next read retries), cached-property getter "
    "(C12_getter_raises), adapter factory (the exception is the factory's own; registry immutable), change handler "
    "(C02_handler_exception: the whole final state is that reached with handlers that never raise). In addition, because a failing "
    "step of a functional model carries no state by construction, the ORDER of effects on every control-flow path of every "
    "mutator of TraitList / TraitListObject / TraitDict / TraitSet is regenerated from the source by a translator on every run "
    "(validator calls V, guards G, the builtin mutation M, notification N; loops unrolled twice, lazy generators placed after M) and "
    "two theorems close the gap: every path is V*/G* M* N? (decide over the table — interleaving validation with mutation or "
    "notifying before mutating breaks this obligation), and for EVERY effect sequence in that order a failure at a validator or "
    "guard leaves the container unmutated and nobody notified, a failure of the builtin operation leaves nobody notified, and at "
    "most one notification is sent. For list, dict and set mutators the abstraction is backed by the full translation of the "
    "source (C19_list_source_no_effect, C19_list_source_kth_item_fails; C06/C07_source_atomic): whenever the interpreted source "
    "raises, the contents are as before and nothing was notified. Correspondence/oracle: systematic fault injection on the real code — the k-th user callback "
    "invocation of an operation raises TraitError/ValueError/AttributeError/RuntimeError — over List traits (also through the Lean "
    "model), nested List/Dict/Set traits, custom validators incl. Either/Tuple members, defaults, property getter/setter (also "
    "inside the dependency notification), adapter factories (also reached through Supports/AdaptsTo/Either traits), static / "
    "dynamic / observe change handlers; deep snapshot before/after, exception class, and a fault-free twin for the rest of the history.",
    "Trusted: Lean kernel, standard axioms; translator effects (AST reader, fails closed); that a builtin list/dict/set operation "
    "which raises leaves the container alone is CPython's contract; the twin comparison observes values, contents, events and "
    "exception classes only; registration rollback of observe is C09's subject (fix 4ea62e3); harness.",
    "Lean 4 proof (atomicity + twin theorems per cluster; translated effect order => atomicity) with fault-injection correspondence and twin oracle",
    "DESIGN.md §5 C19, §10.2")

CLAIMED["C08"] = (
    "Lean 4 theorems over a transcription of the observe machinery (heap of HasTraits instances and list/dict/set cells with their own "
    "identity, ObserverGraph with the orderless __eq__, _AddOrRemoveNotifier incl. the shared undo log of fix 4ea62e3, "
    "TraitEventNotifier reference counts, ObserverChangeNotifier maintainers, setattr_trait incl. the silent evaluation of a default as "
    "the old value, call_notifiers over a copied list, container notify over the live list) against a from-scratch specification "
    "(hookList / reach / specCnt): a registration that does not raise adds exactly the from-scratch hooks (reference count grows by "
    "reach), it raises iff the walk meets a failing iter_observables/iter_objects, after observe hooks equal the specification; the "
    "refinement invariant 'hooks = from-scratch hooks of the current heap' is preserved by trait assignment, default "
    "materialisation and list mutations incl. duplicates and sharing (C08_hooks_eq_reach_partial, _partial_list, "
    "_default_materialise_partial) under the no-self-reach hypothesis, hence the handler fires exactly once iff reachable "
    "(C08_fires_iff_reachable_partial), detached objects are silent, quiet links never deliver (full, no heap hypothesis), every event "
    "names the mutated observable. The full-strength statements are kept as defs and proved FALSE from the F10 history (a link "
    "re-pointed while its owner is reachable through it) by decide; F80 (a default evaluated silently on first assignment is never "
    "hooked) is a second known finding. Dict/set mutations, add_trait, container defaults and filtered nodes are covered by the "
    "correspondence only. Correspondence: pools of real objects, expressions over value/child/kids/byname/group/metadata, histories "
    "of mutations; after every step every object is probed and the notifier population per observable is compared white-box.",
    "Trusted: Lean kernel, standard axioms; no translator for this cluster (tie = correspondence incl. white-box counts + oracle); "
    "ObserverGraph.__eq__ is assumed structural among the subgraphs involved (eqStruct); dispatchers other than 'same' not modelled; harness.",
    "Lean 4 proof (refinement invariant hooks = reach on the assignment/list fragments; full statements refuted by witness) with white-box correspondence",
    "DESIGN.md §5 C08, §10.2")
CLAIMED["C09"] = (
    "Lean 4 theorems over the same model: removal right after a successful registration restores every count; n registrations add n "
    "times the items, m <= n removals never raise and leave n - m, n and n restore everything (counted, reversible); counts of "
    "different registrations add up independently; registering or removing at any position of the ledger moves the invariant, so "
    "interleavings with mutations are covered together with C08's fragments; one removal too many raises NotifierNotFound and leaves the "
    "hooks literally unchanged; FAILURE ATOMICITY AT FULL STRENGTH after fix 4ea62e3 (C09_failure_atomic, _observe for a whole "
    "observe() call incl. several graphs and compile errors, _any_call for the maintainers' calls): a raising registration or removal "
    "restores every count; nothing is delivered to a dead key and with all weak references dead a mutation delivers nothing, raises "
    "nothing and touches no hook. The GC clause ('registrations never keep the observed object or a bound-method handler's owner "
    "alive; after collection nothing raises or calls') is runtime behaviour: it is TESTED on the real code (weakref + gc.collect() "
    "at every point of generated histories, then probe), labelled as a test; the Lean side proves only C09_dead_is_mute. "
    "Correspondence: interleavings of observe / observe(remove=True) for several handlers and expressions with mutations; failure "
    "injection at every position of the walk (missing trait, non-container where a container is required).",
    "Trusted: Lean kernel, standard axioms; CPython reference counting / GC (the liveness clause is tested, not proved); harness.",
    "Lean 4 proof (add/remove inverse, counting, failure atomicity via one undo log) with failure-injection correspondence; GC clause tested",
    "DESIGN.md §5 C09, §10.2")

CLAIMED["C11"] = (
    "Lean 4 theorems over a transcription of the deferring-trait code paths (prefix classification and the four "
    "delegate_attr_name rules, get_delegate_pattern / _trait_delegate_name, getattr_delegate, the setattr_delegate walk with its "
    "100-step limit, assign/delete paths, base_trait, the delegate listener bookkeeping and the notification cascade): "
    "listenedName = targetName for all four prefix styles and all names (the lemma finding F5 falsified; witnesses show the stripped "
    "prefix breaks it), read-through in every reachable state, DelegatesTo never holds a local value and writes land on the "
    "delegate validated by its trait, PrototypedFrom link / local assignment / del re-links, delegate swap, chains up to the "
    "recursion limit (limit exceeded = DelegationError, nothing changed), hooks never fail (after fix bead785), notification of "
    "linked attributes exactly once on acyclic graphs and never for unlinked ones — all along every history (induction via one "
    "Effect relation). Full-strength clauses the code violates are kept as defs with proved refutations (F19 '*' chains with "
    "different __prefix__, F20 DelegatesTo through PrototypedFrom). Correspondence: generated class shapes x histories, model vs "
    "real code incl. ListenerItem.active and __listener_traits__ white-box state.",
    "Trusted: Lean kernel, standard axioms; no translator for this cluster (tie = correspondence + oracle); listener machinery "
    "abstracted to 'hooked on at most one object'; values are small ints; delegate graphs kept acyclic except the guarded cycle "
    "probe (cyclic read = RecursionError after fix ec4908f); harness.",
    "Lean 4 proof (Effect relation, invariants over histories) with model-code correspondence",
    "DESIGN.md §5 C11, §10.2")

CLAIMED["C02"] = (
    "Lean 4 theorems over a transcription of setattr_trait (changed seeded from the comparison mode, when the old value is "
    "fetched, default materialisation without notification, identity/equality comparison, TRAIT_SETATTR_ORIGINAL_VALUE, delete "
    "path), setattr_event, getattr_trait, call_notifiers (copied list, veto, no-notify) and the three wrapper layers "
    "(_change_accepted, ctrait_prevent_event): for every assignment history, comparison mode, handler mix, position and subset of "
    "raising handlers each handler's call log equals the specification filter realChanges written from the property text "
    "(C02_exactly_once_partial for traits that store the validated value — finding F22 for TRAIT_SETATTR_ORIGINAL_VALUE traits has a "
    "proved negation witness —, _observe, _event), truthful old/new, the three mechanisms see the same sequence (== / != "
    "consistency is a stated hypothesis with a necessity witness), rejected assignments and default reads are silent, and the "
    "final state does not depend on which handlers raise. Enum and flag values, the changed seed, the identity comparisons and the "
    "kind->handler tables are regenerated from the source by a translator and proved equal to the model's. Correspondence: real "
    "classes with the three mechanisms in all orders x modes x value pools (equal-not-identical, NaN, arrays, raising __eq__).",
    "Trusted: Lean kernel, standard axioms; translator enums; == / != of values enter as tables computed from the real objects; "
    "re-raising exception handlers, self-removing handlers, vetoes, trait_setq and raising post_setattr are modelled and compared but "
    "outside the theorems' hypotheses; re-entrant handlers, threads/dispatch variants, delegation and properties not modelled; harness.",
    "Lean 4 proof (handler logs = specification filter of the history) with translated constants and model-code correspondence",
    "DESIGN.md §5 C02, §10.2")
CLAIMED["C10"] = (
    "Lean 4 theorems over a transcription of default_value_for (all 11 default_value_type cases with an allocation counter), "
    "getattr_trait, TraitType.clone for subclass-overridden defaults, _name_default binding and instance-trait cloning "
    "(get_trait(..., 2)) in a world of classes and instances: first read returns and stores what default_value_for computes, the "
    "factory / _name_default runs at most once per (instance, name) over any history, later reads return the same object, no read "
    "reaches a handler, an operation on instance i leaves classes, other instances' records, defaults and call logs untouched "
    "(non-interference; isolation along histories), defaults of copy-promising kinds are fresh (C10_fresh_partial; the full "
    "statement is false for a list/dict default of Any overridden in a subclass — F9/F9b, upstream #1630 — with a proved "
    "witness). The default_value_for cases and clone sets are tied to the source by the translated enums.",
    "Trusted: Lean kernel, standard axioms; translator enums; containers are an id plus a multiset of elements; nested mutables "
    "inside Any([...]) templates are shared by design of the shallow copy; raising factories are retried (observed, tagged); harness.",
    "Lean 4 proof (non-interference and once-only by induction over histories) with translated constants and twin-run correspondence",
    "DESIGN.md §5 C10, §10.2")

CLAIMED["C03"] = (
    "Lean 4 theorems over three separately transcribed functions on a value lattice (bool/int/float subclasses, numpy scalars, "
    "objects with __index__/__float__/__complex__ returning or raising, NaN/inf/-0.0, huge ints, None, containers, classes, "
    "callables, modules): fastAlone (one arm per validate_trait_* C function), fastInCompound (one arm per case of "
    "validate_trait_complex — the duplication in C is reproduced on purpose) and pyValidate (one arm per Python validate method), "
    "plus descOf (the fast_validate tuples incl. TraitCompound.set_validate's flattening): the two C copies of every case agree "
    "for all descriptors and values, a compound is the first accepting alternative in the evaluation order set_validate builds, "
    "tuples are element-wise with input re-use iff unchanged, and fast = Python for every non-compound trait type and for all "
    "clean compound trees of any nesting (C03_agree_partial / _compound_partial). The full statement is kept as a def and refuted "
    "by proved witnesses, each a known finding (F11 tuple subclass exact type, F41/F42 coerce, F43a-c foreign exceptions in "
    "compound alternatives, F44, F49; F2 NaN in float ranges, F40 Callable(allow_none=False), F47 Instance(object) and None and F48 "
    "were repaired in /repo and the model follows the repaired code). validate_handlers[], the case labels "
    "of validate_trait_complex and _trait_set_validate, the ValidateTrait enum and the in_float_range comparisons are regenerated "
    "from the source on every run and proved equal to the model's tables. Correspondence: both real paths (ctrait.validate and "
    "handler.validate) vs both model functions on the full single-trait grid x value lattice and random compounds.",
    "Trusted: Lean kernel, standard axioms; translator validate_tables; Py.Val is a hand model of isinstance/==/hash/operator.index/"
    "PyFloat_AsDouble/int->double rounding, checked against CPython and numpy on every run; calling a type object, re.match, "
    "np.asarray, np.can_cast, adapt and user validator functions are parameters fed from the real calls (EnvOK hypotheses); harness.",
    "Lean 4 proof (agreement of three transcriptions, by cases and structural induction on compound nesting) with translated tables and correspondence",
    "DESIGN.md §5 C03, §10.2")
CLAIMED["C01"] = (
    "Lean 4 theorems: inDomain (the declared criteria written from the documentation, independently of both validators) and Conv "
    "(documented conversion) hold of whatever validate accepts — for Int…CBool, float and int Range with NaN and exclusive bounds, "
    "Enum, Map, Tuple, Instance in all adapt modes, Type, This, Callable, Module, String (all variants), PrefixList, PrefixMap, "
    "Array and the legacy handlers, at any nesting of Tuple/Either/Union/TraitCompound (C01_sound_partial; the full statement is "
    "refuted by the coerce witness, F42); a TraitError leaves every attribute untouched (C01_reject, _iff); any other exception "
    "leaves the state untouched and has one of the listed sources (the value's own conversion protocol, overflow, …; F45 BaseEnum "
    "witness); over every history of assignments every readable value of a declared attribute is in its domain (C01_readable) and "
    "shadow = map[value] (C01_mapped). Correspondence: real attribute assignment, constructor keyword and trait_set on a "
    "three-attribute object vs the model; oracle = an independent Python reference predicate per trait type.",
    "Trusted: as C03; regex matching and numpy casting are parameters fed from the real calls; defaults are C10's subject; the "
    "TraitError message naming the attribute is checked by the oracle only; harness.",
    "Lean 4 proof (soundness w.r.t. an independent domain predicate; invariant over assignment histories) with correspondence",
    "DESIGN.md §5 C01, §10.2")

CLAIMED["C15"] = (
    "Lean 4 theorems over a model of the observe mini-language (lexer incl. the contextual items-after-+ rule, an AST in which '*' "
    "followed by a connector is unrepresentable, a total recursive-descent parser with proved fuel sufficiency, render with "
    "arbitrary whitespace and redundant brackets, the compile functions of parsing.py/expression.py incl. the branch dedupe of fix "
    "4a0994c, graph equality, and an independent denotation written from the documentation): the grammar data regenerated from "
    "_dsl_grammar.lark on every run equals the model's (proof obligation), a token string is derivable iff it is the tokens of a "
    "tree, the parser accepts exactly the grammar language, every rendering of every tree parses back (unbounded depth/length), "
    "everything accepted is a rendering ('*' only terminal), compiled paths = documented denotation, the notify law, the four "
    "alternatives of items, spelling invariance (brackets, associativity, whitespace) so that removal by text matches "
    "registration by text, compilation is total (C15_accepts_all at full strength after the fix). F17 (the manual's '[a.*, b.c]' is "
    "rejected by the grammar) is a known finding. Correspondence: real parse/compile_str vs the model on ALL strings of up to 4 "
    "(quick) / 6 (thorough, 2.06 million) symbols of an 11-symbol alphabet plus random decorated derivations and near-misses; the "
    "oracle also registers and removes by equivalent spellings on real objects.",
    "Trusted: Lean kernel, standard axioms; translator grammar; the generated LALR tables are not modelled (tied by the exhaustive "
    "short-string correspondence); Python's \\w on non-ASCII is a parameter table; Lark's WS is taken from the generated parser's "
    "terminal table; commutativity of ',' is checked by correspondence/oracle only; harness.",
    "Lean 4 proof (parser = grammar both directions; compile = denotation; spelling invariance) with translated grammar and exhaustive short-string correspondence",
    "DESIGN.md §5 C15, §10.2")

CLAIMED["C20"] = (
    "Lean 4 theorems over a model of sync_trait (the __sync_trait__ tables as one insertion-ordered edge list, the lock tables, "
    "registration of the scalar and _items handlers as state, _sync_trait_modified and _sync_trait_items_modified after fixes "
    "7706111 and d1bf550, the weakref callback) in a world of N objects whose lists mutate through C05's TraitList.step behind "
    "C04's guard so that events are exactly C05's: the lock tables are empty after every command (induction over histories), the "
    "nested propagation terminates (budget independence; depth 2 for a pair or hub), scalar convergence, list convergence after every "
    "mutator incl. extended slices (the partner's operation is C05's replay of the event) under the decidable link-graph condition "
    "NoRevisit (discharged for pairs and hubs), at most one change and one notification per trait per assignment, one-way links, "
    "removal, partner death, only the object's own validator or list operation ever raises, and C20_converge_history: after every "
    "history of assignments, mutators, mutual link/unlink and object deaths on one mutual link both sides are equal while it is "
    "present. One full-strength statement is kept as a def with a proved refutation (F60 three lists linked in a cycle diverge); "
    "F6, F12, F61 (items handler registered only with the first partner) and F85 were repaired in /repo. Correspondence: two- and three-sided histories incl. "
    "gc.collect() at any point, model vs real code incl. lock tables and handler counts.",
    "Trusted: Lean kernel, standard axioms; Py.List/TraitList/guardLen shared with C05/C04; old != new is structural inequality of "
    "the harness values; the depth budget stands for CPython's recursion limit; garbage collection of a partner is real in the "
    "harness (gc.collect) and a `kill` command in the model — that a dead partner is really collected is tested, not proved; harness.",
    "Lean 4 proof (lock invariant and convergence by induction over histories, on top of C05's replay law) with model-code correspondence",
    "DESIGN.md §5 C20, §10.2")

CLAIMED["C14"] = (
    "Lean 4 theorems over a model of object persistence (getstate of non-transient traits, container __getstate__ dropping "
    "owner/trait/notifiers, setstate = re-assignment of every value through validation so that nested containers are re-wrapped "
    "and re-bound, copy_traits / clone_traits / __deepcopy__ with per-trait copy metadata, ReadOnly/transient kinds) over nested "
    "container values: a pickle round trip of any well-formed object is value-equal on persisted traits with transient traits "
    "absent (structural induction on nested values), every container at a declared position at every depth is a new Trait*Object "
    "bound to the copy, no node identity is shared under pickle / deepcopy (full strength after fix 50c4e1f) / deep clone and "
    "exactly the sharing ref/shallow metadata ask for otherwise, the copy is a live state (invalid items rejected at any path, "
    "owner notified), ReadOnly stays written; CTrait state: for every trait in the inductive closure of the constructing API calls "
    "setstateIdx (getstateIdx t) = t, resting on table coverage proved by decide over the C handler tables regenerated from "
    "ctraits.c on every run (reverting fix ad5fa01 breaks this obligation and crashes the subprocess probe). Clauses the code "
    "violated were repaired in /repo (F1, F3, F70-F73) and are proved at full strength; F92, F92b, F93 are known findings; the main and "
    "the deferred if/elif chain of copy_traits are translated on every run and proved equal to the modelled one (C14_copy_chains_agree). "
    "Correspondence: objects after arbitrary container histories x pickle protocols 0-5, copy, deepcopy, clone modes, per-trait "
    "metadata; Instance graphs and CTrait round trips of every trait type in a crash-isolated subprocess.",
    "Trusted: Lean kernel, standard axioms; translator ctables; pickle/copy drivers and Instance graphs are modelled as leaves and "
    "covered by oracle-only graph cases; leaf validators are parameters (Idem, CopyStable, WFObj = the invariants C01/C04 "
    "establish); hostile __setstate__ tuples excluded; harness.",
    "Lean 4 proof (round trip, re-binding, no sharing by structural induction; table coverage by decide over translated C tables) with correspondence",
    "DESIGN.md §5 C14, §10.2")
CLAIMED["C18"] = (
    "PARTIAL BY NATURE. What a Lean model can carry is proved: (a) table-index safety over the C handler tables, guards and "
    "constants regenerated from ctraits.c on every run — func_index terminates inside the array for every function assignable to "
    "a field, getstate/setstate indices in bounds, all six guarded index variables in bounds and non-NULL, default_value_type "
    "guard covers every case that subscripts the default tuple, state tuple layout agrees between getstate and setstate; (b) a "
    "reference ledger for attribute get/set: a rejected assignment or a read whose factory raises leaves held counts unchanged, a "
    "success changes them by exactly the slots written, untouched objects keep their count, exact after fix f934ab1. The "
    "correspondence compares sys.getrefcount deltas of every value, name and object passed in around each real operation with the "
    "ledger. What it cannot carry — out-of-bounds access, use-after-free, undefined behaviour — is runtime truth: the thorough "
    "tier runs ~4000 generated API programs (re-entrant handlers, callbacks raising at each ordinal, add/remove trait, pickling, "
    "gc at every point) in a subprocess against a clang-14 ASan+UBSan build of the extension, the quick tier fewer programs on the "
    "normal build watching for crashes; a report or crash is a violation with the program as replay. That tier is failing-input "
    "search, not proof, and is labelled so in the evidence. Also proved over translated facts: ownership of every stolen reference at "
    "PyTuple/PyList_SET_ITEM sites, dealloc untracks first, tuple-rebuild exactness, the dispatch snapshot of call_notifiers and the "
    "Raw ledger of aliased raw CTrait calls. The defects these streams found (F3, F21, F74-F79b: NULL dereferences through raw "
    "CTrait(kind) objects, release-before-store, overwrite-without-release) were repaired in /repo.",
    "Trusted: Lean kernel, standard axioms; translator ctables (regex reader, fails closed); ledger scope is TraitKind.trait with "
    "non re-entrant handlers; tuple-shape agreement between _trait_set_validate cases and each validate_* function is exercised "
    "only under the sanitizer; no allocation-failure injection; hostile __setstate__ tuples excluded; the sanitizer tier is search; harness.",
    "Lean 4 proof (table-index safety by decide over translated C tables; reference ledger) + refcount correspondence; sanitizer runs as failing-input search",
    "DESIGN.md §5 C18, §10.2")


# Session 3: deep-embedding source ties added to clusters whose tie had been the correspondence only.
# property -> (sentence appended to the level text, technique)
SOURCE_TIES = {
    "C04": ("SESSION 3: the object-level gates are tied too: TraitListObject._item_validator / _validate_length / notifier and the dict / set "
            "counterparts are translated (harness/translate/pylobj.py, Model/PyLObj.lean) and proved equal to the model "
            "(C04_item_validator_is_source, C04_notifier_gate_is_source, C04_trait_value_validates, C04_items_event_gate); the list "
            "constructors are interpreted programs (harness/translate/ctorprog.py: C04_init_is_source — guard before validation, "
            "'established by whole-value assignment' read off the source); containers declared items=False, index-like objects as "
            "indices and an exhaustive gate stream (og:) are generated.",
            "Lean 4 proof (invariant by induction over operations) over a model proved equal to the interpretation of the translated "
            "source (mutators, guards, object-level validators and gates, constructors), with model-code correspondence check"),
    "C05": ("SESSION 3: TraitList.__init__ is an interpreted program (C05_init_is_source: private copy of the notifier list); copy / "
            "pickle methods tied as normalised text (C05_copy_source); PyL tracks aliases of the live list, so an event part that is the "
            "list itself breaks C05_step_is_source; non-reflexive items (NaN, __eq__ always False) and non-int *= operands are generated.",
            "Lean 4 proof (refinement + replay law by induction) over a model proved equal to the interpretation of the translated source "
            "(mutators, helpers, constructor), with model-code correspondence check"),
    "C06": ("SESSION 3: TraitDictObject._key_validator / _value_validator / notifier translated and tied (C06_validators_are_source, "
            "C06_notifier_gate_is_source, C06_trait_value_validates: items=False still validates); constructor and copy methods tied as "
            "normalised text; duck-typed mapping arguments against the builtin dict (F115 known).",
            "Lean 4 proof (refinement + reconstruction law by induction) over a model proved equal to the interpretation of the translated "
            "source, with translated factory body and model-code correspondence"),
    "C07": ("SESSION 3: TraitSetObject.notifier / _validator tied in the abstract-self space (C07_notifier_gate_is_source, "
            "C07_items_event_gate); copy methods tied as normalised text (C07_copy_is_source).",
            "Lean 4 proof (refinement + delta law by induction) over a model proved equal to the interpretation of the translated source, "
            "with model-code correspondence check"),
    "C01": ("SOURCE TIE (session 3): C01_sound_source states soundness (inDomain and Conv of whatever is accepted) of the INTERPRETED C "
            "validators: the source text of every validate_trait_* function and helper of ctraits.c is translated on every run "
            "(harness/translate/cvalidators.py -> Generated/CValidators.lean, language Model/CSrc.lean) and proved equal to the model "
            "(see C03). The Python validate methods stay tied by correspondence. Dynamic Enum / Range histories that change the governing "
            "trait between assignment and read are generated; F101-F103 (reads of a dynamic Range) are known findings.",
            "Lean 4 proof (soundness w.r.t. an independent domain predicate; invariant over assignment histories) over C validators proved "
            "equal to the interpretation of the translated source, with correspondence"),
    "C03": ("SOURCE TIE (session 3): the source text of all 17 validate_trait_* functions, validate_trait_complex (loop by induction, one "
            "lemma per switch case) and their helpers is translated on every run (cvalidators / Model/CSrc.lean, total CPS interpreter) and "
            "fastAlone / fastInCompound / fastComplex are proved equal to the interpretation for every descriptor and value "
            "(C03_fast_is_source, C03_compound_case_is_source, C03_copies_agree_source, C03_source_agrees_python_partial; hypotheses "
            "AdaptSome, F49 as entryOk, and TupleCheckSpec for Tuple descriptors, whose helper is interpreted and compared at run time by "
            "the driver but not proved). The Python validate methods stay tied by correspondence.",
            "Lean 4 proof (agreement of three transcriptions, by cases and structural induction on compound nesting) with the two C "
            "transcriptions proved equal to the interpretation of the translated C source, translated tables and correspondence"),
    "C08": ("SOURCE TIE (session 3): the source of _observe.py (add_or_remove_notifiers, _AddOrRemoveNotifier, the shared undo log), "
            "apply_observers and of the notifier add_to / remove_from / equals and ObserverGraph.__eq__ / __hash__ is translated on every "
            "run (harness/translate/obsl.py, notl.py -> Generated/ObsProg.lean, NotifierProg.lean; languages Model/ObsL.lean, NotL.lean) "
            "and the registration the theorems speak about is proved to be its interpretation (C08_registration_is_source, "
            "C08_add_spec_source, C08_dedup_is_source). Set and dict mutations, add_trait and List/Dict/Set defaults are now under the "
            "refinement invariant (C08_hooks_eq_reach_partial_set / _dict / _add_trait, C08_default_materialise_container_partial). "
            "F99 (del + re-materialised default hooked twice) is a further known finding.",
            "Lean 4 proof (refinement invariant hooks = reach on the assignment / list / set / dict / add_trait / default fragments; full "
            "statements refuted by witness) over a registration proved equal to the interpretation of the translated source, with "
            "white-box correspondence"),
    "C09": ("SOURCE TIE (session 3): C09_walk_is_source, C09_register_is_source, C09_apply_observers_is_source, C09_refcount_is_source, "
            "C09_maintainer_list_is_source, C09_equals_is_source prove the model's walk / addRemove / applyObservers / reference counting / "
            "equality equal to the interpretation of the translated _observe.py and notifier sources (obsl, notl); the failure-atomic, "
            "reversible, counted and one-removal-too-many clauses are restated about the interpreter's result (C09_*_source). "
            "Decorator-form observers on multiple-inheritance class shapes are generated (F110 known).",
            "Lean 4 proof (add/remove inverse, counting, failure atomicity via one undo log) over a model proved equal to the "
            "interpretation of the translated source, with failure-injection correspondence; GC clause tested"),
    "C12": ("SOURCE TIE (session 3): the handler of _create_property_observe_state, cached_property and the C body of "
            "trait_property_changed are translated on every run (harness/translate/propsrc.py -> Generated/PropertyProg.lean, language "
            "Model/PropL.lean); C12_step_is_source proves readProp / tpc / handlerObserve (and the return code) equal to the "
            "interpretation and C12_never_stale_source restates never-stale on the interpreted source. Every listener kind (static, "
            "_anytrait_changed, by name, name-less) is modelled; F98 is a further known finding.",
            "Lean 4 proof (cache invariant under the interface assumptions C08 provides) over step functions proved equal to the "
            "interpretation of the translated source, with correspondence"),
    "C13": ("SOURCE TIE (session 3): the C source of has_traits_getattro / setattro, get_trait, get_prefix_trait, setattr_python / "
            "disallow / readonly / constant, getattr_event / disallow / constant and the Python source of __prefix_trait__, add_trait, "
            "remove_trait are translated on every run (harness/translate/resolve_c.py, resolve_py.py -> Generated/ResolveC.lean, "
            "ResolvePy.lean; language Model/ResL.lean) and the model's lookup, cache, policy and add/remove functions are proved equal to "
            "the interpretation for NULL and empty dictionaries alike (C13_lookup_is_source, C13_step_is_source, C13_policy_is_source, "
            "C13_prefix_trait_is_source, C13_get_prefix_trait_is_source, C13_get_trait_*_is_source, C13_add_remove_is_source). The tie "
            "exposed F106 (repaired in /repo 80abfdf).",
            "Lean 4 proof (lookup order, longest prefix, cache coherence, policy automata) over a model proved equal to the interpretation "
            "of the translated source, with correspondence"),
    "C14": ("SOURCE TIE (session 3): the whole functions __getstate__, __reduce_ex__, __setstate__, copy_traits, clone_traits are "
            "translated on every run (harness/translate/pypersist.py -> Generated/PersistProg.lean, language Model/PyPersist.lean); "
            "C14_getstate_is_source, C14_setstate_is_source, C14_copy_is_source, C14_clone_is_source prove the model equal to the "
            "interpretation (objects without deferred traits), life-cycle call order included.",
            "Lean 4 proof (round trip, re-binding, no sharing by structural induction; table coverage by decide over translated C tables) "
            "over model functions proved equal to the interpretation of the translated source, with correspondence"),
    "C15": ("SOURCE TIE (session 3): the COMPILER is the interpreted source: parsing.py's handlers, dispatch dict, parse / compile_str "
            "and expression.py's combinators, constructors and _create_graphs are translated on every run (harness/translate/dslprog.py -> "
            "Generated/DslProg.lean, language Model/DslPy.lean) and toExpr / create / compileChars are proved equal to the interpretation "
            "for every tree, expression and text (C15_toExpr_is_source, C15_create_is_source, C15_compile_expr_is_source, "
            "C15_compile_is_source); C15_parser_tables_are_grammar proves the rules and terminals embedded in _generated_parser.py (what "
            "actually runs) equal to _dsl_grammar.lark. A long-expression stream (chains / nestings of 60-300 elements) is compared too.",
            "Lean 4 proof (parser = grammar both directions; compile = denotation; spelling invariance) with the compiler proved equal to "
            "the interpretation of the translated source, translated grammar and parser tables, and exhaustive short-string correspondence"),
    "C18": ("SESSION 3: harness/translate/crefpaths.py extracts the reference events (INCREF / DECREF / XDECREF / new / borrowed / stolen) "
            "along every control-flow path of 36 C functions of the attribute get/set path (348 paths, loops unrolled 0/1/2 times, fails "
            "closed) and C18_paths_balanced proves by decide that every path is balanced; harness/translate/ctraverse.py extracts the "
            "tp_traverse / tp_clear / dealloc facts (Props/C18GC.lean: each owned field visited and cleared exactly once, nothing else "
            "visited; raw setters validate before they store). Runtime families: gc.get_referents multisets, frame-local classes with "
            "cyclic garbage, rejected raw CTrait setter calls followed by use, introspection on failing delegate chains. The path analysis now "
            "covers 134 of the 153 function definitions (C18_paths_unread pins the rest); a second analysis (crefborrows) flags values borrowed "
            "from a struct field and used after a call that can run arbitrary code (C18_paths_no_stale_borrow with a named exception list; "
            "F129/F136 confirmed crash known). The defects found (F100-*, F107-F109, F120-F125) were repaired in /repo.",
            "Lean 4 proof (table-index safety, reference ledger, per-path reference balance and GC-slot exactness by decide over translated C "
            "facts) + refcount correspondence; sanitizer, GC and crash-isolated runs as failing-input search"),
    "C17": ("SOURCE TIE (session 3): the source text of _adapt, _get_applicable_offers, the edge comparator, provides_protocol and "
            "mro_distance_to_protocol is translated on every run (harness/translate/pyadapt.py -> Generated/AdaptProg.lean, language "
            "Model/PyA.lean) and the model's search is proved equal to its interpretation for every registry, factory table, adaptee type "
            "and target (C17_search_is_source; C17_source_complete, C17_source_sound_minimal state completeness, soundness and "
            "minimality of the interpreted source).",
            "Lean 4 proof (soundness, completeness, minimality of the queue search) over a model proved equal to the interpretation of "
            "the translated source, with model-code correspondence against brute force"),
    "C20": ("SOURCE TIE (session 3): the source text of _sync_trait_modified and _sync_trait_items_modified is translated on every run "
            "(harness/translate/syncprog.py -> Generated/SyncProg.lean, language Model/PyLSync.lean); C20_handlers_are_source, "
            "C20_step_is_source and C20_model_is_source prove the model's handlers and cascade equal to the interpretation, incl. a "
            "partner dying during a propagation (F97/F97b found by that stream, repaired in /repo 8e10b05; F104 repaired 78fd598). sync_trait "
            "itself (add and remove paths, mutual=, the reverse call) and _is_list_trait are translated too (synclink / PyLLink: "
            "C20_link_is_source, C20_unlink_is_source, C20_commands_are_model); the weakref callback is pinned by an AST tripwire only.",
            "Lean 4 proof (lock invariant and convergence by induction over histories, on top of C05's replay law) over handlers proved "
            "equal to the interpretation of the translated source, with model-code correspondence"),
    "C02": ("SOURCE TIE (session 3): the C source of setattr_trait (all paths, segment lemmas), setattr_event, getattr_trait, call_notifiers "
            "(loop lemmas; C02_dispatch_snapshot_source states the snapshot property), has_notifiers and has_traits_getattro/setattro is "
            "translated on every run (harness/translate/cattr.py -> Generated/AttrProg.lean, language Model/MiniC.lean) and the model "
            "functions are proved equal to the interpretation (C02_*_is_source; no digest tripwire is left); the Python wrapper layer "
            "traits/trait_notifiers.py (_change_accepted, ctrait_prevent_event, the static / dynamic / observe wrappers' __call__ and "
            "dispatch) is translated too (harness/translate/pywrap.py, Model/PyW.lean: C02_wrappers_are_source; not covered: argument-count "
            "adaptation, equals, dead-owner removal, the Extended wrapper).",
            "Lean 4 proof (handler logs = specification filter of the history) over model functions proved equal to the interpretation of "
            "the translated C and Python source, with translated constants and model-code correspondence"),
    "C10": ("SOURCE TIE (session 3): the C source of default_value_for (all 11 kinds) and getattr_trait is translated on every run "
            "(cattr / MiniC) and the model is proved equal to the interpretation (C10_default_is_source, C10_getattr_is_source).",
            "Lean 4 proof (non-interference and once-only by induction over histories) over model functions proved equal to the "
            "interpretation of the translated C source, with translated constants and twin-run correspondence"),
    "C11": ("SOURCE TIE (session 3): the C source of delegate_attr_name_*, getattr_delegate and setattr_delegate (loop by induction) and "
            "the Python source of Delegate.__init__, get_delegate_pattern, _trait_delegate_name and _remove_trait_delegate_listener are "
            "translated on every run (harness/translate/delegsrc.py -> Generated/DelegSrc.lean, Model/DelegSrc.lean) and the model's "
            "attrName / read / setDefer / step / mkDelegate / listenedName / unlink / relink are proved equal to the interpretation "
            "(C11_*_is_source).",
            "Lean 4 proof (Effect relation, invariants over histories) over model functions proved equal to the interpretation of the "
            "translated source, with model-code correspondence"),
    "C16": ("SOURCE TIE (session 3): the source of ListenerItem.register / unregister, _register_simple / _list (= _set) / _dict and the "
            "five re-registration handle_* methods is translated on every run (harness/translate/legacysrc.py -> "
            "Generated/LegacyProg.lean, language Model/LisL.lean); C16_register_is_source, C16_handle_is_source and the handler / guard / "
            "deferred / dst tables prove the model equal to the interpretation; Set links and mutations of detached containers are in "
            "the model. ListenerParser and ListenerGroup are tied by correspondence.",
            "Lean 4 proof (active sets = reachability on tree-shaped heaps, by induction) over a model proved equal to the interpretation "
            "of the translated source, with differential correspondence of the two real APIs"),
}

NOT_YET = "check not built yet in this round (planned in DESIGN.md §9); not claimed until it exists"


def main():
    checks = []
    for p in ALL:
        if p not in CLAIMED:
            continue
        text, note, tech, ref = CLAIMED[p]
        if p in SOURCE_TIES:
            text, tech = text + " " + SOURCE_TIES[p][0], SOURCE_TIES[p][1]
        checks.append({
            "property_id": p,
            "quick_cmd": "/venv/bin/python harness/vcheck.py %s --tier quick" % p,
            "thorough_cmd": "/venv/bin/python harness/vcheck.py %s --tier thorough" % p,
            "evidence_file": "evidence/%s.json" % p,
            "replay_cmd_template": "/venv/bin/python harness/vcheck.py %s --replay {path}" % p,
            "engine": "lean4-proof+correspondence",
            "level_claimed": {"category": "proof", "text": text, "design_ref": ref},
            "level_note": note,
            "technique": tech,
        })
    m = {
        "version": 1,
        "setup_cmd": "cd lean && lake build",
        "hooks": {
            "guard": "ENTHOUGHT_TRAITS_VERIF",
            "enable": "no source hooks: checks copy /repo/traits to a scratch directory, compile ctraits.c there and "
                      "import only that copy (harness/build.py); ENTHOUGHT_TRAITS_VERIF=1 is set in the check process "
                      "but nothing in /repo reads it",
            "baseline_off_cmd": "cd /repo && /venv/bin/python -m pytest -ra -q -p no:cacheprovider --timeout=900 --continue-on-collection-errors",
            "source_commits": [],   # no guarded hooks; the unguarded `fix:` commits in /repo are listed in known_findings.json
            "add_only": True,
        },
        "engines": [{
            "name": "lean4-proof+correspondence",
            "path": "harness/vcheck.py",
            "serves_properties": sorted(CLAIMED),
            "kind_free_text": "Lean 4 library lean/TraitsVerif (models, property theorems, #print axioms audit) + Python "
                              "harness: scratch build of the working tree, translators regenerating Generated/*.lean, "
                              "line-protocol correspondence between model and implementation, statement-level oracle",
        }],
        "checks": checks,
        "not_applicable": [{"property_id": p, "reason": NOT_YET} for p in ALL if p not in CLAIMED],
        "notes": "See DESIGN.md. Exit 2 = harness timeout/infrastructure failure.",
    }
    with open(os.path.join(VERIF, "MANIFEST.json"), "w") as f:
        json.dump(m, f, indent=1)
        f.write("\n")
    # The library root imports the property modules of the claimed checks; the
    # line-protocol drivers (each defines its own `main`, so they cannot be
    # imported together) are separate build targets of `setup_cmd`.
    import importlib
    import sys
    sys.path.insert(0, os.path.join(VERIF, "harness"))
    mods, drivers = [], []
    for p in sorted(CLAIMED):
        pm = importlib.import_module("props." + p.lower())
        for mname in pm.PROPS_MODULES:
            if mname not in mods:
                mods.append(mname)
        for d in [getattr(pm, "DRIVER", None)] + list((getattr(pm, "DRIVERS", {}) or {}).values()):
            if d and d[:-5].replace("/", ".") not in drivers:
                drivers.append(d[:-5].replace("/", "."))
    with open(os.path.join(VERIF, "lean", "TraitsVerif.lean"), "w") as f:
        f.write("-- GENERATED by harness/mkmanifest.py: root of the `TraitsVerif` library.\n")
        for mname in mods:
            f.write("import %s\n" % mname)
    m["setup_cmd"] = "cd lean && lake build TraitsVerif " + " ".join(drivers)
    with open(os.path.join(VERIF, "MANIFEST.json"), "w") as f:
        json.dump(m, f, indent=1)
        f.write("\n")


if __name__ == "__main__":
    main()
