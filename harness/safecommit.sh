#!/bin/bash
# Commit /verif only if the registered setup_cmd builds (sub-sessions may be mid-edit).
cd /verif || exit 1
/venv/bin/python harness/regen_generated.py || exit 1   # committed Generated/*.lean = translation of /repo's working tree
python3 harness/mkmanifest.py || exit 1
python3 harness/mkdesigntables.py || exit 1
cmd=$(python3 -c "import json;print(json.load(open('MANIFEST.json'))['setup_cmd'])")
if (eval "$cmd") > /tmp/safecommit.log 2>&1; then
  /venv/bin/python harness/mkaxioms.py > /dev/null 2>&1   # AXIOMS.md: every property theorem with its axioms
  git add -A && git commit -qm "$1" && echo "committed: $1"
else
  echo "BUILD FAILED - not committed"; grep -E "error" /tmp/safecommit.log | head -5
fi
