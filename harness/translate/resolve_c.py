"""Translator for C13: the name-resolution functions of traits/ctraits.c as terms of the deep-embedded language
ResL (lean/TraitsVerif/Model/ResL.lean).

Reads the *source text* of each function in FUNCS with a small tokenizer + recursive-descent parser for the C subset
those functions are written in:

  statements   declarations (with or without initialiser), `if (...) ... [else ...]`, `return [e];`, expression
               statements, blocks.  `for` / `while` / `do` / `switch` / `goto` / labels are emitted as
               `Stmt.opaque "<text>"` (the interpreter is stuck on them, so they may only occur on paths the model
               proves unreachable, e.g. under `trait->notifiers != NULL`).
  expressions  assignment (to a local or to `e->field`), `||`, `&&`, `==` `!=` `<` `<=` `>` `>=`, `!`, unary `-` on
               literals, casts (dropped), calls, calls through `trait->getattr` / `trait->setattr`, `e->field`,
               identifiers, integer and string literals, NULL.
  dropped      reference counting (Py_INCREF / Py_DECREF / Py_XINCREF / Py_XDECREF / Py_CLEAR) and `assert(...)`;
               `trait_clone(x, e);` is read as `x = trait_clone_of(e)`.

Fails closed: an identifier, field, callee or token that is not in the closed vocabularies below raises (the engine
then emits `theorem translator_failed : False`), except unknown *callees*, which become `Fn.unknown "<name>"`
(stuck).  Also emits the first nine entries of `getattr_handlers` / `setattr_handlers` (one per TraitKind)."""
import os
import re

TARGET = "ResolveC.lean"

FUNCS = ["get_prefix_trait", "has_traits_setattro", "has_traits_getattro", "get_trait", "_has_traits_trait",
         "setattr_python", "setattr_disallow", "setattr_readonly", "setattr_constant",
         "getattr_event", "getattr_disallow", "getattr_constant",
         "invalid_attribute_error", "unknown_attribute_error", "set_readonly_error", "delete_readonly_error",
         "set_disallow_error"]

TYPES = {"PyObject", "PyDictObject", "PyListObject", "trait_object", "has_traits_object", "int", "Py_ssize_t",
         "void", "char", "unsigned", "long", "static", "const"}
VARS = {"obj", "name", "value", "is_set", "instance", "trait", "itrait", "dict", "result", "rc", "itrait_dict",
        "notifiers", "inotifiers", "item", "traito", "traitd", "n", "i", "args", "fmt",
        "delegate", "temp_delegate", "daname", "daname2"}
FIELDS = {"itrait_dict", "ctrait_dict", "obj_dict", "notifiers", "default_value", "getattr", "setattr", "tp_name",
          "delegate_attr_name", "delegate_name"}
GLOBALS = {
    "NULL": ".null", "Py_None": ".none", "Undefined": "(.val .undef)", "trait_added": ".traitAdded",
    "TraitError": "(.exc .traitError)", "PyExc_AttributeError": "(.exc .attributeError)",
    "PyExc_KeyError": "(.exc .keyError)", "PyExc_TypeError": "(.exc .typeError)",
    "DelegationError": "(.exc .other)", "ctrait_type": ".ghost",
}
FNS = {"dict_getitem", "PyDict_GetItem", "PyDict_SetItem", "PyDict_DelItem", "PyDict_New", "PyObject_GenericGetAttr",
       "PyObject_GenericSetAttr", "PyErr_ExceptionMatches", "PyErr_Clear", "PyErr_Format", "PyErr_SetObject",
       "PyUnicode_Check", "PyObject_CallMethod", "PyType_GenericAlloc", "Py_TYPE",
       "get_trait", "get_prefix_trait", "has_traits_setattro", "has_traits_getattro", "setattr_python",
       "setattr_disallow", "setattr_readonly", "setattr_constant", "getattr_event", "getattr_disallow",
       "getattr_constant", "invalid_attribute_error", "unknown_attribute_error", "set_readonly_error",
       "delete_readonly_error", "set_disallow_error"}
DROPPED = {"Py_INCREF", "Py_DECREF", "Py_XINCREF", "Py_XDECREF", "Py_CLEAR", "assert"}
OPAQUE_KW = {"for", "while", "do", "switch", "goto"}
LEAN_VAR = {"instance": "instance_"}
LEAN_FUN = {"_has_traits_trait": "has_traits_trait"}

# `f(obj, args)` whose body starts with this statement is read as `f(obj, name, instance)`: the trusted reading of
# PyArg_ParseTuple(args, "Oi", &name, &instance).  Any other use of `&` is unreadable (the reader raises).
PARSE_OI = re.compile(r'if\s*\(\s*!\s*PyArg_ParseTuple\(\s*args\s*,\s*"Oi"\s*,\s*&name\s*,\s*&instance\s*\)\s*\)\s*'
                      r'\{\s*return\s+NULL\s*;\s*\}')

TOKEN = re.compile(r"""
    (?P<ws>\s+)
  | (?P<str>"(?:[^"\\]|\\.)*")
  | (?P<num>\d+)
  | (?P<id>[A-Za-z_]\w*)
  | (?P<op>->|==|!=|<=|>=|&&|\|\||\+\+|--|[(){};,=<>!*\-\[\]+&?:.%/|^~])
""", re.X)


class Unreadable(Exception):
    pass


def strip_comments(src):
    return re.sub(r"/\*.*?\*/", lambda m: re.sub(r"[^\n]", " ", m.group(0)), src, flags=re.S)


def tokenize(text):
    out, pos = [], 0
    while pos < len(text):
        m = TOKEN.match(text, pos)
        if m is None:
            raise Unreadable("cannot tokenize at %r" % text[pos:pos + 30])
        pos = m.end()
        k = m.lastgroup
        if k == "ws":
            continue
        if k == "str" and out and out[-1][0] == "str":           # adjacent literals concatenate
            out[-1] = ("str", out[-1][1][:-1] + m.group(0)[1:])
        else:
            out.append((k, m.group(0)))
    return out


def find_function(src, name):
    """(params, body text) of the definition `name(...) {...}` whose name starts a line (prototypes are skipped)."""
    for m in re.finditer(r"^%s\(" % re.escape(name), src, flags=re.M):
        close = src.index(")", m.end())
        if not src[close + 1:].lstrip().startswith("{"):
            continue
        start = src.index("{", close)
        depth, i = 0, start
        string = re.compile(r'"(?:[^"\\]|\\.)*"')
        while True:
            ch = src[i]
            if ch == '"':
                i = string.match(src, i).end()
                continue
            if ch == "{":
                depth += 1
            elif ch == "}":
                depth -= 1
                if depth == 0:
                    break
            i += 1
        params = []
        for p in src[m.end():close].split(","):
            ids = re.findall(r"[A-Za-z_]\w*", p)
            if ids and ids != ["void"]:
                params.append(ids[-1])
        return params, src[start:i + 1]
    raise Unreadable("function %s not found" % name)


def lean_name_lit(s):
    """A C/Python string literal as a V: short identifier-like strings are names, anything else is not looked at."""
    body = s[1:-1]
    if re.fullmatch(r"[A-Za-z_()*@]*", body) and len(body) <= 24:
        return "(.name [%s])" % ", ".join("'%s'" % c for c in body)
    return ".ghost"


def var(v):
    if v not in VARS:
        raise Unreadable("unknown identifier %r" % v)
    return "(.var .%s)" % LEAN_VAR.get(v, v)


class Parser:
    def __init__(self, toks, fname):
        self.t, self.i, self.fname = toks, 0, fname

    def peek(self, k=0):
        return self.t[self.i + k] if self.i + k < len(self.t) else ("eof", "")

    def next(self):
        tok = self.peek()
        self.i += 1
        return tok

    def expect(self, val):
        tok = self.next()
        if tok[1] != val:
            raise Unreadable("%s: expected %r, found %r" % (self.fname, val, tok[1]))

    # ------------------------------------------------------------ statements
    def block(self):
        self.expect("{")
        out = []
        while self.peek()[1] != "}":
            out += self.statement()
        self.expect("}")
        return out

    def body_of(self):
        return self.block() if self.peek()[1] == "{" else self.statement()

    def skip_balanced(self):
        """Text of a statement the reader does not understand (through its block or `;`)."""
        start = self.i
        depth = 0
        while True:
            tok = self.next()
            if tok[0] == "eof":
                raise Unreadable("%s: unterminated statement" % self.fname)
            if tok[1] in "({":
                depth += 1
            elif tok[1] in ")}":
                depth -= 1
                if depth == 0 and tok[1] == "}":
                    break
            elif tok[1] == ";" and depth == 0:
                break
        return " ".join(v for _, v in self.t[start:self.i])

    def statement(self):
        kind, val = self.peek()
        if val == "{":
            return self.block()
        if val == ";":
            self.next()
            return []
        if val == "if":
            self.next()
            self.expect("(")
            c = self.expr()
            self.expect(")")
            t = self.body_of()
            e = []
            if self.peek()[1] == "else":
                self.next()
                e = self.body_of()
            return ["(.ite %s %s %s)" % (c, lean_list(t), lean_list(e))]
        if val == "return":
            self.next()
            if self.peek()[1] == ";":
                self.next()
                return ["(.ret (.lit .ghost))"]
            e = self.expr()
            self.expect(";")
            return ["(.ret %s)" % e]
        if val in OPAQUE_KW or (kind == "id" and self.peek(1)[1] == ":"):
            return ["(.opaque %s)" % lean_string(self.skip_balanced())]
        if kind == "id" and val in TYPES:
            return self.declaration()
        if kind == "id" and val in DROPPED and self.peek(1)[1] == "(":
            self.skip_balanced()
            return []
        if kind == "id" and val == "trait_clone" and self.peek(1)[1] == "(":
            self.next()
            self.expect("(")
            target = self.next()
            self.expect(",")
            e = self.expr()
            self.expect(")")
            self.expect(";")
            if target[0] != "id":
                raise Unreadable("%s: trait_clone target" % self.fname)
            return ["(.expr (.asg .%s (.call .trait_clone_of [%s])))" % (LEAN_VAR.get(target[1], target[1]), e)]
        e = self.expr()
        self.expect(";")
        return ["(.expr %s)" % e]

    def declaration(self):
        while self.peek()[0] == "id" and self.peek()[1] in TYPES:
            self.next()
        out = []
        while True:
            while self.peek()[1] == "*":
                self.next()
            kind, name = self.next()
            if kind != "id":
                raise Unreadable("%s: declaration" % self.fname)
            var(name)
            if self.peek()[1] == "=":
                self.next()
                e = self.assign()
                out.append("(.expr (.asg .%s %s))" % (LEAN_VAR.get(name, name), e))
            if self.peek()[1] == ",":
                self.next()
                continue
            self.expect(";")
            return out

    # ----------------------------------------------------------- expressions
    def expr(self):
        return self.assign()

    def assign(self):
        start = self.i
        lhs = self.lor()
        if self.peek()[1] == "=":
            self.next()
            rhs = self.assign()
            m = re.fullmatch(r"\(\.var \.(\w+)\)", lhs)
            if m:
                return "(.asg .%s %s)" % (m.group(1), rhs)
            m = re.fullmatch(r"\(\.fld (.*) \.(\w+)\)", lhs)
            if m:
                return "(.asgf %s .%s %s)" % (m.group(1), m.group(2), rhs)
            raise Unreadable("%s: assignment target %s" % (self.fname, " ".join(v for _, v in self.t[start:self.i])))
        return lhs

    def binary(self, sub, ops):
        lhs = sub()
        while self.peek()[1] in ops:
            op = self.next()[1]
            rhs = sub()
            lhs = ops[op] % (lhs, rhs)
        return lhs

    def lor(self):
        return self.binary(self.land, {"||": "(.or %s %s)"})

    def land(self):
        return self.binary(self.equality, {"&&": "(.and %s %s)"})

    def equality(self):
        return self.binary(self.relational, {"==": "(.call .eq [%s, %s])", "!=": "(.call .ne [%s, %s])"})

    def relational(self):
        return self.binary(self.unary, {"<": "(.call .lt [%s, %s])", "<=": "(.call .le [%s, %s])",
                                        ">": "(.call .gt [%s, %s])", ">=": "(.call .ge [%s, %s])"})

    def unary(self):
        kind, val = self.peek()
        if val == "!":
            self.next()
            return "(.not %s)" % self.unary()
        if val == "-" and self.peek(1)[0] == "num":
            self.next()
            return "(.lit (.int (-%s)))" % self.next()[1]
        if val == "(" and self.peek(1)[0] == "id" and self.peek(1)[1] in TYPES:     # a cast
            self.next()
            while self.peek()[1] != ")":
                tok = self.next()
                if not (tok[1] in TYPES or tok[1] == "*"):
                    raise Unreadable("%s: cast" % self.fname)
            self.next()
            return self.unary()
        return self.postfix()

    def args(self):
        self.expect("(")
        out = []
        while self.peek()[1] != ")":
            out.append(self.assign())
            if self.peek()[1] == ",":
                self.next()
        self.expect(")")
        return out

    def postfix(self):
        kind, val = self.next()
        if val == "(":
            e = self.expr()
            self.expect(")")
        elif kind == "num":
            e = "(.lit (.int %s))" % val
        elif kind == "str":
            e = "(.lit %s)" % lean_name_lit(val)
        elif kind == "id":
            if self.peek()[1] == "(":
                a = self.args()
                if val in FNS:
                    e = "(.call .%s %s)" % (val, lean_list(a))
                elif val in DROPPED:
                    raise Unreadable("%s: %s used as an expression" % (self.fname, val))
                else:
                    e = "(.call (.unknown %s) %s)" % (lean_string(val), lean_list(a))
            elif val in GLOBALS:
                e = "(.lit %s)" % GLOBALS[val]
            else:
                e = var(val)
        else:
            raise Unreadable("%s: unexpected token %r" % (self.fname, val))
        while self.peek()[1] == "->":
            self.next()
            kind, f = self.next()
            if kind != "id" or f not in FIELDS:
                raise Unreadable("%s: unknown field %r" % (self.fname, f))
            if f in ("getattr", "setattr") and self.peek()[1] == "(":
                a = self.args()
                e = "(.call .trait_%s %s)" % (f, lean_list(a))      # the receiver is repeated as first argument
            else:
                e = "(.fld %s .%s)" % (e, f)
        if self.peek()[1] in ("[", ".", "++", "--", "?"):
            raise Unreadable("%s: unsupported operator %r" % (self.fname, self.peek()[1]))
        return e


def lean_string(s):
    return '"' + s.replace("\\", "\\\\").replace('"', '\\"').replace("\n", " ") + '"'


def lean_list(items):
    return "[" + ", ".join(items) + "]"


def handler_table(src, table):
    m = re.search(r"static\s+trait_[gs]etattr\s+%s\[\]\s*=\s*\{(.*?)\}" % table, src, flags=re.S)
    if m is None:
        raise Unreadable("table %s not found" % table)
    names = [x.strip() for x in m.group(1).split(",") if x.strip()][:9]
    return ["." + n if n in FNS else "(.unknown %s)" % lean_string(n) for n in names]


def translate_function(src, name):
    params, body = find_function(src, name)
    if params and params[-1] == "args":
        body, k = PARSE_OI.subn("", body)
        if k != 1:
            raise Unreadable("%s: argument parsing" % name)
        params = params[:-1] + ["name", "instance"]
    for p in params:
        var(p)
    p = Parser(tokenize(body), name)
    stmts = p.block()
    if p.peek()[0] != "eof":
        raise Unreadable("%s: trailing tokens" % name)
    return params, stmts


def emit(traits_dir):
    src = strip_comments(open(os.path.join(traits_dir, "ctraits.c")).read())
    lines = ["/- GENERATED by harness/translate/resolve_c.py from the working tree - do not edit. -/",
             "import TraitsVerif.Model.ResL",
             "namespace TraitsVerif.Generated.ResolveC",
             "open TraitsVerif TraitsVerif.Model.Resolve TraitsVerif.Model.ResL", ""]
    for name in FUNCS:
        params, stmts = translate_function(src, name)
        lines.append("def %s : Fun :=" % LEAN_FUN.get(name, name))
        lines.append("  { params := [%s], py := false" % ", ".join("." + LEAN_VAR.get(p, p) for p in params))
        lines.append("    body := [")
        lines.append(",\n".join("      " + s for s in stmts))
        lines.append("    ] }")
        lines.append("")
    m = re.findall(r'\{\s*"_trait"\s*,\s*\(PyCFunction\)\s*(\w+)\s*,\s*(\w+)', src)
    if len(m) != 1:
        raise Unreadable("method table row of _trait")
    lines.append("/-- the row of `has_traits_methods[]` that defines the Python method `_trait` -/")
    lines.append("def traitMethodRow : String × String := (%s, %s)" % (lean_string(m[0][0]), lean_string(m[0][1])))
    lines.append("def getattrHandlers : List Fn := %s" % lean_list(handler_table(src, "getattr_handlers")))
    lines.append("def setattrHandlers : List Fn := %s" % lean_list(handler_table(src, "setattr_handlers")))
    lines += ["", "end TraitsVerif.Generated.ResolveC"]
    return "\n".join(lines) + "\n"


if __name__ == "__main__":
    import sys
    print(emit(sys.argv[1] if len(sys.argv) > 1 else "/repo/traits"), end="")
