"""Translator for C16: the methods of traits/traits_listener.py `ListenerItem` that the model
`Model/Legacy.lean` transcribes, as terms of the deep-embedded language `Model/LisL.lean`.

Read with Python `ast` (layout / comment / docstring insensitive):

* module constants ANY_LISTENER / SRC_LISTENER / DST_LISTENER, SIMPLE_/LIST_/DICT_/SET_LISTENER, `type_map`
* class-level aliases of `ListenerItem` (`_register_set = _register_list`)
* `_register_simple`, `_register_list`, `_register_dict`: whole bodies -> `LisL.Stmt`
  (if / elif / else, early returns, raise, the `_on_trait_change` calls with the handler expression,
  the `name` / `name + "_items"` argument and the dispatch, the final walk into `next`)
* `register`: the early-return condition, the shape `if last == "*": <wildcards> else: <single trait>`,
  and the order of the effects of the common path (`self.active[new] = …` before the `type_map`
  classification before `getattr(self, type)(new, name, False)`)
* `unregister`: the guard, `self.active.pop(old, None)`, `if active is not None`, the loop calling
  `getattr(self, type)(old, name, True)`
* `handle_simple`, `handle_dst`, `handle_list`, `handle_list_items`, `handle_dict`, `handle_dict_items`,
  `handle_error` -> `LisL.HStmt`

Fails closed: any statement or expression shape not listed here raises, which the engine turns
into a failed proof obligation.
"""
import ast
import os

TARGET = "LegacyProg.lean"

METHS = {"handle_simple": "simple", "handle_dst": "dst", "handle_list": "list", "handle_list_items": "listItems",
         "handle_list_items_special": "listItemsSpecial", "handle_dict": "dict", "handle_dict_items": "dictItems",
         "handle_error": "error"}


class Bad(Exception):
    pass


def bad(node, why):
    raise Bad("%s: %s" % (why, ast.unparse(node)[:160] if isinstance(node, ast.AST) else node))


def lstr(s):
    return '"' + s.replace("\\", "\\\\").replace('"', '\\"').replace("\n", "\\n") + '"'


def U(node):
    return ast.unparse(node)


def body_of(fn):
    b = list(fn.body)
    if b and isinstance(b[0], ast.Expr) and isinstance(b[0].value, ast.Constant) and isinstance(b[0].value.value, str):
        b = b[1:]
    return b


# ---------------------------------------------------------------------------- conditions

def lb(b):
    return "true" if b else "false"


def neg(c):
    return "(.not %s)" % c


def atom(a):
    return "(.atom %s)" % a


def cond(node, consts):
    if isinstance(node, ast.BoolOp):
        op = ".and" if isinstance(node.op, ast.And) else ".or"
        parts = [cond(v, consts) for v in node.values]
        out = parts[-1]
        for p in reversed(parts[:-1]):
            out = "(%s %s %s)" % (op, p, out)
        return out
    if isinstance(node, ast.UnaryOp) and isinstance(node.op, ast.Not):
        return neg(cond(node.operand, consts))
    src = U(node)
    table = {
        "next is None": atom(".nextIsNone"),
        "next is not None": neg(atom(".nextIsNone")),
        "self.notify": atom(".notify"),
        "self.is_list_handler": atom(".isListHandler"),
        "remove": atom(".remove"),
        "self.deferred": atom(".deferred"),
        "name in object.__dict__": atom(".materialised"),
        "name not in object.__dict__": neg(atom(".materialised")),
        "handler is Undefined": atom(".handlerDead"),
        "handler is not Undefined": neg(atom(".handlerDead")),
        "self.dispatch != 'same'": neg(atom(".dispatchSame")),
        "self.dispatch == 'same'": atom(".dispatchSame"),
        "len(new.changed) > 0": atom(".hasChanged"),
        "name.endswith('_items')": atom(".itemsSuffix"),
    }
    if src in table:
        return table[src]
    if isinstance(node, ast.Compare) and len(node.ops) == 1 and len(node.comparators) == 1:
        l, op, r = node.left, node.ops[0], node.comparators[0]
        if U(l) == "self.type" and isinstance(r, ast.Name) and r.id in consts and isinstance(op, (ast.Eq, ast.NotEq)):
            a = atom("(.typeIs %d)" % consts[r.id])
            return a if isinstance(op, ast.Eq) else neg(a)
        if isinstance(l, ast.Name) and l.id in ("new", "old"):
            v = "." + l.id
            if isinstance(op, (ast.Is, ast.IsNot)) and isinstance(r, (ast.Name, ast.Constant)):
                what = {"None": ".isNone", "Undefined": ".isUndefined", "Uninitialized": ".isUninit"}.get(U(r))
                if what:
                    a = atom("(%s %s)" % (what, v))
                    return a if isinstance(op, ast.Is) else neg(a)
            if isinstance(op, (ast.In, ast.NotIn)) and U(r) == "self.active":
                a = atom("(.inActive %s)" % v)
                return a if isinstance(op, ast.In) else neg(a)
    bad(node, "condition not understood")


# ---------------------------------------------------------------------------- _register_*

def seq(parts, nil=".skip"):
    parts = [p for p in parts if p != nil]
    if not parts:
        return nil
    out = parts[-1]
    for p in reversed(parts[:-1]):
        out = "(.seq %s %s)" % (p, out)
    return out


def hexp(node):
    s = U(node)
    if s == "handler":
        return ".handler"
    if s == "tl_handler":
        return ".tlHandler"
    if s == "tl_handler_items":
        return ".tlHandlerItems"
    if s.startswith("self.") and s[5:] in METHS:
        return "(.meth .%s)" % METHS[s[5:]]
    bad(node, "handler expression")


def hook_call(call):
    if U(call.func) != "object._on_trait_change":
        bad(call, "call")
    if not (1 <= len(call.args) <= 2):
        bad(call, "_on_trait_change arguments")
    h = hexp(call.args[0])
    if len(call.args) == 1:
        kw = dict((k.arg, U(k.value)) for k in call.keywords)
        if kw != {"remove": "remove", "dispatch": "self.dispatch", "priority": "self.priority",
                  "target": "self._get_target()"}:
            bad(call, "anytrait hook keywords")
        return "(.hookAny %s)" % h
    n = U(call.args[1])
    if n == "name":
        items = False
    elif n == "name + '_items'":
        items = True
    else:
        bad(call, "trait name argument")
    kw = dict((k.arg, U(k.value)) for k in call.keywords)
    if sorted(kw) != ["dispatch", "priority", "remove", "target"]:
        bad(call, "keywords")
    if kw["remove"] != "remove" or kw["priority"] != "self.priority" or kw["target"] != "self._get_target()":
        bad(call, "keyword values")
    if kw["dispatch"] == "self.dispatch":
        ext = False
    elif kw["dispatch"] == "'extended'":
        ext = True
    else:
        bad(call, "dispatch")
    return "(.hook %s %s %s)" % (h, lb(items), lb(ext))


def reg_stmt(st, consts):
    if isinstance(st, ast.If):
        return "(.ite %s %s %s)" % (cond(st.test, consts), reg_block(st.body, consts), reg_block(st.orelse, consts))
    if isinstance(st, ast.Assign):
        tg = [U(t) for t in st.targets]
        v = U(st.value)
        if tg == ["next"] and v == "self.next":
            return ".skip"
        if tg == ["handler"] and v == "self.handler()":
            return ".getHandler"
        if tg == ["handler"] and v in ("next.register", "next.unregister"):
            return "(.setIter %s)" % lb(v == "next.register")
        if all(t in ("tl_handler", "tl_handler_items") for t in tg) and v.startswith("self.") and v[5:] in METHS:
            return seq(["(.setTl %s .%s)" % (lb(t == "tl_handler_items"), METHS[v[5:]]) for t in tg])
        bad(st, "assignment")
    if isinstance(st, ast.Expr) and isinstance(st.value, ast.Call):
        return hook_call(st.value)
    if isinstance(st, ast.Raise):
        return ".raise"
    if isinstance(st, ast.Return):
        v = U(st.value) if st.value is not None else ""
        if v == "(object, name)":
            return ".retDest"
        if v == "INVALID_DESTINATION":
            return ".retInvalid"
        if v == "next.register(getattr(object, name))":
            return "(.retNext true)"
        if v == "next.unregister(getattr(object, name))":
            return "(.retNext false)"
        bad(st, "return")
    if isinstance(st, ast.For):
        if st.orelse or U(st.target) != "obj" or len(st.body) != 1 or U(st.body[0]) != "handler(obj)":
            bad(st, "for")
        it = U(st.iter)
        if it == "getattr(object, name)":
            return "(.forEach false)"
        if it == "getattr(object, name).values()":
            return "(.forEach true)"
        bad(st, "for iterable")
    bad(st, "statement")


def _hook_items(t):
    """None unless t is a plain hook statement; else whether it is on `name + "_items"`."""
    if not t.startswith("(.hook "):
        return None
    return t[:-1].split()[-2] == "true"


def reg_block(stmts, consts):
    """Adjacent unconditional `_on_trait_change` calls on DIFFERENT traits (`name` and `name + "_items"`)
    are independent: each touches the notifier list of its own trait only, and the model keeps one
    notifier list per (object, trait).  They are emitted `name` first, so that swapping the two calls in
    the source gives the same term.  Calls on the same trait keep their source order (it is the
    notifier order)."""
    parts = [reg_stmt(s, consts) for s in stmts]
    changed = True
    while changed:
        changed = False
        for i in range(len(parts) - 1):
            if _hook_items(parts[i]) is True and _hook_items(parts[i + 1]) is False:
                parts[i], parts[i + 1] = parts[i + 1], parts[i]
                changed = True
    return seq(parts)


# ---------------------------------------------------------------------------- handle_*

def h_stmt(st, consts):
    if isinstance(st, ast.If):
        return "(.ite %s %s %s)" % (cond(st.test, consts), h_block(st.body, consts), h_block(st.orelse, consts))
    s = U(st)
    fixed = {
        "self.next.unregister(old)": "(.nextCall false)",
        "self.next.register(new)": "(.nextCall true)",
        "unregister = self.next.unregister": "(.bind false)",
        "register = self.next.register": "(.bind true)",
        "name = name[:-len('_items')]": ".stripItems",
        "dict = getattr(object, name)": ".getDict",
    }
    if s in fixed:
        return fixed[s]
    if isinstance(st, ast.For) and not st.orelse:
        it, tgt, body = U(st.iter), U(st.target), [U(b) for b in st.body]
        if tgt == "obj" and body in (["unregister(obj)"], ["register(obj)"]):
            src = {"old": ".old", "new": ".new", "old.values()": ".oldValues", "new.values()": ".newValues"}.get(it)
            if src is None:
                bad(st, "for iterable")
            # a dict must be walked through .values(), a list / set directly: kept in the term
            return "(.forCall %s %s)" % (lb(body == ["register(obj)"]), src)
        if tgt == "(key, obj)" and it == "new.changed.items()" and body == ["unregister(obj)", "register(dict[key])"]:
            return ".forChanged"
        bad(st, "for")
    if isinstance(st, ast.Expr) and isinstance(st.value, ast.Call):
        c = st.value
        f = U(c.func)
        if f.startswith("self.") and f[5:] in METHS and len(c.args) == 4 and not c.keywords \
                and [U(a) for a in c.args[:2]] == ["object", "name"]:
            args = []
            for a in c.args[2:]:
                a = U(a)
                m = {"old": ".old", "new": ".new", "new.removed": ".removed", "new.added": ".added"}.get(a)
                if m is None:
                    bad(st, "call argument")
                args.append(m)
            return "(.call .%s %s %s)" % (METHS[f[5:]], args[0], args[1])
        bad(st, "call")
    bad(st, "statement")


def h_block(stmts, consts):
    return seq([h_stmt(s, consts) for s in stmts])


DST_SRC = {
    # the two DST-signature methods are outside the fragment; their text is pinned
    "handle_dst": "self.next.unregister(old)\nobject, name = self.next.register(new)\nif old is not Uninitialized:\n"
                  "    if object is None:\n        raise TraitError('on_trait_change handler signature is incompatible "
                  "with a change to an intermediate trait')\n    wh = self.wrapped_handler_ref()\n    if wh is not None:\n"
                  "        wh(object, name, old, getattr(object, name, Undefined))",
    "handle_error": "if old is not None and old is not Uninitialized:\n    raise TraitError('on_trait_change handler "
                    "signature is incompatible with a change to an intermediate trait')",
}


# normalised text (sha256 prefix of "\n".join(ast.unparse(stmt))) of code that is outside the fragment and
# not interpreted: a change there must be looked at by a human and re-pinned
PINNED = {"register:wildcard-branch": "30d52e44264f5653", "_new_trait_added": "5eb3b32af8cea630",
          "_get_target": "d963802a67284943"}


WILD = None

WILD_TEXT = [
    "if self.is_anytrait:\n    try:\n        self.active[new] = [('', ANYTRAIT_LISTENER)]\n"
    "        return self._register_anytrait(new, '', False)\n    except TypeError:\n        return INVALID_DESTINATION",
    "metadata = self._metadata",
    None,
    "names = new.trait_names(**metadata)",
    "name = name[:-1]",
    "if name != '':\n    n = len(name)\n    names = [aname for aname in names if name == aname[:n]]",
    "bt = new.base_trait",
    "traits = dict([(name, bt(name)) for name in names])",
    "new.on_trait_change(self._new_trait_added, 'trait_added')",
]


def translate_wildcard(stmts):
    """The `if last == "*":` branch of register: anytrait first (active entry, then `_register_anytrait(new, "", False)`),
    the metadata filter dictionary (which filter function under which flag), `trait_names(**metadata)`, the prefix
    filter, the `trait_added` hook.  Everything but the filter functions must have exactly this shape."""
    got = [U(x) for x in stmts]
    if len(got) != len(WILD_TEXT) or any(w is not None and g != w for g, w in zip(got, WILD_TEXT)):
        bad(stmts[0], "register: wildcard branch shape")
    m = stmts[2]
    try:
        assert isinstance(m, ast.If) and U(m.test) == "metadata is None" and not m.orelse and len(m.body) == 2
        a0 = m.body[0]
        assert [U(t) for t in a0.targets] == ["self._metadata", "metadata"] and isinstance(a0.value, ast.Dict)
        assert [U(k) for k in a0.value.keys] == ["'type'"] and isinstance(a0.value.values[0], ast.Name)
        base = a0.value.values[0].id
        i1 = m.body[1]
        assert isinstance(i1, ast.If) and U(i1.test) == "self.metadata_name != ''" and not i1.orelse and len(i1.body) == 1
        i2 = i1.body[0]
        assert isinstance(i2, ast.If) and U(i2.test) == "self.metadata_defined" and len(i2.body) == 1 and len(i2.orelse) == 1
        d, u = i2.body[0], i2.orelse[0]
        for x in (d, u):
            assert [U(t) for t in x.targets] == ["metadata[self.metadata_name]"] and isinstance(x.value, ast.Name)
    except AssertionError:
        bad(m, "register: metadata filter construction")
    return {"baseFilter": base, "definedFilter": d.value.id, "undefinedFilter": u.value.id}


def translate_new_trait_added(fn):
    """Shape of `_new_trait_added`; returns whether the late classification reads `handler.default_value_type`
    (the attribute `register` reads)."""
    b = body_of(fn)
    if len(b) != 1 or not isinstance(b[0], ast.If) or U(b[0].test) != "new_trait.startswith(self.name[:-1])" or b[0].orelse:
        bad(fn, "_new_trait_added: prefix test")
    body = b[0].body
    got = [U(x) for x in body]
    want = ["trait = object.base_trait(new_trait)",
            "for meta_name, meta_eval in self._metadata.items():\n    if not meta_eval(getattr(trait, meta_name)):\n        return",
            "type = SIMPLE_LISTENER", "handler = trait.handler", None,
            "self.active[object].append((new_trait, type))", "getattr(self, type)(object, new_trait, False)"]
    if len(got) != len(want) or any(w is not None and g != w for g, w in zip(got, want)):
        bad(fn, "_new_trait_added: shape")
    c = body[4]
    try:
        assert isinstance(c, ast.If) and U(c.test) == "handler is not None" and not c.orelse and len(c.body) == 1
        call = c.body[0].value
        assert U(c.body[0].targets[0]) == "type" and U(call.func) == "type_map.get" and len(call.args) == 2
        assert U(call.args[1]) == "SIMPLE_LISTENER" and isinstance(call.args[0], ast.Attribute) and U(call.args[0].value) == "handler"
    except AssertionError:
        bad(c, "_new_trait_added: classification")
    attr = call.args[0].attr
    if attr == "default_value_type":
        return True
    if attr == "default_value_":
        return False      # reads the metadata fallback of TraitType.__getattr__, i.e. None: always SIMPLE_LISTENER
    bad(c, "_new_trait_added: classification attribute " + attr)


# ---------------------------------------------------------------------------- register / unregister

def translate_register(fn, consts):
    b = body_of(fn)
    if len(b) < 6 or not isinstance(b[0], ast.If) or [U(x) for x in b[0].body] != ["return INVALID_DESTINATION"] \
            or b[0].orelse:
        bad(fn, "register: first statement must be the early return")
    skip = cond(b[0].test, consts)
    if [U(x) for x in b[1:3]] != ["name = self.name", "last = name[-1:]"]:
        bad(b[1], "register: name / last")
    w = b[3]
    if not (isinstance(w, ast.If) and U(w.test) == "last == '*'" and w.orelse):
        bad(w, "register: wildcard split")
    single = [U(x) for x in w.orelse]
    want_single = [
        "optional = last == '?'",
        "if optional:\n    name = name[:-1]",
        "try:\n    trait = new.base_trait(name)\nexcept DelegationError:\n    trait = new.trait(name)",
    ]
    global WILD
    WILD = translate_wildcard(w.body)
    if single[:3] != want_single or len(w.orelse) != 4:
        bad(w, "register: single-trait branch")
    t = w.orelse[3]
    if not (isinstance(t, ast.If) and U(t.test) == "trait is None" and [U(x) for x in t.orelse] == ["traits = {name: trait}"]):
        bad(t, "register: traits = {name: trait}")
    if [U(x) for x in t.body] != ["if not optional:\n    raise TraitError(\"'%s' object has no '%s' trait\" % "
                                  "(new.__class__.__name__, name))", "traits = {}"]:
        bad(t, "register: missing-trait branch")
    order = []
    rest = b[4:]
    if U(rest[0]) != "self.active[new] = active = []":
        bad(rest[0], "register: active")
    order.append("active")
    loop = rest[1]
    if not (isinstance(loop, ast.For) and U(loop.target) == "(name, trait)" and U(loop.iter) == "traits.items()"
            and not loop.orelse):
        bad(loop, "register: loop over traits")
    lb_ = [U(x) for x in loop.body]
    want = ["type = SIMPLE_LISTENER", "handler = trait.handler",
            "if handler is not None:\n    type = type_map.get(handler.default_value_type, SIMPLE_LISTENER)",
            "active.append((name, type))", "value = getattr(self, type)(new, name, False)"]
    if lb_ != want:
        bad(loop, "register: loop body")
    order += ["classify", "append", "call:False"]
    tail = [U(x) for x in rest[2:]]
    if tail != ["if len(traits) == 1:\n    return value", "return INVALID_DESTINATION"]:
        bad(fn, "register: tail")
    return skip, order


def translate_unregister(fn, consts):
    b = body_of(fn)
    if len(b) != 1 or not isinstance(b[0], ast.If) or b[0].orelse:
        bad(fn, "unregister: guard")
    guard = cond(b[0].test, consts)
    inner = b[0].body
    if len(inner) != 1 or not isinstance(inner[0], ast.Try):
        bad(fn, "unregister: try")
    tr = inner[0]
    if len(tr.handlers) != 1 or U(tr.handlers[0].type) != "TypeError" or [U(x) for x in tr.handlers[0].body] != ["pass"] \
            or tr.orelse or tr.finalbody:
        bad(tr, "unregister: except")
    tb = [U(x) for x in tr.body]
    if tb != ["active = self.active.pop(old, None)",
              "if active is not None:\n    for name, type in active:\n        getattr(self, type)(old, name, True)"]:
        bad(tr, "unregister: body")
    return guard, ["pop", "ifpopped", "call:True"]


# ---------------------------------------------------------------------------- ListenerParser -> ParL

CH = {".": ".dot", ":": ".colon", "+": ".plus", "-": ".minus", "?": ".quest", "*": ".star", "[": ".lbr", "]": ".rbr",
      ",": ".comma"}
CV = {"c": ".c", "cn": ".cn", "next_char": ".nextChar"}
SV = {"name": ".name", "metadata": ".metadata"}
BV = {"cycle": ".cycle", "is_closing_bracket": ".isClosing", "item_complete": ".itemComplete"}


def pexp(node, consts):
    if isinstance(node, ast.BoolOp):
        op = ".and" if isinstance(node.op, ast.And) else ".or"
        parts = [pexp(v, consts) for v in node.values]
        out = parts[-1]
        for q in reversed(parts[:-1]):
            out = "(%s %s %s)" % (op, q, out)
        return out
    if isinstance(node, ast.UnaryOp) and isinstance(node.op, ast.Not):
        return "(.not %s)" % pexp(node.operand, consts)
    if isinstance(node, ast.Name) and node.id in BV:
        return "(.bvar %s)" % BV[node.id]
    if U(node) == "result.is_anytrait":
        return ".isAny"
    if isinstance(node, ast.Compare) and len(node.ops) == 1:
        l, op, r = node.left, node.ops[0], node.comparators[0]
        pos = isinstance(op, (ast.Eq, ast.In))
        if not isinstance(op, (ast.Eq, ast.NotEq, ast.In)):
            bad(node, "parser comparison")

        def wrap(e):
            return e if pos else "(.not %s)" % e
        if isinstance(l, ast.Name) and l.id in CV:
            if isinstance(op, ast.In):
                if isinstance(r, ast.Constant) and isinstance(r.value, str) and r.value and all(ch in CH for ch in r.value):
                    return "(.cIn %s [%s])" % (CV[l.id], ", ".join(CH[ch] for ch in r.value))
                bad(node, "`in` operand")
            if isinstance(r, ast.Constant) and isinstance(r.value, str) and r.value in CH:
                return wrap("(.cIs %s %s)" % (CV[l.id], CH[r.value]))
            if U(r) == "terminator":
                return wrap("(.cIsTerm %s)" % CV[l.id])
        if U(l) == "terminator" and not isinstance(op, ast.In):
            if isinstance(r, ast.Constant) and r.value in CH:
                return wrap("(.termIs %s)" % CH[r.value])
            if U(r) == "EOS":
                return wrap("(.termIs .eos)")
        if isinstance(l, ast.Name) and l.id in SV and isinstance(r, ast.Constant) and r.value == "" \
                and not isinstance(op, ast.In):
            return wrap("(.sEmpty %s)" % SV[l.id])
        if isinstance(l, ast.Call) and U(l.func) == "len" and len(l.args) == 1 and isinstance(l.args[0], ast.Name) \
                and l.args[0].id in SV and isinstance(r, ast.Constant) and r.value == 0 and not isinstance(op, ast.In):
            return wrap("(.sEmpty %s)" % SV[l.args[0].id])
    bad(node, "parser condition not understood")


ITEM_KW = {"name": "name", "handler": "self.handler", "wrapped_handler_ref": "self.wrapped_handler_ref",
           "dispatch": "self.dispatch", "priority": "self.priority"}

CYCLE_BLOCK = ["last = result", "while last.next is not None:\n    last = last.next",
               "lg = ListenerGroup(items=[next, result])", "last.set_next(lg)", "result = lg"]


def pass_args(call, consts, extra=()):
    """(deferred, handler_type / type) arguments of a parse_item / parse_group / ListenerItem call as
    Lean `Option`s: none = the caller's own value is passed on."""
    kw = dict((k.arg, k.value) for k in call.keywords)
    out = []
    for key, own in (("deferred", "deferred"), ("handler_type" if "handler_type" in kw else "type", "handler_type")):
        if key not in kw:
            bad(call, "missing argument " + key)
        v = kw[key]
        if U(v) == own:
            out.append("none")
        elif isinstance(v, ast.Constant) and isinstance(v.value, bool):
            out.append("(some %s)" % lb(v.value))
        elif isinstance(v, ast.Name) and v.id in consts:
            out.append("(some %d)" % consts[v.id])
        else:
            bad(call, "argument " + key)
    return out


def p_stmt(st, consts):
    if isinstance(st, ast.If):
        return "(.ite %s %s %s)" % (pexp(st.test, consts), p_block(st.body, consts), p_block(st.orelse, consts))
    s = U(st)
    if isinstance(st, ast.Assign) and len(st.targets) == 1 and isinstance(st.targets[0], ast.Name):
        t, v = st.targets[0].id, U(st.value)
        if t in CV and v == "self.skip_ws":
            return "(.readWs %s)" % CV[t]
        if t in CV and v == "self.next":
            return "(.readNext %s)" % CV[t]
        if t in SV and v == "self.name":
            return "(.readName %s)" % SV[t]
        if t in CV and v in CV:
            return "(.copyC %s %s)" % (CV[t], CV[v])
        if t in BV and isinstance(st.value, ast.Compare) and U(st.value.left) == "self.skip_ws" \
                and len(st.value.ops) == 1 and isinstance(st.value.ops[0], ast.Eq) \
                and isinstance(st.value.comparators[0], ast.Constant) and st.value.comparators[0].value in CH:
            return "(.setBWsIs %s %s)" % (BV[t], CH[st.value.comparators[0].value])
        if t in BV:
            return "(.setB %s %s)" % (BV[t], pexp(st.value, consts))
        if t == "result" and isinstance(st.value, ast.Call) and U(st.value.func) == "self.parse_group":
            c = st.value
            kw = dict((k.arg, k.value) for k in c.keywords)
            if c.args or sorted(kw) != ["deferred", "handler_type", "terminator"] \
                    or not isinstance(kw["terminator"], ast.Constant) or kw["terminator"].value not in CH:
                bad(st, "parse_group call")
            d, ty = pass_args(c, consts)
            return "(.callGroup %s %s %s)" % (CH[kw["terminator"].value], d, ty)
        if t == "result" and isinstance(st.value, ast.Call) and U(st.value.func) == "ListenerItem":
            c = st.value
            kw = dict((k.arg, U(k.value)) for k in c.keywords)
            if c.args or sorted(kw) != sorted(list(ITEM_KW) + ["deferred", "type"]) \
                    or any(kw[k] != v for k, v in ITEM_KW.items()) or kw["deferred"] != "deferred" \
                    or kw["type"] != "handler_type":
                bad(st, "ListenerItem(...) in parse_item")
            return ".mkItem"
        if t == "next" and isinstance(st.value, ast.Call) and U(st.value.func) == "self.parse_item":
            c = st.value
            kw = dict((k.arg, U(k.value)) for k in c.keywords)
            if c.args or sorted(kw) != ["deferred", "handler_type", "terminator"] or kw["terminator"] != "terminator":
                bad(st, "parse_item call")
            d, ty = pass_args(c, consts)
            return "(.callItem %s %s)" % (d, ty)
        bad(st, "parser assignment")
    fixed = {
        "result.name += '*'": ".appendStar",
        "result.name += '?'": ".appendOpt",
        "result.metadata_name = metadata = self.name": "(.seq (.readName .metadata) (.setMetaName .metadata))",
        "self.backspace": ".backspace",
        "result.is_list_handler = True": ".setListHandler",
        "result.set_next(next)": ".setNextFromNext",
        "result.set_next(result)": ".selfCycle",
        "return result": ".ret",
    }
    if s in fixed:
        return fixed[s]
    if isinstance(st, ast.Assign) and U(st.targets[0]) == "result.metadata_defined" and len(st.targets) == 1:
        return "(.setMetaDefined %s)" % pexp(st.value, consts)
    if isinstance(st, ast.Assign) and U(st.targets[0]) == "result.is_anytrait" and len(st.targets) == 1:
        return "(.setIsAny %s)" % pexp(st.value, consts)
    if isinstance(st, ast.Expr) and isinstance(st.value, ast.Call):
        f = U(st.value.func)
        if f == "self.error":
            return ".error"
        if f == "result.set_notify" and len(st.value.args) == 1 and not st.value.keywords:
            return "(.setNotify %s)" % pexp(st.value.args[0], consts)
    bad(st, "parser statement")


def p_block(stmts, consts):
    # the block that splices a group into the chain for `*` (recursive names; outside the fragment) is pinned
    if [U(x) for x in stmts] == CYCLE_BLOCK:
        return ".cycleSplice"
    return seq([p_stmt(s, consts) for s in stmts], ".skip")


HELPERS = {
    "next": "index = self.index\nself.index += 1\nif index >= self.len_text:\n    return EOS\nreturn self.text[index]",
    "backspace": "self.index = max(0, self.index - 1)",
    "skip_ws": "while True:\n    c = self.next\n    if c not in whitespace:\n        return c",
    "name": "match = name_pat.match(self.text, self.index - 1)\nif match is None:\n    return ''\n"
            "self.index = match.start(2)\nreturn match.group(1)",
}

GROUP_LOOP = ("items = []\nwhile True:\n    items.append(self.parse_item(ARGS))\n    c = self.skip_ws\n"
              "    if c == terminator:\n        break\n    if c != ',':\n        if terminator == EOS:\n"
              "            self.error(\"Expected ',' or end of string\")\n        else:\n"
              "            self.error(\"Expected ',' or '%s'\" % terminator)\n")


def translate_parser(mod, consts):
    cls = [n for n in mod.body if isinstance(n, ast.ClassDef) and n.name == "ListenerParser"]
    if len(cls) != 1:
        bad("ListenerParser", "class missing")
    fns = {}
    for st in cls[0].body:
        if isinstance(st, ast.FunctionDef):
            if st.name in fns:
                bad(st.name, "defined twice")
            fns[st.name] = st
    for n, want in HELPERS.items():
        f = fns.get(n)
        if f is None or [U(d) for d in f.decorator_list] != ["property"] \
                or "\n".join(U(x) for x in body_of(f)) != want:
            bad(n, "tokenizer helper changed")
    pats = {}
    for st in mod.body:
        if isinstance(st, ast.Assign) and len(st.targets) == 1 and U(st.targets[0]) in ("simple_pat", "name_pat"):
            pats[U(st.targets[0])] = U(st.value)
    if pats != {"simple_pat": "re.compile('^([a-zA-Z_]\\\\w*)(\\\\.|:)([a-zA-Z_]\\\\w*)$')",
                "name_pat": "re.compile('([a-zA-Z_]\\\\w*)\\\\s*(.*)')"}:
        bad(str(pats), "regular expressions changed")
    # parse_item
    pi = fns["parse_item"]
    if [a.arg for a in pi.args.args] != ["self"] or [a.arg for a in pi.args.kwonlyargs] != ["terminator", "deferred", "handler_type"]:
        bad("parse_item", "signature")
    item_body = p_block(body_of(pi), consts)
    # parse_group
    pg = fns["parse_group"]
    if [a.arg for a in pg.args.kwonlyargs] != ["terminator", "deferred", "handler_type"]:
        bad("parse_group", "signature")
    b = body_of(pg)
    try:
        call = b[1].body[0].value.args[0]
    except Exception:
        bad(pg, "parse_group shape")
    if not (isinstance(call, ast.Call) and U(call.func) == "self.parse_item"):
        bad(pg, "parse_group: parse_item call")
    kw = dict((k.arg, U(k.value)) for k in call.keywords)
    if call.args or kw.get("terminator") != "terminator" or sorted(kw) != ["deferred", "handler_type", "terminator"]:
        bad(call, "parse_group: parse_item arguments")
    g_args = pass_args(call, consts)
    text = "\n".join(U(x) for x in b[:2]) + "\n"
    if text != GROUP_LOOP.replace("ARGS", ", ".join("%s=%s" % (k.arg, U(k.value)) for k in call.keywords)):
        bad(pg, "parse_group loop changed")
    tail = [U(x) for x in b[2:]]
    if tail == ["if len(items) == 1:\n    return items[0]", "return ListenerGroup(items=items)"]:
        unwrap = True
    elif tail == ["return ListenerGroup(items=items)"]:
        unwrap = False
    else:
        bad(pg, "parse_group tail")
    # parse
    pa = fns["parse"]
    if [a.arg for a in pa.args.args] != ["self", "deferred", "handler_type"]:
        bad("parse", "signature")
    b = body_of(pa)
    if len(b) != 4 or U(b[0]) != "if self.text.strip().endswith(','):\n    self.error(\"Error parsing name. Trailing ',' is not allowed\")" \
            or U(b[1]) != "match = simple_pat.match(self.text)":
        bad(pa, "parse: head")
    sm = b[2]
    if not (isinstance(sm, ast.If) and U(sm.test) == "match is not None" and not sm.orelse and len(sm.body) == 1
            and isinstance(sm.body[0], ast.Return) and isinstance(sm.body[0].value, ast.Call)
            and U(sm.body[0].value.func) == "ListenerItem"):
        bad(sm, "parse: simple_pat shortcut")
    outer = sm.body[0].value
    okw = dict((k.arg, k.value) for k in outer.keywords)
    want_o = dict(ITEM_KW, name="match.group(1)")
    if outer.args or sorted(okw) != sorted(list(want_o) + ["deferred", "type", "notify", "next"]) \
            or any(U(okw[k]) != v for k, v in want_o.items()):
        bad(outer, "parse: outer ListenerItem")
    n = U(okw["notify"])
    if n == "match.group(2) == '.'":
        notify_dot = True
    elif n in ("match.group(2) == ':'", "match.group(2) != '.'"):
        notify_dot = False
    else:
        bad(okw["notify"], "parse: notify")
    inner = okw["next"]
    if not (isinstance(inner, ast.Call) and U(inner.func) == "ListenerItem"):
        bad(inner, "parse: inner ListenerItem")
    ikw = dict((k.arg, k.value) for k in inner.keywords)
    want_i = dict(ITEM_KW, name="match.group(3)")
    if inner.args or sorted(ikw) != sorted(list(want_i) + ["deferred", "type"]) \
            or any(U(ikw[k]) != v for k, v in want_i.items()):
        bad(inner, "parse: inner ListenerItem arguments")
    s_outer = pass_args(outer, consts)
    s_inner = pass_args(inner, consts)
    last = b[3]
    if not (isinstance(last, ast.Return) and isinstance(last.value, ast.Call) and U(last.value.func) == "self.parse_group"):
        bad(last, "parse: tail")
    lkw = dict((k.arg, U(k.value)) for k in last.value.keywords)
    if last.value.args or sorted(lkw) != ["deferred", "handler_type", "terminator"] or lkw["terminator"] != "EOS":
        bad(last, "parse: parse_group arguments")
    p_args = pass_args(last.value, consts)
    # ListenerGroup
    grp = [n_ for n_ in mod.body if isinstance(n_, ast.ClassDef) and n_.name == "ListenerGroup"]
    if len(grp) != 1:
        bad("ListenerGroup", "class missing")
    gf = dict((st.name, st) for st in grp[0].body if isinstance(st, ast.FunctionDef))

    def gbody(n_):
        return [U(x) for x in body_of(gf[n_])]
    reg = gbody("register")
    unreg = gbody("unregister")
    if reg == ["for item in self.items:\n    item.register(new)", "return INVALID_DESTINATION"]:
        reg_fw = True
    else:
        bad(gf["register"], "ListenerGroup.register")
    if unreg == ["for item in self.items:\n    item.unregister(old)"]:
        unreg_fw = True
    else:
        bad(gf["unregister"], "ListenerGroup.unregister")
    if gbody("set_next") != ["for item in self.items:\n    item.set_next(next)", "self.next = next if self.items else None"]:
        bad(gf["set_next"], "ListenerGroup.set_next")
    if gbody("set_notify") != ["for item in self.items:\n    item.set_notify(notify)"]:
        bad(gf["set_notify"], "ListenerGroup.set_notify")
    if gbody("__init__") != ["self.items = items", "self.next = None"]:
        bad(gf["__init__"], "ListenerGroup.__init__")
    lines = ["def parse_item : PStmt :=\n  %s\n" % item_body,
             "def pprog : PProg where",
             "  itemBody := parse_item",
             "  anyListener := %d" % consts["ANY_LISTENER"],
             "  groupItemArgs := (%s, %s)" % tuple(g_args),
             "  groupUnwrapsSingle := %s" % lb(unwrap),
             "  simpleOuter := (%s, %s)" % tuple(s_outer),
             "  simpleInner := (%s, %s)" % tuple(s_inner),
             "  simpleNotifyIsDot := %s" % lb(notify_dot),
             "  parseGroupArgs := (%s, %s)" % tuple(p_args),
             "  groupRegisterForwards := %s" % lb(reg_fw),
             "  groupUnregisterForwards := %s" % lb(unreg_fw),
             "  groupSetNextForwards := true",
             "  groupSetNotifyForwards := true",
             ""]
    return lines


# ---------------------------------------------------------------------------- driver

def emit(traits_dir):
    src = open(os.path.join(traits_dir, "traits_listener.py")).read()
    mod = ast.parse(src)
    consts, strs, type_map = {}, {}, None
    for st in mod.body:
        if isinstance(st, ast.Assign) and len(st.targets) == 1 and isinstance(st.targets[0], ast.Name):
            n = st.targets[0].id
            if isinstance(st.value, ast.Constant) and isinstance(st.value.value, int) and n.endswith("_LISTENER"):
                consts[n] = st.value.value
            elif isinstance(st.value, ast.Constant) and isinstance(st.value.value, str) and n.endswith("_LISTENER"):
                strs[n] = st.value.value
            elif n == "type_map":
                if not isinstance(st.value, ast.Dict):
                    bad(st, "type_map")
                type_map = []
                for k, v in zip(st.value.keys, st.value.values):
                    ks = U(k)
                    if not ks.startswith("DefaultValue.") or not isinstance(v, ast.Name) or v.id not in strs:
                        bad(st, "type_map entry")
                    type_map.append((ks[len("DefaultValue."):], strs[v.id]))
    for need in ("ANY_LISTENER", "SRC_LISTENER", "DST_LISTENER"):
        if need not in consts:
            bad(need, "constant missing")
    if type_map is None or "SIMPLE_LISTENER" not in strs:
        bad("type_map", "missing")
    cls = [n for n in mod.body if isinstance(n, ast.ClassDef) and n.name == "ListenerItem"]
    if len(cls) != 1:
        bad("ListenerItem", "class missing")
    cls = cls[0]
    fns, aliases = {}, []
    for st in cls.body:
        if isinstance(st, ast.FunctionDef):
            if st.name in fns:
                bad(st.name, "method defined twice")
            if st.decorator_list:
                bad(st.name, "decorated method")
            fns[st.name] = st
        elif isinstance(st, ast.Assign):
            if len(st.targets) == 1 and isinstance(st.targets[0], ast.Name) and isinstance(st.value, ast.Name):
                aliases.append((st.targets[0].id, st.value.id))
            else:
                bad(st, "class-level assignment")
    for n, f in fns.items():
        if n.startswith("_register_") or n.startswith("handle") or n in ("register", "unregister"):
            a = [x.arg for x in f.args.args]
            want = (["self", "object", "name", "remove"] if n.startswith("_register_") else
                    ["self", "new"] if n == "register" else ["self", "old"] if n == "unregister" else None)
            if want is None:
                if a[0] != "self" or len(a) != 5 or a[3:] != ["old", "new"] or a[2] != "name":
                    bad(n, "handler signature")
            elif a != want:
                bad(n, "signature")
    reg_methods = []
    for n in sorted(fns):
        if n.startswith("_register_"):
            reg_methods.append((n, reg_block(body_of(fns[n]), consts)))
    skip, rorder = translate_register(fns["register"], consts)
    guard, uorder = translate_unregister(fns["unregister"], consts)
    handlers = []
    for n in ("handle_simple", "handle_list", "handle_list_items", "handle_dict", "handle_dict_items"):
        handlers.append((METHS[n], h_block(body_of(fns[n]), consts)))
    for n, want in DST_SRC.items():
        got = "\n".join(U(x) for x in body_of(fns[n]))
        if got != want:
            bad(n, "pinned text of a DST-signature method changed")
        handlers.append((METHS[n], ".wrapped"))
    # the special list handler is hooked, never called by the fragment; pin its text
    if "\n".join(U(x) for x in body_of(fns["handle_list_items_special"])) != \
            "wh = self.wrapped_handler_ref()\nif wh is not None:\n    wh(object, name, new.removed, new.added)":
        bad("handle_list_items_special", "pinned text changed")
    handlers.append(("listItemsSpecial", ".wrapped"))
    import hashlib
    late = translate_new_trait_added(fns["_new_trait_added"])
    for n in ("_get_target",):
        if hashlib.sha256("\n".join(U(x) for x in body_of(fns[n])).encode()).hexdigest()[:16] != PINNED[n]:
            bad(n, "pinned text changed")

    DV = {"trait_list_object": ".list", "trait_dict_object": ".dict", "trait_set_object": ".set"}
    RN = {"_register_simple": ".simple", "_register_list": ".list", "_register_dict": ".dict", "_register_set": ".set",
          "_register_anytrait": ".anytrait"}

    def rn(x):
        if x not in RN:
            bad(x, "unknown _register_ method name")
        return RN[x]

    def dv(x):
        if x not in DV:
            bad(x, "unknown DefaultValue kind in type_map")
        return DV[x]
    if len(set(k for k, _ in type_map)) != len(type_map):
        bad("type_map", "duplicate key")
    out = ["/- GENERATED by harness/translate/legacysrc.py from traits/traits_listener.py of the working tree - do not edit. -/",
           "import TraitsVerif.Model.LisL",
           "import TraitsVerif.Model.ParL",
           "namespace TraitsVerif.Generated.LegacyProg",
           "open TraitsVerif.Model.LisL",
           "open TraitsVerif.Model.ParL (PStmt PProg)",
           ""]
    for n, t in reg_methods:
        out.append("def %s : Stmt :=\n  %s\n" % (n.lstrip("_"), t))
    for n, t in handlers:
        out.append("def h_%s : HStmt :=\n  %s\n" % (n, t))
    out.append("def prog : Prog where")
    out.append("  anyListener := %d" % consts["ANY_LISTENER"])
    out.append("  srcListener := %d" % consts["SRC_LISTENER"])
    out.append("  dstListener := %d" % consts["DST_LISTENER"])
    out.append("  typeMap := [%s]" % ", ".join("(%s, %s)" % (dv(a), rn(b)) for a, b in type_map))
    out.append("  simpleListener := %s" % rn(strs["SIMPLE_LISTENER"]))
    out.append("  aliases := [%s]" % ", ".join("(%s, %s)" % (rn(a), rn(b)) for a, b in aliases))
    out.append("  regMethods := [%s]" % ", ".join("(%s, %s)" % (rn(n), n.lstrip("_")) for n, _ in reg_methods))
    out.append("  registerSkip := %s" % skip)
    out.append("  registerOrder := [%s]" % ", ".join(lstr(x) for x in rorder))
    out.append("  unregisterGuard := %s" % guard)
    out.append("  unregisterOrder := [%s]" % ", ".join(lstr(x) for x in uorder))
    out.append("  handlers := [%s]" % ", ".join("(.%s, h_%s)" % (n, n) for n, _ in handlers))
    out.append("")
    filt = {}
    for st in mod.body:
        if isinstance(st, ast.FunctionDef) and st.name in ("is_not_none", "is_none", "not_event"):
            body = [U(x) for x in body_of(st)]
            sem = {"return value is not None": ".notNone", "return value is None": ".isNone",
                   "return value != 'event'": ".notEvent"}.get(body[0] if len(body) == 1 else "")
            if sem is None or [a.arg for a in st.args.args] != ["value"]:
                bad(st, "metadata filter function")
            filt[st.name] = sem
    for k in ("baseFilter", "definedFilter", "undefinedFilter"):
        if WILD[k] not in filt:
            bad(WILD[k], "unknown filter function")
    out.append("def wild : Wild where")
    out.append("  anytraitFirst := true")
    out.append("  baseFilter := %s" % filt[WILD["baseFilter"]])
    out.append("  definedFilter := %s" % filt[WILD["definedFilter"]])
    out.append("  undefinedFilter := %s" % filt[WILD["undefinedFilter"]])
    out.append("  metaOnlyIfNamed := true")
    out.append("  prefixOnlyIfNonEmpty := true")
    out.append("  hooksTraitAdded := true")
    out.append("  lateUsesDefaultValueType := %s" % lb(late))
    out.append("")
    out += translate_parser(mod, consts)
    out.append("end TraitsVerif.Generated.LegacyProg")
    return "\n".join(out) + "\n"


if __name__ == "__main__":
    import sys
    sys.stdout.write(emit(sys.argv[1] if len(sys.argv) > 1 else "/repo/traits"))
