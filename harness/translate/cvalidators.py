"""Translator: the SOURCE TEXT of the compiled validators of traits/ctraits.c -> terms of the
CSrc language (lean/TraitsVerif/Model/CSrc.lean).

Translated from the working tree, statement by statement:
  * every `validate_trait_*` function (`validate_trait_complex` with its whole `switch`),
  * the helpers they call: as_integer, validate_float, validate_complex_number, in_float_range,
    _validate_trait_callable, validate_trait_tuple_check, type_converter, call_validator.
Emits Generated/CValidators.lean.  Props/C03.lean proves (`C03_fast_is_source`) that the hand-written
`fastAlone` / `complexCase` / `fastComplex` of Model/FastValidate.lean are the interpretation of these terms
for every descriptor and every value.

A small C front end (tokenizer + recursive-descent parser) for the subset these functions are written in:
declarations with initialisers, expression statements, `if`/`else`, `for`, `switch`/`case`/`default`,
`break`, `return`, `goto` and labels, `assert(0)`; expressions with calls, `->`/`.` fields, casts (dropped),
assignment as an expression, postfix `++`, `! - == != < <= > >= & && || + -`.  The translation is purely
syntactic: one CSrc constructor per C construct, local variables numbered in order of first appearance
(parameters first) so that renaming a local does not change the term, C-API functions as constructors of
`Prim` (an unknown function becomes `.unknown "name"`, which the interpreter does not evaluate: the proof
obligations then fail).  Fails closed (raises) on anything outside the subset."""
import os
import re

TARGET = "CValidators.lean"

HELPERS = ["as_integer", "validate_float", "validate_complex_number", "in_float_range",
           "_validate_trait_callable", "validate_trait_tuple_check", "type_converter", "call_validator"]
VALIDATORS = ["validate_trait_python", "validate_trait_type", "validate_trait_instance", "validate_trait_self_type",
              "validate_trait_integer", "validate_trait_float", "validate_trait_complex_number",
              "validate_trait_float_range", "validate_trait_enum", "validate_trait_map", "validate_trait_tuple",
              "validate_trait_coerce_type", "validate_trait_cast_type", "validate_trait_function",
              "validate_trait_callable", "validate_trait_adapt", "validate_trait_complex"]

TYPE_WORDS = {"PyObject", "Py_ssize_t", "int", "long", "double", "Py_complex", "trait_object",
              "has_traits_object", "PyTypeObject", "static", "const", "unsigned"}

PRIMS = {"PyTuple_GET_SIZE", "PyTuple_GET_ITEM", "PyObject_TypeCheck", "PyObject_IsInstance", "Py_TYPE",
         "PyLong_CheckExact", "PyFloat_CheckExact", "PyComplex_CheckExact", "PyTuple_Check", "PyCallable_Check",
         "PyNumber_Index", "PyNumber_Long", "PyFloat_AsDouble", "PyFloat_FromDouble", "PyFloat_AS_DOUBLE",
         "PyComplex_AsCComplex", "PyComplex_FromCComplex", "PyLong_AsLong", "PyObject_IsTrue",
         "PySequence_Contains", "PyDict_GetItemWithError", "PyErr_ExceptionMatches", "PyErr_Occurred",
         "PyErr_Clear", "PyTuple_Pack", "PyObject_Call", "PyObject_CallMethod", "PyTuple_New",
         "PyTuple_SET_ITEM", "Py_INCREF", "Py_DECREF", "Py_XDECREF", "raise_trait_error", "default_value_for"}
GLOBALS = {"NULL": ".null", "Py_None": ".pyNone", "PyExc_TypeError": ".excTypeError",
           "TraitError": ".excTraitError", "adapt": ".adaptFn"}
FIELDS = {"py_validate", "validate", "real"}


class Unknown(Exception):
    pass


def strip_comments(src):
    return re.sub(r"/\*.*?\*/", " ", src, flags=re.S)


TOKEN = re.compile(r"""\s*(?:(\d+\.\d+|\d+)|([A-Za-z_]\w*)|("(?:[^"\\]|\\.)*")|(->|\+\+|--|==|!=|<=|>=|&&|\|\||[-+*/%&|!<>=(){}\[\];,.:?]))""")


def tokenize(text):
    toks, i = [], 0
    text = text.rstrip()
    while i < len(text):
        m = TOKEN.match(text, i)
        if m is None:
            raise Unknown("cannot tokenize at %r" % text[i:i + 30])
        num, ident, string, op = m.groups()
        if num is not None:
            toks.append(("num", num))
        elif ident is not None:
            toks.append(("id", ident))
        elif string is not None:
            toks.append(("str", string[1:-1]))
        else:
            toks.append(("op", op))
        i = m.end()
    return toks


def function_text(src, name):
    """(parameter text, body text) of the C function `name`."""
    m = re.search(r"^%s\s*\(" % re.escape(name), src, flags=re.M)
    if m is None:
        raise Unknown("function %s not found" % name)
    close = src.index(")", m.end())
    params = src[m.end():close]
    i = src.index("{", close)
    if src[close + 1:i].strip():
        raise Unknown("%s: unexpected text between parameter list and body" % name)
    depth = 0
    for j in range(i, len(src)):
        if src[j] == "{":
            depth += 1
        elif src[j] == "}":
            depth -= 1
            if depth == 0:
                return params, src[i:j + 1]
    raise Unknown("unbalanced braces in %s" % name)


class Parser:
    def __init__(self, name, params, toks, known_functions):
        self.name = name
        self.toks = toks
        self.pos = 0
        self.slots = {}
        for p in params:
            self.slot(p)
        self.nparams = len(params)
        self.labels = []
        self.known = known_functions

    # -- token helpers
    def peek(self, k=0):
        return self.toks[self.pos + k] if self.pos + k < len(self.toks) else ("eof", "")

    def next(self):
        t = self.peek()
        self.pos += 1
        return t

    def at(self, kind, val=None, k=0):
        t = self.peek(k)
        return t[0] == kind and (val is None or t[1] == val)

    def expect(self, kind, val=None):
        t = self.next()
        if t[0] != kind or (val is not None and t[1] != val):
            raise Unknown("%s: expected %s %r, got %r" % (self.name, kind, val, t))
        return t[1]

    def slot(self, name):
        if name not in self.slots:
            self.slots[name] = len(self.slots)
        return self.slots[name]

    def var(self, name):
        if name not in self.slots:
            raise Unknown("%s: undeclared identifier %s" % (self.name, name))
        return self.slots[name]

    # -- expressions (C precedence)
    def expr(self):
        return self.assign()

    def assign(self):
        if self.at("id") and self.at("op", "=", 1) and self.peek()[1] in self.slots:
            name = self.next()[1]
            self.next()
            return "(.assign %d %s)" % (self.var(name), self.assign())
        return self.lor()

    def binary(self, sub, ops):
        e = sub()
        while self.peek()[0] == "op" and self.peek()[1] in ops:
            op = self.next()[1]
            e = "(%s %s %s)" % (ops[op], e, sub())
        return e

    def lor(self):
        return self.binary(self.land, {"||": ".or"})

    def land(self):
        return self.binary(self.bitand, {"&&": ".and"})

    def bitand(self):
        return self.binary(self.equality, {"&": ".bitAnd"})

    def equality(self):
        return self.binary(self.relational, {"==": ".eq", "!=": ".ne"})

    def relational(self):
        return self.binary(self.additive, {"<": ".lt", "<=": ".le", ">": ".gt", ">=": ".ge"})

    def additive(self):
        return self.binary(self.unary, {"+": ".add", "-": ".sub"})

    def is_cast(self):
        if not self.at("op", "("):
            return False
        k = 1
        if not (self.at("id", None, k) and self.peek(k)[1] in TYPE_WORDS):
            return False
        while self.at("id", None, k) and self.peek(k)[1] in TYPE_WORDS:
            k += 1
        while self.at("op", "*", k):
            k += 1
        return self.at("op", ")", k)

    def unary(self):
        if self.at("op", "!"):
            self.next()
            return "(.not %s)" % self.unary()
        if self.at("op", "-"):
            self.next()
            return "(.neg %s)" % self.unary()
        if self.is_cast():
            while not self.at("op", ")"):
                self.next()
            self.next()
            return self.unary()
        return self.postfix()

    def args(self):
        self.expect("op", "(")
        out = []
        if not self.at("op", ")"):
            out.append(self.assign())
            while self.at("op", ","):
                self.next()
                out.append(self.assign())
        self.expect("op", ")")
        return "[" + ", ".join(out) + "]"

    def postfix(self):
        e = self.primary()
        while True:
            if self.at("op", "->") or self.at("op", "."):
                self.next()
                f = self.expect("id")
                if f not in FIELDS:
                    raise Unknown("%s: unknown field %s" % (self.name, f))
                e = "(.field %s .%s)" % (e, f)
            elif self.at("op", "("):
                e = "(.callPtr %s %s)" % (e, self.args())
            elif self.at("op", "++"):
                self.next()
                m = re.fullmatch(r"\(\.var (\d+)\)", e)
                if m is None:
                    raise Unknown("%s: ++ on a non-variable" % self.name)
                e = "(.postInc %s)" % m.group(1)
            else:
                return e

    def primary(self):
        t = self.next()
        if t[0] == "num":
            if "." in t[1]:
                whole, frac = t[1].split(".")
                if int(frac) != 0:
                    raise Unknown("%s: non-integral double literal %s" % (self.name, t[1]))
                return "(.dblLit %s)" % whole
            return "(.intLit %s)" % t[1]
        if t[0] == "str":
            return '(.strLit "%s")' % t[1]
        if t[0] == "op" and t[1] == "(":
            e = self.expr()
            self.expect("op", ")")
            return e
        if t[0] == "id":
            name = t[1]
            if self.at("op", "(") and name not in self.slots:
                if name in PRIMS:
                    return "(.call .%s %s)" % (name, self.args())
                if name in self.known:
                    return '(.call (.helper "%s") %s)' % (name, self.args())
                return '(.call (.unknown "%s") %s)' % (name, self.args())
            if name in GLOBALS:
                return GLOBALS[name]
            return "(.var %d)" % self.var(name)
        raise Unknown("%s: unexpected token %r in expression" % (self.name, t))

    # -- statements
    def declaration(self):
        while self.at("id") and self.peek()[1] in TYPE_WORDS:
            self.next()
        out = []
        while True:
            while self.at("op", "*"):
                self.next()
            name = self.expect("id")
            i = self.slot(name)
            if self.at("op", "="):
                self.next()
                out.append("(.expr (.assign %d %s))" % (i, self.assign()))
            if self.at("op", ","):
                self.next()
                continue
            break
        self.expect("op", ";")
        return out

    def is_declaration(self):
        return self.at("id") and self.peek()[1] in TYPE_WORDS

    def seq(self, stmts):
        stmts = [s for s in stmts if s != ".skip"]
        if not stmts:
            return ".skip"
        out = stmts[-1]
        for s in reversed(stmts[:-1]):
            out = "(.seq %s %s)" % (s, out)
        return out

    def block_items(self, stop):
        """statements up to (not including) a token for which stop() holds"""
        out = []
        while not stop():
            out += self.statement()
        return out

    def statement(self):
        """list of statement terms (a declaration may yield several / none)"""
        if self.at("op", "{"):
            self.next()
            items = self.block_items(lambda: self.at("op", "}"))
            self.next()
            return [self.seq(items)]
        if self.at("op", ";"):
            self.next()
            return []
        if self.is_declaration():
            return self.declaration()
        if self.at("id", "if"):
            self.next()
            self.expect("op", "(")
            c = self.expr()
            self.expect("op", ")")
            t = self.seq(self.statement())
            e = ".skip"
            if self.at("id", "else"):
                self.next()
                e = self.seq(self.statement())
            return ["(.ite %s %s %s)" % (c, t, e)]
        if self.at("id", "for"):
            self.next()
            self.expect("op", "(")
            if self.is_declaration():
                init = self.seq(self.declaration())
            elif self.at("op", ";"):
                self.next()
                init = ".skip"
            else:
                init = "(.expr %s)" % self.expr()
                self.expect("op", ";")
            cond = self.expr()
            self.expect("op", ";")
            incr = self.expr()
            self.expect("op", ")")
            body = self.seq(self.statement())
            return ["(.forLoop %s %s %s %s)" % (init, cond, incr, body)]
        if self.at("id", "switch"):
            self.next()
            self.expect("op", "(")
            scrut = self.expr()
            self.expect("op", ")")
            self.expect("op", "{")
            cases, default = [], None
            while not self.at("op", "}"):
                if self.at("id", "case"):
                    self.next()
                    label = int(self.expect("num"))
                    self.expect("op", ":")
                    body = self.block_items(lambda: self.at("id", "case") or self.at("id", "default")
                                            or self.at("op", "}"))
                    if not body:
                        raise Unknown("%s: empty case %d (fall-through)" % (self.name, label))
                    term = self.seq(body)
                    if not terminates(term):
                        raise Unknown("%s: case %d can fall through" % (self.name, label))
                    cases.append((label, term))
                elif self.at("id", "default"):
                    self.next()
                    self.expect("op", ":")
                    body = self.block_items(lambda: self.at("id", "case") or self.at("op", "}"))
                    default = self.seq(body)
                    if not terminates(default):
                        raise Unknown("%s: default can fall through" % self.name)
                else:
                    raise Unknown("%s: statement outside a case" % self.name)
            self.next()
            if len(set(k for k, _ in cases)) != len(cases):
                raise Unknown("%s: duplicate case labels" % self.name)
            cs = ".nil"
            for k, body in reversed(cases):
                cs = "(.cons %d %s %s)" % (k, body, cs)
            return ["(.switch %s %s %s)" % (scrut, cs, default if default is not None else ".skip")]
        if self.at("id", "break"):
            self.next()
            self.expect("op", ";")
            return [".brk"]
        if self.at("id", "return"):
            self.next()
            e = self.expr()
            self.expect("op", ";")
            return ["(.ret %s)" % e]
        if self.at("id", "goto"):
            self.next()
            lbl = self.expect("id")
            self.expect("op", ";")
            return ['(.goto "%s")' % lbl]
        if self.at("id", "assert"):
            self.next()
            a = self.args()
            self.expect("op", ";")
            if a != "[(.intLit 0)]":
                raise Unknown("%s: assert of something else than 0" % self.name)
            return [".skip"]      # NDEBUG build: assert(0) compiles to nothing
        e = self.expr()
        self.expect("op", ";")
        return ["(.expr %s)" % e]

    def function(self):
        """body and labelled tails `label: stmts` (only at the top level of the function)"""
        self.expect("op", "{")
        body = []
        tails = []
        cur = body
        while not self.at("op", "}"):
            if self.at("id") and self.at("op", ":", 1) and self.peek()[1] not in ("case", "default"):
                lbl = self.next()[1]
                self.next()
                tails.append((lbl, []))
                cur = tails[-1][1]
                continue
            cur += self.statement()
        self.next()
        if self.pos != len(self.toks):
            raise Unknown("%s: trailing tokens" % self.name)
        ts = ".nil"
        for lbl, stmts in reversed(tails):
            ts = '(.cons "%s" %s %s)' % (lbl, self.seq(stmts), ts)
        return self.seq(body), ts


def split_top(term):
    """constructor and top-level arguments of a parenthesised term"""
    assert term[0] == "(" and term[-1] == ")"
    parts, depth, cur, instr = [], 0, "", False
    for ch in term[1:-1]:
        if ch == '"':
            instr = not instr
        if not instr:
            if ch in "([":
                depth += 1
            elif ch in ")]":
                depth -= 1
            elif ch == " " and depth == 0:
                parts.append(cur)
                cur = ""
                continue
        cur += ch
    parts.append(cur)
    return parts


def terminates(term):
    """syntactic check: control never falls out of the end of the statement"""
    if term in (".brk",):
        return True
    if not term.startswith("("):
        return False
    p = split_top(term)
    if p[0] in (".ret", ".goto"):
        return True
    if p[0] == ".seq":
        return terminates(p[2])
    if p[0] == ".ite":
        return terminates(p[2]) and terminates(p[3])
    return False


def param_names(text):
    names = []
    for p in text.split(","):
        m = re.search(r"([A-Za-z_]\w*)\s*$", p.strip())
        if m is None:
            raise Unknown("cannot read parameter %r" % p)
        names.append(m.group(1))
    return names


# `validate_trait_complex` keeps `trait->py_validate` alive around the walk (baa32de): the text of the walk is
# the function `validate_trait_complex_body`, and `validate_trait_complex` itself is, once the reference-count
# statements are dropped, a call-through.  Exactly this shape is accepted (anything else raises): the term
# emitted under the name `validate_trait_complex` is then the translation of the body function.
WRAPPERS = {"validate_trait_complex": "validate_trait_complex_body"}
WRAPPER_SHAPE = re.compile(
    r"^\(\.seq \(\.expr \(\.assign (?P<pv>\d+) \(\.field \(\.var 0\) \.py_validate\)\)\) "
    r"\(\.seq \(\.expr \(\.call \.Py_INCREF \[\(\.var (?P=pv)\)\]\)\) "
    r"\(\.seq \(\.expr \(\.assign (?P<res>\d+) \(\.call \(\.helper \"(?P<callee>\w+)\"\) "
    r"\[\(\.var 0\), \(\.var 1\), \(\.var 2\), \(\.var 3\)\]\)\)\) "
    r"\(\.seq \(\.expr \(\.call \.Py_DECREF \[\(\.var (?P=pv)\)\]\)\) \(\.ret \(\.var (?P=res)\)\)\)\)\)\)$")


def check_wrapper(src, name, callee, known):
    """raise unless `name` is `pv = trait->py_validate; INCREF(pv); r = callee(trait, obj, name, value);
    DECREF(pv); return r;` with the parameters of `callee` in the same order"""
    ptext, body = function_text(src, name)
    params = param_names(ptext)
    if len(params) != 4 or param_names(function_text(src, callee)[0]) != params:
        raise Unknown("%s: parameters differ from those of %s" % (name, callee))
    p = Parser(name, params, tokenize(body), known | {callee})
    stmt, tails = p.function()
    m = WRAPPER_SHAPE.match(stmt)
    if m is None or tails != ".nil" or m.group("callee") != callee or m.group("pv") == m.group("res"):
        raise Unknown("%s is not a keep-alive call-through to %s" % (name, callee))


def translate(src, name, known):
    text_of = name
    if re.search(r"^%s\s*\(" % re.escape(WRAPPERS.get(name, "\0")), src, flags=re.M):
        check_wrapper(src, name, WRAPPERS[name], known)
        text_of = WRAPPERS[name]
    ptext, body = function_text(src, text_of)
    params = param_names(ptext)
    p = Parser(name, params, tokenize(body), known)
    stmt, tails = p.function()
    return ("def fn_%s : Fn :=\n  { nparams := %d, nvars := %d,\n    body := %s,\n    tails := %s }\n"
            % (name, len(params), len(p.slots), stmt, tails))


def emit(traits_dir):
    src = strip_comments(open(os.path.join(traits_dir, "ctraits.c")).read())
    known = set(HELPERS) | set(VALIDATORS)
    defined = sorted(set(re.findall(r"^(validate_trait_\w+)\s*\(", src, flags=re.M)))
    missing = [f for f in defined if f not in known and f not in WRAPPERS.values()]
    if missing:
        raise Unknown("validate_trait_* functions the translator does not know: %s" % missing)
    lines = ["/- GENERATED by harness/translate/cvalidators.py from the working tree - do not edit. -/",
             "import TraitsVerif.Model.CSrc",
             "namespace TraitsVerif.Generated.CValidators",
             "open TraitsVerif.Model.CSrc", "",
             "set_option maxRecDepth 4096", ""]
    for name in HELPERS + VALIDATORS:
        lines.append(translate(src, name, known))
    lines.append("/-- the function table (helpers the validators call by name) -/")
    lines.append("def table : List (String × Fn) := [" + ", ".join(
        '("%s", fn_%s)' % (n, n) for n in HELPERS + VALIDATORS) + "]")
    lines.append("")
    lines.append("end TraitsVerif.Generated.CValidators")
    return "\n".join(lines) + "\n"


if __name__ == "__main__":
    import sys
    print(emit(sys.argv[1] if len(sys.argv) > 1 else "/repo/traits"), end="")
