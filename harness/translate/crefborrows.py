"""Translator: "stale borrow" events along every control-flow path of the functions of traits/ctraits.c
(C18_paths_no_stale_borrow).  Uses the reader and the abstract interpreter of crefpaths.py in its `bmode`.

A value is FIELD-BORROWED when it is read from an object field of a struct (`trait->py_validate`, `obj->notifiers`,
...) or taken out of a container: out of a tuple that is itself field-borrowed (`PyTuple_GET_ITEM`; the item lives as
long as the tuple: the tuple is its PARENT), or out of a list / dict (`PyList_GET_ITEM`, `PyDict_GetItem`,
`dict_getitem`; no parent: the container can drop the item while it stays alive).  Events, per path, in order:

  fborrow v [parent]   v was acquired field-borrowed
  protect v            Py_INCREF / Py_XINCREF of v        unprotect v   Py_DECREF / Py_XDECREF / Py_CLEAR of v
  acall                a call that can run arbitrary Python code returned (crefpaths.ACALL, ACALL_FIELDS, and every
                       function of ctraits.c that transitively contains such a call); cached field contents are
                       forgotten at this point, so a field read again afterwards is a NEW value
  use v                v is passed to a call or macro, released, returned, dereferenced or called through

A `use v` is a STALE BORROW when an `acall` happened since `fborrow v` at a moment when neither v nor one of its
ancestors was protected.  Parameters are not tracked (the caller holds them), nor are values the function owns.
`CALLER_PROTECTS` (callee -> field values the caller keeps alive) is verified here against every call site.

TRUSTED: the arbitrary-call table and its deliberate omissions (releases; dictionary operations on attribute names),
tuples are immutable, the caller of a function holds references to the arguments for the whole call.
"""
import os
import re

from . import crefpaths as C
from .ctables import strip_comments, functions, Shape

TARGET = "RefBorrows.lean"
MAX_BPATHS = 300


def acall_closure(src, funcs):
    """functions of the file that can run arbitrary code: contain a call of ACALL / through ACALL_FIELDS, transitively."""
    names = {n for (n, _, _) in funcs}
    calls, direct = {}, set()
    for (n, a, b) in funcs:
        body = src[a:b]
        ids = set(re.findall(r"\b([A-Za-z_]\w*)\s*\(", body))
        flds = set(re.findall(r"(?:->|\.)\s*(\w+)\s*\)?\s*\(", body))
        calls[n] = (ids & names) - {n}
        if (ids & C.ACALL) or (flds & C.ACALL_FIELDS):
            direct.add(n)
    clo = set(direct)
    changed = True
    while changed:
        changed = False
        for n in names:
            if n not in clo and calls[n] & clo:
                clo.add(n)
                changed = True
    return clo


def check_caller_protects(src, funcs):
    """Every call of a CALLER_PROTECTS callee must be bracketed: `x = <field>; Py_INCREF(x); ... callee(...); Py_DECREF(x);`"""
    for callee, keys in C.CALLER_PROTECTS.items():
        if not any(n == callee for (n, _, _) in funcs):
            continue              # no such function in this tree: the fact applies to nothing
        sites = 0
        for (n, a, b) in funcs:
            body = src[a:b]
            for m in re.finditer(r"\b%s\s*\(" % re.escape(callee), body):
                if n == callee:
                    raise Shape("%s calls itself" % callee)
                sites += 1
                for key in keys:
                    mm = re.search(r"(\w+)\s*=\s*%s\s*;" % re.escape(key), body[:m.start()])
                    if not mm:
                        raise Shape("%s: call of %s without a local copy of %s" % (n, callee, key))
                    var = mm.group(1)
                    pre, post = body[mm.end():m.start()], body[m.start():]
                    if not re.search(r"\bPy_INCREF\s*\(\s*%s\s*\)" % var, pre) or re.search(r"\bPy_X?DECREF\s*\(\s*%s\s*\)" % var, pre):
                        raise Shape("%s: %s is not kept alive before the call of %s" % (n, key, callee))
                    if not re.search(r"\bPy_DECREF\s*\(\s*%s\s*\)" % var, post) or re.search(r"\b%s\s*=[^=]" % var, pre + post.split("Py_DECREF", 1)[0]):
                        raise Shape("%s: %s is not released after the call of %s (or the copy is reassigned)" % (n, key, callee))
        if sites == 0 and any(n == callee for (n, _, _) in funcs):
            raise Shape("%s is never called: CALLER_PROTECTS is out of date" % callee)


def stale(evs):
    """values used while stale, in order of first offence (twin of Model.RefBorrows.staleBorrows)."""
    prot, parent, tracked, st, bad = {}, {}, [], set(), []
    for (v, e) in evs:
        if e.startswith("fborrow"):
            if v not in tracked:
                tracked.append(v)
            prot[v] = 0
            st.discard(v)
            parent[v] = e[8:] if e.startswith("fborrow<") else None
        elif e == "protect":
            prot[v] = prot.get(v, 0) + 1
        elif e == "unprotect":
            prot[v] = max(0, prot.get(v, 0) - 1)
        elif e == "acall":
            for w in tracked:
                x, safe = w, False
                for _ in range(4):
                    if x is None:
                        break
                    if prot.get(x, 0) > 0:
                        safe = True
                        break
                    x = parent.get(x)
                if not safe:
                    st.add(w)
        elif e == "use":
            if v in st and v not in bad:
                bad.append(v)
    return bad


def normal_form(evs):
    """Verdict-preserving reduction: only values that are used after some acall following their fborrow (and their
    ancestors) keep their events; runs of `acall` and repeated `use v` without an acall in between are collapsed."""
    need, seen_acall_after = set(), {}
    live = {}
    for (v, b) in evs:
        if b.startswith("fborrow"):
            live[v] = False
        elif b == "acall":
            for w in live:
                live[w] = True
        elif b == "use" and live.get(v):
            need.add(v)
    parent = {v: b[8:] for (v, b) in evs if b.startswith("fborrow<")}
    for v in list(need):
        x = parent.get(v)
        while x is not None and x not in need:
            need.add(x)
            x = parent.get(x)
    out, used_since = [], set()
    for (v, b) in evs:
        if b == "acall":
            if out and out[-1][1] != "acall":
                out.append((v, b))
                used_since = set()
            elif not out:
                pass
        elif v in need:
            if b == "use":
                if v in used_since:
                    continue
                used_since.add(v)
            out.append((v, b))
    while out and out[-1][1] == "acall":
        out.pop()
    return tuple(out)


_MEMO = {}


def read_all(src):
    key = hash(src)
    if key not in _MEMO:
        _MEMO.clear()
        _MEMO[key] = _read_all(src)
    return _MEMO[key]


def _read_all(src):
    funcs = functions(src)
    fields = C.read_obj_fields(src)
    kinds = C.local_kinds_of(src, funcs)
    check_caller_protects(src, funcs)
    clo = acall_closure(src, funcs)
    covered, _ = C.read_all(src)             # the same function list as the reference-count analysis
    fnames = [r[0] for r in covered]
    # summaries: which of its pointer parameters does a function (that can run arbitrary code) use AFTER arbitrary
    # code ran?  (a caller that passes an unprotected field-borrowed value there is the one at fault).  Two rounds:
    # direct uses, then uses through one further call.  Functions too large for a summary run get none (omission).
    summaries = {}
    for _round in range(2):
        nxt = {}
        for name in fnames:
            if name not in clo:
                continue
            try:
                _, paths, order = C.analyse(src, funcs, fields, name, kinds, bmode=True, acall_locals=clo - {name},
                                            track_params=True, stale_params=summaries, want_params=True)
            except Shape:
                continue
            idx = set()
            for (_, _, evs) in paths:
                for v in stale(evs):
                    if v in order:
                        idx.add(order.index(v))
            if idx:
                nxt[name] = idx
        if nxt == summaries:
            break
        summaries = nxt
    results, unread = [], []
    for name in fnames:
        try:
            _, paths, _ = C.analyse(src, funcs, fields, name, kinds, bmode=True, acall_locals=clo - {name},
                                    stale_params=summaries)
        except Shape as e:
            unread.append((name, str(e)))
            continue
        # keep only paths on which something is tracked; drop events of values that are never used after an acall
        seen, keep = set(), []
        for (kind, err, evs) in paths:
            evs = normal_form(evs)
            if not evs:
                continue
            if evs not in seen:
                seen.add(evs)
                keep.append(evs)
        if len(keep) > MAX_BPATHS:
            unread.append((name, "%d distinct borrow paths (limit %d)" % (len(keep), MAX_BPATHS)))
            continue
        if keep:
            results.append((name, keep))
    return results, unread, sorted(clo), sorted((k, sorted(v)) for k, v in summaries.items())


def hits(src):
    res, unread, _, _ = read_all(src)
    out = []
    for (fn, paths) in res:
        seen = set()
        for evs in paths:
            for v in stale(evs):
                base = re.sub(r"~\d+$", "", v)
                if base not in seen:
                    seen.add(base)
                    out.append((fn, base, evs))
    return out


def lean_str(s):
    return '"' + s.replace("\\", "\\\\").replace('"', '\\"') + '"'


def emit(traits_dir):
    src = strip_comments(open(os.path.join(traits_dir, "ctraits.c")).read())
    results, unread, clo, summ = read_all(src)
    names = sorted({v for (_, ps) in results for evs in ps for (v, _) in evs if v != "*"}
                   | {b[8:] for (_, ps) in results for evs in ps for (_, b) in evs if b.startswith("fborrow<")})
    vid = {v: i for i, v in enumerate(names)}
    L = ["/- GENERATED by harness/translate/crefborrows.py from traits/ctraits.c of the working tree - do not edit. -/",
         "import TraitsVerif.Model.RefBorrows",
         "namespace TraitsVerif.Generated.RefBorrows",
         "open TraitsVerif.Model.RefBorrows", "",
         "/-- Functions analysed that have at least one path with a field-borrowed value and an arbitrary-code call. -/",
         "def covered : List String := [%s]" % ", ".join(lean_str(r[0]) for r in results), "",
         "/-- Functions of the reference-count analysis that the borrow analysis gave up on: (function, reason). -/",
         "def unread : List (String × String) := [%s]" % ", ".join("(%s, %s)" % (lean_str(a), lean_str(b)) for a, b in unread), "",
         "/-- Functions of ctraits.c that can run arbitrary Python code (closure of the trusted table over the call graph). -/",
         "def arbitrary : List String := [%s]" % ", ".join(lean_str(c) for c in clo), "",
         "/-- (function, indices of the pointer parameters it uses after it ran arbitrary code): passing an unprotected",
         "field-borrowed value there counts as a use after the call, in the CALLER. -/",
         "def usesParamsLate : List (String × List Nat) := [%s]" % ", ".join("(%s, [%s])" % (lean_str(k), ", ".join(map(str, v))) for k, v in summ), "",
         "/-- Names of the values (index = the number used in `borrowPaths`). -/",
         "def values : List String := [%s]" % ", ".join(lean_str(v) for v in names), ""]
    defs = []
    for (fn, paths) in results:
        d = "bpaths_" + re.sub(r"\W", "_", fn)
        defs.append(d)
        L.append("def %s : List BPath := [" % d)
        rows = []
        for n, evs in enumerate(paths):
            items = []
            for (v, b) in evs:
                if b == "acall":
                    items.append("(0, .acall)")
                elif b.startswith("fborrow<"):
                    items.append("(%d, .fborrow (some %d))" % (vid[v], vid[b[8:]]))
                elif b == "fborrow":
                    items.append("(%d, .fborrow none)" % vid[v])
                else:
                    items.append("(%d, .%s)" % (vid[v], b))
            cmt = " ".join("%s:%s" % (v, b) for (v, b) in evs).replace("-/", "- /")
            rows.append("  /- %s -/\n  ⟨%s, %d, [%s]⟩" % (cmt, lean_str(fn), n, ", ".join(items)))
        L.append(",\n".join(rows))
        L.append("]")
        L.append("")
    L.append("def borrowPaths : List BPath := %s" % (" ++ ".join(defs) if defs else "[]"))
    L.append("")
    L.append("end TraitsVerif.Generated.RefBorrows")
    return "\n".join(L) + "\n"


if __name__ == "__main__":
    import sys
    d = sys.argv[1] if len(sys.argv) > 1 else "/repo/traits"
    if len(sys.argv) > 2 and sys.argv[2] == "hits":
        for (fn, v, evs) in hits(strip_comments(open(os.path.join(d, "ctraits.c")).read())):
            print(fn, "|", v, "|", " ".join("%s:%s" % x for x in evs)[:400])
    else:
        sys.stdout.write(emit(d))
