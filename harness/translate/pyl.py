"""Translator: the SOURCE TEXT of the list mutators -> terms of the PyL language (Model/PyL.lean).

Translated, from traits/trait_list_object.py of the working tree:
  * the helpers `_normalize_slice_or_index` and `_removed_items`,
  * every mutator `TraitList` defines,
  * every mutator `TraitListObject` defines.
Emits Generated/ListProg.lean.  Props/C05 and Props/C04 prove that the hand-written models
`TraitList.step` / `TraitListObject.step` are the interpretation of these terms.

The translation is purely syntactic (one PyL constructor per Python construct), with two
rewrites that preserve evaluation order: a call of `self.item_validator(...)` or a
`[self.item_validator(x) for x in ...]` comprehension nested in an expression is hoisted into a
temporary just before the statement (nothing else in these statements has an effect), and
`x -= e` becomes `x = x - e`.  Keyword arguments are put in the callee's parameter order.
Fails closed (raises) on anything outside the subset.
"""
import ast
import os

TARGET = "ListProg.lean"

MUTATORS = ["__delitem__", "__iadd__", "__imul__", "__setitem__", "append", "clear", "extend", "insert", "pop",
            "remove", "reverse", "sort"]
HELPERS = ["_normalize_slice_or_index", "_removed_items"]
EXCS = {"ValueError": ".valueError", "IndexError": ".indexError", "TypeError": ".typeError",
        "KeyError": ".keyError", "TraitError": ".traitError"}


class Unknown(Exception):
    pass


def is_name(n, s):
    return isinstance(n, ast.Name) and n.id == s


def is_self_call(n, attr):
    return (isinstance(n, ast.Call) and isinstance(n.func, ast.Attribute) and n.func.attr == attr
            and is_name(n.func.value, "self"))


def is_super_call(n):
    return (isinstance(n, ast.Call) and isinstance(n.func, ast.Attribute) and isinstance(n.func.value, ast.Call)
            and is_name(n.func.value.func, "super") and not n.func.value.args)


class Fn:
    """Translation of one function body."""

    def __init__(self, fn, is_method, helper_sigs):
        self.fn = fn
        self.helper_sigs = helper_sigs
        a = fn.args
        if a.vararg or a.kwarg or a.posonlyargs:
            raise Unknown("%s: *args/**kwargs" % fn.name)
        names = [x.arg for x in a.args] + [x.arg for x in a.kwonlyargs]
        if is_method:
            if not names or names[0] != "self":
                raise Unknown("%s: first parameter is not self" % fn.name)
            names = names[1:]
        self.params = names
        self.slots = {n: i for i, n in enumerate(names)}
        self.is_method = is_method
        self.pre = []          # hoisted statements of the statement being translated
        self.ntemp = 0

    def slot(self, name):
        if name not in self.slots:
            self.slots[name] = len(self.slots)
        return self.slots[name]

    def temp(self):
        self.ntemp += 1
        return self.slot("$t%d" % self.ntemp)

    # -- expressions ---------------------------------------------------------
    def ex(self, n):
        E = self.ex
        if isinstance(n, ast.Constant):
            if n.value is None:
                return ".noneLit"
            if isinstance(n.value, bool):
                return "(.boolLit %s)" % ("true" if n.value else "false")
            if isinstance(n.value, int):
                return "(.intLit %d)" % n.value
            raise Unknown("constant %r" % (n.value,))
        if isinstance(n, ast.Name):
            if n.id == "self":
                if not self.is_method:
                    raise Unknown("self in a helper")
                return ".self"
            if n.id in self.slots:
                return "(.var %d)" % self.slots[n.id]
            raise Unknown("name %s used before assignment" % n.id)
        if isinstance(n, ast.List):
            if len(n.elts) == 0:
                return ".emptyList"
            if len(n.elts) == 1:
                return "(.list1 %s)" % E(n.elts[0])
            raise Unknown("list display with %d elements" % len(n.elts))
        if isinstance(n, ast.ListComp):
            if (len(n.generators) == 1 and not n.generators[0].ifs and isinstance(n.generators[0].target, ast.Name)
                    and is_self_call(n.elt, "item_validator") and len(n.elt.args) == 1
                    and is_name(n.elt.args[0], n.generators[0].target.id)):
                t = self.temp()
                self.pre.append("(.validateAll %d %s)" % (t, E(n.generators[0].iter)))
                return "(.var %d)" % t
            raise Unknown("list comprehension")
        if isinstance(n, ast.Call):
            if is_self_call(n, "item_validator") and len(n.args) == 1 and not n.keywords:
                arg = E(n.args[0])
                t = self.temp()
                self.pre.append("(.validate %d %s)" % (t, arg))
                return "(.var %d)" % t
            if n.keywords:
                raise Unknown("keyword arguments in %s" % ast.dump(n)[:60])
            f = n.func
            if isinstance(f, ast.Name):
                if f.id == "len" and len(n.args) == 1:
                    return "(.len %s)" % E(n.args[0])
                if f.id in ("min", "max") and len(n.args) == 2:
                    return "(.%s %s %s)" % (f.id, E(n.args[0]), E(n.args[1]))
                if f.id == "slice" and len(n.args) == 3:
                    return "(.mkSlice %s %s %s)" % tuple(E(a) for a in n.args)
                if f.id == "isinstance" and len(n.args) == 2 and is_name(n.args[1], "slice"):
                    return "(.isSlice %s)" % E(n.args[0])
                if f.id == "list" and len(n.args) == 1:
                    return "(.listOf %s)" % E(n.args[0])
            if isinstance(f, ast.Attribute):
                if f.attr == "index" and is_name(f.value, "operator") and len(n.args) == 1:
                    return "(.opIndex %s)" % E(n.args[0])
                if f.attr == "copy" and not n.args:
                    return "(.copy %s)" % E(f.value)
                if f.attr == "index" and len(n.args) == 1:
                    return "(.indexOf %s %s)" % (E(f.value), E(n.args[0]))
            raise Unknown("call %s" % ast.dump(n)[:80])
        if isinstance(n, ast.Subscript):
            k = n.slice
            if isinstance(k, ast.Slice):
                if k.lower is None and k.upper is None and isinstance(k.step, ast.UnaryOp) \
                        and isinstance(k.step.op, ast.USub) and isinstance(k.step.operand, ast.Constant) \
                        and k.step.operand.value == 1:
                    return "(.rev %s)" % E(n.value)
                if k.lower is not None and k.upper is None and k.step is None:
                    return "(.sliceFrom %s %s)" % (E(n.value), E(k.lower))
                raise Unknown("slice expression")
            return "(.getItem %s %s)" % (E(n.value), E(k))
        if isinstance(n, ast.Attribute) and n.attr == "step":
            return "(.sliceStep %s)" % E(n.value)
        if isinstance(n, ast.BinOp):
            ops = {ast.Add: "add", ast.Sub: "sub", ast.Mult: "mul", ast.Mod: "mod"}
            if type(n.op) in ops:
                return "(.%s %s %s)" % (ops[type(n.op)], E(n.left), E(n.right))
            raise Unknown("operator %s" % type(n.op).__name__)
        if isinstance(n, ast.UnaryOp):
            if isinstance(n.op, ast.USub):
                return "(.neg %s)" % E(n.operand)
            if isinstance(n.op, ast.Not):
                return "(.not %s)" % E(n.operand)
            raise Unknown("unary operator")
        if isinstance(n, ast.Compare) and len(n.ops) == 1:
            a, b, op = n.left, n.comparators[0], n.ops[0]
            if isinstance(op, (ast.Is, ast.IsNot)):
                if not (isinstance(b, ast.Constant) and b.value is None):
                    raise Unknown("`is` with something other than None")
                r = "(.isNone %s)" % E(a)
                return r if isinstance(op, ast.Is) else "(.not %s)" % r
            x, y = E(a), E(b)
            if isinstance(op, ast.Lt):
                return "(.lt %s %s)" % (x, y)
            if isinstance(op, ast.LtE):
                return "(.le %s %s)" % (x, y)
            if isinstance(op, ast.Gt):
                return "(.lt %s %s)" % (y, x)
            if isinstance(op, ast.GtE):
                return "(.le %s %s)" % (y, x)
            if isinstance(op, ast.Eq):
                return "(.eq %s %s)" % (x, y)
            if isinstance(op, ast.NotEq):
                return "(.ne %s %s)" % (x, y)
            raise Unknown("comparison %s" % type(op).__name__)
        if isinstance(n, ast.BoolOp) and isinstance(n.op, ast.Or) and len(n.values) == 2:
            return "(.or %s %s)" % (E(n.values[0]), E(n.values[1]))
        if isinstance(n, ast.IfExp):
            return "(.ite %s %s %s)" % (E(n.test), E(n.body), E(n.orelse))
        raise Unknown("expression %s" % ast.dump(n)[:100])

    # -- statements ----------------------------------------------------------
    def call_args(self, call, params):
        """positional + keyword arguments in the callee's parameter order"""
        args = [self.ex(a) for a in call.args]
        if call.keywords:
            if params is None:
                raise Unknown("keyword call of an unknown callee")
            rest = params[len(args):]
            kw = {k.arg: k.value for k in call.keywords}
            if set(kw) != set(rest):
                raise Unknown("keyword arguments %s do not fill %s" % (sorted(kw), rest))
            args += [self.ex(kw[p]) for p in rest]
        return "[%s]" % ", ".join(args)

    def super_stmt(self, call, target):
        m = call.func.attr
        if m != self.fn.name:
            raise Unknown("super().%s called from %s" % (m, self.fn.name))
        args = self.call_args(call, self.params)
        return '(.super %s "%s" %s)' % ("none" if target is None else "(some %d)" % target, m, args)

    def helper_stmt(self, call, targets):
        name = call.func.id
        return '(.call [%s] "%s" %s)' % (", ".join(str(t) for t in targets), name,
                                          self.call_args(call, self.helper_sigs[name]))

    def is_helper_call(self, n):
        return isinstance(n, ast.Call) and isinstance(n.func, ast.Name) and n.func.id in self.helper_sigs

    def st(self, s):
        """One statement -> list of PyL statements (hoisted ones first)."""
        self.pre = []
        out = self.st1(s)
        return self.pre + out

    def st1(self, s):
        if isinstance(s, ast.Pass):
            return []
        if isinstance(s, ast.Expr):
            v = s.value
            if isinstance(v, ast.Constant) and isinstance(v.value, str):
                return []
            if is_self_call(v, "notify") and len(v.args) == 3 and not v.keywords:
                return ["(.notify %s %s %s)" % tuple(self.ex(a) for a in v.args)]
            if is_self_call(v, "_validate_length") and len(v.args) == 1 and not v.keywords:
                return ["(.checkLen %s)" % self.ex(v.args[0])]
            if is_super_call(v):
                return [self.super_stmt(v, None)]
            raise Unknown("expression statement %s" % ast.dump(v)[:80])
        if isinstance(s, ast.Assign) and len(s.targets) == 1:
            t, v = s.targets[0], s.value
            if isinstance(t, ast.Name):
                if is_super_call(v):
                    r = self.super_stmt(v, None)          # arguments first (they may mention the target)
                    i = self.slot(t.id)
                    return [r.replace("(.super none", "(.super (some %d)" % i, 1)]
                if self.is_helper_call(v):
                    args_first = self.helper_stmt(v, [])
                    i = self.slot(t.id)
                    return [args_first.replace("(.call []", "(.call [%d]" % i, 1)]
                e = self.ex(v)
                return ["(.assign %d %s)" % (self.slot(t.id), e)]
            if isinstance(t, ast.Tuple) and all(isinstance(x, ast.Name) for x in t.elts):
                if isinstance(v, ast.Tuple):
                    es = [self.ex(x) for x in v.elts]
                    is_ = [self.slot(x.id) for x in t.elts]
                    return ["(.assignTup [%s] [%s])" % (", ".join(map(str, is_)), ", ".join(es))]
                if (isinstance(v, ast.Call) and isinstance(v.func, ast.Attribute) and v.func.attr == "indices"
                        and len(v.args) == 1 and not v.keywords):
                    a, b = self.ex(v.func.value), self.ex(v.args[0])
                    is_ = [self.slot(x.id) for x in t.elts]
                    return ["(.assignIndices [%s] %s %s)" % (", ".join(map(str, is_)), a, b)]
                if self.is_helper_call(v):
                    r = self.helper_stmt(v, [])
                    is_ = [self.slot(x.id) for x in t.elts]
                    return [r.replace("(.call []", "(.call [%s]" % ", ".join(map(str, is_)), 1)]
            raise Unknown("assignment %s" % ast.dump(s)[:80])
        if isinstance(s, ast.AugAssign) and isinstance(s.target, ast.Name):
            ops = {ast.Add: "add", ast.Sub: "sub", ast.Mult: "mul"}
            if type(s.op) not in ops:
                raise Unknown("augmented assignment operator")
            i = self.slots.get(s.target.id)
            if i is None:
                raise Unknown("augmented assignment to an unassigned name")
            return ["(.assign %d (.%s (.var %d) %s))" % (i, ops[type(s.op)], i, self.ex(s.value))]
        if isinstance(s, ast.If):
            c = self.ex(s.test)
            pre = self.pre
            t = self.block(s.body)
            e = self.block(s.orelse)
            self.pre = pre
            return ["(.ifS %s %s %s)" % (c, t, e)]
        if isinstance(s, ast.Try):
            if s.finalbody or len(s.handlers) != 1 or not isinstance(s.handlers[0].type, ast.Name) \
                    or s.handlers[0].name is not None or s.handlers[0].type.id not in EXCS:
                raise Unknown("try statement shape")
            pre = self.pre
            b = self.block(s.body)
            h = self.block(s.handlers[0].body)
            o = self.block(s.orelse)
            self.pre = pre
            return ["(.tryS %s %s %s %s)" % (b, EXCS[s.handlers[0].type.id], h, o)]
        if isinstance(s, ast.Return):
            v = s.value
            if v is None:
                return ["(.ret [.noneLit])"]
            if is_super_call(v):
                r = self.super_stmt(v, None)
                t = self.temp()
                return [r.replace("(.super none", "(.super (some %d)" % t, 1), "(.ret [(.var %d)])" % t]
            if isinstance(v, ast.Tuple):
                return ["(.ret [%s])" % ", ".join(self.ex(x) for x in v.elts)]
            return ["(.ret [%s])" % self.ex(v)]
        if isinstance(s, ast.Raise):
            e = s.exc
            if isinstance(e, ast.Call) and isinstance(e.func, ast.Name) and e.func.id in EXCS:
                return ["(.raiseS %s)" % EXCS[e.func.id]]
            raise Unknown("raise of %s" % ast.dump(e)[:60])
        raise Unknown("statement %s" % type(s).__name__)

    def block(self, stmts):
        out = []
        for s in stmts:
            out.extend(self.st(s))
        if not out:
            return ".skip"
        r = out[-1]
        for x in reversed(out[:-1]):
            r = "(.seq %s\n      %s)" % (x, r)
        return r

    def emit(self):
        body = self.block(self.fn.body)
        names = sorted(self.slots.items(), key=lambda kv: kv[1])
        comment = " ".join("%d=%s" % (i, n) for n, i in names)
        return '  -- %s: slots %s\n  ("%s", { nparams := %d, body :=\n      %s })' % (
            self.fn.name, comment, self.fn.name, len(self.params), body)


def methods_of(cls):
    out = {}

    def walk(body):
        for n in body:
            if isinstance(n, ast.FunctionDef):
                out[n.name] = n
            elif isinstance(n, ast.If):
                walk(n.body)
                walk(n.orelse)
    walk(cls.body)
    return out


def emit(traits_dir):
    tree = ast.parse(open(os.path.join(traits_dir, "trait_list_object.py")).read())
    funcs = {n.name: n for n in tree.body if isinstance(n, ast.FunctionDef)}
    classes = {n.name: n for n in tree.body if isinstance(n, ast.ClassDef)}
    helper_sigs = {}
    for h in HELPERS:
        if h not in funcs:
            raise Unknown("helper %s not found" % h)
        helper_sigs[h] = [a.arg for a in funcs[h].args.args]
    parts = []
    parts.append(("listHelpers", "module-level helpers", [Fn(funcs[h], False, {}).emit() for h in HELPERS]))
    for cname, dname, doc in (("TraitList", "traitListProg", "the mutators `TraitList` defines"),
                              ("TraitListObject", "traitListObjectProg", "the mutators `TraitListObject` defines")):
        if cname not in classes:
            raise Unknown("class %s not found" % cname)
        ms = methods_of(classes[cname])
        parts.append((dname, doc, [Fn(ms[m], True, helper_sigs).emit() for m in MUTATORS if m in ms]))
    lines = ["/- GENERATED by harness/translate/pyl.py from the working tree - do not edit. -/",
             "import TraitsVerif.Model.PyL",
             "namespace TraitsVerif.Generated",
             "open TraitsVerif TraitsVerif.Model.PyL", ""]
    for dname, doc, rows in parts:
        lines += ["/-- %s -/" % doc, "def %s : List (String × Func) := [" % dname, ",\n".join(rows), "]", ""]
    lines.append("end TraitsVerif.Generated")
    return "\n".join(lines) + "\n"


if __name__ == "__main__":
    import sys
    print(emit(sys.argv[1] if len(sys.argv) > 1 else "/repo/traits"), end="")
