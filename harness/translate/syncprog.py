"""Translator: the SOURCE TEXT of the two synchronisation handlers of HasTraits
(`_sync_trait_modified`, `_sync_trait_items_modified`, traits/has_traits.py) ->
terms of the deep-embedded statement language of lean/TraitsVerif/Model/PyLSync.lean.

Read with `ast`.  Control flow is translated generically (sequence, if/else,
`for a, b in <dict view>` live or over `list(...)`, try/except-pass, try/finally,
return, continue, pass).  Local bindings of *pure* expressions
(`info = self.__sync_trait__`, `locked = info[""]`, `object = object()`,
`changed_list = getattr(self, name)`, `partner_list = getattr(object, object_name)`,
`index = event.index`, `name = name[:-6]`) are substituted into their uses, so a
local may be renamed or a binding moved without changing the output; every
remaining condition / effect must then be, textually after substitution, one of
the atoms of PyLSync.Cond / PyLSync.Act.  Anything else raises (fail closed): a
construct outside the vocabulary breaks the proof obligations of C20.

Emits Generated/SyncProg.lean; Props/C20.lean proves that the hand-written
handlers of Model/SyncLive.lean are the interpretation of these terms for every
state, every payload and every meaning of the nested `setattr` / list call.
"""
import ast
import copy
import os

TARGET = "SyncProg.lean"

BUILTINS = {"self", "new", "event", "isinstance", "slice", "len", "setattr", "getattr", "list", "None", "id"}


class Unknown(Exception):
    pass


class _Subst(ast.NodeTransformer):
    def __init__(self, env):
        self.env = env

    def visit_Name(self, node):
        v = self.env.get(node.id)
        if v is None:
            if node.id in BUILTINS:
                return node
            raise Unknown("unbound local %r" % node.id)
        return copy.deepcopy(v)


def norm(node, env):
    """Expression text after substituting the pure local bindings."""
    n = _Subst(env).visit(copy.deepcopy(node))
    return ast.unparse(ast.fix_missing_locations(n))


def sym(text):
    return ast.parse(text, mode="eval").body


INFO = "self.__sync_trait__"
LOCKED = INFO + "['']"
PARTNER = "PREF()"
PLIST = "getattr(%s, PNAME)" % PARTNER

# pure right-hand sides a local may be bound to (after substitution)
PURE = {
    INFO, LOCKED, PARTNER, PLIST, "getattr(self, NAME)", "event.index",
}

ATOM_COND = {
    "NAME in " + INFO: ".nameInInfo",
    "PNAME in %s._get_sync_trait_info()['']" % PARTNER: "(.lockedAtPartner true)",
    "NAME in %s._get_sync_trait_info()['']" % PARTNER: "(.lockedAtPartner false)",
    "%s is None" % PARTNER: ".partnerDead",
    "isinstance(INDEX, slice)": ".indexIsSlice",
    "%s is getattr(self, NAME)" % PLIST: ".sameListObject",
    "id(%s) in UPDATED" % PLIST: ".partnerListUpdated",
    "event.added": ".eventAdded",
    "INDEX.step is None": ".stepIsNone",
}

ATOM_ACT = {
    "%s[NAME] = None" % LOCKED: ".lock",
    "del %s[NAME]" % LOCKED: ".unlock",
    "setattr(%s, PNAME, new)" % PARTNER: ".setPartner",
    "%s[INDEX] = event.added" % PLIST: ".partnerSetSlice",
    "del %s[INDEX]" % PLIST: ".partnerDelSlice",
    "UPDATED.add(id(%s))" % PLIST: ".markUpdated",
}


def cond(node, env):
    if isinstance(node, ast.UnaryOp) and isinstance(node.op, ast.Not):
        return "(.not %s)" % cond(node.operand, env)
    if isinstance(node, ast.BoolOp):
        k = ".or" if isinstance(node.op, ast.Or) else ".and"
        out = cond(node.values[-1], env)
        for v in reversed(node.values[:-1]):
            out = "(%s %s %s)" % (k, cond(v, env), out)
        return out
    if isinstance(node, ast.Compare) and len(node.ops) == 1 and isinstance(node.ops[0], (ast.NotIn, ast.IsNot)):
        pos = ast.Compare(left=node.left, ops=[ast.In() if isinstance(node.ops[0], ast.NotIn) else ast.Is()],
                          comparators=node.comparators)
        return "(.not %s)" % cond(pos, env)
    t = norm(node, env)
    if t in ATOM_COND:
        return ATOM_COND[t]
    raise Unknown("condition %r" % t)


def seq(items):
    items = [i for i in items if i is not None]
    if not items:
        return ".skip"
    out = items[-1]
    for i in reversed(items[:-1]):
        out = "(.seq %s %s)" % (i, out)
    return out


def block(stmts, env):
    return seq([stmt(s, env) for s in stmts])


def stmt(s, env):
    if isinstance(s, ast.Expr) and isinstance(s.value, ast.Constant) and isinstance(s.value.value, str):
        return None                                           # docstring
    if isinstance(s, ast.Pass):
        return ".skip"
    if isinstance(s, ast.Return):
        if s.value is not None and not (isinstance(s.value, ast.Constant) and s.value.value is None):
            raise Unknown("return with a value")
        return ".ret"
    if isinstance(s, ast.Continue):
        return ".cont"
    if isinstance(s, ast.If):
        return "(.ite %s %s %s)" % (cond(s.test, env), block(s.body, dict(env)), block(s.orelse, dict(env)))
    if isinstance(s, ast.Try):
        if s.orelse:
            raise Unknown("try/else")
        body = block(s.body, dict(env))
        if s.handlers:
            if len(s.handlers) != 1:
                raise Unknown("several except clauses")
            h = s.handlers[0]
            if h.name is not None or len(h.body) != 1 or not isinstance(h.body[0], ast.Pass):
                raise Unknown("except clause that is not `pass`")
            if h.type is None:
                body = "(.tryPass true %s)" % body
            elif isinstance(h.type, ast.Name) and h.type.id == "TraitError":
                body = "(.tryPass false %s)" % body
            else:
                raise Unknown("except %s" % ast.unparse(h.type))
        if s.finalbody:
            body = "(.tryFinally %s %s)" % (body, block(s.finalbody, dict(env)))
        return body
    if isinstance(s, ast.For):
        if s.orelse:
            raise Unknown("for/else")
        it = norm(s.iter, env)
        view = "%s[NAME].values()" % INFO
        if it == view:
            live = "true"
        elif it == "list(%s)" % view:
            live = "false"
        else:
            raise Unknown("loop over %r" % it)
        tg = s.target
        if not (isinstance(tg, ast.Tuple) and len(tg.elts) == 2 and all(isinstance(e, ast.Name) for e in tg.elts)):
            raise Unknown("loop target %s" % ast.unparse(tg))
        inner = dict(env)
        inner[tg.elts[0].id] = sym("PREF")
        inner[tg.elts[1].id] = sym("PNAME")
        return "(.forPartners %s %s)" % (live, block(s.body, inner))
    if isinstance(s, ast.Assign) and len(s.targets) == 1 and isinstance(s.targets[0], ast.Name):
        tgt = s.targets[0].id
        rhs = norm(s.value, env)
        if rhs == "slice(INDEX, INDEX + len(event.removed))" and "INDEX" == ast.unparse(env.get(tgt, sym("None"))):
            return "(.act .indexToSlice)"
        if rhs == "EVNAME[:-6]" and tgt == "name":
            env[tgt] = sym("NAME")
            return None
        if rhs == "event.index":
            # the interpreter's local `index` starts as event.index (PyLSync.initIdx)
            if env.get("__index_bound__") is not None:
                raise Unknown("index bound twice")
            env["__index_bound__"] = sym("None")
            env[tgt] = sym("INDEX")
            return None
        if rhs == "{id(getattr(self, NAME))}":
            # a mutable local set of list identities: an effect, not a pure binding
            if tgt in env:
                raise Unknown("%s bound twice" % tgt)
            env[tgt] = sym("UPDATED")
            return "(.act .initUpdated)"
        if rhs in PURE:
            env[tgt] = sym(rhs)
            return None
        raise Unknown("binding %s = %r" % (tgt, rhs))
    if isinstance(s, (ast.Assign, ast.Delete, ast.Expr)):
        t = norm(s, env)
        if t in ATOM_ACT:
            return "(.act %s)" % ATOM_ACT[t]
        raise Unknown("statement %r" % t)
    raise Unknown("statement kind %s" % type(s).__name__)


def find_methods(tree, cls, names):
    for node in tree.body:
        if isinstance(node, ast.ClassDef) and node.name == cls:
            out = {}
            for f in node.body:
                if isinstance(f, ast.FunctionDef) and f.name in names:
                    if f.name in out:
                        raise Unknown("%s defined twice" % f.name)
                    out[f.name] = f
            return out
    raise Unknown("class %s not found" % cls)


def handler(f, params, name_sym):
    a = f.args
    got = [x.arg for x in a.args]
    if (got != params or a.vararg or a.kwarg or a.kwonlyargs or a.defaults or a.posonlyargs or f.decorator_list):
        raise Unknown("%s%s: unexpected signature" % (f.name, got))
    # `object` (the sender, = self) and `old` are not used by the handlers: leave them unbound, so a use fails
    env = {"name": sym(name_sym)}
    return block(f.body, env)


def emit(traits_dir):
    path = os.path.join(traits_dir, "has_traits.py")
    tree = ast.parse(open(path).read())
    ms = find_methods(tree, "HasTraits", ("_sync_trait_modified", "_sync_trait_items_modified"))
    if len(ms) != 2:
        raise Unknown("handlers not found: %s" % sorted(ms))
    mod = handler(ms["_sync_trait_modified"], ["self", "object", "name", "old", "new"], "NAME")
    itm = handler(ms["_sync_trait_items_modified"], ["self", "object", "name", "old", "event"], "EVNAME")
    return (
        "/- GENERATED by harness/translate/syncprog.py from traits/has_traits.py\n"
        "   (HasTraits._sync_trait_modified, HasTraits._sync_trait_items_modified). Do not edit. -/\n"
        "import TraitsVerif.Model.PyLSync\n"
        "namespace TraitsVerif.Generated.SyncProg\n"
        "open TraitsVerif.Model.PyLSync\n\n"
        "def syncTraitModified : Stmt :=\n  %s\n\n"
        "def syncTraitItemsModified : Stmt :=\n  %s\n\n"
        "end TraitsVerif.Generated.SyncProg\n" % (mod, itm))


if __name__ == "__main__":
    import sys
    print(emit(sys.argv[1] if len(sys.argv) > 1 else "/repo/traits"))
