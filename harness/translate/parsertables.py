"""Translator: the tables EMBEDDED in traits/observation/_generated_parser.py -> Generated/ParserTables.lean.

`_generated_parser.py` (what actually runs) carries its grammar as two Python
literals, DATA and MEMO: the serialized Lark rules (origin, expansion, order,
expand1 option), the terminal definitions (name, string or regex pattern,
priority), the %ignore list, start symbol, parser / lexer kind.  They are read
with `ast` (never executed) and written in the SAME shape as
Generated/Grammar.lean (a literal terminal as ("lit", text), a regex terminal as
("term", NAME), a rule as ("nt", name); alternatives grouped by rule in the
order given by `order`), so that `C15_parser_tables_are_grammar` can state: the
rules the generated parser was built from are the rules of _dsl_grammar.lark.
Anything unexpected (aliases, priorities, templates, keep_all_tokens, a literal
that is not filtered out, a regex terminal that is, flags) raises.
The LALR state table itself (DATA['parser']['parser']['states']) is not translated.
"""
import ast
import os

TARGET = "ParserTables.lean"


def _ev(n):
    if isinstance(n, ast.Constant):
        return n.value
    if isinstance(n, ast.Dict):
        return {_ev(k): _ev(v) for k, v in zip(n.keys, n.values)}
    if isinstance(n, ast.List):
        return [_ev(x) for x in n.elts]
    if isinstance(n, ast.Tuple):
        return tuple(_ev(x) for x in n.elts)
    if isinstance(n, ast.Call) and isinstance(n.func, ast.Name) and n.func.id == "Token" and not n.keywords:
        return ("Token",) + tuple(_ev(a) for a in n.args)
    if isinstance(n, ast.UnaryOp) and isinstance(n.op, ast.USub):
        return -_ev(n.operand)
    raise ValueError("unexpected node in DATA/MEMO: %s" % ast.dump(n)[:80])


def _s(x):
    out = ['"']
    for ch in x:
        if ch == "\\":
            out.append("\\\\")
        elif ch == '"':
            out.append('\\"')
        elif ch == "\n":
            out.append("\\n")
        elif ch == "\t":
            out.append("\\t")
        elif ch == "\r":
            out.append("\\r")
        elif 32 <= ord(ch) < 127:
            out.append(ch)
        else:
            out.append("\\x%02x" % ord(ch)) if ord(ch) < 256 else out.append(ch)
    return "".join(out) + '"'


def read_tables(path):
    tree = ast.parse(open(path, encoding="utf-8").read(), path)
    vals = {}
    for n in tree.body:
        if isinstance(n, ast.Assign) and len(n.targets) == 1 and isinstance(n.targets[0], ast.Name) \
                and n.targets[0].id in ("DATA", "MEMO"):
            if n.targets[0].id in vals:
                raise ValueError("DATA/MEMO assigned twice")
            vals[n.targets[0].id] = _ev(n.value)
    data, memo = vals["DATA"], vals["MEMO"]
    lexer_conf = data["parser"]["lexer_conf"]
    parser_conf = data["parser"]["parser_conf"]
    deref = lambda r: memo[r["@"]]      # noqa: E731
    terms = [deref(r) for r in lexer_conf["terminals"]]
    tdefs = {}
    for t in terms:
        if t["__type__"] != "TerminalDef" or t["priority"] != 0 or t["pattern"]["flags"]:
            raise ValueError("terminal %r: priority / flags" % t.get("name"))
        kind = t["pattern"]["__type__"]
        if kind not in ("PatternStr", "PatternRE") or t["name"] in tdefs:
            raise ValueError("terminal %r: pattern kind %s" % (t["name"], kind))
        tdefs[t["name"]] = (kind, t["pattern"]["value"])
    rules, order = {}, []
    for r in parser_conf["rules"]:
        r = deref(r)
        o = r["origin"]["name"]
        name = o[2] if isinstance(o, tuple) else o
        if isinstance(o, tuple) and o[1] != "RULE":
            raise ValueError("rule origin %r" % (o,))
        opt = r["options"]
        if r["alias"] is not None or opt["keep_all_tokens"] or opt["priority"] is not None \
                or opt["template_source"] is not None or tuple(opt["empty_indices"]) != ():
            raise ValueError("rule %s: alias / options %r" % (name, opt))
        if name not in rules:
            rules[name] = (bool(opt["expand1"]), [])
            order.append(name)
        if rules[name][0] != bool(opt["expand1"]) or r["order"] != len(rules[name][1]):
            raise ValueError("rule %s: expand1 / order" % name)
        alt = []
        for s in r["expansion"]:
            if s["__type__"] == "NonTerminal":
                n = s["name"]
                alt.append(("nt", n[2] if isinstance(n, tuple) else n))
            elif s["__type__"] == "Terminal":
                kind, value = tdefs[s["name"]]
                if kind == "PatternStr":
                    if not s["filter_out"]:
                        raise ValueError("literal %s kept in the tree" % s["name"])
                    alt.append(("lit", value))
                else:
                    if s["filter_out"]:
                        raise ValueError("regex terminal %s filtered out" % s["name"])
                    alt.append(("term", s["name"]))
            else:
                raise ValueError("symbol %r" % (s,))
        rules[name][1].append(alt)
    regex = [(n, v) for n, (k, v) in tdefs.items() if k == "PatternRE"]
    lits = [(n, v) for n, (k, v) in tdefs.items() if k == "PatternStr"]
    opts = data["options"]
    return ([(n, rules[n][0], rules[n][1]) for n in order], regex, lits, list(lexer_conf["ignore"]),
            list(parser_conf["start"]), str(parser_conf["parser_type"]), str(lexer_conf["lexer_type"]),
            bool(opts.get("keep_all_tokens")), bool(lexer_conf.get("use_bytes")), int(lexer_conf.get("g_regex_flags", 0)))


def emit(traits_dir):
    rules, regex, lits, ignore, start, ptype, ltype, keep, use_bytes, gflags = read_tables(
        os.path.join(traits_dir, "observation", "_generated_parser.py"))
    out = ["/- GENERATED by harness/translate/parsertables.py from the DATA / MEMO literals of"
           " traits/observation/_generated_parser.py - do not edit. -/",
           "namespace TraitsVerif.Generated", "",
           "/-- the rules the stand-alone parser was generated from, in the shape of `grammarRules` -/",
           "def parserRules : List (String × Bool × List (List (String × String))) := ["]
    rl = []
    for name, inline, alts in rules:
        al = ["[" + ", ".join("(%s, %s)" % (_s(k), _s(v)) for k, v in a) + "]" for a in alts]
        rl.append("  (%s, %s, [\n     %s])" % (_s(name), "true" if inline else "false", ",\n     ".join(al)))
    out.append(",\n".join(rl) + "]")
    out.append("")
    out.append("/-- regex terminals (name, pattern), all of priority 0 and without flags -/")
    out.append("def parserRegexTerminals : List (String × String) := [%s]" % ", ".join(
        "(%s, %s)" % (_s(n), _s(v)) for n, v in regex))
    out.append("/-- literal terminals (name given by Lark, text), all filtered out of the tree -/")
    out.append("def parserLiteralTerminals : List (String × String) := [%s]" % ", ".join(
        "(%s, %s)" % (_s(n), _s(v)) for n, v in lits))
    out.append("def parserIgnore : List String := [%s]" % ", ".join(_s(x) for x in ignore))
    out.append("def parserStart : List String := [%s]" % ", ".join(_s(x) for x in start))
    out.append("/-- (parser, lexer, keep_all_tokens, use_bytes, global regex flags) -/")
    out.append("def parserKind : String × String × Bool × Bool × Nat := (%s, %s, %s, %s, %d)" % (
        _s(ptype), _s(ltype), "true" if keep else "false", "true" if use_bytes else "false", gflags))
    out.append("")
    out.append("end TraitsVerif.Generated")
    return "\n".join(out) + "\n"


if __name__ == "__main__":
    import sys
    print(emit(sys.argv[1] if len(sys.argv) > 1 else "/repo/traits"), end="")
